// Engine C20 — generators: an exhaustive sweep of short call sequences over a small
// alphabet per front-end (after a fixed base), and random mostly-valid constructions
// with violations of every kind injected at random positions, followed by calls made
// after the Compile.
package main

import (
	"verif/harness/lib"
)

// ---------------------------------------------------------------- exhaustive sweep

type sweep struct {
	fe       string
	base     []Call
	alphabet []Call
	tail     []Call
}

var sweeps = []sweep{
	{
		fe: "graph",
		base: []Call{
			{Op: "addnode", Key: "a", Kind: "lambda"},
			{Op: "addnode", Key: "p", Kind: "pass"},
			{Op: "addedge", From: "start", To: "a"},
		},
		alphabet: []Call{
			{Op: "addedge", From: "a", To: "p"},
			{Op: "addedge", From: "p", To: "end"},
			{Op: "addedge", From: "a", To: "end"},
			{Op: "addedge", From: "p", To: "a"},
			{Op: "addbranch", From: "a", Ends: []string{"p", "end"}},
			{Op: "addnode", Key: "a", Kind: "lambda"},
			{Op: "addnode", Key: "q", Kind: "pass"},
			{Op: "compile"},
			{Op: "compile", Trigger: "all"},
			{Op: "addedge", From: "p", To: "q"},
		},
		tail: []Call{{Op: "compile"}, {Op: "addedge", From: "a", To: "end"}, {Op: "addnode", Key: "z", Kind: "lambda"}, {Op: "compile"}},
	},
	{
		fe: "chain",
		alphabet: []Call{
			{Op: "append", Kind: "lambda"},
			{Op: "append", Kind: "pass"},
			{Op: "parallel", Items: []Item{{Key: "o1", Kind: "lambda"}, {Key: "o2", Kind: "lambda"}}},
			{Op: "parallel", Items: []Item{{Key: "o1", Kind: "lambda"}}},
			{Op: "branch", Items: []Item{{Key: "b1", Kind: "lambda"}, {Key: "b2", Kind: "pass"}}},
			{Op: "compile"},
			{Op: "append", Kind: "lambda", NodeKey: "node_1"},
		},
		tail: []Call{{Op: "compile"}, {Op: "append", Kind: "lambda"}, {Op: "compile"}},
	},
	{
		fe: "workflow",
		base: []Call{
			{Op: "addnode", Key: "a", Kind: "lambda"},
			{Op: "addinput", To: "a", From: "start", In: "normal"},
		},
		alphabet: []Call{
			{Op: "addinput", To: "end", From: "a", In: "normal"},
			{Op: "addinput", To: "end", From: "a", In: "normal", Fields: []string{"A"}},
			{Op: "addnode", Key: "b", Kind: "lambda"},
			{Op: "addinput", To: "b", From: "a", In: "normal", Fields: []string{"A"}},
			{Op: "addinput", To: "a", From: "b", In: "dep"},
			{Op: "addbranch", From: "a", Ends: []string{"b", "end"}},
			{Op: "addbranch", From: "a", Ends: []string{"x", "end"}},
			{Op: "compile"},
			{Op: "addinput", To: "end", From: "b", In: "normal", Fields: []string{"B"}},
			{Op: "setstatic", To: "a", Fields: []string{"B"}},
		},
		tail: []Call{{Op: "compile"}, {Op: "addnode", Key: "z", Kind: "lambda"}, {Op: "addinput", To: "z", From: "a", In: "normal"}, {Op: "compile"}},
	},
}

func innerCall(id string, sub Call) Call { return Call{Op: "inner", ID: id, Sub: &sub} }

func init() {
	// builders compiled as nodes of another builder: an outer Graph over a valid (s1) and an invalid (s2)
	// inner Graph; the sequences repair / break / extend the inner graphs around the Compiles of the outer one
	sweeps = append(sweeps, sweep{
		fe: "nested",
		base: []Call{
			{Op: "sub", Key: "x", ID: "s1", Kind: "subok"},
			{Op: "sub", Key: "y", ID: "s2", Kind: "subbad"},
			{Op: "addedge", From: "start", To: "x"},
			{Op: "addedge", From: "x", To: "y"},
			{Op: "addedge", From: "y", To: "end"},
		},
		alphabet: []Call{
			{Op: "compile"},
			innerCall("s1", Call{Op: "addnode", Key: "t", Kind: "lambda"}),
			innerCall("s2", Call{Op: "addedge", From: "start", To: "s"}),
			innerCall("s2", Call{Op: "addedge", From: "s", To: "end"}),
			innerCall("s2", Call{Op: "addnode", Key: "s", Kind: "lambda"}),
		},
		tail: []Call{{Op: "compile"}, innerCall("s1", Call{Op: "addnode", Key: "u", Kind: "lambda"}),
			innerCall("s2", Call{Op: "addnode", Key: "u", Kind: "lambda"}), innerCall("s1", Call{Op: "compile"}), {Op: "compile"}},
	})
}

func sweepLen(tier string) int {
	if tier == "thorough" {
		return 4
	}
	return 3
}

func pow(a, l int) int {
	p := 1
	for i := 0; i < l; i++ {
		p *= a
	}
	return p
}

func cloneCall(c Call) Call {
	if c.Sub != nil {
		sub := cloneCall(*c.Sub)
		c.Sub = &sub
	}
	c.Ends = append([]string(nil), c.Ends...)
	c.Fields = append([]string(nil), c.Fields...)
	c.Items = append([]Item(nil), c.Items...)
	if len(c.Ends) == 0 {
		c.Ends = nil
	}
	if len(c.Fields) == 0 {
		c.Fields = nil
	}
	if len(c.Items) == 0 {
		c.Items = nil
	}
	return c
}

type slot struct{ s, k int }

var sweepTable = map[string][]slot{}

func sweepSize(s sweep, L int) int {
	t := 0
	for l := 1; l <= L; l++ {
		t += pow(len(s.alphabet), l)
	}
	return t
}

// table of the whole sweep of a tier: round robin over the front-ends, shorter sequences first
func sweepSlots(tier string) []slot {
	if t, ok := sweepTable[tier]; ok {
		return t
	}
	L := sweepLen(tier)
	var t []slot
	for k, more := 0, true; more; k++ {
		more = false
		for si, s := range sweeps {
			if k < sweepSize(s, L) {
				t = append(t, slot{si, k})
				more = true
			}
		}
	}
	sweepTable[tier] = t
	return t
}

// exhaustive returns sequence number idx of the sweep, or nil when the sweep is finished.
func exhaustive(tier string, idx int) *Case {
	t := sweepSlots(tier)
	if idx >= len(t) {
		return nil
	}
	s := sweeps[t[idx].s]
	kk := t[idx].k
	a := len(s.alphabet)
	for l := 1; ; l++ {
		if kk < pow(a, l) {
			c := &Case{FE: s.fe, Src: "exh"}
			for _, b := range s.base {
				c.Calls = append(c.Calls, cloneCall(b))
			}
			for j := 0; j < l; j++ {
				c.Calls = append(c.Calls, cloneCall(s.alphabet[kk%a]))
				kk /= a
			}
			// every swept sequence ends the same way: Compile, one more modification, Compile again
			for _, b := range s.tail {
				c.Calls = append(c.Calls, cloneCall(b))
			}
			normalize(c)
			return c
		}
		kk -= pow(a, l)
	}
}

// ---------------------------------------------------------------- random constructions

var nodePool = []string{"a", "b", "c", "d", "e", "f", "g"}

func withEnd(keys []string) []string {
	return append(append([]string(nil), keys...), "end")
}

func insertAt(calls []Call, pos int, c Call) []Call {
	if pos < 0 {
		pos = 0
	}
	if pos > len(calls) {
		pos = len(calls)
	}
	out := make([]Call, 0, len(calls)+1)
	out = append(out, calls[:pos]...)
	out = append(out, c)
	out = append(out, calls[pos:]...)
	return out
}

func randKind(r *lib.Rng) string {
	switch x := r.Intn(100); {
	case x < 3:
		// a pass-through node with an input key / an output key / both (Graph only, oracle-only: normalize turns
		// it into a plain pass-through node elsewhere)
		return []string{"passk", "passo", "passko"}[r.Intn(3)]
	case x < 25:
		return "pass"
	case x < 31:
		return "subok"
	case x < 33:
		return "subbad"
	}
	return "lambda"
}

func randOpts(r *lib.Rng, c *Call, fe string) {
	switch x := r.Intn(100); {
	case fe == "graph" && x < 35:
		c.Trigger = "all"
	case fe == "graph" && x < 50:
		c.Trigger = "any"
	case fe != "graph" && x < 6:
		c.Trigger = []string{"any", "all"}[r.Intn(2)]
	}
	if r.Chance(1, 9) {
		c.MaxSteps = []int{5, 5, 30, -1}[r.Intn(4)]
	}
}

func shuffle(r *lib.Rng, calls []Call) []Call {
	p := r.Perm(len(calls))
	out := make([]Call, len(calls))
	for i, j := range p {
		out[i] = calls[j]
	}
	return out
}

func nInject(r *lib.Rng) int {
	switch x := r.Intn(100); {
	case x < 35:
		return 0
	case x < 80:
		return 1
	}
	return 2
}

// position of the first compile call (len if none)
func firstCompile(calls []Call) int {
	for i, c := range calls {
		if c.Op == "compile" {
			return i
		}
	}
	return len(calls)
}

// a position for an injected call: mostly before the Compile, sometimes after it
func injPos(r *lib.Rng, calls []Call) int {
	fc := firstCompile(calls)
	if r.Chance(1, 6) {
		return r.Range(fc, len(calls))
	}
	return r.Range(0, fc)
}

// ---- Graph

func randGraph(r *lib.Rng, tier string) *Case {
	c := &Case{FE: "graph", Src: "rand", State: r.Chance(2, 5)}
	maxN := 5
	if tier == "thorough" {
		maxN = 7
	}
	n := r.Range(1, maxN)
	keys := append([]string(nil), nodePool[:n]...)
	var nodes, links []Call
	for _, k := range keys {
		kind := randKind(r)
		ns := kind == "lambda" && ((c.State && r.Chance(1, 4)) || r.Chance(1, 30))
		nodes = append(nodes, Call{Op: "addnode", Key: k, Kind: kind, NeedState: ns, HK: r.Intn(4)})
	}
	hasSucc := map[string]bool{}
	edge := func(a, b string) {
		for _, l := range links {
			if l.Op == "addedge" && l.From == a && l.To == b {
				return
			}
		}
		links = append(links, Call{Op: "addedge", From: a, To: b})
		hasSucc[a] = true
	}
	edge("start", keys[0])
	for i := 1; i < n; i++ {
		edge(keys[r.Intn(i)], keys[i])
		if r.Chance(1, 4) {
			edge(keys[r.Intn(i)], keys[i])
		}
		if r.Chance(1, 10) {
			edge("start", keys[i])
		}
	}
	if r.Chance(3, 10) {
		from := "start"
		fi := -1
		if r.Chance(9, 10) {
			fi = r.Intn(n)
			from = keys[fi]
		}
		var ends []string
		for j := fi + 1; j < n; j++ {
			if r.Chance(1, 2) {
				ends = append(ends, keys[j])
			}
		}
		if r.Chance(1, 2) || len(ends) < 2 {
			ends = append(ends, "end")
		}
		if len(ends) == 1 && fi+1 < n {
			ends = append(ends, keys[n-1])
		}
		if len(ends) != 1 || r.Chance(1, 20) {
			links = append(links, Call{Op: "addbranch", From: from, Ends: ends})
			hasSucc[from] = true
		}
	}
	edge(keys[n-1], "end")
	for _, k := range keys {
		if !hasSucc[k] && r.Chance(7, 10) {
			edge(k, "end")
		}
	}
	links = shuffle(r, links)
	c.Calls = append(nodes, links...)
	if r.Chance(3, 20) {
		c.Calls = shuffle(r, c.Calls)
	}
	comp := Call{Op: "compile"}
	randOpts(r, &comp, "graph")
	c.Calls = append(c.Calls, comp)

	// calls after the Compile
	for k := r.Intn(4); k > 0; k-- {
		switch r.Intn(6) {
		case 0:
			c.Calls = append(c.Calls, Call{Op: "addnode", Key: "z" + nodePool[r.Intn(3)], Kind: randKind(r)})
		case 1:
			c.Calls = append(c.Calls, Call{Op: "addedge", From: keys[r.Intn(n)], To: withEnd(keys)[r.Intn(n+1)]})
		case 2:
			c.Calls = append(c.Calls, Call{Op: "addbranch", From: keys[r.Intn(n)], Ends: []string{keys[r.Intn(n)], "end"}})
		case 3:
			c.Calls = append(c.Calls, comp)
		case 4:
			c2 := Call{Op: "compile"}
			randOpts(r, &c2, "graph")
			c.Calls = append(c.Calls, c2)
		default:
			c.Calls = append(c.Calls, Call{Op: "addedge", From: "start", To: keys[r.Intn(n)]})
		}
	}

	for k := nInject(r); k > 0; k-- {
		injectGraph(r, c, keys)
	}
	normalize(c)
	return c
}

var graphInj = []string{"reserved", "dup-node", "need-state", "nodekey-opt", "end-as-start", "start-as-end",
	"edge-unknown-start", "edge-unknown-end", "dup-edge", "branch-unknown-start", "branch-from-end", "branch-one",
	"branch-unknown-end", "cycle", "no-start", "no-end", "uninferable", "maxsteps-dag", "early-compile", "self-loop", "branch-empty",
	"multi-pred", "multi-pred", "multi-pred-cycle", "multi-pred-cycle", "keyed-pass", "keyed-pass"}

func injectGraph(r *lib.Rng, c *Case, keys []string) {
	kind := graphInj[r.Intn(len(graphInj))]
	c.Inj = append(c.Inj, kind)
	n := len(keys)
	any := func() string { return keys[r.Intn(n)] }
	// a start node of an edge / branch: START now and then (checks must not special-case it)
	src := func() string {
		if r.Chance(1, 4) {
			return "start"
		}
		return keys[r.Intn(n)]
	}
	ins := func(call Call) { c.Calls = insertAt(c.Calls, injPos(r, c.Calls), call) }
	switch kind {
	case "keyed-pass":
		// one or two pass-through nodes with input / output keys on a path from a node (or START) to END, the
		// edges declared in a random order: whether the node's own type is known when a neighbour asks for its
		// helper depends on that order (F-C20h: nil helper dereferenced in AddEdge / Compile)
		kinds := []string{"passk", "passo", "passko", "pass"}
		k1, k2 := "kp", "kq"
		calls := []Call{{Op: "addnode", Key: k1, Kind: kinds[r.Intn(3)]}}
		var links []Call
		from := src()
		if r.Chance(1, 2) {
			calls = append(calls, Call{Op: "addnode", Key: k2, Kind: kinds[r.Intn(4)]})
			links = []Call{{Op: "addedge", From: from, To: k1}, {Op: "addedge", From: k1, To: k2}, {Op: "addedge", From: k2, To: "end"}}
		} else {
			links = []Call{{Op: "addedge", From: from, To: k1}, {Op: "addedge", From: k1, To: []string{"end", any()}[r.Intn(2)]}}
		}
		if r.Chance(1, 4) {
			links = links[:len(links)-1] // nothing behind the last one: its type may stay unknown
		}
		links = shuffle(r, links)
		lo := 0
		for i, k := range c.Calls[:firstCompile(c.Calls)] {
			if k.Op == "addnode" {
				lo = i + 1
			}
		}
		p := r.Range(lo, firstCompile(c.Calls))
		all := append(calls, links...)
		for j := len(all) - 1; j >= 0; j-- {
			c.Calls = insertAt(c.Calls, p, all[j])
		}
	case "multi-pred", "multi-pred-cycle":
		// a node reached more than once from the same predecessor (an edge beside a branch, or two
		// branches), off or on a cycle, compiled in all-predecessor mode: the counters of
		// validateDAG have to treat every edge and every branch target alike
		from := src()
		x, y, b := "mx", "my", "mb"
		calls := []Call{{Op: "addnode", Key: x, Kind: "lambda"}, {Op: "addnode", Key: y, Kind: "lambda"}, {Op: "addnode", Key: b, Kind: "lambda"}}
		var links []Call
		switch r.Intn(3) {
		case 0:
			links = append(links, Call{Op: "addedge", From: from, To: x}, Call{Op: "addbranch", From: from, Ends: []string{x, y}})
		case 1:
			links = append(links, Call{Op: "addbranch", From: from, Ends: []string{x, y}}, Call{Op: "addbranch", From: from, Ends: []string{x, "end"}})
		default:
			links = append(links, Call{Op: "addedge", From: from, To: x}, Call{Op: "addbranch", From: from, Ends: []string{x, y}},
				Call{Op: "addbranch", From: from, Ends: []string{x, y, "end"}})
		}
		links = append(links, Call{Op: "addedge", From: x, To: b}, Call{Op: "addedge", From: b, To: "end"}, Call{Op: "addedge", From: y, To: "end"})
		if kind == "multi-pred-cycle" {
			switch r.Intn(3) {
			case 0:
				links = append(links, Call{Op: "addedge", From: b, To: x})
			case 1:
				links = append(links, Call{Op: "addbranch", From: b, Ends: []string{x, "end"}})
			default:
				links = append(links, Call{Op: "addedge", From: x, To: x})
			}
		}
		links = shuffle(r, links)
		lo := 0 // after the node declarations, so that [from] exists (unless the case was shuffled)
		for i, k := range c.Calls[:firstCompile(c.Calls)] {
			if k.Op == "addnode" {
				lo = i + 1
			}
		}
		p := r.Range(lo, firstCompile(c.Calls))
		all := append(calls, links...)
		for j := len(all) - 1; j >= 0; j-- {
			c.Calls = insertAt(c.Calls, p, all[j])
		}
		for i := range c.Calls {
			if c.Calls[i].Op == "compile" && !r.Chance(1, 5) {
				c.Calls[i].Trigger = "all"
				c.Calls[i].MaxSteps = 0
			}
		}
	case "reserved":
		ins(Call{Op: "addnode", Key: []string{"start", "end"}[r.Intn(2)], Kind: randKind(r)})
	case "dup-node":
		ins(Call{Op: "addnode", Key: any(), Kind: randKind(r)})
	case "need-state":
		c.State = false
		ins(Call{Op: "addnode", Key: "s1", Kind: "lambda", NeedState: true, HK: r.Intn(4)})
	case "nodekey-opt":
		ins(Call{Op: "addnode", Key: "k1", Kind: "lambda", NodeKeyOpt: true})
	case "end-as-start":
		ins(Call{Op: "addedge", From: "end", To: any()})
	case "start-as-end":
		ins(Call{Op: "addedge", From: any(), To: "start"})
	case "edge-unknown-start":
		ins(Call{Op: "addedge", From: "nope", To: any()})
	case "edge-unknown-end":
		ins(Call{Op: "addedge", From: src(), To: "nope"})
	case "dup-edge":
		var idx []int
		for i, k := range c.Calls {
			if k.Op == "addedge" {
				idx = append(idx, i)
			}
		}
		if len(idx) > 0 {
			i := idx[r.Intn(len(idx))]
			c.Calls = insertAt(c.Calls, r.Range(i+1, len(c.Calls)), cloneCall(c.Calls[i]))
		}
	case "branch-unknown-start":
		ins(Call{Op: "addbranch", From: "nope", Ends: []string{any(), "end"}})
	case "branch-from-end":
		ins(Call{Op: "addbranch", From: "end", Ends: []string{any(), "end"}})
	case "branch-one":
		ins(Call{Op: "addbranch", From: src(), Ends: []string{[]string{any(), "end"}[r.Intn(2)]}})
	case "branch-empty":
		ins(Call{Op: "addbranch", From: src(), Ends: nil})
	case "branch-unknown-end":
		ins(Call{Op: "addbranch", From: src(), Ends: []string{"nope", []string{"end", any()}[r.Intn(2)]}})
	case "cycle":
		if n >= 2 {
			j := r.Range(1, n-1)
			i := r.Intn(j)
			c.Calls = insertAt(c.Calls, r.Range(0, firstCompile(c.Calls)), Call{Op: "addedge", From: keys[j], To: keys[i]})
		}
		if r.Chance(2, 3) {
			for i := range c.Calls {
				if c.Calls[i].Op == "compile" {
					c.Calls[i].Trigger = "all"
					c.Calls[i].MaxSteps = 0
				}
			}
		}
	case "self-loop":
		ins(Call{Op: "addedge", From: keys[0], To: keys[0]})
	case "no-start":
		var out []Call
		for _, k := range c.Calls {
			if (k.Op == "addedge" || k.Op == "addbranch") && k.From == "start" {
				continue
			}
			out = append(out, k)
		}
		c.Calls = out
	case "no-end":
		var out []Call
		for _, k := range c.Calls {
			if k.Op == "addedge" && k.To == "end" {
				continue
			}
			if k.Op == "addbranch" {
				var e []string
				for _, x := range k.Ends {
					if x != "end" {
						e = append(e, x)
					}
				}
				if len(e) < 2 {
					continue
				}
				k.Ends = e
			}
			out = append(out, k)
		}
		c.Calls = out
	case "uninferable":
		p := r.Range(0, firstCompile(c.Calls))
		c.Calls = insertAt(c.Calls, p, Call{Op: "addedge", From: "u1", To: "u2"})
		c.Calls = insertAt(c.Calls, p, Call{Op: "addnode", Key: "u2", Kind: "pass"})
		c.Calls = insertAt(c.Calls, p, Call{Op: "addnode", Key: "u1", Kind: "pass"})
	case "maxsteps-dag":
		for i := range c.Calls {
			if c.Calls[i].Op == "compile" {
				c.Calls[i].Trigger = "all"
				c.Calls[i].MaxSteps = 5
			}
		}
	case "early-compile":
		k := Call{Op: "compile"}
		randOpts(r, &k, "graph")
		c.Calls = insertAt(c.Calls, r.Range(0, firstCompile(c.Calls)), k)
	}
}

// ---- Chain

func randItems(r *lib.Rng, prefix string, n int) []Item {
	var items []Item
	for i := 0; i < n; i++ {
		kind := "lambda"
		if r.Chance(1, 5) {
			kind = "pass"
		} else if r.Chance(1, 15) {
			kind = "subok"
		}
		items = append(items, Item{Key: prefix + string(rune('1'+i)), Kind: kind})
	}
	return items
}

func randChain(r *lib.Rng, tier string) *Case {
	c := &Case{FE: "chain", Src: "rand", State: r.Chance(1, 3)}
	maxSeg := 5
	if tier == "thorough" {
		maxSeg = 8
	}
	n := r.Range(1, maxSeg)
	multi := false
	for i := 0; i < n; i++ {
		x := r.Intn(100)
		if multi && !r.Chance(1, 10) {
			x = x % 65 // after a parallel / branch only a single node can follow
		}
		switch {
		case x < 45:
			ns := (c.State && r.Chance(1, 4)) || r.Chance(1, 30)
			k := Call{Op: "append", Kind: "lambda", NeedState: ns, HK: r.Intn(4)}
			if r.Chance(1, 12) {
				k.NodeKey = []string{"x", "y"}[r.Intn(2)]
			}
			c.Calls = append(c.Calls, k)
			multi = false
		case x < 60:
			c.Calls = append(c.Calls, Call{Op: "append", Kind: "pass"})
			multi = false
		case x < 65:
			c.Calls = append(c.Calls, Call{Op: "append", Kind: []string{"subok", "subok", "subok", "subok", "subbad"}[r.Intn(5)]})
			multi = false
		case x < 85:
			c.Calls = append(c.Calls, Call{Op: "parallel", Items: randItems(r, "o", r.Range(2, 3))})
			multi = true
		default:
			c.Calls = append(c.Calls, Call{Op: "branch", Items: randItems(r, "b", r.Range(2, 3))})
			multi = true
		}
	}
	comp := Call{Op: "compile"}
	randOpts(r, &comp, "chain")
	c.Calls = append(c.Calls, comp)
	for k := r.Intn(4); k > 0; k-- {
		switch r.Intn(5) {
		case 0, 1:
			c.Calls = append(c.Calls, Call{Op: "append", Kind: []string{"lambda", "pass"}[r.Intn(2)]})
		case 2:
			c.Calls = append(c.Calls, Call{Op: "parallel", Items: randItems(r, "o", 2)})
		case 3:
			c.Calls = append(c.Calls, comp)
		default:
			c2 := Call{Op: "compile"}
			randOpts(r, &c2, "chain")
			c.Calls = append(c.Calls, c2)
		}
	}
	for k := nInject(r); k > 0; k-- {
		injectChain(r, c)
	}
	normalize(c)
	return c
}

var chainInj = []string{"par-one", "par-dup-key", "par-after-multi", "br-empty", "br-one", "br-dup-key", "br-after-multi",
	"reserved-key", "dup-key", "dup-auto-key", "need-state", "empty-chain", "trigger-opt", "early-compile", "item-node-key", "item-reserved-key"}

func injectChain(r *lib.Rng, c *Case) {
	kind := chainInj[r.Intn(len(chainInj))]
	c.Inj = append(c.Inj, kind)
	ins := func(call Call) { c.Calls = insertAt(c.Calls, injPos(r, c.Calls), call) }
	switch kind {
	case "par-one":
		ins(Call{Op: "parallel", Items: randItems(r, "o", r.Intn(2))})
	case "par-dup-key":
		it := randItems(r, "o", 3)
		it[2].Key = it[r.Intn(2)].Key
		ins(Call{Op: "parallel", Items: it})
	case "par-after-multi", "br-after-multi":
		op := "parallel"
		if kind == "br-after-multi" {
			op = "branch"
		}
		for i, k := range c.Calls {
			if k.Op == "parallel" || k.Op == "branch" {
				c.Calls = insertAt(c.Calls, i+1, Call{Op: op, Items: randItems(r, "q", 2)})
				return
			}
		}
		ins(Call{Op: op, Items: randItems(r, "q", 2)})
	case "br-empty":
		ins(Call{Op: "branch"})
	case "br-one":
		ins(Call{Op: "branch", Items: randItems(r, "b", 1)})
	case "br-dup-key":
		it := randItems(r, "b", 3)
		it[2].Key = it[r.Intn(2)].Key
		ins(Call{Op: "branch", Items: it})
	case "reserved-key":
		ins(Call{Op: "append", Kind: "lambda", NodeKey: []string{"start", "end"}[r.Intn(2)]})
	case "dup-key":
		p := injPos(r, c.Calls)
		c.Calls = insertAt(c.Calls, p, Call{Op: "append", Kind: "lambda", NodeKey: "dup"})
		c.Calls = insertAt(c.Calls, r.Range(0, p), Call{Op: "append", Kind: "lambda", NodeKey: "dup"})
	case "dup-auto-key":
		ins(Call{Op: "append", Kind: "lambda", NodeKey: []string{"node_0", "node_1", "node_2"}[r.Intn(3)]})
	case "need-state":
		c.State = false
		ins(Call{Op: "append", Kind: "lambda", NeedState: true, HK: r.Intn(4)})
	case "empty-chain":
		var out []Call
		for _, k := range c.Calls {
			if k.Op == "compile" {
				out = append(out, k)
			}
		}
		c.Calls = out
	case "trigger-opt":
		for i := range c.Calls {
			if c.Calls[i].Op == "compile" {
				c.Calls[i].Trigger = []string{"any", "all"}[r.Intn(2)]
				break
			}
		}
	case "early-compile":
		c.Calls = insertAt(c.Calls, r.Range(0, firstCompile(c.Calls)), Call{Op: "compile"})
	case "item-node-key":
		// WithNodeKey inside a parallel / branch: a free key, or one that collides
		for i := range c.Calls {
			if (c.Calls[i].Op == "parallel" || c.Calls[i].Op == "branch") && len(c.Calls[i].Items) > 0 {
				c.Calls[i].Items[0].NodeKey = []string{"pk", "node_0", "node_1"}[r.Intn(3)]
				return
			}
		}
	case "item-reserved-key":
		for i := range c.Calls {
			if (c.Calls[i].Op == "parallel" || c.Calls[i].Op == "branch") && len(c.Calls[i].Items) > 0 {
				c.Calls[i].Items[0].NodeKey = []string{"start", "end"}[r.Intn(2)]
				return
			}
		}
	}
}

// ---- Workflow

func randWorkflow(r *lib.Rng, tier string) *Case {
	c := &Case{FE: "workflow", Src: "rand", State: r.Chance(1, 3)}
	maxN := 4
	if tier == "thorough" {
		maxN = 6
	}
	n := r.Range(1, maxN)
	keys := append([]string(nil), nodePool[:n]...)
	var groups [][]Call // one group per node: addnode first, then its inputs
	input := func(to string, avail []string) []Call {
		var out []Call
		in := "normal"
		if r.Chance(1, 8) {
			in = "nodirect"
		}
		if len(avail) >= 2 && r.Chance(7, 20) {
			p := r.Perm(len(avail))
			out = append(out, Call{Op: "addinput", To: to, From: avail[p[0]], In: in, Fields: []string{"A"}})
			out = append(out, Call{Op: "addinput", To: to, From: avail[p[1]], In: "normal", Fields: []string{"B"}})
		} else {
			from := avail[r.Intn(len(avail))]
			k := Call{Op: "addinput", To: to, From: from, In: in}
			if r.Chance(2, 5) {
				k.Fields = []string{[]string{"A", "B"}[r.Intn(2)]}
			}
			out = append(out, k)
			if len(avail) >= 2 && r.Chance(3, 20) {
				for _, d := range avail {
					if d != from {
						out = append(out, Call{Op: "addinput", To: to, From: d, In: "dep"})
						break
					}
				}
			}
		}
		return out
	}
	for i, k := range keys {
		kind := "lambda"
		switch x := r.Intn(100); {
		case x < 10:
			kind = "pass"
		case x < 15:
			kind = "subok"
		case x < 17:
			kind = "subbad"
		}
		ns := kind == "lambda" && ((c.State && r.Chance(1, 4)) || r.Chance(1, 30))
		g := []Call{{Op: "addnode", Key: k, Kind: kind, NeedState: ns, HK: r.Intn(4)}}
		avail := append([]string{"start"}, keys[:i]...)
		if i > 0 && r.Chance(3, 5) {
			avail = avail[1:]
		}
		g = append(g, input(k, avail)...)
		if r.Chance(1, 6) {
			g = append(g, Call{Op: "setstatic", To: k, Fields: []string{[]string{"B", "B", "A"}[r.Intn(3)]}})
		}
		groups = append(groups, g)
	}
	endAvail := []string{keys[n-1]}
	if n >= 2 && r.Chance(1, 2) {
		endAvail = append(endAvail, keys[r.Intn(n-1)])
	}
	groups = append(groups, input("end", endAvail))
	if r.Chance(1, 4) {
		fi := r.Intn(n)
		var ends []string
		for j := fi + 1; j < n; j++ {
			if r.Chance(2, 3) {
				ends = append(ends, keys[j])
			}
		}
		if len(ends) < 2 || r.Chance(1, 3) {
			ends = append(ends, "end") // END beside two or more node targets too: three-way branches
		}
		if len(ends) < 2 && fi+1 < n {
			ends = append(ends, keys[n-1])
		}
		if len(ends) != 1 || r.Chance(1, 20) {
			groups = append(groups, []Call{{Op: "addbranch", From: keys[fi], Ends: ends}})
		}
	}
	// interleave the groups, keeping the order inside a group
	for len(groups) > 0 {
		i := r.Intn(len(groups))
		if !r.Chance(1, 3) {
			i = 0
		}
		c.Calls = append(c.Calls, groups[i][0])
		groups[i] = groups[i][1:]
		if len(groups[i]) == 0 {
			groups = append(groups[:i], groups[i+1:]...)
		}
	}
	if r.Chance(1, 10) {
		c.Calls = shuffle(r, c.Calls)
	}
	comp := Call{Op: "compile"}
	randOpts(r, &comp, "workflow")
	c.Calls = append(c.Calls, comp)
	for k := r.Intn(4); k > 0; k-- {
		switch r.Intn(7) {
		case 6:
			c.Calls = append(c.Calls, Call{Op: "setstatic", To: withEnd(keys)[r.Intn(n+1)], Fields: []string{[]string{"A", "B"}[r.Intn(2)]}})
		case 0:
			c.Calls = append(c.Calls, Call{Op: "addnode", Key: "z" + nodePool[r.Intn(3)], Kind: "lambda"})
		case 1:
			c.Calls = append(c.Calls, Call{Op: "addinput", To: withEnd(keys)[r.Intn(n+1)], From: keys[r.Intn(n)], In: "dep"})
		case 2:
			c.Calls = append(c.Calls, Call{Op: "addbranch", From: keys[r.Intn(n)], Ends: []string{keys[r.Intn(n)], "end"}})
		case 3, 4:
			c.Calls = append(c.Calls, comp)
		default:
			c2 := Call{Op: "compile"}
			randOpts(r, &c2, "workflow")
			c.Calls = append(c.Calls, c2)
		}
	}
	for k := nInject(r); k > 0; k-- {
		injectWorkflow(r, c, keys)
	}
	normalize(c)
	return c
}

var wfInj = []string{"input-unknown-from", "dup-input", "whole-twice", "field-twice", "branch-unknown-end", "branch-one",
	"branch-unknown-start", "cycle", "no-end", "no-start", "addend-dup-target", "addend", "reserved", "dup-node", "need-state",
	"trigger-opt", "maxsteps", "early-compile", "input-from-end", "input-to-start-key", "two-failing-nodes",
	"static-after-compile", "static-conflict", "static-on-end", "whole-after-field", "dup-data-edge", "dup-ctrl-edge", "field-dup-in-call",
	"multi-pred", "multi-pred", "multi-pred-cycle"}

func injectWorkflow(r *lib.Rng, c *Case, keys []string) {
	kind := wfInj[r.Intn(len(wfInj))]
	c.Inj = append(c.Inj, kind)
	n := len(keys)
	any := func() string { return keys[r.Intn(n)] }
	ins := func(call Call) { c.Calls = insertAt(c.Calls, injPos(r, c.Calls), call) }
	// an input call has to come after the addnode of its target to have a handle
	insInput := func(call Call) {
		lo := 0
		for i, k := range c.Calls {
			if k.Op == "addnode" && k.Key == call.To {
				lo = i + 1
				break
			}
		}
		fc := firstCompile(c.Calls)
		hi := fc
		if r.Chance(1, 6) {
			hi = len(c.Calls)
		}
		if hi < lo {
			hi = lo
		}
		c.Calls = insertAt(c.Calls, r.Range(lo, hi), call)
	}
	switch kind {
	case "input-unknown-from":
		insInput(Call{Op: "addinput", To: withEnd(keys)[r.Intn(n+1)], From: "nope", In: []string{"normal", "dep", "nodirect"}[r.Intn(3)], Fields: []string{"B"}})
	case "input-from-end":
		insInput(Call{Op: "addinput", To: any(), From: "end", In: "dep"})
	case "input-to-start-key":
		ins(Call{Op: "addnode", Key: "start", Kind: "lambda"})
	case "dup-input":
		var idx []int
		for i, k := range c.Calls {
			if k.Op == "addinput" {
				idx = append(idx, i)
			}
		}
		if len(idx) > 0 {
			i := idx[r.Intn(len(idx))]
			d := cloneCall(c.Calls[i])
			if r.Chance(1, 2) {
				d.In = "dep"
			}
			c.Calls = insertAt(c.Calls, r.Range(i+1, len(c.Calls)), d)
		}
	case "whole-twice":
		t := withEnd(keys)[r.Intn(n+1)]
		insInput(Call{Op: "addinput", To: t, From: any(), In: "normal"})
		insInput(Call{Op: "addinput", To: t, From: "start", In: "normal"})
	case "field-twice":
		t := withEnd(keys)[r.Intn(n+1)]
		insInput(Call{Op: "addinput", To: t, From: any(), In: "normal", Fields: []string{"A"}})
		insInput(Call{Op: "addinput", To: t, From: "start", In: "normal", Fields: []string{"A"}})
	case "whole-after-field":
		// a fresh node, so that the overlap is the only thing wrong with it: one field, then the whole input (or the reverse)
		calls := []Call{{Op: "addnode", Key: "ov", Kind: "lambda"},
			{Op: "addinput", To: "ov", From: "start", In: []string{"normal", "nodirect"}[r.Intn(2)], Fields: []string{[]string{"A", "B"}[r.Intn(2)]}},
			{Op: "addinput", To: "ov", From: any(), In: "normal"}}
		if r.Chance(1, 3) {
			calls[1], calls[2] = calls[2], calls[1]
		}
		p := r.Range(0, firstCompile(c.Calls))
		for j := len(calls) - 1; j >= 0; j-- {
			c.Calls = insertAt(c.Calls, p, calls[j])
		}
	case "dup-data-edge", "dup-ctrl-edge":
		// a fresh node that declares the same predecessor twice, with mapping targets that do not overlap
		from := []string{"start", any()}[r.Intn(2)]
		// every ordered pair of declaration kinds: the duplicate has to be found whichever of the two
		// edge lists the first declaration went into (now and then the well-formed pair data-only + control-only)
		pairs := [][2]string{{"nodirect", "nodirect"}, {"nodirect", "normal"}, {"normal", "nodirect"}}
		if kind == "dup-ctrl-edge" {
			pairs = [][2]string{{"normal", "dep"}, {"dep", "normal"}, {"dep", "dep"}, {"normal", "normal"}}
		}
		if r.Chance(1, 8) {
			pairs = [][2]string{{"nodirect", "dep"}, {"dep", "nodirect"}}
		}
		pr := pairs[r.Intn(len(pairs))]
		k1, k2 := pr[0], pr[1]
		fld := func(k, f string) []string {
			if k == "dep" {
				return nil
			}
			return []string{f}
		}
		calls := []Call{{Op: "addnode", Key: "dd", Kind: "lambda"},
			{Op: "addinput", To: "dd", From: from, In: k1, Fields: fld(k1, "A")},
			{Op: "addinput", To: "dd", From: from, In: k2, Fields: fld(k2, "B")}}
		if k1 == "nodirect" && k2 == "nodirect" {
			calls = append(calls, Call{Op: "addinput", To: "dd", From: any(), In: "dep"})
		}
		p := r.Range(0, firstCompile(c.Calls))
		for j := len(calls) - 1; j >= 0; j-- {
			c.Calls = insertAt(c.Calls, p, calls[j])
		}
	case "multi-pred", "multi-pred-cycle":
		// a node that depends on a predecessor AND is a target of that predecessor's branch(es) (the
		// usual Workflow pattern), off or on a dependency cycle
		from := any()
		x, y, b := "mx", "my", "mb"
		calls := []Call{{Op: "addnode", Key: x, Kind: "lambda"}, {Op: "addnode", Key: y, Kind: "lambda"}, {Op: "addnode", Key: b, Kind: "lambda"},
			{Op: "addinput", To: x, From: from, In: []string{"normal", "nodirect", "normal"}[r.Intn(3)], Fields: []string{"A"}},
			{Op: "addinput", To: y, From: from, In: "nodirect"},
			{Op: "addbranch", From: from, Ends: []string{x, y}},
			{Op: "addinput", To: b, From: x, In: "normal"}}
		if r.Chance(1, 2) {
			calls = append(calls, Call{Op: "addbranch", From: from, Ends: []string{x, "end"}})
		}
		if kind == "multi-pred-cycle" {
			calls = append(calls, Call{Op: "addinput", To: x, From: b, In: "dep"})
		}
		lo := 0
		for i, k := range c.Calls[:firstCompile(c.Calls)] {
			if k.Op == "addnode" && k.Key == from {
				lo = i + 1
			}
		}
		p := r.Range(lo, firstCompile(c.Calls))
		for j := len(calls) - 1; j >= 0; j-- {
			c.Calls = insertAt(c.Calls, p, calls[j])
		}
	case "field-dup-in-call":
		insInput(Call{Op: "addinput", To: withEnd(keys)[r.Intn(n+1)], From: any(), In: "normal", Fields: []string{"A", "A"}})
	case "branch-unknown-end":
		ins(Call{Op: "addbranch", From: []string{any(), any(), "start"}[r.Intn(3)], Ends: []string{"nope", []string{"end", keys[0]}[r.Intn(2)]}})
	case "branch-one":
		ins(Call{Op: "addbranch", From: []string{any(), any(), "start"}[r.Intn(3)], Ends: []string{[]string{"end", any()}[r.Intn(2)]}})
	case "branch-unknown-start":
		ins(Call{Op: "addbranch", From: "nope", Ends: []string{any(), "end"}})
	case "cycle":
		if n >= 2 {
			j := r.Range(1, n-1)
			i := r.Intn(j)
			insInput(Call{Op: "addinput", To: keys[i], From: keys[j], In: "dep"})
			insInput(Call{Op: "addinput", To: keys[j], From: keys[i], In: "dep"})
		} else {
			insInput(Call{Op: "addinput", To: keys[0], From: keys[0], In: "dep"})
		}
	case "no-end":
		var out []Call
		for _, k := range c.Calls {
			if k.Op == "addinput" && k.To == "end" {
				continue
			}
			out = append(out, k)
		}
		c.Calls = out
	case "no-start":
		var out []Call
		for _, k := range c.Calls {
			if k.Op == "addinput" && k.From == "start" {
				if n >= 2 && k.To != keys[n-1] {
					k.From = keys[n-1]
				} else {
					continue
				}
			}
			out = append(out, k)
		}
		c.Calls = out
	case "addend-dup-target":
		ins(Call{Op: "addend", From: any(), Fields: []string{"A"}})
		ins(Call{Op: "addend", From: "start", Fields: []string{"A"}})
	case "addend":
		ins(Call{Op: "addend", From: []string{any(), "nope", "start"}[r.Intn(3)], Fields: []string{"B"}})
	case "reserved":
		ins(Call{Op: "addnode", Key: []string{"start", "end"}[r.Intn(2)], Kind: "lambda"})
	case "dup-node":
		ins(Call{Op: "addnode", Key: any(), Kind: "lambda"})
	case "need-state":
		c.State = false
		ins(Call{Op: "addnode", Key: "s1", Kind: "lambda", NeedState: true, HK: r.Intn(4)})
	case "trigger-opt":
		for i := range c.Calls {
			if c.Calls[i].Op == "compile" {
				c.Calls[i].Trigger = []string{"any", "all"}[r.Intn(2)]
				break
			}
		}
	case "maxsteps":
		for i := range c.Calls {
			if c.Calls[i].Op == "compile" {
				c.Calls[i].MaxSteps = 5
				break
			}
		}
	case "early-compile":
		k := Call{Op: "compile"}
		randOpts(r, &k, "workflow")
		c.Calls = insertAt(c.Calls, r.Range(0, firstCompile(c.Calls)), k)
	case "static-after-compile":
		comp := Call{Op: "compile"}
		for _, k := range c.Calls {
			if k.Op == "compile" {
				comp = k
				break
			}
		}
		c.Calls = append(c.Calls, Call{Op: "setstatic", To: any(), Fields: []string{"B"}}, comp)
		if r.Chance(1, 2) {
			c.Calls = append(c.Calls, comp)
		}
	case "static-conflict":
		t := any()
		insInput(Call{Op: "addinput", To: t, From: "start", In: "normal", Fields: []string{"A"}})
		insInput(Call{Op: "setstatic", To: t, Fields: []string{"A"}})
	case "static-on-end":
		insInput(Call{Op: "setstatic", To: "end", Fields: []string{[]string{"A", "B"}[r.Intn(2)]}})
	case "two-failing-nodes":
		// two nodes with deferred errors of different classes: which one Compile reports
		// depends on Go's map order
		insInput(Call{Op: "addinput", To: keys[0], From: "nope", In: "dep"})
		insInput(Call{Op: "addinput", To: "end", From: keys[n-1], In: "dep"})
		insInput(Call{Op: "addinput", To: "end", From: keys[n-1], In: "dep"})
	}
}

// ---- nested: an outer Graph whose sub-graph nodes are Graph values the case goes on calling

func randInnerCall(r *lib.Rng, id string) Call {
	// mostly calls that make sense on a graph that has the node "s" (and perhaps "t"): the repairs of an
	// invalid sub graph, extensions, duplicates; now and then an unknown node
	nodes := []string{"s", "s", "t", "u"}
	switch x := r.Intn(100); {
	case x < 25:
		return innerCall(id, Call{Op: "addnode", Key: []string{"t", "t", "u", "s"}[r.Intn(4)], Kind: []string{"lambda", "lambda", "pass"}[r.Intn(3)]})
	case x < 45:
		return innerCall(id, Call{Op: "addedge", From: "start", To: nodes[r.Intn(len(nodes))]})
	case x < 65:
		return innerCall(id, Call{Op: "addedge", From: nodes[r.Intn(len(nodes))], To: "end"})
	case x < 75:
		return innerCall(id, Call{Op: "addedge", From: nodes[r.Intn(len(nodes))], To: nodes[r.Intn(len(nodes))]})
	case x < 85:
		return innerCall(id, Call{Op: "addbranch", From: []string{"start", "s", "t"}[r.Intn(3)], Ends: []string{nodes[r.Intn(len(nodes))], "end"}})
	}
	k := Call{Op: "compile"}
	randOpts(r, &k, "graph")
	return innerCall(id, k)
}

// a call on an inner Chain / Workflow
func randInnerCallFam(r *lib.Rng, id, fam string) Call {
	switch fam {
	case "chain":
		switch x := r.Intn(100); {
		case x < 55:
			return innerCall(id, Call{Op: "append", Kind: []string{"lambda", "lambda", "pass"}[r.Intn(3)]})
		case x < 70:
			return innerCall(id, Call{Op: "parallel", Items: randItems(r, "o", r.Range(1, 2))})
		case x < 80:
			return innerCall(id, Call{Op: "branch", Items: randItems(r, "b", 2)})
		}
		return innerCall(id, Call{Op: "compile"})
	case "workflow":
		switch x := r.Intn(100); {
		case x < 20:
			return innerCall(id, Call{Op: "addnode", Key: []string{"t", "u", "s"}[r.Intn(3)], Kind: "lambda"})
		case x < 40:
			return innerCall(id, Call{Op: "addinput", To: []string{"t", "u"}[r.Intn(2)], From: []string{"s", "start", "t"}[r.Intn(3)], In: []string{"normal", "dep", "nodirect"}[r.Intn(3)], Fields: []string{"A"}})
		case x < 65:
			return innerCall(id, Call{Op: "addinput", To: "end", From: []string{"s", "t", "u"}[r.Intn(3)], In: []string{"normal", "dep"}[r.Intn(2)], Fields: []string{[]string{"A", "B"}[r.Intn(2)]}})
		case x < 75:
			return innerCall(id, Call{Op: "setstatic", To: []string{"s", "t", "end"}[r.Intn(3)], Fields: []string{"B"}})
		case x < 85:
			return innerCall(id, Call{Op: "addbranch", From: "s", Ends: []string{"t", "end"}})
		}
		return innerCall(id, Call{Op: "compile"})
	}
	return randInnerCall(r, id)
}

func randNested(r *lib.Rng, tier string) *Case {
	c := &Case{FE: "nested", Src: "rand", State: r.Chance(1, 5)}
	// the inner builders of a case are Graphs (replayed on the model), Chains or Workflows (judged by the oracles)
	fam := []string{"graph", "graph", "graph", "chain", "workflow"}[r.Intn(5)]
	kinds := map[string][]string{"graph": {"subok", "subok", "subok", "subok", "subbad"},
		"chain": {"subchain", "subchain", "subchain", "subchainbad"}, "workflow": {"subwf", "subwf", "subwf", "subwfbad"}}[fam]
	n := r.Range(2, 4)
	keys := append([]string(nil), nodePool[:n]...)
	ids := []string{"s1", "s2", "s3"}
	var used []string
	nSub := 0
	for i, k := range keys {
		if (r.Chance(1, 2) && nSub < 3) || (i == n-1 && nSub == 0) {
			id := ids[nSub]
			if nSub > 0 && r.Chance(1, 6) {
				id = used[r.Intn(len(used))] // the same inner builder under two keys
			} else {
				nSub++
				used = append(used, id)
			}
			sc := Call{Op: "sub", Key: k, ID: id, Kind: kinds[r.Intn(len(kinds))]}
			if r.Chance(1, 4) {
				randOpts(r, &sc, "graph") // the node's own compile options: what the child is compiled with
			}
			c.Calls = append(c.Calls, sc)
		} else {
			c.Calls = append(c.Calls, Call{Op: "addnode", Key: k, Kind: []string{"lambda", "lambda", "pass"}[r.Intn(3)]})
		}
	}
	c.Calls = shuffle(r, c.Calls)
	var links []Call
	links = append(links, Call{Op: "addedge", From: "start", To: keys[0]})
	for i := 1; i < n; i++ {
		links = append(links, Call{Op: "addedge", From: keys[r.Intn(i)], To: keys[i]})
	}
	links = append(links, Call{Op: "addedge", From: keys[n-1], To: "end"})
	if r.Chance(1, 4) {
		links = append(links, Call{Op: "addbranch", From: keys[0], Ends: []string{keys[n-1], "end"}})
	}
	if r.Chance(1, 8) {
		links = append(links, Call{Op: "addedge", From: keys[n-1], To: keys[0]}) // a cycle: only an all-predecessor Compile minds
	}
	c.Calls = append(c.Calls, shuffle(r, links)...)
	// calls on the inner builders before the Compile (repairs of an invalid one, duplicates, extensions)
	for k := r.Intn(4); k > 0; k-- {
		c.Calls = insertAt(c.Calls, r.Range(0, len(c.Calls)), randInnerCallFam(r, used[r.Intn(len(used))], fam))
	}
	comp := Call{Op: "compile"}
	randOpts(r, &comp, "graph")
	c.Calls = append(c.Calls, comp)
	// after the Compile: the inner builders again, the outer graph, further Compiles
	for k := r.Range(1, 5); k > 0; k-- {
		switch x := r.Intn(10); {
		case x < 5:
			c.Calls = append(c.Calls, randInnerCallFam(r, used[r.Intn(len(used))], fam))
		case x < 7:
			c.Calls = append(c.Calls, comp)
		case x < 8:
			c2 := Call{Op: "compile"}
			randOpts(r, &c2, "graph")
			c.Calls = append(c.Calls, c2)
		case x < 9:
			c.Calls = append(c.Calls, Call{Op: "addedge", From: keys[r.Intn(n)], To: withEnd(keys)[r.Intn(n+1)]})
		default:
			c.Calls = append(c.Calls, Call{Op: "sub", Key: "z" + nodePool[r.Intn(2)], ID: used[r.Intn(len(used))], Kind: kinds[0]})
		}
	}
	if r.Chance(1, 3) {
		injectGraph(r, c, keys)
	}
	normalize(c)
	return c
}

func (engine) Generate(r *lib.Rng, tier string, i int) any {
	// two slots out of three go to the exhaustive sweep while it lasts
	if i%3 != 2 {
		if c := exhaustive(tier, i/3*2+i%3); c != nil {
			return c
		}
	}
	switch r.Intn(12) {
	case 0, 1, 2, 3:
		return randGraph(r, tier)
	case 4, 5, 6:
		return randChain(r, tier)
	case 10, 11:
		return randNested(r, tier)
	}
	return randWorkflow(r, tier)
}
