//go:build !verif_c20wb

// Engine C20 — built without the white-box group of this property (compose/verif_c20.go, build tags verif &&
// verif_c20wb: the read-only snapshot of a builder's state): no state is observed; the correspondence compares the
// outcome of every call only, and the Workflow cases (whose Compile order is read off the state) are judged by the
// Go-side oracles alone.
package main

import "github.com/cloudwego/eino/compose"

const haveState = false

func snapOfGraph[T any](g *compose.Graph[T, T]) []string { return nil }

func (f *graphFE) snapshot() []string             { return nil }
func (f *graphFE) pendingInputs() map[string]int  { return nil }
func (f *graphFE) pendingStatics() map[string]int { return nil }
func (f *chainFE) snapshot() []string             { return nil }
func (f *chainFE) pendingInputs() map[string]int  { return nil }
func (f *chainFE) pendingStatics() map[string]int { return nil }
func (f *wfFE) snapshot() []string                { return nil }
func (f *wfFE) pendingInputs() map[string]int     { return nil }
func (f *wfFE) pendingStatics() map[string]int    { return nil }
