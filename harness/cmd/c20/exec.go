// Engine C20 — execution of one construction sequence on the real builders
// (compose.Graph / compose.Chain / compose.Workflow) through the public API only.
package main

import (
	"context"
	"encoding/json"
	"fmt"
	"sort"
	"strings"
	"time"

	"github.com/cloudwego/eino/compose"
	"github.com/cloudwego/eino/schema"

	"verif/harness/lib"
)

// ---------------------------------------------------------------- case format

// Item is one node of a chain Parallel / ChainBranch.
type Item struct {
	Key     string `json:"key"`          // output key (parallel) or branch key
	Kind    string `json:"kind"`         // lambda | pass | subok | subbad
	NodeKey string `json:"nk,omitempty"` // WithNodeKey, "" = none
}

// Call is one public API call. Op is interpreted per front-end:
//
//	graph:    addnode{Key,Kind,NeedState,NodeKeyOpt} addedge{From,To} addbranch{From,Ends} compile{Trigger,MaxSteps}
//	chain:    append{Kind,NodeKey,NeedState} parallel{Items} branch{Items} compile{…}
//	workflow: addnode{Key,Kind,NeedState} addinput{To,From,In,Fields} addbranch{From,Ends} addend{From,Fields}
//	          setstatic{To,Fields[0]} compile{…}
//	nested:   the graph calls on the outer Graph, sub{Key,ID,Kind,Trigger,MaxSteps} = outer.AddGraphNode(Key, inner[ID], WithGraphCompileOptions(…)) (inner[ID] is
//	          created on first use: subok / subbad), inner{ID,Sub} = the graph call Sub on inner[ID]
type Call struct {
	Op         string   `json:"op"`
	Key        string   `json:"key,omitempty"`
	Kind       string   `json:"kind,omitempty"`
	NeedState  bool     `json:"ns,omitempty"`
	HK         int      `json:"hk,omitempty"` // which state handler NeedState stands for: 0 pre, 1 post, 2 stream pre, 3 stream post
	NodeKeyOpt bool     `json:"nko,omitempty"`
	NodeKey    string   `json:"nk,omitempty"`
	From       string   `json:"from,omitempty"`
	To         string   `json:"to,omitempty"`
	Ends       []string `json:"ends,omitempty"`
	Items      []Item   `json:"items,omitempty"`
	In         string   `json:"in,omitempty"` // normal | nodirect | dep
	Fields     []string `json:"fields,omitempty"`
	Trigger    string   `json:"trig,omitempty"` // "" | any | all
	MaxSteps   int      `json:"max,omitempty"`
	ID         string   `json:"id,omitempty"`  // nested: name of the inner graph value (sub, inner)
	Sub        *Call    `json:"sub,omitempty"` // nested: the call made on the inner graph (inner)
}

type Case struct {
	FE    string   `json:"fe"` // graph | chain | workflow
	State bool     `json:"state,omitempty"`
	Calls []Call   `json:"calls"`
	Inj   []string `json:"inj,omitempty"` // violation kinds the generator injected (distribution only)
	Src   string   `json:"src,omitempty"` // exh | rand | hand
}

// CallObs is what one call returned.
type CallObs struct {
	K     string   `json:"k"` // ok | err | panic
	Cls   string   `json:"cls,omitempty"`
	Msg   string   `json:"msg,omitempty"`
	State []string `json:"state,omitempty"` // canonical snapshot of the builder after the call (snap.go)
	Ord   []string `json:"ord,omitempty"`   // Workflow Compile: the nodes whose deferred inputs it consumed
	SOrd  []string `json:"sord,omitempty"`  // Workflow Compile: the nodes whose static values it applied
	Gone  []uint64 `json:"-"`               // hashed State of the previous call minus hashed State (multiset)
	New   []uint64 `json:"-"`               // hashed State minus hashed State of the previous call
}

// hashState: the entries of a snapshot as sorted 40-bit hashes (Corr/C20.v: hs, hstate)
func hashState(st []string) []uint64 {
	out := make([]uint64, len(st))
	for i, s := range st {
		h := uint64(7)
		for j := 0; j < len(s); j++ {
			h = (h*131 + uint64(s[j])) & (1<<40 - 1)
		}
		out[i] = h
	}
	sort.Slice(out, func(a, b int) bool { return out[a] < out[b] })
	return out
}

// msDiff: multiset differences a\b and b\a of two sorted lists
func msDiff(a, b []uint64) (gone, added []uint64) {
	i, j := 0, 0
	for i < len(a) && j < len(b) {
		switch {
		case a[i] == b[j]:
			i++
			j++
		case a[i] < b[j]:
			gone = append(gone, a[i])
			i++
		default:
			added = append(added, b[j])
			j++
		}
	}
	gone = append(gone, a[i:]...)
	added = append(added, b[j:]...)
	return
}

// ---------------------------------------------------------------- value universes

// M is the node type of the Graph and Chain cases, WS of the Workflow cases
// (a struct, so that field mappings need the converter of F-C20b).
type M = map[string]any
type WS struct {
	A any
	B any
}
type st struct{ n int }

func fM(k string, in M) M {
	keys := make([]string, 0, len(in))
	for x := range in {
		keys = append(keys, x)
	}
	sort.Strings(keys)
	var b strings.Builder
	for _, x := range keys {
		fmt.Fprintf(&b, "%s=%v;", x, in[x])
	}
	return M{k: b.String()}
}
func sizeM(in M) int { return len(in) }
func fWS(k string, in WS) WS {
	return WS{A: k, B: fmt.Sprintf("%v|%v", in.A, in.B)}
}
func sizeWS(in WS) int {
	n := 0
	if in.A != nil {
		n++
	}
	if in.B != nil {
		n++
	}
	return n
}

var inputsM = []M{{}, {"x": 1}, {"x": 1, "y": "z"}}
var inputsWS = []WS{{}, {A: 1}, {A: 1, B: "b"}}

// pool keeps the builder values one execution of a case created (lambdas, sub graphs, branches, Parallel
// and ChainBranch objects, mapping and option slices), keyed by call (and item); an execution that is
// handed the pool of an earlier one builds the same construction again FROM THE SAME VALUES, the way a
// program does that declares its lambdas and branches once and builds the graph in a function.
type pool struct{ m map[string]any }

func newPool() *pool { return &pool{m: map[string]any{}} }

func pooled[T any](b *feBase, what string, mk func() T) T {
	if b == nil || b.pool == nil {
		return mk()
	}
	key := fmt.Sprintf("%d/%s", b.at, what)
	if v, ok := b.pool.m[key]; ok {
		return v.(T)
	}
	v := mk()
	b.pool.m[key] = v
	return v
}

// feBase: what every front-end knows about the execution it is part of
type feBase struct {
	pool *pool
	at   int // index of the call being applied
}

func (b *feBase) base() *feBase { return b }

func mkLam[T any](k string, f func(string, T) T) *compose.Lambda {
	return compose.InvokableLambda(func(ctx context.Context, in T) (T, error) { return f(k, in), nil })
}
func mkPre[T any]() compose.GraphAddNodeOpt {
	return compose.WithStatePreHandler(func(ctx context.Context, in T, s *st) (T, error) { return in, nil })
}
func mkSub[T any](ok bool, f func(string, T) T) compose.AnyGraph {
	g := compose.NewGraph[T, T]()
	_ = g.AddLambdaNode("s", mkLam("s", f))
	if ok {
		_ = g.AddEdge(compose.START, "s")
		_ = g.AddEdge("s", compose.END)
	}
	return g
}
func mkBranch[T any](ends []string, size func(T) int) *compose.GraphBranch {
	m := map[string]bool{}
	for _, e := range ends {
		m[e] = true
	}
	sorted := append([]string(nil), ends...)
	sort.Strings(sorted)
	return compose.NewGraphBranch(func(ctx context.Context, in T) (string, error) {
		if len(sorted) == 0 {
			return "", nil
		}
		return sorted[size(in)%len(sorted)], nil
	}, m)
}
func newStateOpt() compose.NewGraphOption {
	return compose.WithGenLocalState(func(ctx context.Context) *st { return &st{} })
}

func compileOpts(c *Call) []compose.GraphCompileOption {
	o := make([]compose.GraphCompileOption, 0, 4) // spare capacity: a callee that appends to it writes into the caller's array
	switch c.Trigger {
	case "any":
		o = append(o, compose.WithNodeTriggerMode(compose.AnyPredecessor))
	case "all":
		o = append(o, compose.WithNodeTriggerMode(compose.AllPredecessor))
	}
	if c.MaxSteps != 0 {
		o = append(o, compose.WithMaxRunSteps(c.MaxSteps))
	}
	return o
}

// invoker runs a compiled runnable on snapshot input i and renders the outcome; root is the
// runnable itself (for the structural snapshot).
type invoker struct {
	run  func(i int) string
	root any
}

func guarded(f func(ctx context.Context) (any, error)) string {
	ctx, cancel := context.WithTimeout(context.Background(), 2*time.Second)
	defer cancel()
	ch := make(chan string, 1)
	go func() {
		defer func() {
			if r := recover(); r != nil {
				ch <- "panic"
			}
		}()
		out, err := f(ctx)
		if err != nil {
			ch <- "err"
			return
		}
		b, _ := json.Marshal(out)
		ch <- "ok:" + string(b)
	}()
	select {
	case s := <-ch:
		return s
	case <-time.After(10 * time.Second):
		return "hang"
	}
}

func invM(r compose.Runnable[M, M]) *invoker {
	return &invoker{func(i int) string {
		return guarded(func(ctx context.Context) (any, error) { return r.Invoke(ctx, inputsM[i]) })
	}, r}
}
func invWS(r compose.Runnable[WS, WS]) *invoker {
	return &invoker{func(i int) string {
		return guarded(func(ctx context.Context) (any, error) { return r.Invoke(ctx, inputsWS[i]) })
	}, r}
}

// frontEnd applies one call; a successful Compile also yields an invoker.
type frontEnd interface {
	base() *feBase
	apply(c *Call) (error, *invoker)
	snapshot() []string             // canonical state (snap.go)
	pendingInputs() map[string]int  // Workflow: deferred inputs per node (nil otherwise)
	pendingStatics() map[string]int // Workflow: static values not yet applied, per node (nil otherwise)
}

// hkOf: the state handler a call asks for (-1 = none)
func hkOf(c *Call) int {
	if !c.NeedState {
		return -1
	}
	return c.HK & 3
}

func nodeOpts[T any](hk int, nodeKey string, useNodeKey bool) []compose.GraphAddNodeOpt {
	var o []compose.GraphAddNodeOpt
	switch hk {
	case 0:
		o = append(o, mkPre[T]())
	case 1:
		o = append(o, compose.WithStatePostHandler(func(ctx context.Context, out T, s *st) (T, error) { return out, nil }))
	case 2:
		o = append(o, compose.WithStreamStatePreHandler(func(ctx context.Context, in *schema.StreamReader[T], s *st) (*schema.StreamReader[T], error) {
			return in, nil
		}))
	case 3:
		o = append(o, compose.WithStreamStatePostHandler(func(ctx context.Context, out *schema.StreamReader[T], s *st) (*schema.StreamReader[T], error) {
			return out, nil
		}))
	}
	if useNodeKey {
		o = append(o, compose.WithNodeKey(nodeKey))
	}
	return o
}

// ---- Graph
type graphFE struct {
	feBase
	g *compose.Graph[M, M]
}

func newGraphFE(state bool) *graphFE {
	if state {
		return &graphFE{g: compose.NewGraph[M, M](newStateOpt())}
	}
	return &graphFE{g: compose.NewGraph[M, M]()}
}

func (f *graphFE) apply(c *Call) (error, *invoker) {
	ctx := context.Background()
	switch c.Op {
	case "addnode":
		opts := pooled(&f.feBase, "opts", func() []compose.GraphAddNodeOpt { return nodeOpts[M](hkOf(c), "k", c.NodeKeyOpt) })
		switch c.Kind {
		case "lambda":
			return f.g.AddLambdaNode(c.Key, pooled(&f.feBase, "lam", func() *compose.Lambda { return mkLam(c.Key, fM) }), opts...), nil
		case "pass":
			return f.g.AddPassthroughNode(c.Key, opts...), nil
		case "passk", "passo", "passko":
			// a pass-through node with an input key, an output key or both (F-C20h): its keyed side is a
			// map[string]any at once, what passes through it has a type only when a neighbour gives it one
			ko := append([]compose.GraphAddNodeOpt(nil), opts...)
			if c.Kind != "passo" {
				ko = append(ko, compose.WithInputKey("ik"))
			}
			if c.Kind != "passk" {
				ko = append(ko, compose.WithOutputKey("ok"))
			}
			return f.g.AddPassthroughNode(c.Key, ko...), nil
		case "subok":
			return f.g.AddGraphNode(c.Key, pooled(&f.feBase, "sub", func() compose.AnyGraph { return mkSub(true, fM) }), opts...), nil
		default:
			return f.g.AddGraphNode(c.Key, pooled(&f.feBase, "sub", func() compose.AnyGraph { return mkSub(false, fM) }), opts...), nil
		}
	case "addedge":
		return f.g.AddEdge(c.From, c.To), nil
	case "addbranch":
		return f.g.AddBranch(c.From, pooled(&f.feBase, "branch", func() *compose.GraphBranch { return mkBranch(c.Ends, sizeM) })), nil
	case "compile":
		r, err := f.g.Compile(ctx, pooled(&f.feBase, "copts", func() []compose.GraphCompileOption { return compileOpts(c) })...)
		if err != nil {
			return err, nil
		}
		return nil, invM(r)
	}
	panic("harness: bad graph op " + c.Op)
}

// ---- Chain
type chainFE struct {
	feBase
	c *compose.Chain[M, M]
}

func newChainFE(state bool) *chainFE {
	if state {
		return &chainFE{c: compose.NewChain[M, M](newStateOpt())}
	}
	return &chainFE{c: compose.NewChain[M, M]()}
}

func (f *chainFE) apply(c *Call) (error, *invoker) {
	ctx := context.Background()
	switch c.Op {
	case "append":
		opts := pooled(&f.feBase, "opts", func() []compose.GraphAddNodeOpt { return nodeOpts[M](hkOf(c), c.NodeKey, c.NodeKey != "") })
		name := c.NodeKey
		if name == "" {
			name = "n"
		}
		switch c.Kind {
		case "lambda":
			f.c.AppendLambda(pooled(&f.feBase, "lam", func() *compose.Lambda { return mkLam(name, fM) }), opts...)
		case "pass":
			f.c.AppendPassthrough(opts...)
		case "subok":
			f.c.AppendGraph(pooled(&f.feBase, "sub", func() compose.AnyGraph { return mkSub(true, fM) }), opts...)
		default:
			f.c.AppendGraph(pooled(&f.feBase, "sub", func() compose.AnyGraph { return mkSub(false, fM) }), opts...)
		}
		return nil, nil
	case "parallel":
		f.c.AppendParallel(pooled(&f.feBase, "parallel", func() *compose.Parallel { return mkParallel(c) }))
		return nil, nil
	case "branch":
		f.c.AppendBranch(pooled(&f.feBase, "chainbranch", func() *compose.ChainBranch { return mkChainBranch(c) }))
		return nil, nil
	case "compile":
		r, err := f.c.Compile(ctx, pooled(&f.feBase, "copts", func() []compose.GraphCompileOption { return compileOpts(c) })...)
		if err != nil {
			return err, nil
		}
		return nil, invM(r)
	}
	panic("harness: bad chain op " + c.Op)
}

func mkParallel(c *Call) *compose.Parallel {
	{
		p := compose.NewParallel()
		for _, it := range c.Items {
			opts := nodeOpts[M](-1, it.NodeKey, it.NodeKey != "")
			switch it.Kind {
			case "lambda":
				p.AddLambda(it.Key, mkLam(it.Key, fM), opts...)
			case "pass":
				p.AddPassthrough(it.Key, opts...)
			case "subok":
				p.AddGraph(it.Key, mkSub(true, fM), opts...)
			default:
				p.AddGraph(it.Key, mkSub(false, fM), opts...)
			}
		}
		return p
	}
}

func mkChainBranch(c *Call) *compose.ChainBranch {
	{
		keys := make([]string, 0, len(c.Items))
		for _, it := range c.Items {
			keys = append(keys, it.Key)
		}
		sort.Strings(keys)
		cb := compose.NewChainBranch(func(ctx context.Context, in M) (string, error) {
			if len(keys) == 0 {
				return "", nil
			}
			return keys[len(in)%len(keys)], nil
		})
		for _, it := range c.Items {
			opts := nodeOpts[M](-1, it.NodeKey, it.NodeKey != "")
			switch it.Kind {
			case "lambda":
				cb.AddLambda(it.Key, mkLam(it.Key, fM), opts...)
			case "pass":
				cb.AddPassthrough(it.Key, opts...)
			case "subok":
				cb.AddGraph(it.Key, mkSub(true, fM), opts...)
			default:
				cb.AddGraph(it.Key, mkSub(false, fM), opts...)
			}
		}
		return cb
	}
}

// ---- Workflow
type wfFE struct {
	feBase
	w       *compose.Workflow[WS, WS]
	handles map[string]*compose.WorkflowNode
}

func newWfFE(state bool) *wfFE {
	if state {
		return &wfFE{w: compose.NewWorkflow[WS, WS](newStateOpt()), handles: map[string]*compose.WorkflowNode{}}
	}
	return &wfFE{w: compose.NewWorkflow[WS, WS](), handles: map[string]*compose.WorkflowNode{}}
}

func mappings(fields []string) []*compose.FieldMapping {
	ms := make([]*compose.FieldMapping, 0, len(fields)+2) // spare capacity, see compileOpts
	for _, f := range fields {
		ms = append(ms, compose.ToField(f))
	}
	return ms
}

func (f *wfFE) apply(c *Call) (error, *invoker) {
	ctx := context.Background()
	switch c.Op {
	case "addnode":
		opts := pooled(&f.feBase, "opts", func() []compose.GraphAddNodeOpt { return nodeOpts[WS](hkOf(c), "", false) })
		var h *compose.WorkflowNode
		switch c.Kind {
		case "lambda":
			h = f.w.AddLambdaNode(c.Key, pooled(&f.feBase, "lam", func() *compose.Lambda { return mkLam(c.Key, fWS) }), opts...)
		case "lamkey":
			// a lambda with an output key: its output type is map[string]any, not WS (known finding F-C20i)
			h = f.w.AddLambdaNode(c.Key, pooled(&f.feBase, "lam", func() *compose.Lambda { return mkLam(c.Key, fWS) }),
				append(append([]compose.GraphAddNodeOpt(nil), opts...), compose.WithOutputKey("aa"))...)
		case "pass":
			h = f.w.AddPassthroughNode(c.Key, opts...)
		case "subok":
			h = f.w.AddGraphNode(c.Key, pooled(&f.feBase, "sub", func() compose.AnyGraph { return mkSub(true, fWS) }), opts...)
		default:
			h = f.w.AddGraphNode(c.Key, pooled(&f.feBase, "sub", func() compose.AnyGraph { return mkSub(false, fWS) }), opts...)
		}
		f.handles[c.Key] = h
		return nil, nil
	case "addinput":
		var h *compose.WorkflowNode
		if c.To == compose.END {
			h = f.w.End() // asked for every time, the way callers write it: End() must hand out the same node
		} else {
			h = f.handles[c.To]
		}
		if h == nil {
			return nil, nil // no handle: the call cannot be written in Go (model: no-op)
		}
		switch c.In {
		case "fromkey":
			// the value under the output key of a lamkey node as the whole input
			h.AddInput(c.From, compose.FromField("aa"))
		case "dep":
			h.AddDependency(c.From)
		case "nodirect":
			h.AddInputWithOptions(c.From, pooled(&f.feBase, "maps", func() []*compose.FieldMapping { return mappings(c.Fields) }), compose.WithNoDirectDependency())
		default:
			h.AddInput(c.From, pooled(&f.feBase, "maps", func() []*compose.FieldMapping { return mappings(c.Fields) })...)
		}
		return nil, nil
	case "setstatic":
		var h *compose.WorkflowNode
		if c.To == compose.END {
			h = f.w.End() // asked for every time, the way callers write it: End() must hand out the same node
		} else {
			h = f.handles[c.To]
		}
		if h == nil || len(c.Fields) == 0 {
			return nil, nil // no handle (model: no-op)
		}
		h.SetStaticValue(compose.FieldPath{c.Fields[0]}, "static:"+c.Fields[0])
		return nil, nil
	case "addbranch":
		f.w.AddBranch(c.From, pooled(&f.feBase, "branch", func() *compose.GraphBranch { return mkBranch(c.Ends, sizeWS) }))
		return nil, nil
	case "addend":
		f.w.AddEnd(c.From, pooled(&f.feBase, "maps", func() []*compose.FieldMapping { return mappings(c.Fields) })...)
		return nil, nil
	case "compile":
		r, err := f.w.Compile(ctx, pooled(&f.feBase, "copts", func() []compose.GraphCompileOption { return compileOpts(c) })...)
		if err != nil {
			return err, nil
		}
		return nil, invWS(r)
	}
	panic("harness: bad workflow op " + c.Op)
}

// ---- nested: an outer Graph whose sub-graph nodes are builder values the case goes on calling: Graphs (kinds
// subok / subbad), Chains (subchain / subchainbad) or Workflows (subwf / subwfbad; then the outer graph and every
// child work on WS, the Workflow universe of this harness, otherwise on M)

// graphOps: what the graph-level calls need to know about the value universe
type graphOps[T any] struct {
	f    func(string, T) T
	size func(T) int
	inv  func(compose.Runnable[T, T]) *invoker
}

var opsM = graphOps[M]{fM, sizeM, invM}
var opsWS = graphOps[WS]{fWS, sizeWS, invWS}

// graphCall: one graph-level call on a Graph value (the outer one or an inner one)
func graphCall[T any](b *feBase, what string, g *compose.Graph[T, T], c *Call, o graphOps[T]) (error, *invoker) {
	switch c.Op {
	case "addnode":
		opts := pooled(b, what+"opts", func() []compose.GraphAddNodeOpt { return nodeOpts[T](hkOf(c), "k", c.NodeKeyOpt) })
		if c.Kind == "pass" {
			return g.AddPassthroughNode(c.Key, opts...), nil
		}
		return g.AddLambdaNode(c.Key, pooled(b, what+"lam", func() *compose.Lambda { return mkLam(c.Key, o.f) }), opts...), nil
	case "addedge":
		return g.AddEdge(c.From, c.To), nil
	case "addbranch":
		return g.AddBranch(c.From, pooled(b, what+"branch", func() *compose.GraphBranch { return mkBranch(c.Ends, o.size) })), nil
	case "compile":
		r, err := g.Compile(context.Background(), pooled(b, what+"copts", func() []compose.GraphCompileOption { return compileOpts(c) })...)
		if err != nil {
			return err, nil
		}
		return nil, o.inv(r)
	}
	panic("harness: bad graph op " + c.Op)
}

// child: an inner builder of a nested case
type child struct {
	g     compose.AnyGraph
	apply func(b *feBase, c *Call) (error, *invoker)
	snap  func() []string
}

func graphChild[T any](ok bool, o graphOps[T]) *child {
	g := mkSub(ok, o.f).(*compose.Graph[T, T])
	return &child{g: g,
		apply: func(b *feBase, c *Call) (error, *invoker) { return graphCall(b, "i/", g, c, o) },
		snap:  func() []string { return snapOfGraph(g) }}
}

// feChild: a Chain or a Workflow, driven through the front-end of its own kind
func feChild(fe frontEnd, g compose.AnyGraph, init []Call) *child {
	for i := range init {
		fe.apply(&init[i])
	}
	return &child{g: g,
		apply: func(b *feBase, c *Call) (error, *invoker) {
			fe.base().pool, fe.base().at = nil, b.at // the values an inner builder is handed are never shared between attempts
			return fe.apply(c)
		},
		snap: fe.snapshot}
}

// the initial construction of an inner builder (the Go-side oracle replays it: nested.go)
func childInit(kind string) []Call {
	switch kind {
	case "subchain":
		return []Call{{Op: "append", Kind: "lambda"}}
	case "subwf":
		return []Call{{Op: "addnode", Key: "s", Kind: "lambda"}, {Op: "addinput", To: "s", From: "start", In: "normal"}, {Op: "addinput", To: "end", From: "s", In: "normal"}}
	case "subwfbad":
		return []Call{{Op: "addnode", Key: "s", Kind: "lambda"}, {Op: "addinput", To: "s", From: "start", In: "normal"}}
	}
	return nil // subchainbad: an empty chain; the Graph kinds are built by mkSub
}

type nestedFE struct {
	feBase
	ws       bool // the Workflow universe
	gM       *compose.Graph[M, M]
	gWS      *compose.Graph[WS, WS]
	children map[string]*child
	ids      []string
}

func usesWS(c *Case) bool {
	for _, k := range c.Calls {
		if k.Op == "sub" && (k.Kind == "subwf" || k.Kind == "subwfbad") {
			return true
		}
	}
	return false
}

func newNestedFE(c *Case) *nestedFE {
	f := &nestedFE{children: map[string]*child{}, ws: usesWS(c)}
	var opts []compose.NewGraphOption
	if c.State {
		opts = append(opts, newStateOpt())
	}
	if f.ws {
		f.gWS = compose.NewGraph[WS, WS](opts...)
	} else {
		f.gM = compose.NewGraph[M, M](opts...)
	}
	return f
}

func (f *nestedFE) newChild(kind string) *child {
	switch kind {
	case "subchain", "subchainbad":
		fe := newChainFE(false)
		return feChild(fe, fe.c, childInit(kind))
	case "subwf", "subwfbad":
		fe := newWfFE(false)
		return feChild(fe, fe.w, childInit(kind))
	}
	if f.ws {
		return graphChild(kind != "subbad", opsWS)
	}
	return graphChild(kind != "subbad", opsM)
}

func (f *nestedFE) apply(c *Call) (error, *invoker) {
	switch c.Op {
	case "sub":
		in, ok := f.children[c.ID]
		if !ok {
			// an inner builder is a value the case goes on calling: every execution gets its own (never from the pool)
			in = f.newChild(c.Kind)
			f.children[c.ID] = in
			f.ids = append(f.ids, c.ID)
			sort.Strings(f.ids)
		}
		// the node's own compile options (WithGraphCompileOptions): what the child is compiled with
		var nopts []compose.GraphAddNodeOpt
		if co := compileOpts(c); len(co) > 0 {
			nopts = append(nopts, compose.WithGraphCompileOptions(co...))
		}
		if f.ws {
			return f.gWS.AddGraphNode(c.Key, in.g, nopts...), nil
		}
		return f.gM.AddGraphNode(c.Key, in.g, nopts...), nil
	case "inner":
		in, ok := f.children[c.ID]
		if !ok || c.Sub == nil {
			return nil, nil // no such value: the call cannot be written in Go (model: no-op)
		}
		return in.apply(&f.feBase, c.Sub)
	}
	if f.ws {
		return graphCall(&f.feBase, "", f.gWS, c, opsWS)
	}
	return graphCall(&f.feBase, "", f.gM, c, opsM)
}

func (f *nestedFE) snapshot() []string {
	var out []string
	if f.ws {
		out = snapOfGraph(f.gWS)
	} else {
		out = snapOfGraph(f.gM)
	}
	for _, id := range f.ids {
		for _, l := range f.children[id].snap() {
			out = append(out, "I"+id+"/"+l)
		}
	}
	sort.Strings(out)
	return out
}
func (f *nestedFE) pendingInputs() map[string]int  { return nil }
func (f *nestedFE) pendingStatics() map[string]int { return nil }

func newFE(c *Case) frontEnd {
	switch c.FE {
	case "nested":
		return newNestedFE(c)
	case "graph":
		return newGraphFE(c.State)
	case "chain":
		return newChainFE(c.State)
	default:
		return newWfFE(c.State)
	}
}

// ---------------------------------------------------------------- error classes

var families = []struct{ sub, cls string }{
	{"is reserved, cannot add manually", "EReserved"},
	{"already present", "EDupNode"},
	{"needs state but graph state is not enabled", "ENeedState"},
	{"only chain support node key option", "ENodeKeyOpt"},
	{"cannot be both noDirectDependency and noDataFlow", "ENoCtrlNoData"},
	{"END cannot be a start node", "EEndAsStart"},
	{"START cannot be an end node", "EStartAsEnd"},
	{"edge start node", "EEdgeStartUnknown"},
	{"edge end node", "EEdgeEndUnknown"},
	{"control edge[", "EDupCtrlEdge"},
	{"data edge[", "EDupDataEdge"},
	{"branch start node", "EBranchStartUnknown"},
	{"number of branches is 1", "EBranchOne"},
	{"branch end node", "EBranchEndUnknown"},
	{"graph has been compiled", "ECompiled"},
	{"chain has been compiled", "EChainCompiled"},
	{"doesn't support node trigger mode", "ETriggerUnsupported"},
	{"start node not set", "ENoStart"},
	{"end node not set", "ENoEnd"},
	{"cannot be inferred", "EUninferred"},
	{"duplicate mapping target field", "EDupMapTarget"},
	{"DAG invalid", "EDagLoop"},
	{"cannot set max run steps in dag mode", "EMaxStepsDag"},
	{"pre node keys not set", "EChainEmpty"},
	{"duplicate output key", "EParDupKey"},
	{"append parallel invalid, not enough nodes", "EParTooFew"},
	{"append parallel invalid, multiple previous nodes", "EParMultiPrev"},
	{"duplicate branch node key", "EBrDupKey"},
	{"nodeList is empty", "EBrEmpty"},
	{"nodeList length = 1", "EBrOne"},
	{"append branch invalid, multiple previous nodes", "EBrMultiPrev"},
	{"already been mapped", "EMapped"},
	{"two terminal field paths conflict", "EMapConflict"},
}

func classify(err error) string {
	msg := err.Error()
	for _, f := range families {
		if strings.Contains(msg, f.sub) {
			return f.cls
		}
	}
	return "EOther"
}

// classes that a failing Compile reports without the builder remembering them
var compileTimeClass = map[string]bool{
	"ETriggerUnsupported": true, "ENoStart": true, "ENoEnd": true, "EUninferred": true, "EDupMapTarget": true,
	"EDagLoop": true, "EMaxStepsDag": true, "ECompiled": true, "EMapped": true,
	"EMapConflict": true, "EOther": true, "EChainEmpty": true,
}

// ---------------------------------------------------------------- one execution

type compiled struct {
	at   int    // index of the Compile call
	opts string // its options
	inv  *invoker
	snap []string // outputs on the snapshot inputs ("" = unstable, not compared)
	shot []string // structural snapshot right after the Compile (nil = not available)
}

type execResult struct {
	runs     []*compiled // the runnables obtained (only when snapshots are taken)
	obs      []CallObs
	intact   bool   // every snapshot still holds after all later calls
	recomp   string // "" or a description: a later Compile with the same options gives a different runnable
	affected string // description of the first affected runner
	nStruct  int    // runnables whose structure (everything they keep) was compared before / after the later calls
}

const nInputs = 3

func optKey(c *Call) string { return fmt.Sprintf("%s/%d", c.Trigger, c.MaxSteps) }

func execute(c *Case, snapshot bool, values *pool) execResult {
	fe := newFE(c)
	fe.base().pool = values
	res := execResult{intact: true}
	prevState := hashState(fe.snapshot())
	var runs []*compiled
	for i := range c.Calls {
		call := &c.Calls[i]
		var err error
		var inv *invoker
		before := fe.pendingInputs()
		sbefore := fe.pendingStatics()
		fe.base().at = i
		p := lib.Recover(func() { err, inv = fe.apply(call) })
		var o CallObs
		switch {
		case p != nil:
			o = CallObs{K: "panic", Msg: fmt.Sprint(p)}
		case err != nil:
			o = CallObs{K: "err", Cls: classify(err), Msg: err.Error()}
		default:
			o = CallObs{K: "ok"}
		}
		if sp := lib.Recover(func() { o.State = fe.snapshot() }); sp != nil {
			o.State = []string{"snapshot-panic:" + fmt.Sprint(sp)}
		}
		if inv != nil {
			// the compiled record this Compile returned, in the model's terms (Corr/C20.v: snap_out)
			o.State = append(o.State, runnerLines(inv.root)...)
			sort.Strings(o.State)
		}
		if call.Op == "compile" && before != nil {
			after := fe.pendingInputs()
			for k, n := range before {
				if n > 0 && after[k] == 0 {
					o.Ord = append(o.Ord, k)
				}
			}
			sort.Strings(o.Ord)
			safter := fe.pendingStatics()
			for k, n := range sbefore {
				if n > 0 && safter[k] == 0 {
					o.SOrd = append(o.SOrd, k)
				}
			}
			sort.Strings(o.SOrd)
		}
		cur := hashState(o.State)
		o.Gone, o.New = msDiff(prevState, cur)
		prevState = cur
		res.obs = append(res.obs, o)
		if inv != nil && snapshot {
			cr := &compiled{at: i, opts: optKey(call), inv: inv}
			if call.Op == "inner" && call.Sub != nil {
				cr.opts = "inner:" + call.ID + "/" + optKey(call.Sub) // a runnable of its own builder
			}
			for k := 0; k < nInputs; k++ {
				a, b := inv.run(k), inv.run(k)
				if a != b {
					a = "" // the run itself is not deterministic: nothing to compare
				}
				cr.snap = append(cr.snap, a)
			}
			// "cannot be modified": compiling again with the same options must give the same function
			for _, old := range runs {
				if old.opts != cr.opts || res.recomp != "" {
					continue
				}
				for k := 0; k < nInputs; k++ {
					if old.snap[k] != "" && cr.snap[k] != "" && old.snap[k] != cr.snap[k] {
						res.recomp = fmt.Sprintf("Compile #%d and Compile #%d (same options) differ on input %d: %s vs %s",
							old.at, cr.at, k, old.snap[k], cr.snap[k])
					}
				}
			}
			cr.shot = structure(inv.root)
			runs = append(runs, cr)
		}
	}
	res.runs = runs
	res.intact, res.affected, res.nStruct = recheck(runs, "the later calls")
	return res
}

// recheck: every runnable still gives its snapshotted outputs and still keeps what it kept right after its Compile
func recheck(runs []*compiled, after string) (intact bool, affected string, nStruct int) {
	res := struct {
		intact   bool
		affected string
		nStruct  int
	}{intact: true}
	for _, cr := range runs {
		for k := 0; k < nInputs; k++ {
			if cr.snap[k] == "" {
				continue
			}
			now := cr.inv.run(k)
			for retry := 0; retry < 2 && now != cr.snap[k]; retry++ {
				now = cr.inv.run(k) // a loaded machine can make one run hit the context deadline
			}
			if now != cr.snap[k] {
				res.intact = false
				if res.affected == "" {
					res.affected = fmt.Sprintf("runnable of Compile #%d on input %d: before %s, after %s %s",
						cr.at, k, cr.snap[k], after, now)
				}
			}
		}
	}
	// the same in structure: everything the runnable keeps is what it kept right after its Compile
	for _, cr := range runs {
		if cr.shot == nil {
			continue
		}
		now := structure(cr.inv.root)
		if now == nil {
			continue
		}
		res.nStruct++
		if d := firstDiff(cr.shot, now); d != "" {
			res.intact = false
			if res.affected == "" {
				res.affected = fmt.Sprintf("runnable of Compile #%d: what it keeps changed after %s: %s", cr.at, after, d)
			}
		}
	}
	return res.intact, res.affected, res.nStruct
}

func firstDiff(a, b []string) string {
	for i := 0; i < len(a) && i < len(b); i++ {
		if a[i] != b[i] {
			return fmt.Sprintf("%q became %q", a[i], b[i])
		}
	}
	if len(a) != len(b) {
		return fmt.Sprintf("%d leaves became %d", len(a), len(b))
	}
	return ""
}
