//go:build !verif_c09wb

// Engine C20 — built without the white-box group of property C09 (see wb_c09.go): no structural snapshot of a
// runnable, no projection of its runner.
package main

const haveRunner = false

func structure(root any) []string   { return nil }
func runnerLines(root any) []string { return nil }
