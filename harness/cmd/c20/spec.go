// Engine C20 — direct oracle "an ill-formed construction was accepted".
//
// An independent, order-free statement of the kinds of ill-formedness the property lists,
// evaluated on the history of calls the implementation itself ACCEPTED (returned ok).  It
// does not use the model: a change of eino that lets one of these through fails here with
// the call sequence as a concrete replay, whatever the correspondence says.
// It is deliberately one-sided (never complains about a rejection).
package main

import "fmt"

func reserved(k string) bool { return k == "start" || k == "end" }

// hasCycle: is there a cycle among real nodes in the multigraph of pairs?
func hasCycle(nodes map[string]string, pairs [][2]string) bool {
	succ := map[string][]string{}
	for _, p := range pairs {
		if _, ok := nodes[p[0]]; !ok {
			continue
		}
		if _, ok := nodes[p[1]]; !ok {
			continue
		}
		succ[p[0]] = append(succ[p[0]], p[1])
	}
	color := map[string]int{}
	var visit func(string) bool
	visit = func(n string) bool {
		color[n] = 1
		for _, m := range succ[n] {
			if color[m] == 1 || (color[m] == 0 && visit(m)) {
				return true
			}
		}
		color[n] = 2
		return false
	}
	for n := range nodes {
		if color[n] == 0 && visit(n) {
			return true
		}
	}
	return false
}

// untypedPass: pass-through nodes whose type no chain of data pairs connects to a typed node
func untypedPass(nodes map[string]string, dataPairs [][2]string, typedByBranch map[string]bool) []string {
	typed := map[string]bool{"start": true, "end": true}
	for k, kind := range nodes {
		if kind != "pass" || typedByBranch[k] {
			typed[k] = true
		}
	}
	for changed := true; changed; {
		changed = false
		for _, p := range dataPairs {
			if typed[p[0]] != typed[p[1]] {
				typed[p[0]], typed[p[1]] = true, true
				changed = true
			}
		}
	}
	var out []string
	for k := range nodes {
		if !typed[k] {
			out = append(out, k)
		}
	}
	return out
}

func acceptedIllFormed(c *Case, obs []CallObs) (string, string) {
	switch c.FE {
	case "graph":
		return specGraph(c, obs)
	case "chain":
		return specChain(c, obs)
	}
	return specWorkflow(c, obs)
}

func specGraph(c *Case, obs []CallObs) (string, string) {
	nodes := map[string]string{}
	edges := map[[2]string]bool{}
	var ctrl, data [][2]string
	typedByBranch := map[string]bool{}
	bad := func(i int, kind string) (string, string) {
		return "accepted:" + kind, fmt.Sprintf("call %d (%s) was accepted although it is ill-formed: %s", i, c.Calls[i].Op, kind)
	}
	for i := range c.Calls {
		k := &c.Calls[i]
		if obs[i].K != "ok" {
			// the converse of the cycle clause: the implementation says "has loop" about declared control
			// edges / branch targets that contain no cycle (validateDAG accepts exactly the graphs with a
			// topological order: theorems validateDAG_sound / _complete)
			if k.Op == "compile" && obs[i].K == "err" && obs[i].Cls == "EDagLoop" && !hasCycle(nodes, ctrl) {
				return "rejected:no-cycle", fmt.Sprintf("Compile at %d was rejected as a DAG with a loop although the declared control edges and branch targets have no cycle", i)
			}
			continue
		}
		switch k.Op {
		case "addnode":
			switch {
			case reserved(k.Key):
				return bad(i, "reserved-key")
			case nodes[k.Key] != "":
				return bad(i, "duplicate-key")
			case k.NeedState && !c.State:
				return bad(i, "state-handler-without-state")
			case k.NodeKeyOpt:
				return bad(i, "node-key-option-outside-chain")
			}
			nodes[k.Key] = k.Kind
		case "addedge":
			_, fromOK := nodes[k.From]
			_, toOK := nodes[k.To]
			switch {
			case k.From == "end":
				return bad(i, "end-as-source")
			case k.To == "start":
				return bad(i, "start-as-target")
			case !fromOK && k.From != "start":
				return bad(i, "unknown-edge-source")
			case !toOK && k.To != "end":
				return bad(i, "unknown-edge-target")
			case edges[[2]string{k.From, k.To}]:
				return bad(i, "duplicate-edge")
			}
			edges[[2]string{k.From, k.To}] = true
			ctrl = append(ctrl, [2]string{k.From, k.To})
			data = append(data, [2]string{k.From, k.To})
		case "addbranch":
			_, fromOK := nodes[k.From]
			switch {
			case k.From == "end":
				return bad(i, "end-as-source")
			case !fromOK && k.From != "start":
				return bad(i, "unknown-branch-source")
			case len(k.Ends) == 1:
				return bad(i, "single-target-branch")
			}
			for _, e := range k.Ends {
				if _, ok := nodes[e]; !ok && e != "end" {
					return bad(i, "unknown-branch-target")
				}
			}
			if nodes[k.From] == "pass" {
				typedByBranch[k.From] = true
			}
			for _, e := range k.Ends {
				ctrl = append(ctrl, [2]string{k.From, e})
				data = append(data, [2]string{k.From, e})
			}
		case "compile":
			entry, exit := false, false
			for _, p := range ctrl {
				entry = entry || p[0] == "start"
				exit = exit || p[1] == "end"
			}
			switch {
			case !entry:
				return bad(i, "no-entry")
			case !exit:
				return bad(i, "no-exit")
			}
			for _, kind := range nodes {
				if kind == "subbad" {
					return bad(i, "invalid-sub-graph")
				}
			}
			if u := untypedPass(nodes, data, typedByBranch); len(u) > 0 {
				return bad(i, "uninferable-pass-through")
			}
			if k.Trigger == "all" {
				if k.MaxSteps > 0 {
					return bad(i, "max-steps-in-all-predecessor-mode")
				}
				if hasCycle(nodes, ctrl) {
					return bad(i, "cycle-in-all-predecessor-mode")
				}
			}
		}
	}
	return "", ""
}

func dupKeys(items []Item) bool {
	seen := map[string]bool{}
	for _, it := range items {
		if seen[it.Key] {
			return true
		}
		seen[it.Key] = true
	}
	return false
}

func specChain(c *Case, obs []CallObs) (string, string) {
	violation := "" // first structurally invalid Append*: every later Compile has to fail
	at := -1
	prev := 0 // number of previous nodes the next Parallel / Branch would hang on
	explicit := map[string]bool{}
	mark := func(i int, kind string) {
		if violation == "" {
			violation, at = kind, i
		}
	}
	for i := range c.Calls {
		k := &c.Calls[i]
		switch k.Op {
		case "append":
			switch {
			case reserved(k.NodeKey):
				mark(i, "reserved-key")
			case k.NodeKey != "" && explicit[k.NodeKey]:
				mark(i, "duplicate-key")
			case k.NeedState && !c.State:
				mark(i, "state-handler-without-state")
			}
			if k.NodeKey != "" {
				explicit[k.NodeKey] = true
			}
			prev = 1
		case "parallel", "branch":
			switch {
			case len(k.Items) <= 1:
				mark(i, k.Op+"-too-few-nodes")
			case dupKeys(k.Items):
				mark(i, k.Op+"-duplicate-key")
			case prev > 1:
				mark(i, k.Op+"-after-several-previous-nodes")
			}
			for _, it := range k.Items {
				if reserved(it.NodeKey) {
					mark(i, "reserved-key")
				}
				if it.NodeKey != "" {
					if explicit[it.NodeKey] {
						mark(i, "duplicate-key")
					}
					explicit[it.NodeKey] = true
				}
			}
			prev = len(k.Items)
		case "compile":
			if obs[i].K != "ok" {
				continue
			}
			if k.Trigger != "" {
				return "accepted:trigger-option-on-chain", fmt.Sprintf("Compile at %d accepted a node trigger mode option on a Chain", i)
			}
			if violation != "" {
				return "accepted:" + violation, fmt.Sprintf("Compile at %d succeeded although call %d (%s) was ill-formed: %s", i, at, c.Calls[at].Op, violation)
			}
		}
	}
	return "", ""
}

// wfInput is one declaration on a Workflow node (AddInput / AddInputWithOptions / AddDependency /
// AddEnd, or a static value: in = "static").
type wfInput struct {
	to, from, in string
	idx          int
	fields       []string
}

// conflictingInputs: declarations on one Workflow node that cannot all be applied, whatever the
// order in which Compile visits the nodes (the declarations of one node are applied in call
// order): the same control / data edge twice; mapping targets that overlap (the whole input
// beside any other data declaration or static value, a target field named twice).
// Returns the index of the later of two conflicting calls, or -1.
func conflictingInputs(inputs []wfInput, statics map[string]wfInput) (int, string) {
	type edge struct{ to, from string }
	ctrl, data := map[edge]bool{}, map[edge]bool{}
	for _, in := range inputs {
		e := edge{in.to, in.from}
		if in.in != "nodirect" {
			if ctrl[e] {
				return in.idx, "duplicate-edge"
			}
			ctrl[e] = true
		}
		if in.in != "dep" {
			if data[e] {
				return in.idx, "duplicate-edge"
			}
			data[e] = true
		}
	}
	whole := map[string]bool{}
	nData := map[string]int{}
	fields := map[[2]string]bool{}
	add := func(to string, fs []string) bool { // false: overlaps what the node already has
		if whole[to] || (len(fs) == 0 && nData[to] > 0) {
			return false
		}
		nData[to]++
		if len(fs) == 0 {
			whole[to] = true
		}
		for _, f := range fs {
			if fields[[2]string{to, f}] {
				return false
			}
			fields[[2]string{to, f}] = true
		}
		return true
	}
	for _, in := range inputs {
		if in.in != "dep" && !add(in.to, in.fields) {
			return in.idx, "overlapping-mapping-targets"
		}
	}
	for _, st := range statics {
		if !add(st.to, st.fields) {
			return st.idx, "overlapping-mapping-targets"
		}
	}
	return -1, ""
}

func specWorkflow(c *Case, obs []CallObs) (string, string) {
	nodes := map[string]string{} // keys accepted by the graph
	handle := map[string]bool{}  // keys a WorkflowNode handle exists for
	violation, at := "", -1
	mark := func(i int, kind string) {
		if violation == "" {
			violation, at = kind, i
		}
	}
	type branch struct {
		from string
		ends []string
		idx  int
	}
	var inputs []wfInput
	var branches []branch
	endFields := map[string]int{} // mapping targets of END declared through AddEnd / End().AddInput
	dupEndField := -1
	statics := map[string]wfInput{} // node -> its static value (one field per node), set before the first successful Compile
	staticAfter := -1               // first SetStaticValue made after the successful Compile
	compiledAt := -1
	for i := range c.Calls {
		k := &c.Calls[i]
		switch k.Op {
		case "addnode":
			if compiledAt < 0 {
				switch {
				case reserved(k.Key):
					mark(i, "reserved-key")
				case nodes[k.Key] != "":
					mark(i, "duplicate-key")
				case k.NeedState && !c.State:
					mark(i, "state-handler-without-state")
				default:
					if violation == "" {
						nodes[k.Key] = k.Kind
					}
				}
			}
			handle[k.Key] = true
		case "addinput":
			if k.To == "end" {
				handle["end"] = true
			}
			if handle[k.To] {
				inputs = append(inputs, wfInput{k.To, k.From, k.In, i, k.Fields})
				if k.To == "end" && k.In != "dep" && compiledAt < 0 {
					for _, f := range k.Fields {
						if endFields[f]++; endFields[f] > 1 && dupEndField < 0 {
							dupEndField = i
						}
					}
				}
			}
		case "setstatic":
			if k.To == "end" {
				handle["end"] = true
			}
			if handle[k.To] && compiledAt >= 0 && staticAfter < 0 {
				staticAfter = i
			}
			if handle[k.To] && compiledAt < 0 && len(k.Fields) > 0 {
				if _, ok := statics[k.To]; !ok {
					statics[k.To] = wfInput{k.To, "", "static", i, k.Fields[:1]}
				}
			}
		case "addbranch":
			branches = append(branches, branch{k.From, k.Ends, i})
		case "addend":
			// the deprecated AddEnd is End().AddInput (repair d4925e3): recorded, added by Compile
			handle["end"] = true
			inputs = append(inputs, wfInput{"end", k.From, "normal", i, k.Fields})
			if compiledAt < 0 {
				for _, f := range k.Fields {
					if endFields[f]++; endFields[f] > 1 && dupEndField < 0 {
						dupEndField = i
					}
				}
			}
		case "compile":
			if obs[i].K != "ok" {
				// the converse of the cycle clause (see specGraph): "has loop" about declarations without a cycle
				if obs[i].K == "err" && obs[i].Cls == "EDagLoop" && compiledAt < 0 {
					var ctrl [][2]string
					for _, in := range inputs {
						if in.in != "nodirect" {
							ctrl = append(ctrl, [2]string{in.from, in.to})
						}
					}
					for _, b := range branches {
						for _, e := range b.ends {
							ctrl = append(ctrl, [2]string{b.from, e})
						}
					}
					if !hasCycle(nodes, ctrl) {
						return "rejected:no-cycle", fmt.Sprintf("Compile at %d was rejected as a DAG with a loop although the declared dependencies and branch targets have no cycle", i)
					}
				}
				continue
			}
			bad := func(kind string, j int) (string, string) {
				return "accepted:" + kind, fmt.Sprintf("Compile at %d succeeded although call %d (%s) was ill-formed: %s", i, j, c.Calls[j].Op, kind)
			}
			if k.Trigger != "" {
				return bad("trigger-option-on-workflow", i)
			}
			if k.MaxSteps > 0 {
				return bad("max-steps-in-all-predecessor-mode", i)
			}
			if violation != "" {
				return bad(violation, at)
			}
			if compiledAt >= 0 {
				// a later Compile: nothing may have been declared since the first one
				for _, in := range inputs {
					if in.idx > compiledAt {
						return bad("input-declared-after-compile", in.idx)
					}
				}
				if staticAfter >= 0 {
					return bad("static-value-set-after-compile", staticAfter)
				}
				continue
			}
			if dupEndField >= 0 {
				return bad("duplicate-mapping-target", dupEndField)
			}
			if j, kind := conflictingInputs(inputs, statics); j >= 0 {
				return bad(kind, j)
			}
			var ctrl [][2]string
			for _, in := range inputs {
				if _, ok := nodes[in.from]; !ok && in.from != "start" {
					return bad("unknown-input-source", in.idx)
				}
				if in.in != "nodirect" {
					ctrl = append(ctrl, [2]string{in.from, in.to})
				}
			}
			for _, b := range branches {
				_, fromOK := nodes[b.from]
				switch {
				case b.from == "end":
					return bad("end-as-source", b.idx)
				case !fromOK && b.from != "start":
					return bad("unknown-branch-source", b.idx)
				case len(b.ends) == 1:
					return bad("single-target-branch", b.idx)
				}
				for _, e := range b.ends {
					if _, ok := nodes[e]; !ok && e != "end" {
						return bad("unknown-branch-target", b.idx)
					}
					ctrl = append(ctrl, [2]string{b.from, e})
				}
			}
			entry, exit := false, false
			for _, p := range ctrl {
				entry = entry || p[0] == "start"
				exit = exit || p[1] == "end"
			}
			switch {
			case !entry:
				return bad("no-entry", i)
			case !exit:
				return bad("no-exit", i)
			case hasCycle(nodes, ctrl):
				return bad("cycle-in-all-predecessor-mode", i)
			}
			for _, kind := range nodes {
				if kind == "subbad" {
					return bad("invalid-sub-graph", i)
				}
			}
			compiledAt = i
		}
	}
	return "", ""
}
