//go:build verif_c20wb

// Engine C20 — canonical rendering of a builder's state (read through the hook
// compose/verif_c20.go) as a sorted list of tagged strings; Corr/C20.v renders the model's
// state the same way (snap_graph / snap_chain / snap_wf) and compares after every call.
package main

import (
	"fmt"
	"sort"
	"strings"

	"github.com/cloudwego/eino/compose"
)

const haveState = true

func snapOfGraph[T any](g *compose.Graph[T, T]) []string { return snapGraph(g.VerifC20Snapshot()) }

func errClass(msg string) string {
	return classify(fmt.Errorf("%s", msg))
}

func snapGraph(g *compose.VerifC20Graph) []string {
	var out []string
	if g.Err != "" {
		out = append(out, "X:"+errClass(g.Err))
	} else {
		for _, n := range g.Nodes {
			out = append(out, "N:"+n.Key+":"+flag(n.In, "i", "-")+flag(n.Out, "o", "-"))
		}
		for _, p := range g.Ctrl {
			out = append(out, "C:"+p[0]+">"+p[1])
		}
		for _, p := range g.Data {
			out = append(out, "D:"+p[0]+">"+p[1])
		}
		for _, b := range g.Branches {
			out = append(out, "B:"+b.Start+">"+strings.Join(b.Ends, ",")+"|"+flag(b.NoData, "n", "d"))
		}
		for _, k := range g.Starts {
			out = append(out, "S:"+k)
		}
		for _, k := range g.Ends {
			out = append(out, "E:"+k)
		}
		for _, p := range g.Pending {
			out = append(out, fmt.Sprintf("P:%s>%s#%d", p.Start, p.End, p.NFields))
		}
		for k, fs := range g.FM {
			out = append(out, "F:"+k+":"+strings.Join(fs, ","))
		}
		for _, c := range g.HEdges {
			for i := 0; i < c.N; i++ {
				out = append(out, "H:"+c.Key)
			}
		}
		for _, c := range g.HPreNode {
			for i := 0; i < c.N; i++ {
				out = append(out, "R:"+c.Key)
			}
		}
		for _, c := range g.HPreBranch {
			for i := 0; i < c.N; i++ {
				out = append(out, "Q:"+c.Key)
			}
		}
	}
	if g.Compiled {
		out = append(out, "K:t")
	}
	return out
}

func (f *graphFE) snapshot() []string {
	out := snapOfGraph(f.g)
	sort.Strings(out)
	return out
}
func (f *graphFE) pendingInputs() map[string]int  { return nil }
func (f *graphFE) pendingStatics() map[string]int { return nil }

func (f *chainFE) snapshot() []string {
	s := f.c.VerifC20Snapshot()
	out := snapGraph(s.Graph)
	if s.Err != "" {
		out = append(out, "ce:"+errClass(s.Err))
	}
	out = append(out, fmt.Sprintf("ci:%d", s.Idx))
	for _, k := range s.Pre {
		out = append(out, "cp:"+k)
	}
	if s.HasEnd {
		out = append(out, "ch:t")
	}
	sort.Strings(out)
	return out
}
func (f *chainFE) pendingInputs() map[string]int  { return nil }
func (f *chainFE) pendingStatics() map[string]int { return nil }

func (f *wfFE) snapshot() []string {
	s := f.w.VerifC20Snapshot()
	out := snapGraph(s.Graph)
	for _, n := range s.Nodes {
		m := strings.Join(n.Fields, ",")
		if n.Whole {
			m = "*"
		}
		out = append(out, fmt.Sprintf("wn:%s#%d:%s:%s", n.Key, n.NPending, m, strings.Join(n.Static, ",")))
	}
	out = append(out, fmt.Sprintf("wb:%d", s.NBranches))
	sort.Strings(out)
	return out
}
func (f *wfFE) pendingInputs() map[string]int {
	m := map[string]int{}
	for _, n := range f.w.VerifC20Snapshot().Nodes {
		m[n.Key] = n.NPending
	}
	return m
}
func (f *wfFE) pendingStatics() map[string]int {
	m := map[string]int{}
	for _, n := range f.w.VerifC20Snapshot().Nodes {
		m[n.Key] = len(n.Static)
	}
	return m
}
