// Malformed chains (second malformed stream of the C01 engine) and the acceptance rule of Chain.Compile.
//
// A chain is a sequence of stages; Chain/Parallel/ChainBranch record the first construction error and report
// it at Compile. chainCompiles states the documented rules independently of eino's code and of the Gallina
// predicate [chain_compiles] (Model/ChainCompile.v); the three are compared on every case:
//   - at least one stage;
//   - a Parallel has at least 2 nodes with pairwise distinct output keys; a Branch has at least 2 nodes;
//   - a Parallel / Branch follows START or a single node (never another Parallel / Branch);
//   - node keys are pairwise distinct (when they are given explicitly).
//
// A chain that is accepted although it breaks a rule would run as some graph nobody described (two nodes
// writing one output key, a branch that cannot choose, edges from only one of several previous nodes).
package main

import (
	gg "verif/harness/graphgen"
	"verif/harness/lib"
)

func chainCompiles(g *gg.Graph, autoKeys bool) (bool, string) {
	if len(g.Stages) == 0 {
		return false, "no stage"
	}
	seen := map[uint64]bool{gg.START: true, gg.END: true}
	multi := false
	for _, st := range g.Stages {
		for _, sn := range st.Nodes {
			if seen[sn.Key] && !autoKeys {
				return false, "node key used twice"
			}
			seen[sn.Key] = true
		}
		switch st.Kind {
		case "node":
			multi = false
		case "par":
			if multi {
				return false, "parallel after several previous nodes"
			}
			if len(st.Nodes) < 2 {
				return false, "parallel with fewer than 2 nodes"
			}
			ok := map[uint64]bool{}
			for _, sn := range st.Nodes {
				if ok[sn.OutKey] {
					return false, "parallel with one output key twice"
				}
				ok[sn.OutKey] = true
			}
			multi = true
		case "branch":
			if multi {
				return false, "branch after several previous nodes"
			}
			if len(st.Nodes) < 2 {
				return false, "branch with fewer than 2 nodes"
			}
			bk := map[uint64]bool{}
			for _, sn := range st.Nodes {
				if bk[sn.Key] {
					return false, "branch key used twice"
				}
				bk[sn.Key] = true
			}
			multi = true
		}
	}
	return true, ""
}

// reachable: the forest entries the root reaches through sub-graph nodes, in the order they are met (an entry
// no node refers to is never built: the generators leave such entries behind when they turn a sub-graph node
// into a lambda, and so does the shrinker)
func reachable(c *gg.Case) []int {
	var out []int
	seen := map[int]bool{}
	var walk func(idx int)
	walk = func(idx int) {
		if idx < 0 || idx >= len(c.Forest) || seen[idx] {
			return
		}
		seen[idx] = true
		out = append(out, idx)
		g := &c.Forest[idx]
		for _, st := range g.Stages {
			for _, sn := range st.Nodes {
				if sn.Kind == "sub" {
					walk(sn.Sub)
				}
			}
		}
		for _, n := range g.Nodes {
			if n.Kind == "sub" {
				walk(n.Sub)
			}
		}
	}
	walk(0)
	return out
}

// forestCompiles: every chain the root reaches is accepted (graphs are well-formed by construction).
func forestCompiles(c *gg.Case, autoKeys bool) (bool, string) {
	for _, gi := range reachable(c) {
		if g := &c.Forest[gi]; g.Front == "chain" {
			if ok, why := chainCompiles(g, autoKeys); !ok {
				return false, why
			}
		}
	}
	return true, ""
}

// malformChain breaks one rule in one chain of the forest; returns what it did ("" = nothing applicable).
func malformChain(r *lib.Rng, c *c01case) string {
	var chains []int
	for _, gi := range reachable(&c.Case) {
		if c.Forest[gi].Front == "chain" {
			chains = append(chains, gi)
		}
	}
	if len(chains) == 0 {
		return ""
	}
	g := &c.Forest[chains[r.Intn(len(chains))]]
	maxKey := uint64(1)
	var nodeStages, parStages, multiStages []int
	total := 0
	for si, st := range g.Stages {
		for _, sn := range st.Nodes {
			total++
			if sn.Key > maxKey {
				maxKey = sn.Key
			}
		}
		switch st.Kind {
		case "node":
			nodeStages = append(nodeStages, si)
		case "par":
			parStages = append(parStages, si)
			multiStages = append(multiStages, si)
		case "branch":
			multiStages = append(multiStages, si)
		}
	}
	for try := 0; try < 8; try++ {
		switch r.Intn(6) {
		case 0:
			g.Stages = nil
			return "empty-chain"
		case 1:
			if len(nodeStages) > 0 {
				st := &g.Stages[nodeStages[r.Intn(len(nodeStages))]]
				st.Kind = "par"
				st.Nodes[0].OutKey = 1500
				return "parallel-of-one"
			}
		case 2:
			if len(nodeStages) > 0 {
				st := &g.Stages[nodeStages[r.Intn(len(nodeStages))]]
				st.Kind, st.Single = "branch", true
				st.Table = [][]uint64{{st.Nodes[0].Key}}
				st.Nodes[0].OutKey = 0
				return "branch-of-one"
			}
		case 3:
			if len(parStages) > 0 {
				st := &g.Stages[parStages[r.Intn(len(parStages))]]
				st.Nodes[len(st.Nodes)-1].OutKey = st.Nodes[0].OutKey
				return "parallel-duplicate-output-key"
			}
		case 4:
			// a Parallel right after a Parallel / Branch (if there is none: two new Parallels in front)
			asBranch := r.Chance(1, 2)
			mk := func(k uint64, ok uint64) gg.Stage {
				if asBranch {
					return gg.Stage{Kind: "branch", Single: true, Table: [][]uint64{{k}, {k + 1}}, Nodes: []gg.StageNode{
						{Key: k, Kind: "lambda"}, {Key: k + 1, Kind: "lambda"}}}
				}
				return gg.Stage{Kind: "par", Nodes: []gg.StageNode{
					{Key: k, Kind: "lambda", OutKey: ok}, {Key: k + 1, Kind: "lambda", OutKey: ok + 1}}}
			}
			if len(multiStages) > 0 {
				at := multiStages[r.Intn(len(multiStages))] + 1
				ns := append([]gg.Stage{}, g.Stages[:at]...)
				ns = append(ns, mk(maxKey+1, 1600))
				g.Stages = append(ns, g.Stages[at:]...)
			} else {
				g.Stages = append([]gg.Stage{mk(maxKey+1, 1600), mk(maxKey+3, 1602)}, g.Stages...)
			}
			if asBranch {
				return "branch-after-several-nodes"
			}
			return "parallel-after-several-nodes"
		case 5:
			if total >= 2 && !c.AutoKeys {
				// the last node of the chain takes the key of the first
				first := g.Stages[0].Nodes[0].Key
				ls := &g.Stages[len(g.Stages)-1]
				if len(g.Stages) == 1 && len(ls.Nodes) < 2 {
					continue
				}
				ls.Nodes[len(ls.Nodes)-1].Key = first
				return "node-key-twice"
			}
		}
	}
	return ""
}
