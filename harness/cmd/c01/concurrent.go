// Concurrent phase of the C01 engine: the statement of C01 is about every run; runs of one compiled graph
// that overlap in time must each follow the superstep semantics of their own input (routing state must not
// leak between runs). For some cases the compiled runnable is therefore also invoked from several
// goroutines on input variants of different sizes (so that branch conditions choose differently), and every
// result is compared with the oracle's evaluation of that input (cases outside the oracle's scope are skipped).
package main

import (
	"context"
	"fmt"
	"io"
	"runtime"
	"strings"
	"sync"
	"sync/atomic"

	gg "verif/harness/graphgen"
	"verif/harness/lib"
)

// genFanout: an any-predecessor graph around a hub (START or a node) with several plain edges AND a branch.
func genFanout(r *lib.Rng) *gg.Case {
	plain := []int{3, 3, 5, 6, 7, 2, 4}[r.Intn(7)]
	if r.Chance(1, 4) {
		// a wide hub (round 5): the more a compiled graph has to set up for a run, the longer two runs that start
		// together can get into each other's way (first-calls phase)
		plain = []int{10, 16, 24}[r.Intn(3)]
	}
	nb := r.Range(2, 3) // branch targets
	hubIsStart := r.Chance(1, 3)
	next := uint64(2)
	nodes := []gg.Node{{Key: gg.START, Kind: "start"}}
	hub := 0
	if !hubIsStart {
		nodes = append(nodes, gg.Node{Key: next, Kind: "lambda"})
		nodes[0].DSucc = []uint64{next}
		hub = 1
		next++
	}
	var leaves, targets []uint64
	for i := 0; i < plain; i++ {
		nodes = append(nodes, gg.Node{Key: next, Kind: "lambda", DSucc: []uint64{gg.END}})
		leaves = append(leaves, next)
		next++
	}
	for i := 0; i < nb; i++ {
		nodes = append(nodes, gg.Node{Key: next, Kind: "lambda", DSucc: []uint64{gg.END}})
		targets = append(targets, next)
		next++
	}
	if r.Chance(1, 3) { // a branch target that is also a plain successor
		targets[0] = leaves[r.Intn(len(leaves))]
	}
	single := r.Chance(1, 2)
	rows := r.Range(2, 4)
	table := make([][]uint64, rows)
	for i := range table {
		if single {
			table[i] = []uint64{targets[(i+r.Intn(2))%len(targets)]}
			continue
		}
		row := []uint64{}
		for _, t := range targets {
			if r.Chance(1, 2) {
				row = append(row, t)
			}
		}
		table[i] = row
	}
	ends := append([]uint64{}, targets...)
	// Ends must be sorted and distinct
	for i := 0; i < len(ends); i++ {
		for j := i + 1; j < len(ends); j++ {
			if ends[j] < ends[i] {
				ends[i], ends[j] = ends[j], ends[i]
			}
		}
	}
	uniq := ends[:0]
	for i, e := range ends {
		if i == 0 || e != ends[i-1] {
			uniq = append(uniq, e)
		}
	}
	nodes[hub].DSucc = append(nodes[hub].DSucc, leaves...)
	nodes[hub].Branches = []gg.Branch{{Ends: uniq, Table: table, Single: single}}
	for i := range nodes {
		nodes[i].CSucc = append([]uint64{}, nodes[i].DSucc...)
	}
	c := &gg.Case{Forest: []gg.Graph{{Front: "graph", Mode: "pregel", Nodes: nodes}}}
	c.Input = gg.MapOf(gg.KV{Key: 900 + uint64(r.Intn(3)), V: gg.Atom(uint64(r.Intn(5)))})
	return c
}

// genEmptyFanin (round 6): values that are EMPTY meet at a fan-in. START hands the input (the nil map, the empty map
// or a small map) to 2-4 pass-through nodes, which hand it on unchanged to a join node (a lambda, a pass-through
// node or END itself); in half of the cases a lambda next to them contributes a non-empty value. The merge of
// empty values is a value (the empty map): the join node runs once on it, and a nil map among the values
// contributes nothing but is not "no value".
func genEmptyFanin(r *lib.Rng) *gg.Case {
	k := r.Range(2, 4)
	next := uint64(2)
	nodes := []gg.Node{{Key: gg.START, Kind: "start"}}
	join := uint64(gg.END)
	joinKind := ""
	switch r.Intn(3) {
	case 0:
		joinKind = "lambda"
	case 1:
		joinKind = "pass"
	}
	var senders []int
	for i := 0; i < k; i++ {
		nodes = append(nodes, gg.Node{Key: next, Kind: "pass"})
		nodes[0].DSucc = append(nodes[0].DSucc, next)
		senders = append(senders, len(nodes)-1)
		next++
	}
	if r.Chance(1, 2) {
		nodes = append(nodes, gg.Node{Key: next, Kind: "lambda"})
		nodes[0].DSucc = append(nodes[0].DSucc, next)
		senders = append(senders, len(nodes)-1)
		next++
	}
	if joinKind != "" {
		join = next
		next++
	}
	for _, i := range senders {
		nodes[i].DSucc = []uint64{join}
	}
	if joinKind != "" {
		j := gg.Node{Key: join, Kind: joinKind, DSucc: []uint64{gg.END}}
		if r.Chance(1, 2) {
			// the join node decides on the size of the merge: a lambda behind a branch, or END at once
			j.DSucc = nil
			j.Branches = []gg.Branch{{Ends: []uint64{gg.END, next}, Table: [][]uint64{{next}, {gg.END}, {gg.END, next}}}}
			nodes = append(nodes, j, gg.Node{Key: next, Kind: "lambda", DSucc: []uint64{gg.END}})
		} else {
			nodes = append(nodes, j)
		}
	}
	for i := range nodes {
		nodes[i].CSucc = append([]uint64{}, nodes[i].DSucc...)
	}
	c := &gg.Case{Forest: []gg.Graph{{Front: "graph", Mode: "pregel", Nodes: nodes}}}
	switch r.Intn(3) {
	case 0:
		c.Input = gg.NilMap()
	case 1:
		c.Input = gg.MapOf()
	default:
		c.Input = gg.MapOf(gg.KV{Key: 900 + uint64(r.Intn(3)), V: gg.Atom(uint64(r.Intn(5)))})
	}
	return c
}

// wideHub: some node has >= 10 plain edges
func wideHub(c *gg.Case) bool {
	for gi := range c.Forest {
		for ni := range c.Forest[gi].Nodes {
			if len(c.Forest[gi].Nodes[ni].DSucc) >= 10 {
				return true
			}
		}
	}
	return false
}

// hubShape: some node of an any-predecessor graph has >= 3 plain edges and a branch
func hubShape(c *gg.Case) bool {
	for gi := range c.Forest {
		g := &c.Forest[gi]
		if g.Front != "graph" || g.Mode != "pregel" {
			continue
		}
		for ni := range g.Nodes {
			if len(g.Nodes[ni].DSucc) >= 3 && len(g.Nodes[ni].Branches) > 0 {
				return true
			}
		}
	}
	return false
}

func variant(in *gg.Val, j int) *gg.Val {
	if in.Kind != "map" {
		return in
	}
	kvs := append([]gg.KV{}, in.KVs...)
	for i := 0; i < j; i++ {
		kvs = append(kvs, gg.KV{Key: 990 + uint64(i), V: gg.Atom(uint64(i))})
	}
	return gg.MapOf(kvs...)
}

type expect struct {
	done    bool
	result  *gg.Val
	classes []uint64
}

func (e *expect) matches(o *gg.Obs) bool {
	if e.done {
		return o.Class == "done" && e.result.Equal(o.Result)
	}
	if o.Class != "fail" {
		return false
	}
	for _, c := range e.classes {
		if c == o.ErrClass {
			return true
		}
	}
	return false
}

func (e *expect) String() string {
	if e.done {
		return e.result.String()
	}
	return fmt.Sprintf("failure of class %v", e.classes)
}

// concurrentPhase returns ("", "") or an oracle failure.
func concurrentPhase(c *gg.Case, goroutines, perG int) (string, string) {
	ctx := context.Background()
	var bt *gg.Built
	var berr error
	if p := lib.Recover(func() { bt, berr = gg.Build(ctx, c, gg.BuildOpts{}) }); p != nil || berr != nil {
		return "", "" // the sequential run already reported build problems
	}
	const nv = 4
	var inputs [nv]*gg.Val
	var want [nv]*expect
	for j := 0; j < nv; j++ {
		inputs[j] = variant(c.Input, j)
		s := &spec{c: &gg.Case{Forest: c.Forest, Input: inputs[j], Fails: c.Fails}}
		out, f := s.runGraph(0, nil, inputs[j])
		switch {
		case s.unsup:
			// outside the oracle's scope (an all-predecessor graph or a workflow somewhere): when several tasks
			// of one step fail, which error is reported depends on completion order, and a reference run shows
			// only one of the candidates -- no verdict
			return "", ""
		case f == nil:
			want[j] = &expect{done: true, result: out}
		default:
			want[j] = &expect{classes: f.classes}
		}
	}
	var streamOK [nv]bool
	for j := range want {
		streamOK[j] = streamable(c) && inputs[j].Kind == "map"
		for _, cl := range want[j].classes {
			if cl == clDup || cl == clType {
				streamOK[j] = false // a stream fan-in has no duplicated-key check (F-C04): not comparable
			}
		}
	}
	var mu sync.Mutex
	var bad string
	var wg sync.WaitGroup
	for gi := 0; gi < goroutines; gi++ {
		wg.Add(1)
		go func(gi int) {
			defer wg.Done()
			for k := 0; k < perG; k++ {
				j := (gi + k) % nv
				var out gg.M
				var err error
				// round 6: one goroutine in four calls through Stream (overlapping runs of both forms on one compiled object)
				viaStream := goroutines > 1 && gi%4 == 3 && streamOK[j]
				p := lib.Recover(func() {
					if viaStream {
						out, err = leanStream(ctx, bt, inputs[j].ToGo().(gg.M))
					} else {
						out, err = bt.R.Invoke(ctx, inputs[j].ToGo().(gg.M))
					}
				})
				o := &gg.Obs{}
				switch {
				case p != nil:
					o.Class, o.ErrMsg = "panic", fmt.Sprint(p)
				case err != nil:
					o.Class, o.ErrClass, o.ErrMsg = "fail", gg.ClassifyErr(err), err.Error()
				default:
					o.Class, o.Result = "done", gg.FromGo(out)
				}
				if !want[j].matches(o) {
					mu.Lock()
					if bad == "" {
						got := o.ErrMsg
						if o.Class == "done" {
							got = o.Result.String()
						}
						how := ""
						if viaStream {
							how = " (through Stream)"
						}
						bad = fmt.Sprintf("a run on input %s%s that overlapped with other runs of the same compiled graph gave %s (%s); the superstep semantics of that input gives %s",
							inputs[j].String(), how, o.Class, got, want[j].String())
					}
					mu.Unlock()
					return
				}
				mu.Lock()
				stop := bad != ""
				mu.Unlock()
				if stop {
					return
				}
			}
		}(gi)
	}
	wg.Wait()
	if bt.Rec.IsUnbounded() {
		sig := "c01:concurrent"
		if goroutines == 1 {
			sig = "c01:rerun"
		}
		return "in a further run of the same compiled graph " + gg.UnboundedMsg, sig
	}
	if bt.Rec.Over { // all goroutines of the phase have finished (wg)
		return "", "" // a value outgrew the size budget of the harness lambdas: no verdict
	}
	if bad != "" {
		if goroutines == 1 {
			// one goroutine: the runs follow each other (what an earlier run leaves behind in the compiled object)
			return strings.Replace(bad, "that overlapped with other runs of", "that followed other runs of", 1), "c01:rerun"
		}
		return bad, "c01:concurrent"
	}
	return "", ""
}

// expectations: what the superstep semantics gives for the nv input variants (ok = false: outside the oracle's scope)
func expectations(c *gg.Case, nv int) ([]*gg.Val, []*expect, bool) {
	inputs := make([]*gg.Val, nv)
	want := make([]*expect, nv)
	for j := 0; j < nv; j++ {
		inputs[j] = variant(c.Input, j)
		s := &spec{c: &gg.Case{Forest: c.Forest, Input: inputs[j], Fails: c.Fails}}
		out, f := s.runGraph(0, nil, inputs[j])
		switch {
		case s.unsup:
			return nil, nil, false
		case f == nil:
			want[j] = &expect{done: true, result: out}
		default:
			want[j] = &expect{classes: f.classes}
		}
	}
	return inputs, want, true
}

// firstCallsPhase (round 5): the statement of C01 is about every run, the FIRST runs of a freshly compiled graph
// included. Whatever a compiled object sets up lazily at its first run must not be seen half-done by a run that
// starts at the same moment. `rounds` times the case is built and compiled anew and `goroutines` goroutines,
// released together by a spinning barrier, make the first calls at once (two each, on input variants of
// different sizes); every result is compared with the oracle's evaluation of that input.
var stagger = []int{0, 40, 150, 400}

func firstCallsPhase(c *gg.Case, rounds, goroutines int) (string, string) {
	ctx := context.Background()
	const nv = 4
	inputs, want, ok := expectations(c, nv)
	if !ok {
		return "", ""
	}
	var streamOK [nv]bool
	for j := range want {
		streamOK[j] = streamable(c) && inputs[j].Kind == "map"
		for _, cl := range want[j].classes {
			if cl == clDup || cl == clType {
				streamOK[j] = false
			}
		}
	}
	var mu sync.Mutex
	var bad string
	for r := 0; r < rounds && bad == ""; r++ {
		var bt *gg.Built
		var berr error
		if p := lib.Recover(func() { bt, berr = gg.Build(ctx, c, gg.BuildOpts{}) }); p != nil || berr != nil {
			return "", "" // the sequential run already reported build problems
		}
		var ready, gate int32
		var wg sync.WaitGroup
		for gi := 0; gi < goroutines; gi++ {
			wg.Add(1)
			go func(gi int) {
				defer wg.Done()
				ins := [2]gg.M{inputs[(gi+r)%nv].ToGo().(gg.M), inputs[(gi+r+1)%nv].ToGo().(gg.M)}
				atomic.AddInt32(&ready, 1)
				for spins := 0; atomic.LoadInt32(&gate) == 0; spins++ {
					if spins > 200 {
						runtime_Gosched()
					}
				}
				// round 0, 4, 8, ...: all at once; otherwise staggered by a few hundred nanoseconds per goroutine, so
				// that a late starter meets the first one in the middle of whatever the first run sets up
				for d := 0; d < gi*stagger[r%len(stagger)]; d++ {
					atomic.LoadInt32(&gate)
				}
				for k := 0; k < 2; k++ {
					j := (gi + r + k) % nv
					var out gg.M
					var err error
					// round 6: every other goroutine makes its first calls through Stream (what the stream form of a run sets
					// up lazily must not be seen half-done either), unless the value form of that input fails at a fan-in (not
					// comparable in stream mode, F-C04)
					viaStream := gi%2 == 1 && streamOK[j]
					p := lib.Recover(func() {
						if viaStream {
							out, err = leanStream(ctx, bt, ins[k])
						} else {
							out, err = bt.R.Invoke(ctx, ins[k])
						}
					})
					o := &gg.Obs{}
					switch {
					case p != nil:
						o.Class, o.ErrMsg = "panic", fmt.Sprint(p)
					case err != nil:
						o.Class, o.ErrClass, o.ErrMsg = "fail", gg.ClassifyErr(err), err.Error()
					default:
						o.Class, o.Result = "done", gg.FromGo(out)
					}
					if !want[j].matches(o) {
						mu.Lock()
						if bad == "" {
							got := o.ErrMsg
							if o.Class == "done" {
								got = o.Result.String()
							}
							if len(got) > 300 {
								got = got[:300] + "..."
							}
							how := "Invoke"
							if viaStream {
								how = "Stream"
							}
							bad = fmt.Sprintf("one of the FIRST runs of a freshly compiled graph (through %s), started together with %d others, on input %s gave %s (%s); the superstep semantics of that input gives %s",
								how, goroutines-1, inputs[j].String(), o.Class, got, want[j].String())
						}
						mu.Unlock()
						return
					}
				}
			}(gi)
		}
		for spins := 0; atomic.LoadInt32(&ready) < int32(goroutines); spins++ {
			if spins > 200 {
				runtime_Gosched()
			}
		}
		atomic.StoreInt32(&gate, 1)
		wg.Wait()
		if bt.Rec.IsUnbounded() {
			return "in one of the first runs of a freshly compiled graph " + gg.UnboundedMsg, "c01:first-calls"
		}
		if bt.Rec.Over {
			return "", "" // a value outgrew the size budget of the harness lambdas: no verdict
		}
	}
	if bad != "" {
		return bad, "c01:first-calls"
	}
	return "", ""
}

func runtime_Gosched() { runtime.Gosched() }

// leanStream: Runnable.Stream and the concatenation of its chunks, without the watchdog and the settle period of
// invokeEntry (which counts goroutines and cannot be used while other runs are going on)
func leanStream(ctx context.Context, bt *gg.Built, in gg.M) (gg.M, error) {
	sr, err := bt.R.Stream(ctx, in)
	if err != nil {
		return nil, err
	}
	defer sr.Close()
	var chunks []gg.M
	for {
		ch, err := sr.Recv()
		if err == io.EOF {
			break
		}
		if err != nil {
			return nil, err
		}
		chunks = append(chunks, ch)
	}
	return concatChunks(chunks)
}
