// A run continued from a checkpoint (round 7).
//
// The superstep clause of C01 — every node that was sent at least one value in a step runs exactly once in the
// next step on the merge of exactly those values, and the run returns what END receives first — holds for a run
// of an any-predecessor graph whether or not it was suspended between two of its steps. The other phases only
// make runs that go from START to END in one call, where a channel can hold a value only if it was written in
// the step that is being computed. Here one root-level node asks for compose.InterruptAndRerun at one of its
// executions while its siblings of the same superstep complete: their answers are then already sitting in the
// channels of their successors when the checkpoint is written, and the run resumed from that checkpoint must
// still run those successors (once, on exactly those values) together with the successors of the rerun node.
// The reference is the case's own uninterrupted run (which the oracle and the model have already judged):
// same result at END, same multiset of (node, input) executions. Whether the checkpoint round-trips values,
// which nodes are reported, state, nested checkpoints etc. is C05 / C06 / C12; nothing of that is compared here.
package main

import (
	"context"
	"fmt"
	"sort"
	"strings"
	"sync"

	"github.com/cloudwego/eino/compose"

	gg "verif/harness/graphgen"
	"verif/harness/lib"
)

type c01MemStore struct {
	mu sync.Mutex
	m  map[string][]byte
}

func (s *c01MemStore) Get(_ context.Context, id string) ([]byte, bool, error) {
	s.mu.Lock()
	defer s.mu.Unlock()
	v, ok := s.m[id]
	return v, ok, nil
}

func (s *c01MemStore) Set(_ context.Context, id string, cp []byte) error {
	s.mu.Lock()
	defer s.mu.Unlock()
	s.m[id] = append([]byte(nil), cp...)
	return nil
}

type c01ResumePoint struct {
	path []uint64
	occ  int // the occ-th execution of the node (1-based) asks for the rerun
}

func c01PathStr(p []uint64) string {
	parts := make([]string, len(p))
	for i, k := range p {
		parts[i] = gg.KeyStr(k)
	}
	return strings.Join(parts, "/")
}

func c01LogMultiset(log []gg.Event) []string {
	out := make([]string, len(log))
	for i, e := range log {
		out[i] = c01PathStr(e.Path) + "<" + e.In.String() + ">"
	}
	sort.Strings(out)
	return out
}

// c01MultisetDiff: the entries of a that are missing from b (both sorted, with multiplicity)
func c01MultisetDiff(a, b []string) []string {
	cnt := map[string]int{}
	for _, x := range b {
		cnt[x]++
	}
	var d []string
	for _, x := range a {
		if cnt[x] > 0 {
			cnt[x]--
		} else {
			d = append(d, x)
		}
	}
	return d
}

// resumePoints: up to max (node, execution) pairs of the uninterrupted run: the first execution of the distinct
// lambdas (root level first, then those inside nested graphs: the nested graph is then the one that is suspended
// and continued from the checkpoint its parent keeps for it), then second executions (cycles).
func resumePoints(obs *gg.Obs, max int) []c01ResumePoint {
	seen := map[string]int{}
	var first, nested, later []c01ResumePoint
	for _, e := range obs.Log {
		k := c01PathStr(e.Path)
		seen[k]++
		switch {
		case seen[k] == 1 && len(e.Path) == 1:
			first = append(first, c01ResumePoint{path: e.Path, occ: 1})
		case seen[k] == 1:
			nested = append(nested, c01ResumePoint{path: e.Path, occ: 1})
		case seen[k] == 2:
			later = append(later, c01ResumePoint{path: e.Path, occ: 2})
		}
	}
	var pts []c01ResumePoint
	// early supersteps have the most siblings: two root-level points first, then alternate
	for len(pts) < max && len(first)+len(nested)+len(later) > 0 {
		for _, l := range []*[]c01ResumePoint{&first, &first, &nested, &later} {
			if len(*l) > 0 && len(pts) < max {
				pts = append(pts, (*l)[0])
				*l = (*l)[1:]
			}
		}
	}
	return pts
}

// resumePhase: the case's run, interrupted once at each of a few points and resumed, against its uninterrupted run.
func resumePhase(cc *c01case, obs *gg.Obs) (oracle, sig string, tried, nested int) {
	if obs.Class != "done" || obs.Result == nil {
		return "", "", 0, 0
	}
	ctx := context.Background()
	wantLog := c01LogMultiset(obs.Log)
	var copts []compose.Option
	for _, o := range cc.rtOpts() {
		copts = append(copts, compose.WithRuntimeMaxSteps(o))
	}
	for pi, pt := range resumePoints(obs, 5) {
		pt := pt
		var mu sync.Mutex
		logical, pending, asked := 0, false, false
		var saved gg.M
		bo := gg.BuildOpts{
			AutoChainKeys:   cc.AutoKeys,
			StreamConds:     cc.StreamConds,
			PipeLambdas:     cc.PipeLambdas,
			RootCompileOpts: []compose.GraphCompileOption{compose.WithCheckPointStore(&c01MemStore{m: map[string][]byte{}})},
			Wrap: func(path []uint64, body gg.Body) gg.Body {
				if c01PathStr(path) != c01PathStr(pt.path) {
					return body
				}
				return func(ctx context.Context, in gg.M) (gg.M, error) {
					mu.Lock()
					if pending {
						// the rerun: eino hands a rerun node the zero value; the node goes on with the input it was given
						pending = false
						in = saved
						mu.Unlock()
						return body(ctx, in)
					}
					logical++
					if logical == pt.occ && !asked {
						asked, pending, saved = true, true, in
						mu.Unlock()
						return nil, compose.InterruptAndRerun
					}
					mu.Unlock()
					return body(ctx, in)
				}
			},
		}
		var bt *gg.Built
		var berr error
		if p := lib.Recover(func() { bt, berr = gg.Build(ctx, &cc.Case, bo) }); p != nil || berr != nil {
			return "", "", tried, nested // compiling with a checkpoint store is not C01's subject
		}
		cpID := fmt.Sprintf("c01-resume-%d", pi)
		ro := gg.RunOpts{CallOpts: append(append([]compose.Option{}, copts...), compose.WithCheckPointID(cpID))}
		interrupted := false
		var intErr error
		first := c01InvokeErr(ctx, bt, cc.Input, ro, &intErr)
		if first.Class == "fail" && intErr != nil {
			_, interrupted = compose.ExtractInterruptInfo(intErr)
		}
		mu.Lock()
		didAsk := asked
		mu.Unlock()
		if !interrupted || !didAsk {
			continue // the node did not get to ask (or the interrupt was not reported): no verdict here (C06)
		}
		tried++
		if len(pt.path) > 1 {
			nested++
		}
		o := gg.Invoke(ctx, bt, cc.Input, ro)
		if o.Class == "budget" || o.Class == "hang" || o.Class == "panic" {
			continue // slow machine / a panic in the checkpoint machinery: not this clause
		}
		if o.Class == "fail" && strings.Contains(o.ErrMsg, "interrupt") {
			continue // interrupted again: not this clause
		}
		gotLog := c01LogMultiset(o.Log)
		sameLog := len(gotLog) == len(wantLog)
		for i := 0; sameLog && i < len(gotLog); i++ {
			sameLog = gotLog[i] == wantLog[i]
		}
		if o.Class == "done" && o.Result != nil && o.Result.String() == obs.Result.String() && sameLog {
			continue
		}
		got := o.ErrMsg
		if o.Class == "done" && o.Result != nil {
			got = o.Result.String()
		}
		if len(got) > 300 {
			got = got[:300] + "..."
		}
		want := obs.Result.String()
		if len(want) > 300 {
			want = want[:300] + "..."
		}
		missing := c01MultisetDiff(wantLog, gotLog)
		extra := c01MultisetDiff(gotLog, wantLog)
		clip := func(xs []string) string {
			s := strings.Join(xs, " ")
			if len(s) > 300 {
				s = s[:300] + "..."
			}
			if s == "" {
				s = "none"
			}
			return s
		}
		return fmt.Sprintf("node %s asked for InterruptAndRerun at its execution %d while the other nodes of that superstep completed; the run resumed from the checkpoint gave %s (%s), the uninterrupted run of the same graph on the same input gave done (%s); sent a value but never run: %s; run without having been sent that value: %s",
			c01PathStr(pt.path), pt.occ, o.Class, got, want, clip(missing), clip(extra)), "c01:resume-superstep", tried, nested
	}
	return "", "", tried, nested
}

// c01InvokeErr: gg.Invoke, keeping the error value of the call (Obs only has its text)
func c01InvokeErr(ctx context.Context, bt *gg.Built, input *gg.Val, o gg.RunOpts, errOut *error) *gg.Obs {
	inner := bt.R
	w := &c01ErrKeeper{Runnable: inner}
	b2 := &gg.Built{R: w, Rec: bt.Rec}
	obs := gg.Invoke(ctx, b2, input, o)
	w.mu.Lock()
	*errOut = w.err
	w.mu.Unlock()
	return obs
}

type c01ErrKeeper struct {
	compose.Runnable[gg.M, gg.M]
	mu  sync.Mutex
	err error
}

func (k *c01ErrKeeper) Invoke(ctx context.Context, in gg.M, opts ...compose.Option) (gg.M, error) {
	out, err := k.Runnable.Invoke(ctx, in, opts...)
	k.mu.Lock()
	k.err = err
	k.mu.Unlock()
	return out, err
}
