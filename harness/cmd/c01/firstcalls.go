// The concurrent phases (overlapping runs, concurrent first runs) in a process of their own (round 5).
//
// A data race on state that a compiled object sets up lazily at its first run (maps filled by the first run and
// read by a run that starts at the same moment) mostly ends in a FATAL error of the Go runtime ("concurrent map
// read and map write"), which cannot be recovered and would take the whole harness down. The first-calls phase
// (firstCallsPhase, concurrent.go) therefore runs in a child process: the same binary started with
// --c01-first-calls answers requests {case, rounds, goroutines} read from stdin, one per line, with {oracle, sig};
// it is started once per harness run and again after it died; when it dies on a case, the first line of its fatal
// error is the observation of that case.
package main

import (
	"bufio"
	"bytes"
	"encoding/json"
	"fmt"
	"io"
	"os"
	"os/exec"
	"strings"
	"sync"
	"time"

	gg "verif/harness/graphgen"
)

type firstCallsReq struct {
	Phase      string   `json:"phase"` // "first-calls" (Rounds fresh compiles x Goroutines) | "concurrent" (Goroutines x Rounds runs each)
	Case       *gg.Case `json:"case"`
	Rounds     int      `json:"rounds"`
	Goroutines int      `json:"goroutines"`
	NilInput   bool     `json:"nil_input,omitempty"` // the input is the nil map ("input": null leaves the pointer nil)
}

type firstCallsRes struct {
	Oracle string `json:"oracle"`
	Sig    string `json:"sig"`
}

const firstCallsFlag = "--c01-first-calls"

// firstCallsChild: the child side: one request per line on stdin, one answer per line on stdout; never returns
func firstCallsChild() {
	in := bufio.NewReaderSize(os.Stdin, 1<<20)
	out := json.NewEncoder(os.Stdout)
	for {
		line, err := in.ReadBytes('\n')
		if len(line) > 0 {
			var req firstCallsReq
			jerr := json.Unmarshal(line, &req)
			if jerr == nil && req.Case != nil && req.NilInput {
				req.Case.Input = gg.NilMap()
			}
			if jerr != nil || req.Case == nil || req.Case.Input == nil {
				_ = out.Encode(firstCallsRes{})
			} else {
				var o, sig string
				if req.Phase == "concurrent" {
					o, sig = concurrentPhase(req.Case, req.Goroutines, req.Rounds)
				} else {
					o, sig = firstCallsPhase(req.Case, req.Rounds, req.Goroutines)
				}
				_ = out.Encode(firstCallsRes{Oracle: o, Sig: sig})
			}
		}
		if err != nil {
			os.Exit(0)
		}
	}
}

// the child process, started at the first request and again after it died
type firstCallsProc struct {
	cmd    *exec.Cmd
	stdin  io.WriteCloser
	stdout *bufio.Reader
	stderr *bytes.Buffer
}

var (
	fcMu   sync.Mutex
	fcProc *firstCallsProc
)

func fcStart() *firstCallsProc {
	exe, err := os.Executable()
	if err != nil {
		return nil
	}
	cmd := exec.Command(exe, firstCallsFlag)
	stdin, err1 := cmd.StdinPipe()
	stdout, err2 := cmd.StdoutPipe()
	if err1 != nil || err2 != nil {
		return nil
	}
	p := &firstCallsProc{cmd: cmd, stdin: stdin, stdout: bufio.NewReaderSize(stdout, 1<<20), stderr: &bytes.Buffer{}}
	cmd.Stderr = p.stderr
	if cmd.Start() != nil {
		return nil
	}
	return p
}

func (p *firstCallsProc) stop() {
	_ = p.stdin.Close()
	_ = p.cmd.Process.Kill()
	_ = p.cmd.Wait()
}

// firstCallsIsolated: the parent side. ("", "") = nothing to report (also when the child could not be started or
// ran out of time on a loaded machine: slowness is never an alarm).
func firstCallsIsolated(c *gg.Case, rounds, goroutines int) (string, string) {
	return isolated("first-calls", c, rounds, goroutines)
}

// concurrentIsolated: the overlapping runs of concurrent.go (goroutines x perG Invokes of one compiled runnable), in
// the child process for the same reason
func concurrentIsolated(c *gg.Case, goroutines, perG int) (string, string) {
	return isolated("concurrent", c, perG, goroutines)
}

func isolated(phase string, c *gg.Case, rounds, goroutines int) (string, string) {
	fcMu.Lock()
	defer fcMu.Unlock()
	req, err := json.Marshal(firstCallsReq{Phase: phase, Case: c, Rounds: rounds, Goroutines: goroutines,
		NilInput: c.Input != nil && c.Input.Kind == "nil"})
	if err != nil {
		return "", ""
	}
	if fcProc == nil {
		if fcProc = fcStart(); fcProc == nil {
			return "", ""
		}
	}
	p := fcProc
	if _, err := p.stdin.Write(append(req, '\n')); err != nil {
		p.stop()
		fcProc = nil
		return "", ""
	}
	type answer struct {
		line []byte
		err  error
	}
	ch := make(chan answer, 1)
	go func() {
		line, err := p.stdout.ReadBytes('\n')
		ch <- answer{line, err}
	}()
	select {
	case a := <-ch:
		if a.err == nil {
			var res firstCallsRes
			if json.Unmarshal(a.line, &res) != nil {
				return "", ""
			}
			return res.Oracle, res.Sig
		}
	case <-time.After(90 * time.Second):
		p.stop()
		fcProc = nil
		return "", "" // out of time: no verdict
	}
	// the child died while it worked on this case: a fatal error of the Go runtime, or a panic outside every recover
	_ = p.cmd.Wait()
	fcProc = nil
	msg := ""
	for _, line := range strings.Split(p.stderr.String(), "\n") {
		if strings.HasPrefix(line, "fatal error:") || strings.HasPrefix(line, "panic:") {
			msg = strings.TrimSpace(line)
			break
		}
	}
	if msg == "" {
		return "", "" // killed from outside, or out of memory: not an observation about eino
	}
	if phase == "concurrent" {
		return fmt.Sprintf("the process that ran one compiled graph from %d goroutines at once was killed: %s (a run must not depend on what another run of the same compiled graph is doing)",
			goroutines, msg), "c01:concurrent"
	}
	return fmt.Sprintf("the process that made the FIRST runs of a freshly compiled graph from %d goroutines at once was killed: %s (a run must not depend on what another run of the same compiled graph is doing)",
		goroutines, msg), "c01:first-calls"
}
