// Engine C01 — any-predecessor (Pregel) runs: lock-step supersteps, termination, chain = composition.
// Thin engine over verif/harness/graphgen.
package main

import (
	"encoding/json"
	"fmt"

	"github.com/cloudwego/eino/compose"

	gg "verif/harness/graphgen"
	"verif/harness/lib"
)

// c01case: a graphgen case, optionally invoked with compose.WithRuntimeMaxSteps(RtMax). An Option that carries
// only the step limit is not handed on to nested graphs (extractOption skips options without component
// options), so it replaces the compile-time limit of the ROOT graph only.
type c01case struct {
	gg.Case
	RtMax int `json:"rtmax,omitempty"`
}

// effective: the case the model and the oracle see (the root's limit replaced by the runtime one)
func (c *c01case) effective() *gg.Case {
	if c.RtMax <= 0 {
		return &c.Case
	}
	e := gg.Case{Input: c.Input, Fails: c.Fails, Forest: make([]gg.Graph, len(c.Forest))}
	copy(e.Forest, c.Forest)
	e.Forest[0].Max = c.RtMax
	return &e
}

type engine struct{}

func (engine) ID() string { return "C01" }
func (engine) CoqHeader() string {
	return "From Eino Require Import Base.Util Model.Graph Model.Chain Model.GraphCmp Corr.C01.\nOpen Scope N_scope.\n"
}
func (engine) CoqCaseType() string { return "ccase" }

func (engine) Generate(r *lib.Rng, tier string, i int) any {
	c := &c01case{Case: *generate(r, tier)}
	if r.Chance(1, 8) {
		c.RtMax = r.Range(1, 9)
	}
	return c
}

func generate(r *lib.Rng, tier string) *gg.Case {
	o := gg.Quick()
	if tier == "thorough" {
		o = gg.Thorough()
	}
	switch x := r.Intn(21); {
	case x == 20:
		return genFanout(r)
	case x < 12:
		return gg.GenPregel(r, o)
	case x < 14:
		o.NoCycles = true
		return gg.GenPregel(r, o)
	default:
		return gg.GenChain(r, o)
	}
}

func (engine) Decode(raw json.RawMessage) (any, error) {
	var c c01case
	if err := json.Unmarshal(raw, &c); err != nil {
		return nil, err
	}
	if len(c.Forest) == 0 || c.Input == nil {
		return nil, fmt.Errorf("case needs forest and input")
	}
	return &c, nil
}

func (engine) Run(c any) lib.Result {
	cc := c.(*c01case)
	ro := gg.RunOpts{}
	if cc.RtMax > 0 {
		ro.CallOpts = []compose.Option{compose.WithRuntimeMaxSteps(cc.RtMax)}
	}
	obs := gg.Run(&cc.Case, ro)
	cs := cc.effective()
	res := lib.Result{Obs: obs, Tags: gg.Tags(cs, obs)}
	if cc.RtMax > 0 {
		res.Tags = append(res.Tags, "limit:runtime-option")
	}
	if obs.Class == "compile" {
		// every generated / recorded case is well-formed by construction (distinct keys, declared end nodes, a
		// Parallel/Branch stage after a single node): a graph or chain that does not compile cannot be run at all
		res.Tags = append(res.Tags, "not-in-model:compile")
		res.Oracle, res.Sig = "a well-formed graph/chain was rejected by Compile: "+obs.ErrMsg, "c01:compile"
		return res
	}
	if obs.Class == "budget" {
		res.Tags = append(res.Tags, "not-in-model:budget")
		return res
	}
	res.CoqTerm = cs.CoqCase(obs)
	res.Oracle, res.Sig = oraclePregel(cs, obs)
	if res.Oracle == "" && obs.Class != "hang" && obs.Class != "panic" && cc.RtMax == 0 {
		// overlapping runs of the same compiled graph (see concurrent.go)
		switch {
		case hubShape(cs):
			res.Oracle, res.Sig = concurrentPhase(cs, 8, 150)
			res.Tags = append(res.Tags, "concurrent:8x150")
		case (len(obs.Log)+len(cs.Forest))%8 == 0:
			res.Oracle, res.Sig = concurrentPhase(cs, 4, 25)
			res.Tags = append(res.Tags, "concurrent:4x25")
		}
	}
	res.Nontrivial = gg.Nontrivial(cs, obs)
	return res
}

func main() { lib.Main(engine{}) }
