// Engine C01 — any-predecessor (Pregel) runs: lock-step supersteps, termination, chain = composition.
// Thin engine over verif/harness/graphgen.
package main

import (
	"context"
	"encoding/json"
	"fmt"
	"os"
	"time"

	"github.com/cloudwego/eino/compose"

	gg "verif/harness/graphgen"
	"verif/harness/lib"
)

// c01case: a graphgen case, optionally invoked with compose.WithRuntimeMaxSteps(RtMax). An Option that carries
// only the step limit is not handed on to nested graphs (extractOption skips options without component
// options), so it replaces the compile-time limit of the ROOT graph only.
type c01case struct {
	gg.Case
	RtMax int `json:"rtmax,omitempty"`
	// RtOpts (round 5): ALL the WithRuntimeMaxSteps options of the call, in order (several, and non-positive
	// ones, are legal: the last positive one counts). Empty = [RtMax] when RtMax > 0. RtMax is always the effective
	// limit the Go oracle uses (recomputed from RtOpts by normRt); the model computes it from the list itself.
	RtOpts []int `json:"rtopts,omitempty"`
	// Entry: the public entry point of the root: "" (Invoke) | "stream" | "transform" | "collect" (see stream.go)
	Entry string `json:"entry,omitempty"`
	// AutoKeys: the chains of the forest are built without WithNodeKey (Chain generates the graph keys)
	AutoKeys bool `json:"autokeys,omitempty"`
	// Reuse: builder values (Lambda, Parallel, ChainBranch, GraphBranch) are shared with a twin construction of
	// the whole case (graphgen.BuildOpts.Reuse: 1 twin first, 2 twin before Compile, 3 twin after Compile, 4/5 the root is compiled twice and the first / second runnable is run)
	Reuse int `json:"reuse,omitempty"`
	// ExplicitMode: any-predecessor graphs are compiled with an explicit WithNodeTriggerMode(AnyPredecessor)
	ExplicitMode bool `json:"explicitmode,omitempty"`
	// StreamConds: branch conditions are built with the stream constructors (graphgen.BuildOpts.StreamConds)
	StreamConds bool `json:"streamconds,omitempty"`
	// PipeLambdas: the lambdas are Stream-native and emit real (pipe) streams of 1-2 chunks (graphgen.BuildOpts.PipeLambdas)
	PipeLambdas bool `json:"pipelambdas,omitempty"`
	// Malformed: which construction rule of a chain was broken on purpose ("" = none); informative only, the
	// verdict comes from chainCompiles / chain_compiles on the forest itself
	Malformed string `json:"malformed,omitempty"`
}

// coqTerm: the case as it was given to eino (the model applies the runtime limit itself: with_rtmax)
func (c *c01case) coqTerm(obs *gg.Obs) string {
	var opts []string
	for _, o := range c.rtOpts() {
		if o < 0 {
			o = 0 // a negative option is ignored like a zero one (`> 0` in runner.run)
		}
		opts = append(opts, lib.CoqNat(o))
	}
	return lib.CoqApp("mk_ccase", c.Case.CoqCase(obs), lib.CoqN(c.entryNo()), lib.CoqList(opts))
}

// rtOpts: the WithRuntimeMaxSteps options handed to the call, in order
func (c *c01case) rtOpts() []int {
	if len(c.RtOpts) > 0 {
		return c.RtOpts
	}
	if c.RtMax > 0 {
		return []int{c.RtMax}
	}
	return nil
}

// normRt: RtMax = the last positive option (what runner.run's loop over the call options leaves in maxSteps)
func (c *c01case) normRt() {
	if len(c.RtOpts) == 0 {
		return
	}
	c.RtMax = 0
	for _, o := range c.RtOpts {
		if o > 0 {
			c.RtMax = o
		}
	}
}

func (c *c01case) entryNo() uint64 {
	switch c.Entry {
	case "stream":
		return 1
	case "transform":
		return 2
	case "collect":
		return 3
	}
	return 0
}

// effective: the case the model and the oracle see (the root's limit replaced by the runtime one)
func (c *c01case) effective() *gg.Case {
	if c.RtMax <= 0 {
		return &c.Case
	}
	e := gg.Case{Input: c.Input, Fails: c.Fails, Forest: make([]gg.Graph, len(c.Forest))}
	copy(e.Forest, c.Forest)
	e.Forest[0].Max = c.RtMax
	return &e
}

type engine struct{}

func (engine) ID() string { return "C01" }
func (engine) CoqHeader() string {
	return "From Eino Require Import Base.Util Model.Graph Model.Chain Model.GraphCmp Corr.C01.\nOpen Scope N_scope.\n"
}
func (engine) CoqCaseType() string { return "ccase" }

func (engine) Generate(r *lib.Rng, tier string, i int) any {
	c := &c01case{Case: *generate(r, tier)}
	if r.Chance(1, 12) {
		corruptBranch(r, &c.Case)
	}
	if r.Chance(1, 5) {
		addOutKeys(r, &c.Case)
	}
	if r.Chance(1, 3) {
		widenBranches(r, &c.Case)
	}
	if r.Chance(1, 8) {
		c.RtMax = r.Range(1, 9)
		if r.Chance(1, 2) {
			// several options in one call: an earlier one that must lose, a trailing non-positive one that must not win
			c.RtOpts = []int{r.Range(1, 9), c.RtMax}
			if r.Chance(1, 2) {
				c.RtOpts = append(c.RtOpts, 0)
			}
			if r.Chance(1, 4) {
				c.RtOpts = append([]int{0}, c.RtOpts...)
			}
			c.normRt()
		}
	}
	if hasChain(&c.Case) && r.Chance(1, 3) {
		c.AutoKeys = true
	}
	if hasChain(&c.Case) && r.Chance(1, 6) {
		c.Malformed = malformChain(r, c)
	}
	if r.Chance(1, 4) {
		c.Reuse = r.Range(1, 5)
	}
	if r.Chance(1, 4) {
		c.ExplicitMode = true
	}
	if r.Chance(1, 3) {
		c.StreamConds = true
	}
	if r.Chance(1, 3) && streamable(&c.Case) {
		// only forests of any-predecessor graphs and chains: in all-predecessor graphs / Workflows nodes can run on
		// the zero value (a nil map), and a nil map does not survive being cut into chunks and concatenated
		c.PipeLambdas = true
	}
	if streamable(&c.Case) {
		switch x := r.Intn(8); {
		case x < 2:
			c.Entry = "stream"
		case x == 2:
			c.Entry = "transform"
		case x == 3:
			c.Entry = "collect"
		}
	}
	if c.Input.Kind == "nil" && (c.Entry != "" || c.PipeLambdas) {
		c.Input = gg.MapOf() // (genEmptyFanin) the nil map only through Invoke with Invoke-native lambdas, see below
	}
	if c.Entry == "" && !c.PipeLambdas && r.Chance(1, 30) {
		// the nil map as the input of the run (round 6; Invoke with Invoke-native lambdas only: a nil map does not
		// survive being cut into chunks and concatenated, which is C04's subject)
		c.Input = gg.NilMap()
	}
	return c
}

// corruptBranch: the malformed stream. One row of one branch table of an any-predecessor graph or chain is
// made to name a node that is not an end node of that branch (another node of the graph, or no node at all):
// when that row is selected the condition returns an "unintended end node" and the run must fail with the
// branch error (model: eBranch) instead of routing anywhere.
func corruptBranch(r *lib.Rng, c *gg.Case) {
	type site struct {
		table  *[][]uint64
		ends   []uint64
		single bool
		others []uint64
	}
	var sites []site
	for gi := range c.Forest {
		g := &c.Forest[gi]
		if g.Front == "chain" {
			var all []uint64
			for _, st := range g.Stages {
				for _, sn := range st.Nodes {
					all = append(all, sn.Key)
				}
			}
			for si := range g.Stages {
				st := &g.Stages[si]
				if st.Kind == "branch" && len(st.Table) > 0 {
					var ends []uint64
					for _, sn := range st.Nodes {
						ends = append(ends, sn.Key)
					}
					sites = append(sites, site{&st.Table, ends, st.Single, all})
				}
			}
			continue
		}
		if g.Mode != "pregel" {
			continue
		}
		var all []uint64
		for _, n := range g.Nodes {
			if n.Key != gg.START {
				all = append(all, n.Key)
			}
		}
		all = append(all, gg.END)
		for ni := range g.Nodes {
			for bi := range g.Nodes[ni].Branches {
				b := &g.Nodes[ni].Branches[bi]
				if len(b.Table) > 0 {
					sites = append(sites, site{&b.Table, b.Ends, b.Single, all})
				}
			}
		}
	}
	if len(sites) == 0 {
		return
	}
	s := sites[r.Intn(len(sites))]
	foreign := uint64(99)
	var cands []uint64
	for _, k := range s.others {
		in := false
		for _, e := range s.ends {
			if e == k {
				in = true
			}
		}
		if !in {
			cands = append(cands, k)
		}
	}
	if len(cands) > 0 && r.Chance(2, 3) {
		foreign = cands[r.Intn(len(cands))]
	}
	row := r.Intn(len(*s.table))
	if s.single {
		(*s.table)[row] = []uint64{foreign}
	} else {
		(*s.table)[row] = append(append([]uint64{}, (*s.table)[row]...), foreign)
	}
}

// addOutKeys: WithOutputKey on nodes of any-predecessor GRAPHS (the shared generator only sets output keys in
// the Parallel stages of chains): the node's output becomes {k: output} before it is routed, so the branch
// conditions of that node and all its successors see the wrapped value (model: wrap_out in run_task).
func addOutKeys(r *lib.Rng, c *gg.Case) {
	next := uint64(1100)
	for gi := range c.Forest {
		g := &c.Forest[gi]
		if g.Front != "graph" || g.Mode != "pregel" {
			continue
		}
		for ni := range g.Nodes {
			n := &g.Nodes[ni]
			if n.Key != gg.START && n.OutKey == 0 && r.Chance(1, 3) {
				n.OutKey = next
				next++
			}
		}
	}
}

// widenBranches: multi-way branches that select MANY targets at once. Every multi-branch of an any-predecessor
// graph or chain gets (if possible) one more end node and a table row that selects all its end nodes: the output
// is handed to 3-4 nodes by one condition (the shared generator picks 2-3 end nodes and selects each with
// probability 1/2).
func widenBranches(r *lib.Rng, c *gg.Case) {
	for gi := range c.Forest {
		g := &c.Forest[gi]
		if g.Front == "chain" {
			maxKey := uint64(1)
			for _, st := range g.Stages {
				for _, sn := range st.Nodes {
					if sn.Key > maxKey {
						maxKey = sn.Key
					}
				}
			}
			for si := range g.Stages {
				st := &g.Stages[si]
				if st.Kind != "branch" || st.Single {
					continue
				}
				if len(st.Nodes) < 4 && r.Chance(1, 2) {
					maxKey++
					st.Nodes = append(st.Nodes, gg.StageNode{Key: maxKey, Kind: "lambda"})
				}
				all := make([]uint64, len(st.Nodes))
				for i, sn := range st.Nodes {
					all[i] = sn.Key
				}
				if len(st.Table) > 0 && r.Chance(1, 2) {
					st.Table[r.Intn(len(st.Table))] = all
				} else {
					st.Table = append(st.Table, all)
				}
			}
			continue
		}
		if g.Front != "graph" || g.Mode != "pregel" {
			continue
		}
		for ni := range g.Nodes {
			for bi := range g.Nodes[ni].Branches {
				b := &g.Nodes[ni].Branches[bi]
				if b.Single {
					continue
				}
				var cands []uint64
				for _, n := range g.Nodes {
					k := n.Key
					if k == gg.START {
						k = gg.END
					}
					in := false
					for _, e := range b.Ends {
						if e == k {
							in = true
						}
					}
					if !in {
						cands = append(cands, k)
					}
				}
				if len(cands) > 0 && len(b.Ends) < 4 && r.Chance(1, 2) {
					b.Ends = append(b.Ends, cands[r.Intn(len(cands))])
					for i := 0; i < len(b.Ends); i++ {
						for j := i + 1; j < len(b.Ends); j++ {
							if b.Ends[j] < b.Ends[i] {
								b.Ends[i], b.Ends[j] = b.Ends[j], b.Ends[i]
							}
						}
					}
				}
				all := append([]uint64{}, b.Ends...)
				if len(b.Table) > 0 && r.Chance(1, 2) {
					b.Table[r.Intn(len(b.Table))] = all
				} else {
					b.Table = append(b.Table, all)
				}
			}
		}
	}
}

func hasChain(c *gg.Case) bool {
	for gi := range c.Forest {
		if c.Forest[gi].Front == "chain" {
			return true
		}
	}
	return false
}

func hasGraphOutKey(c *gg.Case) bool {
	for gi := range c.Forest {
		if g := &c.Forest[gi]; g.Front == "graph" {
			for ni := range g.Nodes {
				if g.Nodes[ni].OutKey != 0 {
					return true
				}
			}
		}
	}
	return false
}

func generate(r *lib.Rng, tier string) *gg.Case {
	o := gg.Quick()
	if tier == "thorough" {
		o = gg.Thorough()
	}
	switch x := r.Intn(22); {
	case x == 21:
		return genEmptyFanin(r)
	case x == 20:
		return genFanout(r)
	case x < 12:
		return gg.GenPregel(r, o)
	case x < 14:
		o.NoCycles = true
		return gg.GenPregel(r, o)
	default:
		return gg.GenChain(r, o)
	}
}

func (engine) Decode(raw json.RawMessage) (any, error) {
	var c c01case
	if err := json.Unmarshal(raw, &c); err != nil {
		return nil, err
	}
	if c.Input == nil {
		// "input": null is the nil map (round 6): encoding/json leaves a pointer nil on null without asking the
		// type, so the nil map is told from a missing input by looking at the keys of the case
		var keys map[string]json.RawMessage
		if json.Unmarshal(raw, &keys) == nil {
			if v, ok := keys["input"]; ok && string(v) == "null" {
				c.Input = gg.NilMap()
			}
		}
	}
	if len(c.Forest) == 0 || c.Input == nil {
		return nil, fmt.Errorf("case needs forest and input")
	}
	c.normRt()
	return &c, nil
}

func (engine) Run(c any) lib.Result {
	cc := c.(*c01case)
	ro := gg.RunOpts{}
	for _, o := range cc.rtOpts() {
		ro.CallOpts = append(ro.CallOpts, compose.WithRuntimeMaxSteps(o))
	}
	ro.Build.AutoChainKeys = cc.AutoKeys
	ro.Build.Reuse = cc.Reuse
	ro.Build.StreamConds = cc.StreamConds
	ro.Build.PipeLambdas = cc.PipeLambdas
	if cc.ExplicitMode {
		anyPred := func(idx int) []compose.GraphCompileOption {
			if g := &cc.Forest[idx]; g.Front == "graph" && g.Mode == "pregel" {
				return []compose.GraphCompileOption{compose.WithNodeTriggerMode(compose.AnyPredecessor)}
			}
			return nil
		}
		ro.Build.RootCompileOpts = anyPred(0)
		ro.Build.SubCompileOpts = func(idx int, p []uint64) []compose.GraphCompileOption { return anyPred(idx) }
	}
	delayed := (len(cc.Forest)+int(cc.Input.Size()))%4 == 1
	if delayed {
		// unequal node durations (0-150us, fixed per node path): lock-step must not depend on who finishes first
		ro.Build.Wrap = func(path []uint64, body gg.Body) gg.Body {
			var h uint64 = 1469598103934665603
			for _, k := range path {
				h = (h ^ k) * 1099511628211
			}
			d := time.Duration(h%4) * 50 * time.Microsecond
			return func(ctx context.Context, in gg.M) (gg.M, error) {
				time.Sleep(d)
				return body(ctx, in)
			}
		}
	}
	obs := runEntry(&cc.Case, cc.Entry, ro)
	cs := cc.effective()
	res := lib.Result{Obs: obs, Tags: gg.Tags(cs, obs)}
	if cc.RtMax > 0 {
		res.Tags = append(res.Tags, "limit:runtime-option")
	}
	if len(cc.RtOpts) > 1 {
		res.Tags = append(res.Tags, "limit:several-runtime-options")
	}
	if delayed {
		res.Tags = append(res.Tags, "timing:unequal-nodes")
	}
	if cc.AutoKeys {
		res.Tags = append(res.Tags, "chain:generated-node-keys")
	}
	if cc.ExplicitMode {
		res.Tags = append(res.Tags, "compile:explicit-any-predecessor")
	}
	if cc.StreamConds {
		res.Tags = append(res.Tags, "conditions:stream-constructors")
	}
	if cc.PipeLambdas {
		res.Tags = append(res.Tags, "lambdas:stream-native-pipe")
	}
	if cc.Reuse != 0 {
		res.Tags = append(res.Tags, fmt.Sprintf("builders-shared-with-twin:%d", cc.Reuse))
	}
	if hasGraphOutKey(&cc.Case) {
		res.Tags = append(res.Tags, "shape:graph-node-output-key")
	}
	if cc.Input.Kind == "nil" {
		res.Tags = append(res.Tags, "input:nil-map")
	}
	if cc.Entry != "" {
		res.Tags = append(res.Tags, "entry:"+cc.Entry)
	} else {
		res.Tags = append(res.Tags, "entry:invoke")
	}
	accepted, why := forestCompiles(&cc.Case, cc.AutoKeys)
	if !accepted {
		res.Tags = append(res.Tags, "malformed-chain:"+why)
	}
	if obs.Class == "compile" {
		if accepted {
			// apart from the chains malformed on purpose every generated / recorded case is well-formed by
			// construction (distinct keys, declared end nodes): it must compile
			res.Tags = append(res.Tags, "not-in-model:compile")
			res.Oracle, res.Sig = "a well-formed graph/chain was rejected by Compile: "+obs.ErrMsg, "c01:compile"
			return res
		}
		// a malformed chain was rejected: the model must reject it too (chain_compiles = false)
		res.CoqTerm = cc.coqTerm(obs)
		res.Nontrivial = true
		return res
	}
	if !accepted && obs.Class != "panic" && obs.Class != "hang" {
		res.CoqTerm = cc.coqTerm(obs)
		res.Oracle, res.Sig = "Compile accepted a malformed chain ("+why+"): it ran as a graph the chain does not describe", "c01:compile-accepted"
		return res
	}
	if obs.Class == "budget" {
		res.Tags = append(res.Tags, "not-in-model:budget")
		return res
	}
	res.CoqTerm = cc.coqTerm(obs)
	res.Oracle, res.Sig = oraclePregel(cs, obs, cc.Entry != "")
	if res.Oracle == "" && obs.Class != "hang" && obs.Class != "panic" && cc.RtMax == 0 && cc.Entry == "" {
		// overlapping runs of the same compiled graph (see concurrent.go)
		switch {
		case hubShape(cs):
			res.Oracle, res.Sig = concurrentIsolated(cs, 8, 150)
			res.Tags = append(res.Tags, "concurrent:8x150")
			if res.Oracle == "" {
				// the FIRST runs of fresh compiles, made at once (in a process of its own, see firstcalls.go)
				if wideHub(cs) {
					res.Oracle, res.Sig = firstCallsIsolated(cs, 40, 8)
					res.Tags = append(res.Tags, "first-calls:40x8-wide")
				} else {
					res.Oracle, res.Sig = firstCallsIsolated(cs, 24, 8)
					res.Tags = append(res.Tags, "first-calls:24x8")
				}
			}
		case (len(obs.Log)+len(cs.Forest))%8 == 0:
			res.Oracle, res.Sig = concurrentIsolated(cs, 4, 25)
			res.Tags = append(res.Tags, "concurrent:4x25")
			if res.Oracle == "" {
				res.Oracle, res.Sig = firstCallsIsolated(cs, 12, 8)
				res.Tags = append(res.Tags, "first-calls:12x8")
			}
		case (len(obs.Log)+len(cs.Forest))%8 < 3:
			// the compiled runnable is invoked 6 times in a row on 4 input variants (nothing of a run may stay behind)
			res.Oracle, res.Sig = concurrentPhase(cs, 1, 6)
			res.Tags = append(res.Tags, "rerun:1x6")
		}
	}
	if res.Oracle == "" && obs.Class != "hang" && obs.Class != "panic" && (cc.RtMax > 0 || cc.Entry != "") && cc.Input.Kind == "map" && streamable(&cc.Case) {
		// one compiled object called again with other step limits / through other entries (see rerunopts.go)
		res.Oracle, res.Sig = mixedRerunPhase(cc)
		res.Tags = append(res.Tags, "rerun:other-options-and-entries")
	}
	if res.Oracle == "" && obs.Class == "done" && cc.Entry == "" && cc.Input.Kind == "map" && streamable(&cc.Case) {
		// the run suspended between two supersteps (one node asks for a rerun) and resumed from its checkpoint (see resume.go)
		var n, nested int
		res.Oracle, res.Sig, n, nested = resumePhase(cc, obs)
		if n > 0 {
			res.Tags = append(res.Tags, fmt.Sprintf("resumed-from-checkpoint:%d-points", n))
		}
		if nested > 0 {
			res.Tags = append(res.Tags, "resumed-from-checkpoint:inside-nested-graph")
		}
	}
	res.Nontrivial = gg.Nontrivial(cs, obs)
	return res
}

func main() {
	if len(os.Args) > 1 && os.Args[1] == firstCallsFlag {
		firstCallsChild()
	}
	lib.Main(engine{})
}
