// Engine C01 — any-predecessor (Pregel) runs: lock-step supersteps, termination, chain = composition.
// Thin engine over verif/harness/graphgen.
package main

import (
	"encoding/json"
	"fmt"

	gg "verif/harness/graphgen"
	"verif/harness/lib"
)

type engine struct{}

func (engine) ID() string { return "C01" }
func (engine) CoqHeader() string {
	return "From Eino Require Import Base.Util Model.Graph Model.Chain Model.GraphCmp Corr.C01.\nOpen Scope N_scope.\n"
}
func (engine) CoqCaseType() string { return "ccase" }

func (engine) Generate(r *lib.Rng, tier string, i int) any {
	o := gg.Quick()
	if tier == "thorough" {
		o = gg.Thorough()
	}
	switch x := r.Intn(20); {
	case x < 12:
		return gg.GenPregel(r, o)
	case x < 14:
		o.NoCycles = true
		return gg.GenPregel(r, o)
	default:
		return gg.GenChain(r, o)
	}
}

func (engine) Decode(raw json.RawMessage) (any, error) {
	var c gg.Case
	if err := json.Unmarshal(raw, &c); err != nil {
		return nil, err
	}
	if len(c.Forest) == 0 || c.Input == nil {
		return nil, fmt.Errorf("case needs forest and input")
	}
	return &c, nil
}

func (engine) Run(c any) lib.Result {
	cs := c.(*gg.Case)
	obs := gg.Run(cs, gg.RunOpts{})
	res := lib.Result{Obs: obs, Tags: gg.Tags(cs, obs)}
	if obs.Class == "compile" || obs.Class == "budget" {
		res.Tags = append(res.Tags, "not-in-model:"+obs.Class)
		return res
	}
	res.CoqTerm = cs.CoqCase(obs)
	res.Oracle, res.Sig = gg.OraclePregel(cs, obs)
	res.Nontrivial = gg.Nontrivial(cs, obs)
	return res
}

func main() { lib.Main(engine{}) }
