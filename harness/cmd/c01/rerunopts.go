// Rerun with other options / through another entry (round 6).
//
// The statement of C01 is about every run of a compiled graph, whatever the calls before it were: a call option
// (WithRuntimeMaxSteps) bounds the run it is given to and no other, and a run through Stream / Transform / Collect
// leaves nothing behind for a later Invoke (and the other way round). The rerun phase of concurrent.go repeats
// plain Invokes only; here ONE compiled object is called seven times in a row with the case's own entry and step
// limits, without them, with another limit, through the other entries - on input variants of different sizes - and
// every result is compared with the oracle's evaluation of exactly that input under exactly that limit.
package main

import (
	"context"
	"fmt"

	"github.com/cloudwego/eino/compose"

	gg "verif/harness/graphgen"
	"verif/harness/lib"
)

type c01call struct {
	entry string
	opts  []int
}

func c01LastPositive(opts []int) int {
	n := 0
	for _, o := range opts {
		if o > 0 {
			n = o
		}
	}
	return n
}

func (cl c01call) String() string {
	e := cl.entry
	if e == "" {
		e = "invoke"
	}
	if len(cl.opts) == 0 {
		return e + ", no call option"
	}
	return fmt.Sprintf("%s, WithRuntimeMaxSteps %v", e, cl.opts)
}

func mixedRerunPhase(cc *c01case) (string, string) {
	if !streamable(&cc.Case) {
		return "", "" // outside the oracle's scope
	}
	ctx := context.Background()
	var bt *gg.Built
	var berr error
	if p := lib.Recover(func() { bt, berr = gg.Build(ctx, &cc.Case, gg.BuildOpts{}) }); p != nil || berr != nil {
		return "", "" // the first run already reported build problems
	}
	own := c01call{cc.Entry, cc.rtOpts()}
	other := []int{1 + (cc.RtMax+len(cc.Forest))%5}
	second := "stream"
	if cc.Entry == "stream" {
		second = "collect"
	}
	calls := []c01call{own, {"", nil}, {cc.Entry, nil}, {"", other}, own, {second, nil}, {second, other}, {"", nil}}
	for i, cl := range calls {
		in := variant(cc.Input, i%4)
		eff := &gg.Case{Input: in, Fails: cc.Fails, Forest: cc.Forest}
		if n := c01LastPositive(cl.opts); n > 0 {
			eff.Forest = append([]gg.Graph{}, cc.Forest...)
			eff.Forest[0].Max = n
		}
		s := &spec{c: eff}
		out, f := s.runGraph(0, nil, in)
		if s.unsup {
			return "", ""
		}
		want := &expect{done: f == nil, result: out}
		incomparable := false
		if f != nil {
			want.classes = f.classes
			for _, c := range f.classes {
				if cl.entry != "" && (c == clDup || c == clType) {
					incomparable = true // a stream fan-in has no duplicated-key check (F-C04)
				}
			}
		}
		var copts []compose.Option
		for _, o := range cl.opts {
			copts = append(copts, compose.WithRuntimeMaxSteps(o))
		}
		var o *gg.Obs
		if cl.entry == "" {
			o = gg.Invoke(ctx, bt, in, gg.RunOpts{CallOpts: copts})
		} else {
			o = invokeEntry(ctx, bt, in, cl.entry, copts)
		}
		switch {
		case bt.Rec.IsUnbounded():
			return fmt.Sprintf("in call %d (%s) on one compiled graph %s", i+1, cl, gg.UnboundedMsg), "c01:rerun-options"
		case o.Class == "budget" || o.Class == "hang":
			return "", "" // a value outgrew the size budget of the harness lambdas / a slow machine: no verdict
		case incomparable:
			continue
		}
		if !want.matches(o) {
			got := o.ErrMsg
			if o.Class == "done" {
				got = o.Result.String()
			}
			if len(got) > 300 {
				got = got[:300] + "..."
			}
			before := "the first call"
			if i > 0 {
				before = fmt.Sprintf("after %d earlier call(s) of the same compiled graph with other options / entries (the one before: %s)", i, calls[i-1])
			}
			return fmt.Sprintf("call %d (%s) on input %s, %s, gave %s (%s); the superstep semantics of that input under that limit gives %s",
				i+1, cl, in.String(), before, o.Class, got, want.String()), "c01:rerun-options"
		}
	}
	return "", ""
}
