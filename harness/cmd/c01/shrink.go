// Shrinker of the C01 engine: greedy minimisation of a case on which the direct oracle fails (same signature).
// Every candidate is a structurally smaller case; candidates that no longer compile or no longer fail the
// same way are rejected by stillFails.
package main

import (
	"encoding/json"
	"time"

	gg "verif/harness/graphgen"
)

// Wall-clock budget of the shrinker (round 6). A candidate of a hub-shaped case costs a whole concurrent /
// first-calls phase, and a racy failure reproduces only now and then: 400 candidates per failing case, several
// failing cases per run, took more than two minutes on the two seeded changes that need overlapping runs. One
// shrink now ends after shrinkPerCase, all shrinks of one harness process together after shrinkTotal; the case
// reported is the smallest one found so far (minimisation is a convenience of the replay, never part of the verdict).
const (
	shrinkPerCase = 5 * time.Second
	shrinkTotal   = 12 * time.Second
)

var shrinkSpent time.Duration

func cloneCase(c *c01case) *c01case {
	b, _ := json.Marshal(c)
	var d c01case
	_ = json.Unmarshal(b, &d)
	if d.Input == nil && c.Input != nil && c.Input.Kind == "nil" {
		d.Input = gg.NilMap() // "input": null leaves the pointer nil (see Decode)
	}
	return &d
}

func without(ks []uint64, k uint64) []uint64 {
	out := ks[:0:0]
	for _, x := range ks {
		if x != k {
			out = append(out, x)
		}
	}
	return out
}

// removeNode deletes node k of a graph and every reference to it; branches that become degenerate are dropped.
func removeNode(g *gg.Graph, k uint64) {
	var ns []gg.Node
	for _, n := range g.Nodes {
		if n.Key == k {
			continue
		}
		n.DSucc = without(n.DSucc, k)
		n.CSucc = without(n.CSucc, k)
		var bs []gg.Branch
		for _, b := range n.Branches {
			b.Ends = without(b.Ends, k)
			ok := len(b.Ends) >= 2
			var tb [][]uint64
			for _, row := range b.Table {
				row = without(row, k)
				if b.Single && len(row) == 0 {
					ok = false
				}
				if row == nil {
					row = []uint64{}
				}
				tb = append(tb, row)
			}
			b.Table = tb
			if ok {
				bs = append(bs, b)
			}
		}
		n.Branches = bs
		ns = append(ns, n)
	}
	g.Nodes = ns
}

// candidates lists structurally smaller variants of c.
func candidates(c *c01case) []*c01case {
	var out []*c01case
	add := func(f func(d *c01case) bool) {
		d := cloneCase(c)
		if f(d) {
			out = append(out, d)
		}
	}
	if len(c.Fails) > 0 {
		for i := range c.Fails {
			i := i
			add(func(d *c01case) bool { d.Fails = append(d.Fails[:i:i], d.Fails[i+1:]...); return true })
		}
	}
	if c.RtMax > 0 {
		add(func(d *c01case) bool { d.RtMax = 0; d.RtOpts = nil; return true })
		if len(c.RtOpts) > 1 {
			add(func(d *c01case) bool { d.RtOpts = nil; return true }) // the effective limit alone
		}
	}
	for gi := range c.Forest {
		gi := gi
		g := &c.Forest[gi]
		if g.Max > 0 {
			add(func(d *c01case) bool { d.Forest[gi].Max = 0; return true })
		}
		if g.Front == "chain" {
			for si := range g.Stages {
				si := si
				if len(g.Stages) > 1 {
					add(func(d *c01case) bool {
						st := d.Forest[gi].Stages
						d.Forest[gi].Stages = append(st[:si:si], st[si+1:]...)
						return true
					})
				}
				for ni := range g.Stages[si].Nodes {
					ni := ni
					if g.Stages[si].Nodes[ni].Kind == "sub" {
						add(func(d *c01case) bool { d.Forest[gi].Stages[si].Nodes[ni].Kind = "lambda"; return true })
					}
					if g.Stages[si].Kind != "node" && len(g.Stages[si].Nodes) > 2 {
						add(func(d *c01case) bool {
							st := &d.Forest[gi].Stages[si]
							k := st.Nodes[ni].Key
							st.Nodes = append(st.Nodes[:ni:ni], st.Nodes[ni+1:]...)
							for r := range st.Table {
								st.Table[r] = without(st.Table[r], k)
								if st.Table[r] == nil {
									st.Table[r] = []uint64{}
								}
								if st.Single && len(st.Table[r]) == 0 {
									return false
								}
							}
							return true
						})
					}
				}
			}
			continue
		}
		for ni := range g.Nodes {
			ni := ni
			n := &g.Nodes[ni]
			if n.Key != gg.START {
				add(func(d *c01case) bool { removeNode(&d.Forest[gi], n.Key); return true })
				if n.Kind == "sub" || n.Kind == "pass" {
					add(func(d *c01case) bool { d.Forest[gi].Nodes[ni].Kind = "lambda"; return true })
				}
			}
			for bi := range n.Branches {
				bi := bi
				add(func(d *c01case) bool {
					bs := d.Forest[gi].Nodes[ni].Branches
					d.Forest[gi].Nodes[ni].Branches = append(bs[:bi:bi], bs[bi+1:]...)
					return true
				})
				if len(n.Branches[bi].Table) > 1 {
					for ri := range n.Branches[bi].Table {
						ri := ri
						add(func(d *c01case) bool {
							tb := d.Forest[gi].Nodes[ni].Branches[bi].Table
							d.Forest[gi].Nodes[ni].Branches[bi].Table = append(tb[:ri:ri], tb[ri+1:]...)
							return true
						})
					}
				}
			}
			for _, t := range n.DSucc {
				t := t
				add(func(d *c01case) bool {
					m := &d.Forest[gi].Nodes[ni]
					m.DSucc = without(m.DSucc, t)
					m.CSucc = without(m.CSucc, t)
					return true
				})
			}
		}
	}
	if c.Input != nil && c.Input.Kind == "map" && len(c.Input.KVs) > 1 {
		add(func(d *c01case) bool { d.Input = gg.MapOf(d.Input.KVs[0]); return true })
	}
	return out
}

func (engine) Shrink(c any, stillFails func(any) bool) any {
	cur, ok := c.(*c01case)
	if !ok {
		return c
	}
	budget := 400
	t0 := time.Now()
	defer func() { shrinkSpent += time.Since(t0) }()
	outOfTime := func() bool {
		el := time.Since(t0)
		return el > shrinkPerCase || shrinkSpent+el > shrinkTotal
	}
	for progress := true; progress && budget > 0 && !outOfTime(); {
		progress = false
		for _, d := range candidates(cur) {
			if budget <= 0 || outOfTime() {
				break
			}
			budget--
			if stillFails(d) {
				cur, progress = d, true
				break
			}
		}
	}
	return cur
}
