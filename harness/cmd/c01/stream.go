// Stream / Transform entry points of the compiled root (C01 observes "Runnable.Invoke/Stream result and error").
//
// The superstep rule does not depend on the calling paradigm: in stream mode runner.run hands streams from
// node to node (copyItem copies a stream once per reader, the any-predecessor channel merges the streams a
// node was sent, a condition reads its own copy through branch.collect), and every harness lambda is an
// Invoke-native node, so it receives the concatenation of what it was sent. For forests made of
// any-predecessor graphs and chains the concatenated output, the failure class and the execution log must
// therefore be what the SAME model / oracle gives for the value run — except where the value form of a fan-in
// fails with a duplicated key: a stream fan-in has no such check (finding F-C04 of property C04), so those
// cases are not compared in stream mode (oracle: no verdict; Corr/C01.v: [stream_incomparable]).
//
//	entry "stream":    Runnable.Stream(input), the output chunks are concatenated
//	entry "transform": Runnable.Transform(stream of the input cut into one chunk per top-level key)
//	entry "collect":   Runnable.Collect(the same input stream): the result is a value (round 5: the fourth public
//	                   entry point; the run is the stream form, the output is concatenated by eino)
package main

import (
	"context"
	"errors"
	"fmt"
	"io"
	"runtime"
	"sort"
	"strings"
	"time"

	"github.com/cloudwego/eino/compose"
	"github.com/cloudwego/eino/schema"

	gg "verif/harness/graphgen"
	"verif/harness/lib"
)

// streamable: the whole forest consists of any-predecessor graphs and chains
func streamable(c *gg.Case) bool {
	for i := range c.Forest {
		g := &c.Forest[i]
		if !(g.Front == "chain" || (g.Front == "graph" && g.Mode == "pregel")) {
			return false
		}
	}
	return true
}

// inputChunks cuts a map input into one chunk per top-level key (ascending); other inputs are one chunk.
func inputChunks(in *gg.Val) []gg.M {
	if in.Kind != "map" || len(in.KVs) < 2 {
		return []gg.M{in.ToGo().(gg.M)}
	}
	out := make([]gg.M, 0, len(in.KVs))
	for _, kv := range in.KVs {
		out = append(out, gg.M{gg.KeyStr(kv.Key): kv.V.ToGo()})
	}
	return out
}

// concatChunks: what a reader of the output stream gets by concatenating it (maps are united key by key,
// recursively; a scalar met twice keeps the last, as eino's concat of ints does)
func concatChunks(chunks []gg.M) (gg.M, error) {
	if len(chunks) == 0 {
		return nil, errors.New("empty output stream")
	}
	if len(chunks) == 1 {
		return chunks[0], nil
	}
	var all []any
	for _, c := range chunks {
		if gg.Unbounded(c) {
			return nil, errors.New(gg.UnboundedMsg)
		}
		all = append(all, c)
	}
	v := concatAny(all)
	m, ok := v.(gg.M)
	if !ok {
		return nil, fmt.Errorf("output chunks do not concatenate to a map: %T", v)
	}
	return m, nil
}

func concatAny(vs []any) any {
	var maps []gg.M
	for _, v := range vs {
		m, ok := v.(gg.M)
		if !ok {
			return vs[len(vs)-1]
		}
		maps = append(maps, m)
	}
	per := map[string][]any{}
	var keys []string
	for _, m := range maps {
		for k, v := range m {
			if _, ok := per[k]; !ok {
				keys = append(keys, k)
			}
			per[k] = append(per[k], v)
		}
	}
	sort.Strings(keys)
	out := make(gg.M, len(keys))
	for _, k := range keys {
		if len(per[k]) == 1 {
			out[k] = per[k][0]
		} else {
			out[k] = concatAny(per[k])
		}
	}
	return out
}

// invokeEntry runs an already built case through Stream or Transform under Recover and a watchdog and
// renders the observation exactly as graphgen.Invoke does for Invoke.
func invokeEntry(ctx context.Context, bt *gg.Built, input *gg.Val, entry string, opts []compose.Option) *gg.Obs {
	base := runtime.NumGoroutine()
	type result struct {
		out gg.M
		err error
		p   any
	}
	done := make(chan result, 1)
	go func() {
		var res result
		res.p = lib.Recover(func() {
			var sr *schema.StreamReader[gg.M]
			if entry == "collect" {
				res.out, res.err = bt.R.Collect(ctx, schema.StreamReaderFromArray(inputChunks(input)), opts...)
				if res.err == nil && gg.Unbounded(res.out) {
					res.out, res.err = nil, errors.New(gg.UnboundedMsg)
				}
				return
			}
			if entry == "transform" {
				sr, res.err = bt.R.Transform(ctx, schema.StreamReaderFromArray(inputChunks(input)), opts...)
			} else {
				sr, res.err = bt.R.Stream(ctx, input.ToGo().(gg.M), opts...)
			}
			if res.err != nil {
				return
			}
			defer sr.Close()
			var chunks []gg.M
			for {
				ch, err := sr.Recv()
				if err == io.EOF {
					break
				}
				if err != nil {
					res.err = err
					return
				}
				chunks = append(chunks, ch)
			}
			res.out, res.err = concatChunks(chunks)
		})
		done <- res
	}()
	var res result
	select {
	case res = <-done:
	case <-time.After(10 * time.Second):
		return &gg.Obs{Class: "hang", Log: bt.Rec.Snapshot()}
	}
	for i := 0; i < 2000 && runtime.NumGoroutine() > base; i++ {
		if i < 50 {
			runtime.Gosched()
		} else {
			time.Sleep(100 * time.Microsecond)
		}
	}
	obs := &gg.Obs{Log: bt.Rec.Snapshot()}
	over := bt.Rec.Over // the run and its goroutines have finished
	switch {
	case bt.Rec.IsUnbounded():
		obs.Class = "fail"
		obs.ErrMsg = gg.UnboundedMsg
	case over || (res.err != nil && strings.Contains(res.err.Error(), "verif-size-budget")):
		obs.Class = "budget"
	case res.p != nil:
		obs.Class = "panic"
		obs.ErrMsg = fmt.Sprint(res.p)
	case res.err != nil:
		obs.Class = "fail"
		obs.ErrClass = gg.ClassifyErr(res.err)
		obs.ErrMsg = strings.ReplaceAll(res.err.Error(), "\n", " | ")
		if len(obs.ErrMsg) > 300 {
			obs.ErrMsg = obs.ErrMsg[:300]
		}
	default:
		obs.Class = "done"
		obs.Result = gg.FromGo(res.out)
	}
	return obs
}

// runEntry: Build + the chosen entry point.
func runEntry(c *gg.Case, entry string, o gg.RunOpts) *gg.Obs {
	if entry == "" || entry == "invoke" {
		return gg.Run(c, o)
	}
	ctx := context.Background()
	var bt *gg.Built
	var berr error
	if p := lib.Recover(func() { bt, berr = gg.Build(ctx, c, o.Build) }); p != nil {
		return &gg.Obs{Class: "panic", ErrMsg: "build: " + fmt.Sprint(p)}
	}
	if berr != nil {
		return &gg.Obs{Class: "compile", ErrMsg: berr.Error()}
	}
	return invokeEntry(ctx, bt, c.Input, entry, o.CallOpts)
}
