// Direct oracle of C01: an independent evaluator written from the property text (not from the Gallina model,
// not from eino's code): lock-step supersteps with an inbox per node, a chain as a fold over its stages.
// The implementation's own outputs (result / error class / flat execution log) are compared with it.
//
// Supported: forests made of any-predecessor graphs and chains only (what the statement of C01 is about);
// a case that contains an all-predecessor graph or a workflow anywhere is left to the correspondence check
// (oracle returns "").
package main

import (
	"fmt"
	"sort"

	gg "verif/harness/graphgen"
)

type specStep struct {
	inst   []uint64   // graph instance (node path of the sub-graph node; empty = root)
	events []gg.Event // lambda executions of one superstep of that instance
}

type spec struct {
	c     *gg.Case
	steps []specStep
	unsup bool
}

type specFail struct{ classes []uint64 } // candidate error classes (one of them is reported)

func fail1(cl uint64) *specFail { return &specFail{classes: []uint64{cl}} }

const (
	clDup      = 1
	clType     = 2
	clMaxSteps = 3
	clNoTasks  = 4
	clBranch   = 9
)

// merge = fan-in of map values: one value is handed on as it is; several: all must be maps, no key twice.
func specMerge(vs []*gg.Val) (*gg.Val, *specFail) {
	if len(vs) == 1 {
		return vs[0], nil
	}
	var kvs []gg.KV
	seen := map[uint64]bool{}
	for _, v := range vs {
		switch v.Kind {
		case "nil":
		case "map":
			for _, kv := range v.KVs {
				if seen[kv.Key] {
					return nil, fail1(clDup)
				}
				seen[kv.Key] = true
				kvs = append(kvs, kv)
			}
		default:
			return nil, fail1(clType)
		}
	}
	return gg.MapOf(kvs...), nil
}

func childPath(p []uint64, k uint64) []uint64 {
	q := make([]uint64, len(p)+1)
	copy(q, p)
	q[len(p)] = k
	return q
}

func eqPath(a, b []uint64) bool {
	if len(a) != len(b) {
		return false
	}
	for i := range a {
		if a[i] != b[i] {
			return false
		}
	}
	return true
}

// runNode: a lambda returns {key: input} unless the failure table says otherwise; a pass-through node returns
// its input; a sub-graph node returns what its graph returns. An output key wraps the output.
func (s *spec) runNode(p []uint64, key uint64, kind string, sub int, outKey uint64, in *gg.Val, evs *[]gg.Event) (*gg.Val, *specFail) {
	np := childPath(p, key)
	var out *gg.Val
	switch kind {
	case "lambda":
		*evs = append(*evs, gg.Event{Path: np, In: in})
		sz := in.Size()
		for _, f := range s.c.Fails {
			if eqPath(f.Path, np) {
				m := f.Mod
				if m < 1 {
					m = 1
				}
				if sz%m == f.Res {
					return nil, fail1(100 + f.Code)
				}
			}
		}
		out = gg.MapOf(gg.KV{Key: key, V: in})
	case "pass":
		out = in
	case "sub":
		var f *specFail
		out, f = s.runGraph(sub, np, in)
		if f != nil || s.unsup {
			return nil, f
		}
	default:
		s.unsup = true
		return nil, nil
	}
	if outKey != 0 {
		out = gg.MapOf(gg.KV{Key: outKey, V: out})
	}
	return out, nil
}

func (s *spec) runGraph(idx int, p []uint64, in *gg.Val) (*gg.Val, *specFail) {
	if idx < 0 || idx >= len(s.c.Forest) {
		s.unsup = true
		return nil, nil
	}
	g := &s.c.Forest[idx]
	s.steps = append(s.steps, specStep{inst: p}) // marker: a run of this instance starts
	switch {
	case g.Front == "chain":
		return s.runChain(g, p, in)
	case g.Front == "graph" && g.Mode == "pregel":
		return s.runPregel(g, p, in)
	}
	s.unsup = true
	return nil, nil
}

// any-predecessor graph: supersteps over inboxes
func (s *spec) runPregel(g *gg.Graph, p []uint64, in *gg.Val) (*gg.Val, *specFail) {
	limit := g.Max
	if limit == 0 {
		limit = len(g.Nodes) - 1 + 10
	}
	inbox := map[uint64]map[uint64]*gg.Val{} // target -> sender -> value
	// route: data successors and the choices of the branches receive the output
	route := func(n *gg.Node, out *gg.Val) *specFail {
		targets := append([]uint64{}, n.DSucc...)
		for bi := range n.Branches {
			b := &n.Branches[bi]
			for _, t := range b.Choose(out.Size()) {
				legal := false
				for _, e := range b.Ends {
					if e == t {
						legal = true
					}
				}
				if !legal {
					return fail1(clBranch)
				}
				targets = append(targets, t)
			}
		}
		for _, t := range targets {
			if inbox[t] == nil {
				inbox[t] = map[uint64]*gg.Val{}
			}
			inbox[t][n.Key] = out
		}
		return nil
	}
	// take: everybody who was sent something gets the merge of exactly that, and the inboxes are emptied
	take := func() (map[uint64]*gg.Val, *specFail) {
		ready := map[uint64]*gg.Val{}
		keys := make([]uint64, 0, len(inbox))
		for t := range inbox {
			keys = append(keys, t)
		}
		sort.Slice(keys, func(i, j int) bool { return keys[i] < keys[j] })
		for _, t := range keys {
			senders := make([]uint64, 0, len(inbox[t]))
			for sd := range inbox[t] {
				senders = append(senders, sd)
			}
			sort.Slice(senders, func(i, j int) bool { return senders[i] < senders[j] })
			vs := make([]*gg.Val, len(senders))
			for i, sd := range senders {
				vs[i] = inbox[t][sd]
			}
			v, f := specMerge(vs)
			if f != nil {
				return nil, f
			}
			ready[t] = v
		}
		inbox = map[uint64]map[uint64]*gg.Val{}
		return ready, nil
	}
	if f := route(g.NodeAt(gg.START), in); f != nil {
		return nil, f
	}
	for step := 0; ; step++ {
		ready, f := take()
		if f != nil {
			return nil, f
		}
		if v, ok := ready[gg.END]; ok {
			return v, nil // first step in which END receives something; nobody else of this frontier runs
		}
		if step >= limit {
			return nil, fail1(clMaxSteps)
		}
		if len(ready) == 0 {
			return nil, fail1(clNoTasks)
		}
		keys := make([]uint64, 0, len(ready))
		for k := range ready {
			keys = append(keys, k)
		}
		sort.Slice(keys, func(i, j int) bool { return keys[i] < keys[j] })
		si := len(s.steps)
		s.steps = append(s.steps, specStep{inst: p})
		var evs []gg.Event
		outs := map[uint64]*gg.Val{}
		var fails []uint64
		for _, k := range keys {
			n := g.NodeAt(k)
			if n == nil {
				s.unsup = true
				return nil, nil
			}
			out, f := s.runNode(p, n.Key, n.Kind, n.Sub, n.OutKey, ready[k], &evs)
			if s.unsup {
				return nil, nil
			}
			if f != nil {
				fails = append(fails, f.classes...)
				continue
			}
			outs[k] = out
		}
		s.steps[si].events = evs
		if len(fails) > 0 {
			return nil, &specFail{classes: fails}
		}
		for _, k := range keys {
			if f := route(g.NodeAt(k), outs[k]); f != nil {
				return nil, f
			}
		}
	}
}

// chain: the value is handed from stage to stage
func (s *spec) runChain(g *gg.Graph, p []uint64, in *gg.Val) (*gg.Val, *specFail) {
	nn := 0
	for _, st := range g.Stages {
		nn += len(st.Nodes)
	}
	limit := g.Max
	if limit == 0 {
		limit = nn + 10
	}
	v := in
	for i := range g.Stages {
		st := &g.Stages[i]
		var group []*gg.StageNode
		switch st.Kind {
		case "node", "par":
			for j := range st.Nodes {
				group = append(group, &st.Nodes[j])
			}
		case "branch":
			var sel []uint64
			if len(st.Table) > 0 {
				sel = st.Table[v.Size()%uint64(len(st.Table))]
			}
			for _, k := range sel {
				found := false
				for j := range st.Nodes {
					if st.Nodes[j].Key == k {
						found = true
					}
				}
				if !found {
					return nil, fail1(clBranch)
				}
			}
			for j := range st.Nodes {
				for _, k := range sel {
					if st.Nodes[j].Key == k {
						group = append(group, &st.Nodes[j])
						break
					}
				}
			}
		default:
			s.unsup = true
			return nil, nil
		}
		if i >= limit {
			return nil, fail1(clMaxSteps)
		}
		if len(group) == 0 {
			return nil, fail1(clNoTasks)
		}
		sort.Slice(group, func(a, b int) bool { return group[a].Key < group[b].Key })
		si := len(s.steps)
		s.steps = append(s.steps, specStep{inst: p})
		var evs []gg.Event
		var outs []*gg.Val
		var fails []uint64
		for _, sn := range group {
			out, f := s.runNode(p, sn.Key, sn.Kind, sn.Sub, sn.OutKey, v, &evs)
			if s.unsup {
				return nil, nil
			}
			if f != nil {
				fails = append(fails, f.classes...)
				continue
			}
			outs = append(outs, out)
		}
		s.steps[si].events = evs
		if len(fails) > 0 {
			return nil, &specFail{classes: fails}
		}
		var f *specFail
		v, f = specMerge(outs)
		if f != nil {
			return nil, f
		}
	}
	return v, nil
}

func sameEvent(a, b gg.Event) bool { return eqPath(a.Path, b.Path) && a.In.Equal(b.In) }

// the events of one instance must be the spec's supersteps of that instance one after the other, each in any order
func segmentsOK(obs []gg.Event, steps [][]gg.Event) string {
	pos := 0
	for si, st := range steps {
		if pos+len(st) > len(obs) {
			return fmt.Sprintf("superstep %d: %d executions expected, only %d left in the log", si, len(st), len(obs)-pos)
		}
		seg := obs[pos : pos+len(st)]
		used := make([]bool, len(seg))
		for _, e := range st {
			found := false
			for j := range seg {
				if !used[j] && sameEvent(seg[j], e) {
					used[j], found = true, true
					break
				}
			}
			if !found {
				return fmt.Sprintf("superstep %d: execution of %v on %s missing (or not in this step)", si, e.Path, e.In.String())
			}
		}
		pos += len(st)
	}
	if pos != len(obs) {
		return fmt.Sprintf("%d executions beyond the last superstep, first: %v", len(obs)-pos, obs[pos].Path)
	}
	return ""
}

func pathKey(p []uint64) string { return fmt.Sprint(p) }

// oraclePregel returns ("", "") when the observation agrees with the superstep semantics (or the case is
// outside the oracle's scope), else a description and a stable signature.
// stream: the root was called through Stream / Transform; the superstep semantics is the same, but a fan-in of
// streams has no duplicated-key check (F-C04 of property C04), so no verdict when the value form fails that way.
func oraclePregel(c *gg.Case, o *gg.Obs, stream bool) (string, string) {
	if o.Class == "panic" {
		return "the run panicked: " + o.ErrMsg, "c01:panic"
	}
	if o.Class == "hang" {
		return "the run did not return (a Pregel run is bounded by the step limit)", "c01:hang"
	}
	s := &spec{c: c}
	out, f := s.runGraph(0, nil, c.Input)
	if s.unsup {
		return "", ""
	}
	if stream && f != nil {
		for _, cl := range f.classes {
			if cl == clDup || cl == clType {
				return "", ""
			}
		}
	}
	switch {
	case f == nil:
		if o.Class != "done" {
			return fmt.Sprintf("superstep semantics gives the result %s, the run failed: %s", out.String(), o.ErrMsg), "c01:class"
		}
		if !out.Equal(o.Result) {
			return fmt.Sprintf("result %s differs from the superstep semantics %s", o.Result.String(), out.String()), "c01:result"
		}
	default:
		if o.Class != "fail" {
			return fmt.Sprintf("superstep semantics fails (class %v), the run returned %s", f.classes, o.Result.String()), "c01:class"
		}
		ok := false
		for _, cl := range f.classes {
			if cl == o.ErrClass {
				ok = true
			}
		}
		if !ok {
			return fmt.Sprintf("error class %d (%s), superstep semantics: one of %v", o.ErrClass, o.ErrMsg, f.classes), "c01:errclass"
		}
	}
	// execution log, instance by instance
	insts := map[string][]uint64{}
	var order []string
	add := func(p []uint64) {
		k := pathKey(p)
		if _, ok := insts[k]; !ok {
			insts[k] = p
			order = append(order, k)
		}
	}
	for _, st := range s.steps {
		add(st.inst)
	}
	for _, e := range o.Log {
		add(e.Path[:len(e.Path)-1])
	}
	for _, k := range order {
		inst := insts[k]
		var obsEv []gg.Event
		for _, e := range o.Log {
			if eqPath(e.Path[:len(e.Path)-1], inst) {
				obsEv = append(obsEv, e)
			}
		}
		var steps [][]gg.Event
		for _, st := range s.steps {
			if eqPath(st.inst, inst) && len(st.events) > 0 {
				// only lambdas of this very instance (events of nested instances carry longer paths)
				var own []gg.Event
				for _, e := range st.events {
					if eqPath(e.Path[:len(e.Path)-1], inst) {
						own = append(own, e)
					}
				}
				steps = append(steps, own)
			}
		}
		if msg := segmentsOK(obsEv, steps); msg != "" {
			return fmt.Sprintf("execution log of graph instance %v is not the sequence of supersteps: %s", inst, msg), "c01:log"
		}
	}
	return "", ""
}
