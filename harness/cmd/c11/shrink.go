package main

import (
	"encoding/json"
	"sync/atomic"
)

// Shrinker: greedy minimisation of a case on which the direct oracle fails. Only flags and
// counts are reduced and nodes that feed nothing are removed, so every candidate is a
// well-formed case of the same family. Failures that need a particular interleaving
// (overlap, lost-update ...) are retried a few times per candidate; hangs and crashes are
// not shrunk (every attempt would cost the watchdog's time). The work per process is bounded:
// a change of the implementation that fails on hundreds of cases must not make the harness
// run into the check's time limit.

var (
	shrunkCases   int32
	shrinkBudget  int32 = 700 // candidate executions per process
	maxShrunk     int32 = 4   // cases minimised per process
	triesPerShape       = 3
)

func cloneCase(c *Case) *Case {
	b, _ := json.Marshal(c)
	var d Case
	_ = json.Unmarshal(b, &d)
	return &d
}

func (c *Case) size() int {
	n := c.Runs*3 + len(c.Forest)*4
	if c.Again {
		n += 3
	}
	if c.Stream || c.Call != "" {
		n++
	}
	if c.Concurrent {
		n++
	}
	if c.Interrupt != nil {
		n += 4 + len(c.Interrupt.Nodes)
		if c.Interrupt.Modifier {
			n++
		}
	}
	for _, g := range c.Forest {
		if g.Loop != nil {
			n += 3 * g.Loop.Iter
		}
		for _, nd := range g.Nodes {
			n += 3 + nd.PS + len(nd.Preds)
			for _, b := range []bool{nd.Pre, nd.Post, nd.SPre, nd.SPost, nd.Sub >= 0, nd.DelayUs > 0, nd.Fail > 0, nd.FailPanic} {
				if b {
					n++
				}
			}
		}
	}
	return n
}

// candidates returns the one-step reductions of c.
func (c *Case) candidates() []*Case {
	var out []*Case
	try := func(f func(d *Case) bool) {
		d := cloneCase(c)
		if f(d) {
			out = append(out, d)
		}
	}
	try(func(d *Case) bool { ok := d.Again; d.Again = false; return ok })
	try(func(d *Case) bool { ok := d.Interrupt != nil; d.Interrupt, d.Again = nil, false; return ok })
	try(func(d *Case) bool {
		ok := d.Interrupt != nil && d.Interrupt.Also != nil
		if ok {
			d.Interrupt.Also = nil
		}
		return ok
	})
	try(func(d *Case) bool {
		ok := d.Runs > 1
		d.Runs--
		if d.Runs == 1 {
			d.Concurrent = false
		}
		return ok
	})
	try(func(d *Case) bool { ok := d.Concurrent; d.Concurrent = false; return ok })
	try(func(d *Case) bool { ok := d.Stream || d.Call != ""; d.Stream, d.Call = false, ""; return ok })
	try(func(d *Case) bool {
		ok := d.Interrupt != nil && d.Interrupt.Modifier
		if ok {
			d.Interrupt.Modifier = false
		}
		return ok
	})
	for gi := range c.Forest {
		gi := gi
		try(func(d *Case) bool { ok := d.Forest[gi].Loop != nil; d.Forest[gi].Loop = nil; return ok })
		try(func(d *Case) bool {
			lp := d.Forest[gi].Loop
			if lp == nil || lp.Iter <= 2 {
				return false
			}
			lp.Iter--
			return true
		})
		for ni := range c.Forest[gi].Nodes {
			ni := ni
			nd := c.Forest[gi].Nodes[ni]
			try(func(d *Case) bool {
				n := &d.Forest[gi].Nodes[ni]
				ok := n.Rerun > 0
				n.Rerun = 0
				return ok
			})
			// remove a node nothing depends on
			try(func(d *Case) bool {
				g := &d.Forest[gi]
				if len(g.Nodes) < 2 || d.isPred(g, nd.ID) {
					return false
				}
				if g.Loop != nil {
					for _, b := range g.Loop.Body {
						if b == nd.ID {
							return false
						}
					}
				}
				if d.Interrupt != nil && d.Interrupt.Also != nil && d.Interrupt.Also.Graph == gi {
					for _, id := range d.Interrupt.Also.Nodes {
						if id == nd.ID {
							return false
						}
					}
				}
				if d.Interrupt != nil && d.Interrupt.Graph == gi {
					var keep []int
					for _, id := range d.Interrupt.Nodes {
						if id != nd.ID {
							keep = append(keep, id)
						}
					}
					if len(keep) == 0 {
						return false
					}
					d.Interrupt.Nodes = keep
				}
				g.Nodes = append(g.Nodes[:ni:ni], g.Nodes[ni+1:]...)
				return d.prune()
			})
			try(func(d *Case) bool {
				n := &d.Forest[gi].Nodes[ni]
				if n.Sub < 0 {
					return false
				}
				n.Sub = -1
				return d.prune()
			})
			try(func(d *Case) bool {
				n := &d.Forest[gi].Nodes[ni]
				if n.PS == 0 || (n.Fail > kBody && n.Fail-kBody >= n.PS) {
					return false
				}
				n.PS--
				return true
			})
			try(func(d *Case) bool {
				n := &d.Forest[gi].Nodes[ni]
				ok := n.Pre && n.Fail != kPre+1
				n.Pre, n.SPre, n.PreTy = false, false, nil
				return ok
			})
			try(func(d *Case) bool {
				n := &d.Forest[gi].Nodes[ni]
				ok := n.Post && n.Fail != kPost+1
				n.Post, n.SPost, n.PostTy = false, false, nil
				return ok
			})
			try(func(d *Case) bool { n := &d.Forest[gi].Nodes[ni]; ok := n.SPre; n.SPre = false; return ok })
			try(func(d *Case) bool { n := &d.Forest[gi].Nodes[ni]; ok := n.SPost; n.SPost = false; return ok })
			try(func(d *Case) bool { n := &d.Forest[gi].Nodes[ni]; ok := n.DelayUs > 0; n.DelayUs = 0; return ok })
			try(func(d *Case) bool { n := &d.Forest[gi].Nodes[ni]; ok := n.FailPanic; n.FailPanic = false; return ok })
			try(func(d *Case) bool {
				n := &d.Forest[gi].Nodes[ni]
				if len(n.Preds) < 2 {
					return false
				}
				// drop one incoming edge if its source keeps another successor
				p := n.Preds[len(n.Preds)-1]
				cnt := 0
				for _, m := range d.Forest[gi].Nodes {
					for _, q := range m.Preds {
						if q == p {
							cnt++
						}
					}
				}
				if cnt < 2 {
					return false
				}
				n.Preds = n.Preds[:len(n.Preds)-1]
				return true
			})
		}
	}
	return out
}

// prune removes the graphs no node runs any more and renumbers the others; false if the
// interrupt was configured in a removed graph.
func (c *Case) prune() bool {
	reach := map[int]bool{}
	var walk func(g int)
	walk = func(g int) {
		if g < 0 || g >= len(c.Forest) || reach[g] {
			return
		}
		reach[g] = true
		for _, n := range c.Forest[g].Nodes {
			if n.Sub >= 0 {
				walk(n.Sub)
			}
		}
	}
	walk(0)
	idx := map[int]int{}
	var forest []GraphSpec
	for g := range c.Forest {
		if reach[g] {
			idx[g] = len(forest)
			forest = append(forest, c.Forest[g])
		}
	}
	for g := range forest {
		for i := range forest[g].Nodes {
			if s := forest[g].Nodes[i].Sub; s >= 0 {
				forest[g].Nodes[i].Sub = idx[s]
			}
		}
	}
	if c.Interrupt != nil {
		if !reach[c.Interrupt.Graph] {
			return false
		}
		c.Interrupt.Graph = idx[c.Interrupt.Graph]
		if a := c.Interrupt.Also; a != nil {
			if !reach[a.Graph] {
				return false
			}
			a.Graph = idx[a.Graph]
		}
	}
	c.Forest = forest
	return true
}

func (e engine) Shrink(ci any, stillFails func(any) bool) any {
	c, ok := ci.(*Case)
	if !ok {
		return ci
	}
	if atomic.AddInt32(&shrunkCases, 1) > maxShrunk {
		return ci
	}
	first := e.Run(c)
	switch first.Sig {
	case "", "hang", "panic", "stuck": // (each attempt would take 15-20 s)
		return ci
	}
	tries := 1
	switch first.Sig {
	case "overlap", "lost-update", "state-shared", "state-split", "resume-state":
		tries = triesPerShape // may need a particular interleaving
	}
	fails := func(d *Case) bool {
		for t := 0; t < tries; t++ {
			if atomic.AddInt32(&shrinkBudget, -1) < 0 {
				return false
			}
			if stillFails(d) {
				return true
			}
		}
		return false
	}
	cur := c
	for progress := true; progress && atomic.LoadInt32(&shrinkBudget) > 0; {
		progress = false
		for _, d := range cur.candidates() {
			if d.size() < cur.size() && fails(d) {
				cur, progress = d, true
				break
			}
		}
	}
	return cur
}
