package main

import (
	"verif/harness/lib"
)

// Generator: layered graphs. Layer 0 is fed by START; every node of layer l>0 has a
// non-empty random subset of layer l-1 as predecessors and every node of a non-final layer
// has at least one successor; the last layer feeds END. 2-6 parallel nodes in at least one
// layer of the top graph. Some nodes are nested graphs (depth <= 2), each graph with its own
// mode and its own decision to declare state. Handlers only where the graph declares state
// and ProcessState only where some enclosing graph does — except for a small malformed
// stream (handler on a stateless graph: AddNode must refuse; ProcessState without any
// state: the run must fail).

type genCtx struct {
	r      *lib.Rng
	c      *Case
	nextID int
	nextHi int // next id of the upper band (>= hiBand): nodes whose post-handler may return the empty value
	// number of Workflow graphs among the graphs enclosing the one being generated (an empty result
	// of a nested graph would fail the field mapping of an enclosing Workflow)
	underEager int
	thor   bool
	// pairNested: two nodes of the wide layer of the top graph run nested graphs (which can then
	// be interrupted in the same step)
	pairNested bool
}

// underLoop: the graph is run by a node inside a loop body (once per round): no loop of its
// own, and no Workflow (its lambdas name their outputs after the round).
func (g *genCtx) graph(depth int, parentHasState bool, parentTy int, wide bool, underLoop bool) int {
	r := g.r
	gi := len(g.c.Forest)
	g.c.Forest = append(g.c.Forest, GraphSpec{})
	mode := []string{"pregel", "dag", "eager"}[r.Intn(3)]
	if underLoop {
		mode = []string{"pregel", "dag"}[r.Intn(2)]
	}
	hiIDs := mode != "eager" && g.underEager == 0 && r.Chance(1, 2)
	state := r.Chance(8, 10)
	if depth > 0 {
		state = r.Chance(6, 10)
	}
	sty := 0
	if state && r.Chance(1, 3) {
		sty = 1
	}
	visible := state || parentHasState
	visTy := parentTy
	if state {
		visTy = sty
	}
	nl := r.Range(1, 3)
	if depth > 0 {
		nl = r.Range(1, 2)
	}
	var layers [][]int
	var nodes []NodeSpec
	wideLayer := r.Intn(nl)
	for l := 0; l < nl; l++ {
		w := r.Range(1, 3)
		if wide && l == wideLayer {
			w = r.Range(2, 6)
			if g.thor {
				w = r.Range(2, 8)
			}
		}
		if depth > 0 && w > 3 {
			w = 3
		}
		var ids []int
		for i := 0; i < w; i++ {
			id := g.nextID
			if hiIDs {
				id = g.nextHi
				g.nextHi++
			} else {
				g.nextID++
			}
			n := NodeSpec{ID: id, Sub: -1}
			if state {
				n.Pre = r.Chance(1, 2)
				n.Post = r.Chance(1, 2)
			} else if r.Chance(1, 100) {
				n.Pre = true // malformed: handler without graph state
			}
			n.SPre = n.Pre && r.Chance(1, 3)
			n.SPost = n.Post && r.Chance(1, 3)
			if visible {
				n.PS = r.Intn(4)
			} else if r.Chance(1, 40) {
				n.PS = 1 // malformed: ProcessState without any state
			}
			if r.Chance(1, 3) {
				n.DelayUs = r.Intn(300)
			}
			// malformed: a handler / ProcessState call written for another state type: the other
			// pointer type, or the declared type at another pointer depth (the struct type itself)
			wrongTy := func(right int) *int {
				t := 1 - right
				if r.Chance(1, 2) {
					t = 2 + right
				}
				return &t
			}
			if state && n.Pre && r.Chance(1, 170) {
				n.PreTy = wrongTy(sty)
			}
			if state && n.Post && r.Chance(1, 170) {
				n.PostTy = wrongTy(sty)
			}
			if visible && n.PS > 0 && r.Chance(1, 100) {
				n.PSTy = wrongTy(visTy)
			}
			if l > 0 {
				prev := layers[l-1]
				for _, p := range prev {
					if r.Chance(1, 2) {
						n.Preds = append(n.Preds, p)
					}
				}
				if len(n.Preds) == 0 {
					n.Preds = []int{prev[r.Intn(len(prev))]}
				}
			}
			ids = append(ids, id)
			nodes = append(nodes, n)
		}
		// every node of the previous layer needs a successor
		if l > 0 {
			for _, p := range layers[l-1] {
				has := false
				for i := range nodes {
					for _, q := range nodes[i].Preds {
						if q == p {
							has = true
						}
					}
				}
				if !has {
					target := ids[r.Intn(len(ids))]
					for i := range nodes {
						if nodes[i].ID == target {
							nodes[i].Preds = append(nodes[i].Preds, p)
							break
						}
					}
				}
			}
		}
		layers = append(layers, ids)
	}
	// a loop (Pregel only): the layers a..b, b a single-node layer, are executed 2-3 (2-4) times
	var loop *LoopSpec
	inLoop := map[int]bool{}
	if mode == "pregel" && !underLoop && r.Chance(1, 3) {
		var bs []int
		for l, ids := range layers {
			if len(ids) == 1 {
				bs = append(bs, l)
			}
		}
		if len(bs) > 0 {
			b := bs[r.Intn(len(bs))]
			a := r.Intn(b + 1)
			iter := r.Range(2, 3)
			if g.thor {
				iter = r.Range(2, 4)
			}
			loop = &LoopSpec{Entry: append([]int{}, layers[a]...), Last: layers[b][0], Iter: iter}
			for l := a; l <= b; l++ {
				for _, id := range layers[l] {
					loop.Body = append(loop.Body, id)
					inLoop[id] = true
				}
			}
		}
	}
	// nested graphs (a nested graph inside a loop body is executed once per round)
	if depth < 2 && len(g.c.Forest) < 4 {
		force := map[int]bool{}
		if depth == 0 && g.pairNested && len(layers[wideLayer]) >= 2 {
			force[layers[wideLayer][0]], force[layers[wideLayer][1]] = true, true
		}
		for i := range nodes {
			p := 5
			if inLoop[nodes[i].ID] {
				p = 2
			}
			if len(g.c.Forest) < 4 && (force[nodes[i].ID] || r.Chance(1, p)) {
				nodes[i].PS = 0
				nodes[i].PSTy = nil
				nodes[i].DelayUs = 0
				if mode == "eager" {
					g.underEager++
				}
				nodes[i].Sub = g.graph(depth+1, visible, visTy, false, underLoop || inLoop[nodes[i].ID])
				if mode == "eager" {
					g.underEager--
				}
			}
		}
	}
	for i := range nodes {
		sortInts(nodes[i].Preds)
	}
	g.c.Forest[gi] = GraphSpec{Mode: mode, State: state, STy: sty, Nodes: nodes, Loop: loop}
	return gi
}

func sortInts(a []int) {
	for i := 1; i < len(a); i++ {
		for j := i; j > 0 && a[j] < a[j-1]; j-- {
			a[j], a[j-1] = a[j-1], a[j]
		}
	}
}

func (engine) Generate(r *lib.Rng, tier string, i int) any {
	c := &Case{X0: int64(r.Intn(1000)), Runs: 1, Yield: r.U64() % 100000}
	g := &genCtx{r: r, c: c, nextID: 1, nextHi: hiBand + 1, thor: tier == "thorough"}
	g.pairNested = r.Chance(1, 8)
	g.graph(0, false, 0, true, false)
	if r.Chance(2, 5) {
		c.Runs = r.Range(2, 3)
		c.Concurrent = r.Chance(2, 3)
	}
	c.Stream = r.Chance(1, 4)
	// the other two entries of a compiled graph: Transform (stream in, stream out) and Collect
	// (stream in, value out)
	if c.Stream && r.Chance(1, 3) {
		c.Stream, c.Call = false, "transform"
	} else if !c.Stream && r.Chance(1, 8) {
		c.Call = "collect"
	}
	// error path: one critical section updates the state and then returns an error (the run
	// must fail, the lock must be released: sibling nodes still get the state)
	if r.Chance(1, 12) {
		type sec struct{ gi, ni, fail int }
		var secs []sec
		for gi, gr := range c.Forest {
			for ni, n := range gr.Nodes {
				if n.Pre {
					secs = append(secs, sec{gi, ni, kPre + 1})
				}
				if n.Post {
					secs = append(secs, sec{gi, ni, kPost + 1})
				}
				if n.Sub < 0 {
					for j := 0; j < n.PS; j++ {
						secs = append(secs, sec{gi, ni, kBody + j + 1})
					}
				}
			}
		}
		if len(secs) > 0 {
			x := secs[r.Intn(len(secs))]
			c.Forest[x.gi].Nodes[x.ni].Fail = x.fail
			// a fault of the other kind: the user function panics after its update. eino contains the
			// panic of a ProcessState callback (the executor of the lambda recovers) and of a handler of
			// a nested graph (the executor of the enclosing node recovers): the run fails with an error;
			// a handler of the top graph runs on the caller's goroutine, its panic reaches the caller
			// (the harness recovers it; for C11 the run has failed either way). In every case the lock
			// must be free afterwards: the nodes left behind still get the state
			if r.Chance(1, 2) {
				c.Forest[x.gi].Nodes[x.ni].FailPanic = true
			}
			// a fault while siblings are running: half of these cases run the graph again right
			// after the failed run (sequentially), with the siblings of the failing node slowed
			// down - a run that returns on the first error (eager mode) leaves nodes behind that
			// still call ProcessState while the next run has started
			if r.Chance(1, 2) {
				c.Runs = r.Range(2, 3)
				c.Concurrent = false
				noLoop := true
				for _, gr := range c.Forest {
					noLoop = noLoop && gr.Loop == nil
				}
				if noLoop && r.Chance(2, 3) {
					c.Forest[x.gi].Mode = "eager"
				}
				for ni := range c.Forest[x.gi].Nodes {
					n := &c.Forest[x.gi].Nodes[ni]
					if ni != x.ni && n.Sub < 0 && n.PS > 0 {
						n.DelayUs = 100 + r.Intn(300)
					}
				}
			}
		}
	}
	if r.Chance(3, 10) {
		// interrupt before some nodes of a layer >= 1 of some graph (before the first layer
		// only for nested graphs: their START is not the run's START)
		var cands []IntSpec
		for gi, gr := range c.Forest {
			var late []int
			first := gi > 0 && r.Chance(1, 2) // a nested graph may also be interrupted before its first layer
			for _, n := range gr.Nodes {
				if (len(n.Preds) > 0) != first {
					late = append(late, n.ID)
				}
			}
			if len(late) > 0 {
				// all nodes of one layer share "preds non-empty"; pick a random non-empty subset
				var pick []int
				for _, id := range late {
					if r.Chance(1, 2) {
						pick = append(pick, id)
					}
				}
				if len(pick) == 0 {
					pick = []int{late[r.Intn(len(late))]}
				}
				cands = append(cands, IntSpec{Graph: gi, Nodes: pick})
			}
		}
		// ... or after some nodes of any layer of some graph
		if r.Chance(1, 3) {
			cands = nil
			for gi, gr := range c.Forest {
				var pick []int
				for _, n := range gr.Nodes {
					if r.Chance(1, 3) {
						pick = append(pick, n.ID)
					}
				}
				if len(pick) > 0 {
					cands = append(cands, IntSpec{Graph: gi, Nodes: pick, After: true})
				}
			}
		}
		if len(cands) > 0 {
			is := cands[r.Intn(len(cands))]
			is.Modifier = r.Chance(1, 2)
			// interrupt nodes in a sibling nested graph as well (two nested graphs of one enclosing graph
			// interrupting at once: one checkpoint holds both). A third of the interrupted cases look
			// for two nested graphs run by nodes of the same layer; otherwise most interrupts inside a
			// nested graph take any sibling nested graph along.
			encl := func(gi int) *NodeSpec {
				for pi := range c.Forest {
					for ni := range c.Forest[pi].Nodes {
						if c.Forest[pi].Nodes[ni].Sub == gi {
							return &c.Forest[pi].Nodes[ni]
						}
					}
				}
				return nil
			}
			sameLayer := func(a, b *NodeSpec) bool {
				if a == nil || b == nil || len(a.Preds) != len(b.Preds) {
					return false
				}
				for i := range a.Preds {
					if a.Preds[i] != b.Preds[i] {
						return false
					}
				}
				return true
			}
			paired := false
			if r.Chance(1, 3) || g.pairNested {
				var pairs [][2]IntSpec
				for _, a := range cands {
					for _, b := range cands {
						if a.Graph > 0 && b.Graph > a.Graph && c.parentOf(a.Graph) == c.parentOf(b.Graph) && sameLayer(encl(a.Graph), encl(b.Graph)) {
							pairs = append(pairs, [2]IntSpec{a, b})
						}
					}
				}
				if len(pairs) > 0 {
					pr := pairs[r.Intn(len(pairs))]
					mod := is.Modifier
					is = pr[0]
					is.Modifier = mod
					also := pr[1]
					is.Also = &also
					paired = true
					// the enclosing nodes mostly carry a pre-handler (which must not run again after the resume)
					if c.Forest[c.parentOf(is.Graph)].State {
						for _, e := range []*NodeSpec{encl(is.Graph), encl(also.Graph)} {
							if r.Chance(2, 3) {
								e.Pre = true
							}
						}
					}
				}
			}
			if !paired && is.Graph > 0 && r.Chance(3, 4) {
				var sib []IntSpec
				for _, cand := range cands {
					if cand.Graph > 0 && cand.Graph != is.Graph && c.parentOf(cand.Graph) == c.parentOf(is.Graph) {
						sib = append(sib, cand)
					}
				}
				if len(sib) > 0 {
					also := sib[r.Intn(len(sib))]
					is.Also = &also
				}
			}
			c.Interrupt = &is
			// most interrupted cases have one run; the others interrupt and resume every run
			// (each under its own checkpoint id, sequentially or concurrently)
			if r.Chance(2, 3) {
				c.Runs = 1
				c.Concurrent = false
			}
			c.Again = r.Chance(1, 3)
		}
	}
	// self-interrupting nodes: a lambda whose first execution returns compose.InterruptAndRerun
	// after some of its ProcessState calls; the run is resumed from the checkpoint and the node
	// executed again (pre-handler included) with the zero input. Not inside loops (the rounds of
	// a loop and the two attempts would both count as executions), not with an injected failure.
	noLoop, noFail := true, true
	for _, gr := range c.Forest {
		noLoop = noLoop && gr.Loop == nil
		for _, n := range gr.Nodes {
			noFail = noFail && n.Fail == 0
		}
	}
	if noLoop && noFail && !c.mustRefuse() && !c.mustFail() && r.Chance(1, 6) {
		type pos struct{ gi, ni int }
		var lams []pos
		for gi, gr := range c.Forest {
			for ni, n := range gr.Nodes {
				if n.Sub < 0 {
					lams = append(lams, pos{gi, ni})
				}
			}
		}
		for k := r.Range(1, 2); k > 0 && len(lams) > 0; k-- {
			x := lams[r.Intn(len(lams))]
			n := &c.Forest[x.gi].Nodes[x.ni]
			n.Rerun = 1 + r.Intn(n.PS+1)
		}
		if c.Interrupt == nil && len(lams) > 0 {
			// a checkpoint store and id are needed; no interrupt-before/after nodes
			c.Interrupt = &IntSpec{Graph: 0, Modifier: r.Chance(1, 2)}
			if r.Chance(2, 3) {
				c.Runs, c.Concurrent = 1, false
			}
			c.Again = r.Chance(1, 4)
		}
	}
	return c
}
