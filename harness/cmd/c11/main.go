// Engine C11 — graph state is per run and accessed under mutual exclusion.
//
// A case is a forest of layered graphs (top-level graph 0, nested graphs used by exactly
// one graph node), every graph in one of the three modes (Pregel graph, AllPredecessor
// graph, Workflow), with or without state; nodes have optional state pre-/post-handlers
// (plain or stream variant) and lambdas call compose.ProcessState a given number of
// times. Every critical section (handler or ProcessState callback) runs the same routine
// `cs`: it checks and sets a non-atomic in-critical-section flag kept in the state, yields
// (seeded), takes a global sequence number, transforms the value flowing through with the
// state's counter, increments the counters, appends to the state's log, yields, clears
// the flag. Observables: the global acquisition-ordered log, the identity of the state
// object every section was handed, values in/out, final value of every state object,
// results, number of generator calls, overlap flag.
package main

import (
	"context"
	"encoding/json"
	"errors"
	"fmt"
	"io"
	"runtime"
	"sort"
	"strings"
	"sync"
	"sync/atomic"
	"time"

	"github.com/cloudwego/eino/compose"
	"github.com/cloudwego/eino/schema"

	"verif/harness/lib"
)

// ---------------------------------------------------------------- case

type NodeSpec struct {
	ID      int   `json:"id"`
	Pre     bool  `json:"pre,omitempty"`
	Post    bool  `json:"post,omitempty"`
	SPre    bool  `json:"spre,omitempty"`  // stream variant of the pre-handler
	SPost   bool  `json:"spost,omitempty"` // stream variant of the post-handler
	Sub     int   `json:"sub"`             // nested graph index, -1 = lambda
	PS      int   `json:"ps,omitempty"`    // ProcessState calls of a lambda
	Preds   []int `json:"preds,omitempty"` // empty = START
	DelayUs int   `json:"delay,omitempty"` // sleep inside the lambda body
	// state type (0 = *St, 1 = *St2; only in malformed programs: 2 = St, 3 = St2, the struct types
	// themselves, i.e. the declared state types at another pointer depth) the pre-handler /
	// post-handler / ProcessState calls of this node are written for; nil = the type of the state
	// the node sees (well typed)
	PreTy  *int `json:"prety,omitempty"`
	PostTy *int `json:"postty,omitempty"`
	PSTy   *int `json:"psty,omitempty"`
	// Fail = 1 + kind code of the critical section of this node whose user function returns an
	// error after it has updated the state (0 = none): 1 pre-handler, 2 post-handler, 3+j body j
	Fail int `json:"fail,omitempty"`
	// FailPanic: the user function of the section designated by Fail panics (after it has updated
	// the state) instead of returning an error. eino contains the panic of a ProcessState callback
	// (the lambda's executor recovers) and of a handler of a nested graph (the enclosing node's
	// executor recovers): the run fails with an error; the panic of a handler of the top graph reaches
	// the caller (recovered by the harness). Either way the run has failed and the lock must have been
	// released by the time the panic has left the wrapper (the nodes left behind still get the state)
	FailPanic bool `json:"fail_panic,omitempty"`
	// Rerun = 1 + k: the first execution of this lambda performs k of its ProcessState calls and
	// then returns compose.InterruptAndRerun (0 = never); after the resume the node is executed
	// again from scratch - pre-handler included - with the zero value as input. For the model the
	// interrupted attempt is a node of its own (id, pre-handler, k calls, no post-handler) whose
	// only successor is the re-execution (id + stride, Zero).
	Rerun int `json:"rerun,omitempty"`
	// Zero (set by unroll): the node's input is the zero value whatever its predecessors deliver
	Zero bool `json:"zero,omitempty"`
}

type GraphSpec struct {
	Mode  string     `json:"mode"` // pregel | dag | eager
	State bool       `json:"state"`
	STy   int        `json:"sty,omitempty"` // type of the state the graph declares: 0 = *St, 1 = *St2
	Nodes []NodeSpec `json:"nodes"`
	Loop  *LoopSpec  `json:"loop,omitempty"` // Pregel graphs only
}

// LoopSpec makes the consecutive nodes Body of a Pregel graph a loop executed Iter times: a
// branch after the node Last (the last of Body, alone in its layer) goes back to the nodes
// Entry (the first layer of Body) Iter-1 times and then on to Last's successors (or END).
// For the model the loop is unrolled: the copy of body node n for round r is node n + r*stride.
type LoopSpec struct {
	Entry []int `json:"entry"`
	Body  []int `json:"body"`
	Last  int   `json:"last"`
	Iter  int   `json:"iter"`
}

const stride = 1000

type IntSpec struct {
	Graph    int   `json:"graph"`
	Nodes    []int `json:"nodes"` // interrupt before (or, with After, after) these nodes of that graph
	After    bool  `json:"after,omitempty"`
	Modifier bool  `json:"modifier"`
	// Also: interrupt nodes configured in a second graph as well - a sibling nested graph of Graph
	// (run by another node of the same enclosing graph): when the two enclosing nodes run in the
	// same step both nested graphs interrupt at once and one checkpoint holds both
	Also *IntSpec `json:"also,omitempty"`
}

// the graphs with interrupt nodes configured
func (c *Case) intSpecs() []*IntSpec {
	if c.Interrupt == nil {
		return nil
	}
	l := []*IntSpec{c.Interrupt}
	if c.Interrupt.Also != nil {
		l = append(l, c.Interrupt.Also)
	}
	return l
}

type Case struct {
	Forest     []GraphSpec `json:"forest"`
	X0         int64       `json:"x0"`
	Runs       int         `json:"runs"`
	Concurrent bool        `json:"concurrent,omitempty"`
	Stream     bool        `json:"stream,omitempty"` // call Stream instead of Invoke
	// Call: "" (Invoke, or Stream when Stream is set) | "collect" | "transform": the entry the
	// caller uses (the input of Collect / Transform is a one-chunk stream)
	Call      string   `json:"call,omitempty"`
	Interrupt *IntSpec `json:"interrupt,omitempty"`
	// Again: after an interrupted run has been resumed to completion, resume once more from
	// the checkpoint the store still holds (the last one written): a second, independent
	// continuation of the same interrupted run. For the model and the oracle it is one more
	// run (index Runs + k) whose prefix up to that checkpoint is the original run's prefix.
	Again bool   `json:"again,omitempty"`
	Yield uint64 `json:"yield"`
	// set by unroll: (graph, round of the enclosing loop) -> index of the copy of that graph
	clones map[[2]int]int
}

// ---------------------------------------------------------------- values and state

type M = map[string]any

type KV struct {
	K int   `json:"k"`
	V int64 `json:"v"`
}

// St is the graph state. Registered with compose.RegisterSerializableType.
type St struct {
	Total int64
	Cnt   map[string]int64
	Log   []int64
	Busy  bool
}

// St2 is a second, distinct state type with the same representation (a graph declares one
// of the two; handlers and ProcessState calls are written for one of the two).
type St2 St

const prime = 1000003

func toInt64(v any) int64 {
	switch t := v.(type) {
	case int64:
		return t
	case int:
		return int64(t)
	case float64:
		return int64(t)
	case json.Number:
		n, _ := t.Int64()
		return n
	}
	return -1
}

func fromM(m M) []KV {
	out := make([]KV, 0, len(m))
	for k, v := range m {
		var id int
		if _, err := fmt.Sscanf(k, "k%d", &id); err != nil {
			id = -1
		}
		out = append(out, KV{id, toInt64(v)})
	}
	sort.Slice(out, func(i, j int) bool { return out[i].K < out[j].K })
	return out
}

func toM(x []KV) M {
	m := make(M, len(x))
	for _, kv := range x {
		m[fmt.Sprintf("k%d", kv.K)] = kv.V
	}
	return m
}

const (
	kPre  = 0
	kPost = 1
	kBody = 2 // + j
)

func code(node, kc int) int64 { return int64(node)*16 + int64(kc) }

func mixv(v, cd, c int64) int64 { return (v*31 + cd*7 + c*13 + 1) % prime }

// csEmpty: one pre-handler in seven returns the EMPTY value - the nil map, the zero value of the node's
// value type (Model/StateLock.v cs_empty): what a handler returns is what the node / its successors
// receive also when it is the zero value. A post-handler does so (one in five) only for node ids in the
// upper half of a block of 1000 (hiBand): the generator gives such ids to some graphs that are not
// Workflows - the Workflow graphs built here map the output keys of every node by name, so an empty
// output is a legitimate field-mapping failure there. Not the ProcessState callbacks, whose values
// never pass through eino.
const hiBand = 500

func csEmpty(kc, node int, c int64) bool {
	switch kc {
	case kPre:
		return (int64(node)*5+c*3)%7 == 0
	case kPost:
		return node%stride >= hiBand && (int64(node)*3+c)%5 == 0
	}
	return false
}

// toMH: the value a state handler returns (the nil map for the empty value)
func toMH(x []KV) M {
	if len(x) == 0 {
		return nil
	}
	return toM(x)
}

func leafOut(id int, x []KV) []KV {
	var a int64
	for _, kv := range x {
		a += (int64(kv.K) + 1) * kv.V
	}
	return []KV{{id, (a + int64(id)) % prime}}
}

// ---------------------------------------------------------------- recorder

type Event struct {
	Seq  int64 `json:"seq"`
	Run  int   `json:"run"`
	Node int   `json:"node"`
	KC   int   `json:"kc"`
	Obj  int   `json:"obj"`
	In   []KV  `json:"in"`
	Out  []KV  `json:"out"`
	Seen int64 `json:"seen"`
	ptr  *St
}

type Resume struct {
	Seq   int64       `json:"seq"`
	Run   int         `json:"run"`
	Mods  []int       `json:"mods"`
	Snaps []SnapState `json:"snaps"`
}

type SnapState struct {
	Graph int     `json:"graph"`
	S     StateOb `json:"s"`
}

type StateOb struct {
	Total int64   `json:"total"`
	Cnt   []KV    `json:"cnt"`
	Log   []int64 `json:"log"`
}

func obsState(s *St) StateOb {
	o := StateOb{Total: s.Total, Log: append([]int64{}, s.Log...)}
	for k, v := range s.Cnt {
		var id int
		fmt.Sscanf(k, "%d", &id)
		o.Cnt = append(o.Cnt, KV{id, v})
	}
	sort.Slice(o.Cnt, func(i, j int) bool { return o.Cnt[i].K < o.Cnt[j].K })
	return o
}

type rec struct {
	mu        sync.Mutex
	seq       int64
	events    []*Event
	overlap   int32
	lockSplit int32         // set by probe
	gens      map[int]int64 // run -> generator calls made on behalf of that run
	ycount    uint64
	yseed     uint64
	active    int64          // node bodies and critical sections in flight
	mods      map[int][]int  // run -> graphs the modifier was applied to
	rounds    map[[3]int]int // (run, node, what) -> how often it has been executed in that run
	replays   []replayInfo
	unrolled  *Case
	rerunIDs  map[int]bool    // lambdas that interrupt themselves once
	firstCtx  map[*St]ctxInfo // per state object: the context of the first critical section on it
	probes    uint64
}

type ctxInfo struct {
	ctx context.Context
	is2 bool
}

// replayInfo describes a second continuation (Case.Again) of run From from its last checkpoint.
type replayInfo struct {
	From       int
	Run        int   // run index the continuation was executed under (Runs + From; renumbered later)
	CutSeq     int64 // sequence number of the last resume marker of run From
	PrefixGens int64 // generator calls run From had made when that checkpoint was written
}

// gen is called by every state generator. A generator is user code that may take time
// (allocate, load, ...): a seeded yield / sleep makes the moment the state object comes into
// being a window other goroutines of the same run (and other runs) can fall into.
func (h *rec) gen(ctx context.Context) {
	h.mu.Lock()
	h.gens[runOf(ctx)]++
	h.mu.Unlock()
	h.yield()
}

func (h *rec) gensOf(run int) int64 {
	h.mu.Lock()
	defer h.mu.Unlock()
	return h.gens[run]
}

// roundsOf returns the execution counters of one run (taken while the run is interrupted:
// nothing of it is executing)
func (h *rec) roundsOf(run int) map[[2]int]int {
	h.mu.Lock()
	defer h.mu.Unlock()
	out := map[[2]int]int{}
	for k, v := range h.rounds {
		if k[0] == run {
			out[[2]int{k[1], k[2]}] = v
		}
	}
	return out
}

func (h *rec) installRounds(run int, m map[[2]int]int) {
	h.mu.Lock()
	defer h.mu.Unlock()
	for k, v := range m {
		h.rounds[[3]int{run, k[0], k[1]}] = v
	}
}

// round tells how often (node, what) has been executed before in this run (0 for the first
// execution; > 0 only for nodes inside a loop, or when something is executed once too often)
func (h *rec) round(ctx context.Context, node, what int) int {
	key := [3]int{runOf(ctx), node, what}
	h.mu.Lock()
	r := h.rounds[key]
	h.rounds[key] = r + 1
	h.mu.Unlock()
	return r
}

type runKey struct{}

func runOf(ctx context.Context) int {
	if r, ok := ctx.Value(runKey{}).(int); ok {
		return r
	}
	return -1
}

func (h *rec) yield() {
	n := atomic.AddUint64(&h.ycount, 1)
	z := (n + h.yseed) * 0x9E3779B97F4A7C15
	z ^= z >> 29
	if z%53 == 0 {
		// rarely a very long critical section / pause (0.8-2 ms): whatever can run concurrently with
		// it - a node that was handed another lock for the same state, a handler that takes no lock -
		// does so while it lasts
		time.Sleep(time.Duration(800+z>>8%1200) * time.Microsecond)
		return
	}
	switch z % 7 {
	case 0, 1, 2:
		runtime.Gosched()
	case 3:
		time.Sleep(time.Duration(z>>8%40) * time.Microsecond)
	case 4:
		runtime.Gosched()
		runtime.Gosched()
	case 5:
		// a long critical section: whatever becomes due meanwhile meets a held lock
		time.Sleep(time.Duration(z>>8%250) * time.Microsecond)
	}
}

// cs is the body of every critical section.
// execs: how often the body of lambda node has been started in this run
func (h *rec) execs(ctx context.Context, node int) int {
	h.mu.Lock()
	defer h.mu.Unlock()
	return h.rounds[[3]int{runOf(ctx), node, -1}]
}

// probe: are all critical sections on one state object protected by ONE lock? While the section
// of the caller is in progress a ProcessState callback is requested through the context of the
// first section that was ever handed this state object (another node of the same run). With one
// lock per state that callback cannot begin before the caller's section has ended; if it does
// begin, two holders with two mutexes exist for the same state (or the caller holds no lock) -
// whether or not the nodes of this case happen to collide in time. The probe callback touches
// nothing; it is given 150us to show up and is otherwise left to run (empty) when the lock is free.
func (h *rec) probe(ctx context.Context, s *St, is2 bool) {
	h.mu.Lock()
	first, known := h.firstCtx[s]
	if !known {
		h.firstCtx[s] = ctxInfo{ctx, is2}
	}
	h.mu.Unlock()
	if !known || first.ctx == ctx || atomic.AddUint64(&h.probes, 1)%3 != 0 {
		return
	}
	var inside int32 = 1
	entered := make(chan struct{})
	go func() {
		defer close(entered)
		seen := func(st *St) {
			if st == s && atomic.LoadInt32(&inside) == 1 {
				atomic.StoreInt32(&h.lockSplit, 1)
			}
		}
		if first.is2 {
			_ = compose.ProcessState[*St2](first.ctx, func(_ context.Context, st *St2) error { seen((*St)(st)); return nil })
		} else {
			_ = compose.ProcessState[*St](first.ctx, func(_ context.Context, st *St) error { seen(st); return nil })
		}
	}()
	select {
	case <-entered:
	case <-time.After(150 * time.Microsecond):
	}
	atomic.StoreInt32(&inside, 0)
}

func (h *rec) cs(ctx context.Context, node, kc int, x []KV, s *St, is2 bool) []KV {
	if h.rerunIDs[node] && kc != kPre {
		// a node that interrupts itself: the ProcessState calls and the post-handler belong to
		// the execution of the body in progress / just finished (an interrupted attempt has
		// performed only some of the calls and no post-handler)
		node += (h.execs(ctx, node) - 1) * stride
	} else {
		node += h.round(ctx, node, kc) * stride
	}
	atomic.AddInt64(&h.active, 1)
	defer atomic.AddInt64(&h.active, -1)
	if s.Busy {
		atomic.StoreInt32(&h.overlap, 1)
	}
	s.Busy = true
	h.probe(ctx, s, is2)
	h.yield()
	seq := atomic.AddInt64(&h.seq, 1)
	cd := code(node, kc)
	c := s.Total
	out := make([]KV, len(x))
	for i, kv := range x {
		out[i] = KV{kv.K, mixv(kv.V, cd, c)}
	}
	if csEmpty(kc, node, c) {
		out = []KV{}
	}
	h.yield()
	s.Total = c + 1
	if s.Cnt == nil {
		s.Cnt = map[string]int64{}
	}
	s.Cnt[fmt.Sprint(cd)]++
	s.Log = append(s.Log, cd)
	h.yield()
	if !s.Busy {
		atomic.StoreInt32(&h.overlap, 1)
	}
	s.Busy = false
	ev := &Event{Seq: seq, Run: runOf(ctx), Node: node, KC: kc, In: x, Out: out, Seen: c, ptr: s}
	h.mu.Lock()
	h.events = append(h.events, ev)
	h.mu.Unlock()
	return out
}

// unroll returns the case with every loop unrolled (what the model and the oracle see): the
// body is repeated Iter times, the copy for round r has ids + r*stride, the entry nodes of
// round r > 0 are fed by the last node of round r-1, the loop's successors by the last round.
// A nested graph run by a body node is executed once per round, each time as a new instance
// (with a freshly generated state if it declares one): the copy of the node for round r > 0
// runs a copy of the nested graph (ids + r*stride, nested graphs below it copied as well)
// appended to the forest; clones remembers (graph, round) -> index of the copy.
func (c *Case) unroll() *Case {
	u := *c
	u.Forest = make([]GraphSpec, len(c.Forest))
	u.clones = map[[2]int]int{}
	var clone func(g, r int) int
	clone = func(g, r int) int {
		if g < 0 || g >= len(u.Forest) {
			return g
		}
		src := u.Forest[g]
		ng := src
		ng.Loop = nil
		ng.Nodes = make([]NodeSpec, len(src.Nodes))
		idx := len(u.Forest)
		u.Forest = append(u.Forest, ng)
		u.clones[[2]int{g, r}] = idx
		for i, n := range src.Nodes {
			m := n
			m.ID = n.ID + r*stride
			m.Preds = nil
			for _, p := range n.Preds {
				m.Preds = append(m.Preds, p+r*stride)
			}
			if r > 0 {
				m.Fail = 0
			}
			if n.Sub >= 0 {
				m.Sub = clone(n.Sub, r)
			}
			ng.Nodes[i] = m
		}
		u.Forest[idx] = ng
		return idx
	}
	// nested graphs have larger indices than the graph that uses them: unroll them first
	for gi := len(c.Forest) - 1; gi >= 0; gi-- {
		g := c.Forest[gi]
		ng := g
		ng.Loop = nil
		if g.Loop == nil {
			u.Forest[gi] = ng
			continue
		}
		lp := g.Loop
		inBody := map[int]bool{}
		for _, b := range lp.Body {
			inBody[b] = true
		}
		isEntry := map[int]bool{}
		for _, e := range lp.Entry {
			isEntry[e] = true
		}
		var nodes []NodeSpec
		emitted := false
		for _, n := range g.Nodes {
			if !inBody[n.ID] {
				m := n
				m.Preds = nil
				for _, p := range n.Preds {
					if p == lp.Last {
						p += (lp.Iter - 1) * stride
					}
					m.Preds = append(m.Preds, p)
				}
				nodes = append(nodes, m)
				continue
			}
			if emitted {
				continue
			}
			emitted = true
			for r := 0; r < lp.Iter; r++ {
				for _, b := range g.Nodes {
					if !inBody[b.ID] {
						continue
					}
					m := b
					m.ID = b.ID + r*stride
					m.Preds = nil
					if isEntry[b.ID] && r > 0 {
						m.Preds = []int{lp.Last + (r-1)*stride}
					} else {
						for _, p := range b.Preds {
							if inBody[p] {
								p += r * stride
							}
							m.Preds = append(m.Preds, p)
						}
					}
					if r > 0 {
						m.Fail = 0 // an injected failure ends the run in round 0
						if b.Sub >= 0 {
							m.Sub = clone(b.Sub, r)
						}
					}
					nodes = append(nodes, m)
				}
			}
		}
		ng.Nodes = nodes
		u.Forest[gi] = ng
	}
	for gi := range u.Forest {
		u.Forest[gi].Nodes = expandRerun(u.Forest[gi].Nodes)
	}
	return &u
}

// expandRerun: a self-interrupting lambda n (Rerun = 1+k) becomes the interrupted attempt (id n,
// pre-handler, k ProcessState calls, no post-handler, fed like n) followed by the re-execution
// (id n+stride, everything n has, zero input, fed by the attempt); n's successors follow the
// re-execution.
func expandRerun(nodes []NodeSpec) []NodeSpec {
	re := map[int]bool{}
	for _, n := range nodes {
		if n.Rerun > 0 && n.Sub < 0 {
			re[n.ID] = true
		}
	}
	if len(re) == 0 {
		return nodes
	}
	var out []NodeSpec
	for _, n := range nodes {
		m := n
		m.Preds = nil
		for _, p := range n.Preds {
			if re[p] {
				p += stride
			}
			m.Preds = append(m.Preds, p)
		}
		if !re[n.ID] {
			out = append(out, m)
			continue
		}
		att := m
		att.Post, att.SPost, att.PostTy = false, false, nil
		att.PS = n.Rerun - 1
		att.Rerun, att.Fail = 0, 0
		out = append(out, att)
		m.ID = n.ID + stride
		m.Preds = []int{n.ID}
		m.Rerun, m.Zero = 0, true
		out = append(out, m)
	}
	return out
}

// effGraph: index (in the unrolled forest) of the instance of graph gi that is current in run
// run: gi itself, or, if gi is run (directly or indirectly) by a node inside a loop body, its
// copy for the round the loop is in (= number of times the loop's branch has been evaluated).
func (h *rec) effGraph(c *Case, run, gi int) int {
	for g, d := gi, 0; g > 0 && d < 10; d++ {
		pg := c.parentOf(g)
		if pg < 0 {
			break
		}
		if lp := c.Forest[pg].Loop; lp != nil {
			for _, n := range c.Forest[pg].Nodes {
				if n.Sub != g {
					continue
				}
				for _, b := range lp.Body {
					if b == n.ID {
						h.mu.Lock()
						r := h.rounds[[3]int{run, lp.Last, -2}]
						h.mu.Unlock()
						if idx, ok := h.unrolled.clones[[2]int{gi, r}]; ok && r > 0 {
							return idx
						}
						return gi
					}
				}
			}
		}
		g = pg
	}
	return gi
}

// ---------------------------------------------------------------- building the eino graphs

type store struct {
	mu sync.Mutex
	m  map[string][]byte
}

func (s *store) Get(ctx context.Context, id string) ([]byte, bool, error) {
	s.mu.Lock()
	defer s.mu.Unlock()
	v, ok := s.m[id]
	return v, ok, nil
}
func (s *store) Set(ctx context.Context, id string, b []byte) error {
	s.mu.Lock()
	defer s.mu.Unlock()
	s.m[id] = b
	return nil
}

func nkey(id int) string { return fmt.Sprintf("n%d", id) }
func vkey(id int) string { return fmt.Sprintf("k%d", id) }

func (c *Case) isPred(g *GraphSpec, id int) bool {
	for _, n := range g.Nodes {
		for _, p := range n.Preds {
			if p == id {
				return true
			}
		}
	}
	return false
}

func (c *Case) sinks(g *GraphSpec) []NodeSpec {
	var out []NodeSpec
	for _, n := range g.Nodes {
		if !c.isPred(g, n.ID) {
			out = append(out, n)
		}
	}
	return out
}

// keys of the map a node outputs
func (c *Case) outKeys(n NodeSpec) []int {
	if n.Sub < 0 || n.Sub >= len(c.Forest) {
		if n.Rerun > 0 {
			return []int{n.ID + stride} // what the re-execution delivers
		}
		return []int{n.ID}
	}
	// a nested graph delivers what its last nodes deliver: with a loop, the last round's copies
	u := c.unroll()
	var ks []int
	for _, s := range u.sinks(&u.Forest[n.Sub]) {
		ks = append(ks, u.outKeys(s)...)
	}
	return ks
}

func (c *Case) nodeByID(g *GraphSpec, id int) *NodeSpec {
	for i := range g.Nodes {
		if g.Nodes[i].ID == id {
			return &g.Nodes[i]
		}
	}
	return nil
}

func readAll(sr *schema.StreamReader[M]) (M, error) {
	defer sr.Close()
	out := M{}
	for {
		ch, err := sr.Recv()
		if err == io.EOF {
			return out, nil
		}
		if err != nil {
			return nil, err
		}
		for k, v := range ch {
			out[k] = v
		}
	}
}

// asSt views a state of either type as *St (same representation).
func asSt[S any](s S) *St {
	switch t := any(s).(type) {
	case *St:
		return t
	case *St2:
		return (*St)(t)
	case St: // (a handler written for the struct type is never handed a state by a correct eino)
		return &t
	case St2:
		return (*St)(&t)
	}
	return nil
}

func isSt2[S any](s S) bool {
	switch any(s).(type) {
	case *St2, St2:
		return true
	}
	return false
}

// handlerOptsTy / processStateTy: the handler / the call written for the state type with code ty
func handlerOptsTy(h *rec, n NodeSpec, pre bool, ty int) compose.GraphAddNodeOpt {
	switch ty {
	case 1:
		return handlerOpts[*St2](h, n, pre)
	case 2:
		return handlerOpts[St](h, n, pre)
	case 3:
		return handlerOpts[St2](h, n, pre)
	}
	return handlerOpts[*St](h, n, pre)
}

func processStateTy(h *rec, ctx context.Context, ty, id, kc int, x *[]KV, fail error) error {
	switch ty {
	case 1:
		return processState[*St2](h, ctx, id, kc, x, fail)
	case 2:
		return processState[St](h, ctx, id, kc, x, fail)
	case 3:
		return processState[St2](h, ctx, id, kc, x, fail)
	}
	return processState[*St](h, ctx, id, kc, x, fail)
}

var errInjected = errors.New("c11: injected handler failure")

// errInjectedPanic as the failure of a section: its user function panics with this value
var errInjectedPanic = errors.New("c11: injected handler panic")

// failOf: what the user function of the failing section of n does after its update
func failOf(n NodeSpec) error {
	if n.FailPanic {
		return errInjectedPanic
	}
	return errInjected
}

// raise panics if the failure of the section is a panic
func raise(fail error) error {
	if fail == errInjectedPanic {
		panic(fail)
	}
	return fail
}

func handlerOpts[S any](h *rec, n NodeSpec, pre bool) compose.GraphAddNodeOpt {
	id := n.ID
	kc := kPost
	stream := n.SPost
	if pre {
		kc, stream = kPre, n.SPre
	}
	var fail error
	if n.Fail == kc+1 {
		fail = failOf(n)
	}
	if stream {
		f := func(ctx context.Context, in *schema.StreamReader[M], s S) (*schema.StreamReader[M], error) {
			m, err := readAll(in)
			if err != nil {
				return nil, err
			}
			out := toMH(h.cs(ctx, id, kc, fromM(m), asSt(s), isSt2(s)))
			return schema.StreamReaderFromArray([]M{out}), raise(fail)
		}
		if pre {
			return compose.WithStreamStatePreHandler(f)
		}
		return compose.WithStreamStatePostHandler(f)
	}
	f := func(ctx context.Context, in M, s S) (M, error) {
		out := toMH(h.cs(ctx, id, kc, fromM(in), asSt(s), isSt2(s)))
		return out, raise(fail)
	}
	if pre {
		return compose.WithStatePreHandler(f)
	}
	return compose.WithStatePostHandler(f)
}

// state type the nodes of graph gi see (type of the nearest enclosing graph that declares
// state; 0 if none)
func (c *Case) visibleTy(gi int) int {
	if o := c.ownerOf(gi); o >= 0 {
		return c.Forest[o].STy
	}
	return 0
}

// the panicking user function is a handler of the top graph
func (c *Case) topHandlerPanics() bool {
	for _, n := range c.Forest[0].Nodes {
		if n.FailPanic && c.failApplies(n) && (n.Fail == kPre+1 || n.Fail == kPost+1) {
			return true
		}
	}
	return false
}

// the section designated by n.Fail exists in the program
func (c *Case) failApplies(n NodeSpec) bool {
	switch {
	case n.Fail == kPre+1:
		return n.Pre
	case n.Fail == kPost+1:
		return n.Post
	case n.Fail >= kBody+1:
		return n.Sub < 0 && n.Fail-kBody-1 < n.PS
	}
	return false
}

func tyOr(p *int, def int) int {
	if p != nil {
		return *p
	}
	return def
}

func (h *rec) nodeOpts(c *Case, gi int, n NodeSpec) []compose.GraphAddNodeOpt {
	var opts []compose.GraphAddNodeOpt
	def := c.Forest[gi].STy
	if n.Pre {
		opts = append(opts, handlerOptsTy(h, n, true, tyOr(n.PreTy, def)))
	}
	if n.Post {
		opts = append(opts, handlerOptsTy(h, n, false, tyOr(n.PostTy, def)))
	}
	return opts
}

func processState[S any](h *rec, ctx context.Context, id, kc int, x *[]KV, fail error) error {
	return compose.ProcessState[S](ctx, func(ctx context.Context, s S) error {
		*x = h.cs(ctx, id, kc, *x, asSt(s), isSt2(s))
		return raise(fail)
	})
}

func (h *rec) lambda(n NodeSpec, psTy int) *compose.Lambda {
	id, ps, delay, failKC, rerun, failWith := n.ID, n.PS, n.DelayUs, n.Fail, n.Rerun, failOf(n)
	return compose.InvokableLambda(func(ctx context.Context, in M) (M, error) {
		atomic.AddInt64(&h.active, 1)
		defer atomic.AddInt64(&h.active, -1)
		x := fromM(in)
		rnd := h.round(ctx, id, -1)
		uid := id + rnd*stride
		if delay > 0 {
			time.Sleep(time.Duration(delay) * time.Microsecond)
		}
		stopAt := -1 // the first execution of a self-interrupting node stops after that many calls
		if rerun > 0 && rnd == 0 {
			stopAt = rerun - 1
		}
		for j := 0; j < ps; j++ {
			if j == stopAt {
				return nil, compose.InterruptAndRerun
			}
			var err, fail error
			if failKC == kBody+j+1 {
				fail = failWith
			}
			err = processStateTy(h, ctx, psTy, id, kBody+j, &x, fail)
			if err != nil {
				return nil, err
			}
			h.yield()
		}
		if stopAt >= 0 {
			return nil, compose.InterruptAndRerun
		}
		return toM(leafOut(uid, x)), nil
	})
}

func (h *rec) newGraphOpts(c *Case, gi int, g *GraphSpec) []compose.NewGraphOption {
	if !g.State {
		return nil
	}
	if g.STy == 1 {
		return []compose.NewGraphOption{compose.WithGenLocalState(func(ctx context.Context) *St2 {
			h.gen(ctx)
			return &St2{Total: int64(h.effGraph(c, runOf(ctx), gi)) * 1000, Cnt: map[string]int64{}}
		})}
	}
	return []compose.NewGraphOption{compose.WithGenLocalState(func(ctx context.Context) *St {
		h.gen(ctx)
		return &St{Total: int64(h.effGraph(c, runOf(ctx), gi)) * 1000, Cnt: map[string]int64{}}
	})}
}

// compile options of graph gi (as a nested graph: passed through WithGraphCompileOptions)
func (c *Case) compileOpts(gi int) []compose.GraphCompileOption {
	var opts []compose.GraphCompileOption
	g := &c.Forest[gi]
	if g.Mode == "dag" {
		opts = append(opts, compose.WithNodeTriggerMode(compose.AllPredecessor))
	}
	if g.Loop != nil {
		opts = append(opts, compose.WithMaxRunSteps(len(g.Nodes)*(g.Loop.Iter+1)+10))
	}
	for _, is := range c.intSpecs() {
		if is.Graph != gi || len(is.Nodes) == 0 {
			continue
		}
		var keys []string
		for _, id := range is.Nodes {
			keys = append(keys, nkey(id))
		}
		if is.After {
			opts = append(opts, compose.WithInterruptAfterNodes(keys))
		} else {
			opts = append(opts, compose.WithInterruptBeforeNodes(keys))
		}
	}
	return opts
}

// build returns graph gi as an AnyGraph (first error encountered is returned).
func (h *rec) build(c *Case, gi int, depth int) (compose.AnyGraph, error) {
	if depth > 6 || gi < 0 || gi >= len(c.Forest) {
		return nil, errors.New("bad nesting")
	}
	g := &c.Forest[gi]
	var firstErr error
	note := func(err error) {
		if err != nil && firstErr == nil {
			firstErr = err
		}
	}
	if g.Mode == "eager" {
		wf := compose.NewWorkflow[M, M](h.newGraphOpts(c, gi, g)...)
		for _, n := range g.Nodes {
			var wn *compose.WorkflowNode
			if n.Sub >= 0 {
				sub, err := h.build(c, n.Sub, depth+1)
				if err != nil {
					return nil, err
				}
				opts := append(h.nodeOpts(c, gi, n), compose.WithGraphCompileOptions(c.compileOpts(n.Sub)...))
				wn = wf.AddGraphNode(nkey(n.ID), sub, opts...)
			} else {
				wn = wf.AddLambdaNode(nkey(n.ID), h.lambda(n, tyOr(n.PSTy, c.visibleTy(gi))), h.nodeOpts(c, gi, n)...)
			}
			if len(n.Preds) == 0 {
				wn.AddInput(compose.START)
			}
			for _, p := range n.Preds {
				pn := c.nodeByID(g, p)
				if pn == nil {
					return nil, errors.New("bad pred")
				}
				var maps []*compose.FieldMapping
				for _, k := range c.outKeys(*pn) {
					maps = append(maps, compose.MapFields(vkey(k), vkey(k)))
				}
				wn.AddInput(nkey(p), maps...)
			}
		}
		for _, s := range c.sinks(g) {
			var maps []*compose.FieldMapping
			for _, k := range c.outKeys(s) {
				maps = append(maps, compose.MapFields(vkey(k), vkey(k)))
			}
			wf.End().AddInput(nkey(s.ID), maps...)
		}
		return wf, nil
	}
	gr := compose.NewGraph[M, M](h.newGraphOpts(c, gi, g)...)
	for _, n := range g.Nodes {
		if n.Sub >= 0 {
			sub, err := h.build(c, n.Sub, depth+1)
			if err != nil {
				return nil, err
			}
			opts := append(h.nodeOpts(c, gi, n), compose.WithGraphCompileOptions(c.compileOpts(n.Sub)...))
			note(gr.AddGraphNode(nkey(n.ID), sub, opts...))
		} else {
			note(gr.AddLambdaNode(nkey(n.ID), h.lambda(n, tyOr(n.PSTy, c.visibleTy(gi))), h.nodeOpts(c, gi, n)...))
		}
	}
	last := -1
	if g.Loop != nil {
		last = g.Loop.Last
	}
	exits := map[string]bool{}
	for _, n := range g.Nodes {
		if len(n.Preds) == 0 {
			note(gr.AddEdge(compose.START, nkey(n.ID)))
		}
		for _, p := range n.Preds {
			if p == last {
				exits[nkey(n.ID)] = true // reached through the loop's branch
				continue
			}
			note(gr.AddEdge(nkey(p), nkey(n.ID)))
		}
	}
	for _, s := range c.sinks(g) {
		if s.ID == last {
			exits[compose.END] = true
			continue
		}
		note(gr.AddEdge(nkey(s.ID), compose.END))
	}
	if g.Loop != nil {
		lp := g.Loop
		again := map[string]bool{}
		ends := map[string]bool{}
		for _, e := range lp.Entry {
			again[nkey(e)] = true
			ends[nkey(e)] = true
		}
		for k := range exits {
			ends[k] = true
		}
		note(gr.AddBranch(nkey(lp.Last), compose.NewGraphMultiBranch(func(ctx context.Context, in M) (map[string]bool, error) {
			if h.round(ctx, lp.Last, -2) < lp.Iter-1 {
				return again, nil
			}
			return exits, nil
		}, ends)))
	}
	if firstErr != nil {
		return nil, firstErr
	}
	return gr, nil
}

// ---------------------------------------------------------------- running

type RunOut struct {
	Run   int    `json:"run"`
	Class string `json:"class"` // val | err | panic | hang
	Val   []KV   `json:"val,omitempty"`
	Msg   string `json:"msg,omitempty"`
}

type Obs struct {
	BuildErr  string    `json:"build_err,omitempty"`
	Events    []*Event  `json:"events,omitempty"`
	Resumes   []Resume  `json:"resumes,omitempty"`
	Finals    []FinalOb `json:"finals,omitempty"`
	Results   []RunOut  `json:"results,omitempty"`
	Gens      int64     `json:"gens"`
	Overlap   bool      `json:"overlap"`
	LockSplit bool      `json:"lock_split,omitempty"` // a probe callback entered during another section on the same state
	// Stuck: a lambda of a failed run was still in flight (waiting for the state lock) 15 s after the run
	// had returned, without any critical section completing meanwhile; nothing else is reported then
	Stuck bool `json:"stuck,omitempty"`
	IntSeen   bool      `json:"interrupted,omitempty"`
	ModRuns   []int     `json:"mod_runs,omitempty"` // runs (final indices) resumed with a state modifier
}

type FinalOb struct {
	Obj int     `json:"obj"`
	S   StateOb `json:"s"`
}

var regOnce sync.Once

func (c *Case) pathGraph(path []string) int {
	gi := 0
	for _, key := range path {
		var id int
		if _, err := fmt.Sscanf(key, "n%d", &id); err != nil {
			return -1
		}
		n := c.nodeByID(&c.Forest[gi], id)
		if n == nil || n.Sub < 0 {
			return -1
		}
		gi = n.Sub
	}
	return gi
}

func (c *Case) infoSnaps(info *compose.InterruptInfo, gi int, out *[]SnapState, olds *[]*St) {
	if info == nil {
		return
	}
	if s := asSt(info.State); s != nil {
		*out = append(*out, SnapState{Graph: gi, S: obsState(s)})
		*olds = append(*olds, s)
	}
	keys := make([]string, 0, len(info.SubGraphs))
	for k := range info.SubGraphs {
		keys = append(keys, k)
	}
	sort.Strings(keys)
	for _, k := range keys {
		var id int
		if _, err := fmt.Sscanf(k, "n%d", &id); err != nil {
			continue
		}
		n := c.nodeByID(&c.Forest[gi], id)
		if n == nil || n.Sub < 0 {
			continue
		}
		c.infoSnaps(info.SubGraphs[k], n.Sub, out, olds)
	}
}

// call: one call of the compiled graph through the entry of the case. Where the case makes a handler
// of the TOP graph panic (it runs on the caller's goroutine, nothing in eino contains it), the panic
// that reaches the caller is the failure of that call: it is recovered here and handed on as an
// error, so that the bookkeeping around the call (resume markers) stays complete. In every other case
// a panic goes on to the oracle (a panicking ProcessState callback or handler of a nested graph is
// contained by the executor of the node).
func (h *rec) call(c *Case, r compose.Runnable[M, M], ctx context.Context, opts ...compose.Option) (out M, err error) {
	if c.topHandlerPanics() {
		defer func() {
			// (any panic value: in the stream paradigm the deferred end-of-graph callback of runner.run
			// replaces the handler's panic by one of its own - not C11's subject)
			if p := recover(); p != nil {
				out, err = nil, fmt.Errorf("the call was left by a panic (%v): %w", p, errInjectedPanic)
			}
		}()
	}
	return h.call1(c, r, ctx, opts...)
}

func (h *rec) call1(c *Case, r compose.Runnable[M, M], ctx context.Context, opts ...compose.Option) (M, error) {
	in := M{vkey(0): c.X0}
	switch c.callKind() {
	case "stream":
		sr, err := r.Stream(ctx, in, opts...)
		if err != nil {
			return nil, err
		}
		return readAll(sr)
	case "transform":
		sr, err := r.Transform(ctx, schema.StreamReaderFromArray([]M{in}), opts...)
		if err != nil {
			return nil, err
		}
		return readAll(sr)
	case "collect":
		return r.Collect(ctx, schema.StreamReaderFromArray([]M{in}), opts...)
	}
	return r.Invoke(ctx, in, opts...)
}

func (c *Case) callKind() string {
	switch {
	case c.Call == "collect" || c.Call == "transform":
		return c.Call
	case c.Stream:
		return "stream"
	}
	return "invoke"
}

func (h *rec) runOpts(c *Case, run, cpRun int) []compose.Option {
	var opts []compose.Option
	if c.Interrupt != nil {
		opts = append(opts, compose.WithCheckPointID(fmt.Sprintf("cp%d", cpRun)))
	}
	if c.modFor(cpRun) {
		opts = append(opts, compose.WithStateModifier(func(ctx context.Context, path compose.NodePath, state any) error {
			s := asSt(state)
			if s == nil {
				return nil
			}
			s.Total += 100000
			gi := c.pathGraph(pathOf(path))
			if gi >= 0 {
				gi = h.effGraph(c, run, gi)
			}
			h.mu.Lock()
			h.mods[run] = append(h.mods[run], gi)
			h.mu.Unlock()
			return nil
		}))
	}
	return opts
}

// modFor: is run number run (the original run a continuation belongs to) resumed with the caller's
// state modifier? With several runs only the even ones are: what one run is called with must not
// show in another run that overlaps with it.
func (c *Case) modFor(run int) bool {
	return c.Interrupt != nil && c.Interrupt.Modifier && run%2 == 0
}

// lastInt is what is known about the last interrupt of a run.
type lastInt struct {
	marker Resume
	gens   int64
	rounds map[[2]int]int
}

// resumeLoop resumes the run (executed under index run, checkpoint id of run cpRun) as long
// as it ends in an interrupt.
func (h *rec) resumeLoop(c *Case, r compose.Runnable[M, M], ctx context.Context, run, cpRun int, out M, err error,
	resumes *[]Resume, intSeen *bool) (M, error, *lastInt) {
	var last *lastInt
	opts := h.runOpts(c, run, cpRun)
	for round := 0; err != nil && c.Interrupt != nil && round < 24; round++ {
		info, ok := compose.ExtractInterruptInfo(err)
		if !ok {
			break
		}
		*intSeen = true
		res := Resume{Run: run, Mods: []int{}}
		var olds []*St
		c.infoSnaps(info, 0, &res.Snaps, &olds)
		for i := range res.Snaps {
			res.Snaps[i].Graph = h.effGraph(c, run, res.Snaps[i].Graph)
		}
		last = &lastInt{gens: h.gensOf(run), rounds: h.roundsOf(run)}
		res.Seq = atomic.AddInt64(&h.seq, 1)
		h.mu.Lock()
		from := len(h.mods[run])
		h.mu.Unlock()
		out, err = h.call(c, r, ctx, opts...)
		h.mu.Lock()
		res.Mods = append(res.Mods, h.mods[run][from:]...)
		h.mu.Unlock()
		sort.Ints(res.Mods)
		*resumes = append(*resumes, res)
		last.marker = res
	}
	return out, err, last
}

func outOf(run int, out M, err error) RunOut {
	if err != nil {
		return RunOut{Run: run, Class: "err", Msg: err.Error()}
	}
	return RunOut{Run: run, Class: "val", Val: fromM(out)}
}

// oneRun executes run number run: the call, every resume it needs and, with Case.Again, a
// second continuation from the last checkpoint (result in again).
func (h *rec) oneRun(c *Case, r compose.Runnable[M, M], run int, resumes *[]Resume, intSeen *bool, again **RunOut) RunOut {
	ctx := context.WithValue(context.Background(), runKey{}, run)
	var opts []compose.Option
	if c.Interrupt != nil {
		opts = append(opts, compose.WithCheckPointID(fmt.Sprintf("cp%d", run)))
	}
	out, err := h.call(c, r, ctx, opts...)
	out, err, last := h.resumeLoop(c, r, ctx, run, run, out, err, resumes, intSeen)
	if err == nil && c.Again && last != nil {
		// the store still holds the last checkpoint of this run: resume from it once more
		run2 := c.Runs + run
		h.installRounds(run2, last.rounds)
		ctx2 := context.WithValue(context.Background(), runKey{}, run2)
		res := Resume{Run: run2, Mods: []int{}, Snaps: append([]SnapState{}, last.marker.Snaps...)}
		res.Seq = atomic.AddInt64(&h.seq, 1)
		h.mu.Lock()
		h.replays = append(h.replays, replayInfo{From: run, Run: run2, CutSeq: last.marker.Seq, PrefixGens: last.gens})
		h.mu.Unlock()
		out2, err2 := h.call(c, r, ctx2, h.runOpts(c, run2, run)...)
		h.mu.Lock()
		res.Mods = append(res.Mods, h.mods[run2]...)
		h.mu.Unlock()
		sort.Ints(res.Mods)
		*resumes = append(*resumes, res)
		out2, err2, _ = h.resumeLoop(c, r, ctx2, run2, run, out2, err2, resumes, intSeen)
		ro := outOf(run2, out2, err2)
		*again = &ro
	}
	return outOf(run, out, err)
}

func pathOf(p compose.NodePath) []string { return (&p).GetPath() }

func (c *Case) execute() (o Obs, hang bool) {
	regOnce.Do(func() {
		_ = compose.RegisterSerializableType[St]("c11_state")
		_ = compose.RegisterSerializableType[St2]("c11_state2")
	})
	h := &rec{yseed: c.Yield, mods: map[int][]int{}, rounds: map[[3]int]int{}, gens: map[int]int64{}, unrolled: c.unroll(),
		rerunIDs: map[int]bool{}, firstCtx: map[*St]ctxInfo{}}
	for _, g := range c.Forest {
		for _, n := range g.Nodes {
			if n.Rerun > 0 && n.Sub < 0 {
				h.rerunIDs[n.ID] = true
			}
		}
	}
	top, err := h.build(c, 0, 0)
	if err != nil {
		return Obs{BuildErr: "add"}, false
	}
	ctx := context.Background()
	copts := c.compileOpts(0)
	if c.Interrupt != nil {
		copts = append(copts, compose.WithCheckPointStore(&store{m: map[string][]byte{}}))
	}
	var r compose.Runnable[M, M]
	switch t := top.(type) {
	case *compose.Graph[M, M]:
		r, err = t.Compile(ctx, copts...)
	case *compose.Workflow[M, M]:
		r, err = t.Compile(ctx, copts...)
	}
	if err != nil || r == nil {
		return Obs{BuildErr: "compile"}, false
	}
	results := make([]RunOut, c.Runs)
	agains := make([]*RunOut, c.Runs)
	resumes := make([][]Resume, c.Runs)
	intSeen := make([]bool, c.Runs)
	done := make(chan struct{})
	go func() {
		defer close(done)
		one := func(i int) {
			if p := lib.Recover(func() { results[i] = h.oneRun(c, r, i, &resumes[i], &intSeen[i], &agains[i]) }); p != nil {
				results[i] = RunOut{Run: i, Class: "panic", Msg: fmt.Sprint(p)}
			}
		}
		if c.Concurrent {
			var wg sync.WaitGroup
			for i := 0; i < c.Runs; i++ {
				wg.Add(1)
				go func(i int) { defer wg.Done(); one(i) }(i)
			}
			wg.Wait()
		} else {
			for i := 0; i < c.Runs; i++ {
				one(i)
			}
		}
	}()
	select {
	case <-done:
	case <-time.After(20 * time.Second):
		return Obs{Results: []RunOut{{Class: "hang"}}}, true
	}
	// A failed run may return while sibling nodes are still running (eager mode returns on the
	// first error): wait until nothing is in flight and the sequence number is stable.
	failed := false
	for _, rr := range results {
		if rr.Class != "val" {
			failed = true
		}
	}
	if failed {
		deadline := time.Now().Add(3 * time.Second)
		for time.Now().Before(deadline) {
			s0 := atomic.LoadInt64(&h.seq)
			time.Sleep(15 * time.Millisecond)
			if atomic.LoadInt64(&h.active) == 0 && atomic.LoadInt64(&h.seq) == s0 {
				break
			}
		}
		// Still inside a lambda after 3 s: either the machine is very slow, or a node the failed run
		// left behind waits for a state lock that is never released (the failing user function left
		// its wrapper by a panic or an error and the wrapper did not unlock). Not decided by slowness:
		// the lambdas of a case need milliseconds; the alarm is raised only if for 12 more seconds
		// some lambda stays in flight AND not a single critical section completes anywhere.
		if atomic.LoadInt64(&h.active) != 0 {
			quiet := time.Now()
			s0 := atomic.LoadInt64(&h.seq)
			limit := time.Now().Add(12 * time.Second)
			for time.Now().Before(limit) && atomic.LoadInt64(&h.active) != 0 {
				time.Sleep(50 * time.Millisecond)
				if s1 := atomic.LoadInt64(&h.seq); s1 != s0 {
					s0, quiet = s1, time.Now()
					limit = quiet.Add(12 * time.Second)
				}
			}
			if atomic.LoadInt64(&h.active) != 0 && time.Since(quiet) >= 12*time.Second {
				return Obs{Results: results, Stuck: true}, false
			}
		}
	}
	// everything has returned: read the recorder
	h.mu.Lock()
	defer h.mu.Unlock()
	sort.Slice(h.events, func(i, j int) bool { return h.events[i].Seq < h.events[j].Seq })
	for i := range results {
		o.Resumes = append(o.Resumes, resumes[i]...)
		o.IntSeen = o.IntSeen || intSeen[i]
	}
	sort.Slice(o.Resumes, func(i, j int) bool { return o.Resumes[i].Seq < o.Resumes[j].Seq })
	for _, g := range h.gens {
		o.Gens += g
	}
	// A second continuation from a checkpoint (Case.Again) is presented as one more run: its
	// prefix up to the checkpoint is a copy of the original run's prefix (same sections, same
	// values, state objects of its own), placed just before its resume marker; what it did after
	// the checkpoint is what was observed. The run indices of these runs are made contiguous.
	type keyed struct {
		key int64
		ev  *Event
		rs  *Resume
	}
	const K = int64(1) << 20
	var items []keyed
	for _, e := range h.events {
		items = append(items, keyed{key: e.Seq * K, ev: e})
	}
	for i := range o.Resumes {
		items = append(items, keyed{key: o.Resumes[i].Seq * K, rs: &o.Resumes[i]})
	}
	sort.Slice(h.replays, func(i, j int) bool { return h.replays[i].From < h.replays[j].From })
	sort.SliceStable(items, func(i, j int) bool { return items[i].key < items[j].key })
	observed := append([]keyed{}, items...)
	fakes := map[*St]*St{}
	for k, rp := range h.replays {
		final := c.Runs + k
		var markerSeq int64 = -1
		for i := range o.Resumes {
			if o.Resumes[i].Run == rp.Run && (markerSeq < 0 || o.Resumes[i].Seq < markerSeq) {
				markerSeq = o.Resumes[i].Seq
			}
		}
		n := int64(0)
		for _, it := range observed {
			if it.key/K >= rp.CutSeq {
				continue
			}
			switch {
			case it.ev != nil && it.ev.Run == rp.From:
				e2 := *it.ev
				e2.Run = final
				if fakes[e2.ptr] == nil {
					fakes[e2.ptr] = new(St)
				}
				e2.ptr = fakes[e2.ptr]
				n++
				items = append(items, keyed{key: (markerSeq-1)*K + n, ev: &e2})
			case it.rs != nil && it.rs.Run == rp.From:
				r2 := *it.rs
				r2.Run = final
				n++
				items = append(items, keyed{key: (markerSeq-1)*K + n, rs: &r2})
			}
		}
		for _, it := range observed {
			if it.ev != nil && it.ev.Run == rp.Run {
				it.ev.Run = final
			}
			if it.rs != nil && it.rs.Run == rp.Run {
				it.rs.Run = final
			}
		}
		for i := range agains {
			if agains[i] != nil && agains[i].Run == rp.Run {
				agains[i].Run = final
			}
		}
		o.Gens += rp.PrefixGens
	}
	for i := 0; i < c.Runs; i++ {
		if c.modFor(i) {
			o.ModRuns = append(o.ModRuns, i)
		}
	}
	for k, rp := range h.replays {
		if c.modFor(rp.From) {
			o.ModRuns = append(o.ModRuns, c.Runs+k)
		}
	}
	for orig, fake := range fakes {
		// the original's objects of the prefix are not touched after the checkpoint
		*fake = St{Total: orig.Total, Log: append([]int64{}, orig.Log...), Cnt: map[string]int64{}}
		for k, v := range orig.Cnt {
			fake.Cnt[k] = v
		}
	}
	sort.SliceStable(items, func(i, j int) bool { return items[i].key < items[j].key })
	var events []*Event
	var rsm []Resume
	for i, it := range items {
		if it.ev != nil {
			it.ev.Seq = int64(i + 1)
			events = append(events, it.ev)
		} else {
			it.rs.Seq = int64(i + 1)
			rsm = append(rsm, *it.rs)
		}
	}
	h.events, o.Resumes = events, rsm
	ptrIdx := map[*St]int{}
	var ptrs []*St
	for _, e := range h.events {
		if _, ok := ptrIdx[e.ptr]; !ok {
			ptrIdx[e.ptr] = len(ptrs)
			ptrs = append(ptrs, e.ptr)
		}
		e.Obj = ptrIdx[e.ptr]
	}
	o.Events = h.events
	for i, p := range ptrs {
		o.Finals = append(o.Finals, FinalOb{Obj: i, S: obsState(p)})
	}
	o.Results = results
	for _, a := range agains {
		if a != nil {
			o.Results = append(o.Results, *a)
		}
	}
	sort.SliceStable(o.Results, func(i, j int) bool { return o.Results[i].Run < o.Results[j].Run })
	o.Overlap = atomic.LoadInt32(&h.overlap) != 0
	o.LockSplit = atomic.LoadInt32(&h.lockSplit) != 0
	return o, false
}

// ---------------------------------------------------------------- engine

type engine struct{}

func (engine) ID() string { return "C11" }
func (engine) CoqHeader() string {
	return "From Eino Require Import Base.Util Model.StateLock Corr.C11.\nOpen Scope N_scope.\n"
}
func (engine) CoqCaseType() string { return "ccase" }

func (engine) Decode(raw json.RawMessage) (any, error) {
	var c Case
	if err := json.Unmarshal(raw, &c); err != nil {
		return nil, err
	}
	if len(c.Forest) == 0 || c.Runs < 1 {
		return nil, errors.New("empty case")
	}
	return &c, nil
}

func coqX(x []KV) string {
	items := make([]string, len(x))
	for i, kv := range x {
		k := kv.K
		if k < 0 {
			k = 999999
		}
		items[i] = lib.CoqPair(lib.CoqN(uint64(k)), lib.CoqZ(kv.V))
	}
	return lib.CoqList(items)
}

func coqKind(kc int) string {
	switch kc {
	case kPre:
		return "KPre"
	case kPost:
		return "KPost"
	}
	return lib.CoqApp("KBody", lib.CoqNat(kc-kBody))
}

func coqState(s StateOb) string {
	cnt := make([]string, len(s.Cnt))
	for i, kv := range s.Cnt {
		cnt[i] = lib.CoqPair(lib.CoqN(uint64(kv.K)), lib.CoqZ(kv.V))
	}
	lg := make([]string, len(s.Log))
	for i, v := range s.Log {
		lg[i] = lib.CoqN(uint64(v))
	}
	return lib.CoqApp("mkS", lib.CoqZ(s.Total), lib.CoqList(cnt), lib.CoqList(lg))
}

func (c *Case) coqForest() string {
	gs := make([]string, len(c.Forest))
	for i, g := range c.Forest {
		mode := map[string]string{"pregel": "MPregel", "dag": "MDag", "eager": "MEager"}[g.Mode]
		ns := make([]string, len(g.Nodes))
		for j, n := range g.Nodes {
			sub := "None"
			if n.Sub >= 0 {
				sub = lib.CoqSome(lib.CoqNat(n.Sub))
			}
			preds := make([]string, len(n.Preds))
			for k, p := range n.Preds {
				preds[k] = lib.CoqN(uint64(p))
			}
			ns[j] = lib.CoqApp("mkNode", lib.CoqN(uint64(n.ID)), lib.CoqBool(n.Pre), lib.CoqBool(n.Post), sub,
				lib.CoqNat(n.PS), lib.CoqList(preds))
			if n.Zero {
				ns[j] = lib.CoqApp("mkNodeZ", lib.CoqN(uint64(n.ID)), lib.CoqBool(n.Pre), lib.CoqBool(n.Post), sub,
					lib.CoqNat(n.PS), lib.CoqList(preds), "true")
			}
		}
		gs[i] = lib.CoqApp("mkGraph", mode, lib.CoqBool(g.State), lib.CoqList(ns))
	}
	return lib.CoqList(gs)
}

func (c *Case) coqTerm(o *Obs) string {
	// merge events and resume markers by sequence number
	type it struct {
		seq int64
		s   string
	}
	var items []it
	for _, e := range o.Events {
		items = append(items, it{e.Seq, lib.CoqApp("IEv", lib.CoqApp("mkEv", lib.CoqN(uint64(e.Run)), lib.CoqN(uint64(e.Node)),
			coqKind(e.KC), lib.CoqN(uint64(e.Obj)), coqX(e.In), coqX(e.Out), lib.CoqZ(e.Seen)))})
	}
	for _, r := range o.Resumes {
		mods := make([]string, len(r.Mods))
		for i, g := range r.Mods {
			if g < 0 {
				g = 9999
			}
			mods[i] = lib.CoqNat(g)
		}
		snaps := make([]string, len(r.Snaps))
		for i, s := range r.Snaps {
			snaps[i] = lib.CoqPair(lib.CoqNat(s.Graph), coqState(s.S))
		}
		items = append(items, it{r.Seq, lib.CoqApp("IResume", lib.CoqN(uint64(r.Run)), lib.CoqList(mods), lib.CoqList(snaps))})
	}
	sort.SliceStable(items, func(i, j int) bool { return items[i].seq < items[j].seq })
	logs := make([]string, len(items))
	for i, x := range items {
		logs[i] = x.s
	}
	finals := make([]string, len(o.Finals))
	for i, f := range o.Finals {
		finals[i] = lib.CoqPair(lib.CoqN(uint64(f.Obj)), coqState(f.S))
	}
	results := make([]string, len(o.Results))
	for i, r := range o.Results {
		oc := "OErr"
		if r.Class == "val" {
			oc = lib.CoqApp("OVal", coqX(r.Val))
		}
		results[i] = lib.CoqPair(lib.CoqN(uint64(r.Run)), oc)
	}
	gty := make([]string, len(c.Forest))
	var nty []string
	for gi, g := range c.Forest {
		gty[gi] = lib.CoqN(uint64(g.STy))
		for _, n := range g.Nodes {
			nty = append(nty, lib.CoqPair(lib.CoqN(uint64(n.ID)), lib.CoqPair(lib.CoqN(uint64(tyOr(n.PreTy, g.STy))),
				lib.CoqPair(lib.CoqN(uint64(tyOr(n.PostTy, g.STy))), lib.CoqN(uint64(tyOr(n.PSTy, c.visibleTy(gi))))))))
		}
	}
	modRuns := make([]string, len(o.ModRuns))
	for i, r := range o.ModRuns {
		modRuns[i] = lib.CoqN(uint64(r))
	}
	failing := false
	for _, g := range c.Forest {
		for _, n := range g.Nodes {
			failing = failing || c.failApplies(n)
		}
	}
	return lib.CoqApp("mkCase", c.coqForest(), lib.CoqList(gty), lib.CoqList(nty), lib.CoqBool(failing), coqX([]KV{{0, c.X0}}), lib.CoqN(uint64(len(o.Results))),
		lib.CoqBool(o.BuildErr != ""), "\n  "+lib.CoqList(logs), "\n  "+lib.CoqList(finals), lib.CoqList(results),
		lib.CoqN(uint64(o.Gens)), lib.CoqList(modRuns))
}

func (e engine) Run(ci any) lib.Result {
	c := ci.(*Case)
	var o Obs
	var hang bool
	if p := lib.Recover(func() { o, hang = c.execute() }); p != nil {
		o = Obs{Results: []RunOut{{Class: "panic", Msg: fmt.Sprint(p)}}}
		return lib.Result{Obs: o, Oracle: "panic escaped while building/compiling: " + fmt.Sprint(p), Sig: "panic",
			Tags: []string{"class:panic"}}
	}
	res := lib.Result{Obs: o}
	res.Tags = c.tags(&o)
	if hang {
		res.Oracle, res.Sig = "run did not return within 20s", "hang"
		return res
	}
	if o.Stuck {
		res.Oracle, res.Sig = "a node left behind by a failed run never got the state lock: it was still waiting 15 s after the run had returned while no critical section was in progress or completed (a user function that failed - error or panic - left its wrapper without releasing the lock)", "stuck"
		return res
	}
	cu := c.unroll()
	res.Oracle, res.Sig = cu.oracle(&o)
	res.CoqTerm = cu.coqTerm(&o)
	res.Nontrivial = cu.nontrivial(&o)
	return res
}

// non-trivial: at least two critical sections on one state object were logged by nodes
// that run in parallel (same layer of one graph), or the case resumes from a checkpoint,
// or it has >1 run or a nested stateful graph.
func (c *Case) nontrivial(o *Obs) bool {
	if len(o.Events) < 2 {
		return false
	}
	for _, g := range c.Forest {
		cnt := 0
		for _, n := range g.Nodes {
			if len(n.Preds) == 0 && (n.Pre || n.Post || n.PS > 0 || n.Sub >= 0) {
				cnt++
			}
		}
		if cnt >= 2 {
			return true
		}
	}
	return c.Runs > 1 || len(o.Resumes) > 0 || len(c.Forest) > 1
}

func (c *Case) tags(o *Obs) []string {
	t := []string{"mode:" + c.Forest[0].Mode, fmt.Sprintf("graphs:%d", len(c.Forest)), fmt.Sprintf("runs:%d", c.Runs)}
	emptyPre, emptyPost := false, false
	for _, e := range o.Events {
		if len(e.Out) == 0 && len(e.In) > 0 {
			switch e.KC {
			case kPre:
				emptyPre = true
			case kPost:
				emptyPost = true
			}
		}
	}
	if emptyPre {
		t = append(t, "empty-result:pre-handler")
	}
	if emptyPost {
		t = append(t, "empty-result:post-handler")
	}
	total, maxw := 0, 0
	for _, g := range c.Forest {
		total += len(g.Nodes)
		w := 0
		for _, n := range g.Nodes {
			if len(n.Preds) == 0 {
				w++
			}
		}
		if w > maxw {
			maxw = w
		}
		if !g.State {
			t = append(t, "has-stateless-graph")
		}
	}
	t = append(t, fmt.Sprintf("nodes:%d", total/4*4), fmt.Sprintf("width:%d", maxw))
	if c.Concurrent && c.Runs > 1 {
		t = append(t, "concurrent-runs")
	}
	for _, g := range c.Forest {
		if g.Loop != nil {
			t = append(t, fmt.Sprintf("loop:%d", g.Loop.Iter))
			for _, n := range g.Nodes {
				for _, b := range g.Loop.Body {
					if n.Sub >= 0 && b == n.ID {
						t = append(t, "loop:nested-graph")
					}
				}
			}
		}
	}
	if len(o.Results) > c.Runs {
		t = append(t, "resume:again")
	}
	for _, g := range c.Forest {
		for _, n := range g.Nodes {
			if n.Rerun > 0 && n.Sub < 0 {
				t = append(t, "rerun-node")
			}
		}
	}
	if c.Interrupt != nil && o.IntSeen && c.Runs > 1 {
		t = append(t, "interrupt:multi-run")
	}
	t = append(t, "call:"+c.callKind())
	if c.Interrupt != nil {
		if o.IntSeen {
			t = append(t, "interrupt:resumed")
			if c.Interrupt.Modifier {
				t = append(t, "interrupt:modifier")
			}
			if c.Interrupt.Graph > 0 {
				t = append(t, "interrupt:nested")
			}
			if c.Interrupt.After {
				t = append(t, "interrupt:after")
			}
			if c.Interrupt.Also != nil {
				t = append(t, "interrupt:two-nested-graphs")
			}
		} else {
			t = append(t, "interrupt:not-hit")
		}
	}
	for gi, g := range c.Forest {
		if g.State && g.STy == 1 {
			t = append(t, "state-type:St2")
		}
		for _, n := range g.Nodes {
			if (n.Pre && tyOr(n.PreTy, g.STy) != g.STy) || (n.Post && tyOr(n.PostTy, g.STy) != g.STy) {
				t = append(t, "malformed:handler-state-type")
				if (n.Pre && tyOr(n.PreTy, g.STy) >= 2) || (n.Post && tyOr(n.PostTy, g.STy) >= 2) {
					t = append(t, "malformed:handler-pointer-depth")
				}
			}
			if n.Sub < 0 && n.PS > 0 && c.ownerOf(gi) >= 0 && tyOr(n.PSTy, c.visibleTy(gi)) != c.visibleTy(gi) {
				t = append(t, "malformed:processstate-type")
				if tyOr(n.PSTy, 0) >= 2 {
					t = append(t, "malformed:processstate-pointer-depth")
				}
			}
		}
	}
	for _, g := range c.Forest {
		for _, n := range g.Nodes {
			if c.failApplies(n) {
				what := "handler-error"
				if n.FailPanic {
					what = "handler-panic"
				}
				t = append(t, fmt.Sprintf("%s:%s", what, map[bool]string{true: "body", false: map[int]string{1: "pre", 2: "post"}[n.Fail]}[n.Fail > 2]))
			}
		}
	}
	if o.BuildErr != "" {
		t = append(t, "class:builderr")
	}
	for _, r := range o.Results {
		t = append(t, "class:"+r.Class)
	}
	t = append(t, fmt.Sprintf("events:%d", len(o.Events)/10*10))
	return t
}

// ---------------------------------------------------------------- direct oracle

func (c *Case) graphOf(id int) int {
	for gi := range c.Forest {
		if c.nodeByID(&c.Forest[gi], id) != nil {
			return gi
		}
	}
	return -1
}

func (c *Case) parentOf(gi int) int {
	for pi := range c.Forest {
		for _, n := range c.Forest[pi].Nodes {
			if n.Sub == gi {
				return pi
			}
		}
	}
	return -1
}

func (c *Case) ownerOf(gi int) int {
	for d := 0; gi >= 0 && d < 10; d++ {
		if c.Forest[gi].State {
			return gi
		}
		gi = c.parentOf(gi)
	}
	return -1
}

// oracle evaluates the property on the implementation's outputs alone.
func (c *Case) oracle(o *Obs) (string, string) {
	// AddNode / Compile refuses exactly the programs with a state handler on a graph without
	// state or written for another state type than the graph's
	if o.BuildErr != "" {
		if !c.mustRefuse() {
			return "AddNode / Compile refused a program whose state handlers all match the state their graph declares (" + o.BuildErr + ")", "build-refused"
		}
		return "", ""
	}
	if c.mustRefuse() {
		return "AddNode / Compile accepted a state handler on a graph that declares no state of the handler's type", "build-accepted"
	}
	for _, r := range o.Results {
		// (the injected panic of a handler of the top graph, which runs on the caller's goroutine, is
		// recovered in rec.call: class err)
		if r.Class == "panic" {
			return "panic escaped from a run: " + r.Msg, "panic"
		}
	}
	if o.Overlap {
		return "two critical sections on the same state object overlapped (in-critical-section flag)", "overlap"
	}
	if o.LockSplit {
		return "a ProcessState callback requested through the context of another node of the same run began while a critical section on the same state object was in progress: the two contexts carry different locks for one state", "lock-split"
	}
	type lk struct{ run, node, kc int }
	pos := map[lk]int{}
	epoch := map[int]int{}
	ri := 0
	type ok struct{ run, owner, epoch int }
	ptrKey := map[int]ok{}
	keyPtr := map[ok]int{}
	perObj := map[int][]*Event{}
	for i, e := range o.Events {
		for ri < len(o.Resumes) && o.Resumes[ri].Seq < e.Seq {
			epoch[o.Resumes[ri].Run]++
			ri++
		}
		if c.graphOf(e.Node) < 0 {
			return fmt.Sprintf("critical section (node %d round %d, kind %d) executed although the program has no such execution", e.Node%stride, e.Node/stride, e.KC), "order"
		}
		k := lk{e.Run, e.Node, e.KC}
		if _, dup := pos[k]; dup {
			return fmt.Sprintf("critical section %v executed twice", k), "order"
		}
		pos[k] = i
		key := ok{e.Run, c.ownerOf(c.graphOf(e.Node)), epoch[e.Run]}
		if pk, seen := ptrKey[e.Obj]; seen && pk != key {
			return fmt.Sprintf("state object %d handed to %v and to %v", e.Obj, pk, key), "state-shared"
		}
		if kp, seen := keyPtr[key]; seen && kp != e.Obj {
			return fmt.Sprintf("%v saw two different state objects (%d, %d)", key, kp, e.Obj), "state-split"
		}
		ptrKey[e.Obj] = key
		keyPtr[key] = e.Obj
		perObj[e.Obj] = append(perObj[e.Obj], e)
	}
	for ; ri < len(o.Resumes); ri++ {
		epoch[o.Resumes[ri].Run]++
	}
	// order pre < body_j < post, and value flow pre -> node input -> ... -> post
	for _, e := range o.Events {
		g := c.graphOf(e.Node)
		if g < 0 {
			continue
		}
		n := c.nodeByID(&c.Forest[g], e.Node)
		var prev *Event
		switch {
		case e.KC == kPre:
		case e.KC == kBody:
			if n.Pre {
				i, okk := pos[lk{e.Run, e.Node, kPre}]
				if !okk || o.Events[i].Seq > e.Seq {
					return fmt.Sprintf("node %d ran before its pre-handler", e.Node), "order"
				}
				prev = o.Events[i]
			}
		case e.KC > kBody:
			i, okk := pos[lk{e.Run, e.Node, e.KC - 1}]
			if !okk || o.Events[i].Seq > e.Seq {
				return fmt.Sprintf("node %d: ProcessState calls out of order", e.Node), "order"
			}
			prev = o.Events[i]
		case e.KC == kPost:
			for kc := 0; kc < kBody+n.PS; kc++ {
				if kc == kPost || (kc == kPre && !n.Pre) || (kc >= kBody && n.Sub >= 0) {
					continue
				}
				i, okk := pos[lk{e.Run, e.Node, kc}]
				if !okk || o.Events[i].Seq > e.Seq {
					return fmt.Sprintf("node %d: post-handler before the node finished", e.Node), "order"
				}
			}
			if n.Sub < 0 {
				var src []KV
				if n.PS > 0 {
					src = o.Events[pos[lk{e.Run, e.Node, kBody + n.PS - 1}]].Out
				} else if n.Pre {
					src = o.Events[pos[lk{e.Run, e.Node, kPre}]].Out
				}
				if src != nil && !eqX(leafOut(n.ID, src), e.In) {
					return fmt.Sprintf("node %d: post-handler did not receive the node's output", e.Node), "flow"
				}
			}
		}
		if prev != nil && !eqX(prev.Out, e.In) {
			return fmt.Sprintf("node %d kind %d: did not receive what the previous section returned", e.Node, e.KC), "flow"
		}
	}
	// no lost update: every object's counters and log are exactly its logged sections, in order
	lastEpochObj := map[int]bool{}
	for key, p := range keyPtr {
		if key.epoch == epoch[key.run] {
			lastEpochObj[p] = true
		}
	}
	for _, f := range o.Finals {
		evs := perObj[f.Obj]
		key := ptrKey[f.Obj]
		if !lastEpochObj[f.Obj] {
			continue // value at the interrupt; compared with the first section after resume below
		}
		var lg []int64
		// log of the whole run for this (run, owner): earlier epochs first
		for _, e := range o.Events {
			k2 := ptrKey[e.Obj]
			if k2.run == key.run && k2.owner == key.owner {
				lg = append(lg, code(e.Node, e.KC))
			}
		}
		_ = evs
		if len(f.S.Log) != len(lg) {
			return fmt.Sprintf("state object %d: %d sections logged by the harness, %d recorded in the state", f.Obj, len(lg), len(f.S.Log)), "lost-update"
		}
		for i := range lg {
			if lg[i] != f.S.Log[i] {
				return fmt.Sprintf("state object %d: log order differs from lock-acquisition order at %d", f.Obj, i), "lost-update"
			}
		}
		mods := int64(0)
		for _, r := range o.Resumes {
			if r.Run == key.run {
				for _, g := range r.Mods {
					if g == key.owner {
						mods++
					}
				}
			}
		}
		if f.S.Total != int64(key.owner)*1000+int64(len(lg))+mods*100000 {
			return fmt.Sprintf("state object %d: counter %d after %d sections", f.Obj, f.S.Total, len(lg)), "lost-update"
		}
		for _, kv := range f.S.Cnt {
			if kv.V != 1 {
				return fmt.Sprintf("state object %d: section %d counted %d times", f.Obj, kv.K, kv.V), "lost-update"
			}
		}
		if len(f.S.Cnt) != len(lg) {
			return fmt.Sprintf("state object %d: %d counters for %d sections", f.Obj, len(f.S.Cnt), len(lg)), "lost-update"
		}
	}
	// the caller's modifier is applied exactly once to every state the checkpoint holds, and to
	// nothing else
	// (a run that fails may fail before a pending nested graph has been resumed)
	if c.Interrupt != nil && !c.mustFail() {
		for _, r := range o.Resumes {
			var want []int
			if o.modRun(r.Run) {
				for _, sn := range r.Snaps {
					want = append(want, sn.Graph)
				}
				sort.Ints(want)
			}
			same := len(want) == len(r.Mods)
			for i := 0; same && i < len(want); i++ {
				same = want[i] == r.Mods[i]
			}
			if !same {
				return fmt.Sprintf("run %d: the checkpoint holds the states of graphs %v, the state modifier was applied to %v", r.Run, want, r.Mods), "modifier"
			}
		}
	}
	// resume: state before interrupt = state after resume (apart from the modifier)
	for _, r := range o.Resumes {
		for _, sn := range r.Snaps {
			want := sn.S.Total
			for _, g := range r.Mods {
				if g == sn.Graph {
					want += 100000
				}
			}
			// the next thing that happens to that state: a critical section, or (no section
			// in between) the next interrupt of the same run that checkpoints it again
			nextSeq, nextSeen, found := int64(0), int64(0), false
			for _, e := range o.Events {
				k2 := ptrKey[e.Obj]
				if e.Seq > r.Seq && k2.run == r.Run && k2.owner == sn.Graph {
					nextSeq, nextSeen, found = e.Seq, e.Seen, true
					break
				}
			}
			for _, r2 := range o.Resumes {
				if r2.Run != r.Run || r2.Seq <= r.Seq || (found && r2.Seq > nextSeq) {
					continue
				}
				for _, sn2 := range r2.Snaps {
					if sn2.Graph == sn.Graph && (!found || r2.Seq < nextSeq) {
						nextSeq, nextSeen, found = r2.Seq, sn2.S.Total, true
					}
				}
			}
			if found && nextSeen != want {
				return fmt.Sprintf("graph %d: counter %d at the interrupt, %d seen by the first section after resume", sn.Graph, want, nextSeen), "resume-state"
			}
		}
	}
	// completeness and value flow for the runs that returned a value: every critical section
	// the program has was performed, each received the value determined by what the earlier
	// handlers returned, and the run's result is the merge of the final outputs of the sinks
	for _, r := range o.Results {
		if r.Class != "val" {
			continue
		}
		ev := &flowEval{c: c, run: r.Run, pos: map[[2]int]*Event{}, memo: map[string][]KV{}}
		for _, e := range o.Events {
			if e.Run == r.Run {
				ev.pos[[2]int{e.Node, e.KC}] = e
			}
		}
		for gi := range c.Forest {
			for _, n := range c.Forest[gi].Nodes {
				if what := ev.checkNode(gi, n); what != "" {
					return what, ev.sig
				}
			}
		}
		var outs [][]KV
		for _, sn := range c.sinks(&c.Forest[0]) {
			outs = append(outs, ev.final(0, sn))
		}
		if ev.bad == "" && !eqX(mergeKV(outs), r.Val) {
			return fmt.Sprintf("run %d: the result is not the merge of the final outputs of the last nodes", r.Run), "flow"
		}
		if ev.bad != "" {
			return ev.bad, ev.sig
		}
	}
	// a well-formed program none of whose user functions fails runs to completion: every node
	// finds the state of the nearest enclosing graph that declares one
	if !c.mustFail() {
		for _, r := range o.Results {
			if r.Class == "err" {
				return fmt.Sprintf("run %d failed although no user function fails and every ProcessState call has a state of its type in scope: %s", r.Run, r.Msg), "unexpected-error"
			}
		}
	}
	// generator calls
	okAll := true
	for _, r := range o.Results {
		if r.Class != "val" {
			okAll = false
		}
	}
	if okAll {
		st := 0
		for _, g := range c.Forest {
			if g.State {
				st++
			}
		}
		if o.Gens != int64(st*len(o.Results)) {
			return fmt.Sprintf("%d generator calls for %d runs x %d stateful graphs", o.Gens, len(o.Results), st), "gens"
		}
	}
	return "", ""
}

func (o *Obs) modRun(run int) bool {
	for _, r := range o.ModRuns {
		if r == run {
			return true
		}
	}
	return false
}

// mustRefuse: some node has a state handler although its graph declares no state, or a
// handler written for the other state type.
func (c *Case) mustRefuse() bool {
	for _, g := range c.Forest {
		for _, n := range g.Nodes {
			if (n.Pre || n.Post) && !g.State {
				return true
			}
			if (n.Pre && tyOr(n.PreTy, g.STy) != g.STy) || (n.Post && tyOr(n.PostTy, g.STy) != g.STy) {
				return true
			}
		}
	}
	return false
}

// mustFail: some user function returns an error, or a lambda calls ProcessState where no
// enclosing graph declares state / for another type than the nearest one that does.
func (c *Case) mustFail() bool {
	for gi, g := range c.Forest {
		for _, n := range g.Nodes {
			if c.failApplies(n) {
				return true
			}
			if n.Sub < 0 && n.PS > 0 {
				o := c.ownerOf(gi)
				if o < 0 || tyOr(n.PSTy, c.Forest[o].STy) != c.Forest[o].STy {
					return true
				}
			}
		}
	}
	return false
}

// flowEval computes, from the values the critical sections of one run returned, the value
// every section and every node must have received (the data flow of the layered graphs).
type flowEval struct {
	c    *Case
	run  int
	pos  map[[2]int]*Event
	memo map[string][]KV
	bad  string
	sig  string
}

func mergeKV(xs [][]KV) []KV {
	var out []KV
	for _, x := range xs {
		out = append(out, x...)
	}
	sort.SliceStable(out, func(i, j int) bool { return out[i].K < out[j].K })
	return out
}

func (ev *flowEval) fail(sig, format string, a ...any) {
	if ev.bad == "" {
		ev.bad, ev.sig = fmt.Sprintf(format, a...), sig
	}
}

func (ev *flowEval) out(node, kc int) []KV {
	e := ev.pos[[2]int{node, kc}]
	if e == nil {
		ev.fail("missing", "run %d returned a value but critical section (node %d, kind %d) was never performed", ev.run, node, kc)
		return nil
	}
	return e.Out
}

// what the predecessors (or the graph's input) deliver to node n of graph gi
func (ev *flowEval) nodeIn(gi int, n NodeSpec) []KV {
	key := fmt.Sprintf("in%d", n.ID)
	if v, ok := ev.memo[key]; ok {
		return v
	}
	var v []KV
	if len(n.Preds) == 0 {
		if gi == 0 {
			v = []KV{{0, ev.c.X0}}
		} else {
			pg := ev.c.parentOf(gi)
			for _, pn := range ev.c.Forest[pg].Nodes {
				if pn.Sub == gi {
					v = ev.bodyIn(pg, pn)
				}
			}
		}
	} else if n.Zero {
		v = []KV{} // the re-execution of a node that interrupted itself starts from the zero value
	} else {
		var xs [][]KV
		for _, p := range n.Preds {
			if pn := ev.c.nodeByID(&ev.c.Forest[gi], p); pn != nil {
				xs = append(xs, ev.final(gi, *pn))
			}
		}
		v = mergeKV(xs)
	}
	ev.memo[key] = v
	return v
}

func (ev *flowEval) bodyIn(gi int, n NodeSpec) []KV {
	if n.Pre {
		return ev.out(n.ID, kPre)
	}
	return ev.nodeIn(gi, n)
}

func (ev *flowEval) nodeOut(gi int, n NodeSpec) []KV {
	if n.Sub >= 0 && n.Sub < len(ev.c.Forest) {
		var xs [][]KV
		for _, sn := range ev.c.sinks(&ev.c.Forest[n.Sub]) {
			xs = append(xs, ev.final(n.Sub, sn))
		}
		return mergeKV(xs)
	}
	if n.PS > 0 {
		return leafOut(n.ID, ev.out(n.ID, kBody+n.PS-1))
	}
	return leafOut(n.ID, ev.bodyIn(gi, n))
}

func (ev *flowEval) final(gi int, n NodeSpec) []KV {
	if n.Post {
		return ev.out(n.ID, kPost)
	}
	return ev.nodeOut(gi, n)
}

// every section of node n was performed and received the value the flow determines
func (ev *flowEval) checkNode(gi int, n NodeSpec) string {
	chk := func(kc int, want []KV, what string) {
		e := ev.pos[[2]int{n.ID, kc}]
		if e == nil {
			ev.fail("missing", "run %d returned a value but critical section (node %d, kind %d) was never performed", ev.run, n.ID, kc)
			return
		}
		if ev.bad == "" && !eqX(e.In, want) {
			ev.fail("flow", "node %d kind %d: %s", n.ID, kc, what)
		}
	}
	if n.Pre {
		chk(kPre, ev.nodeIn(gi, n), "the pre-handler did not receive the merge of the predecessors' final outputs")
	}
	if n.Sub < 0 {
		for j := 0; j < n.PS; j++ {
			if j == 0 {
				chk(kBody, ev.bodyIn(gi, n), "the node did not receive what its pre-handler returned / its predecessors delivered")
			} else {
				chk(kBody+j, ev.out(n.ID, kBody+j-1), "ProcessState calls out of sequence")
			}
		}
	}
	if n.Post {
		chk(kPost, ev.nodeOut(gi, n), "the post-handler did not receive the node's output")
	}
	return ev.bad
}

func eqX(a, b []KV) bool {
	if len(a) != len(b) {
		return false
	}
	for i := range a {
		if a[i] != b[i] {
			return false
		}
	}
	return true
}

func main() {
	_ = strings.TrimSpace
	lib.Main(engine{})
}
