// Engine C13 — node failures surface as identifiable, unwrappable errors; panics are contained.
//
// A case is a layered graph (stages of parallel nodes, every node of stage k feeds every node
// of stage k+1) with nested sub-graphs to depth 0-3, nodes chosen to fail / panic / emit an
// error item / interrupt / cancel the context, an optional cycle with a step limit, run through
// one of the four public paradigms.  The implementation's error is inspected through the public
// API (errors.Is / errors.As / message) and through the verif hook compose.VerifC13Info (the
// private fields of the path-carrying wrapper) and compared with the SET of legal answers of the
// model coq/Model/Errors.v (which of several parallel failures is reported is nondeterministic).
package main

import (
	"context"
	"encoding/json"
	"errors"
	"fmt"
	"io"
	"os"
	"path/filepath"
	"regexp"
	"sort"
	"strconv"
	"strings"
	"sync"
	"sync/atomic"
	"time"

	"github.com/cloudwego/eino/components/tool"
	"github.com/cloudwego/eino/compose"
	"github.com/cloudwego/eino/schema"

	"verif/harness/lib"
)

// ---------------------------------------------------------------- case

// ErrSpec describes an error value a node body returns.
type ErrSpec struct {
	Base  string `json:"base"`            // s0 | s1 (sentinels) | c0 | c1 (custom error types)
	Code  int    `json:"code,omitempty"`  // payload of a custom error
	Wraps int    `json:"wraps,omitempty"` // number of fmt.Errorf("...%w") layers around it
	// Nested: the body gets the error by invoking a compiled one-node graph of its own (node "x"
	// fails with the base error) and puts the Wraps layers around what that run returned.
	Nested bool `json:"nested,omitempty"`
	// Typed: a typed error with an Unwrap method (ctxErr, payload TCode) goes around the base /
	// nested-run error, below the %w layers.
	Typed bool `json:"typed,omitempty"`
	TCode int  `json:"tcode,omitempty"`
}

type ctxErr struct {
	code  int
	cause error
}

func (c *ctxErr) Error() string { return "ctx #" + strconv.Itoa(c.code) + ": " + c.cause.Error() }
func (c *ctxErr) Unwrap() error { return c.cause }

func nestedError(base error) error {
	g := compose.NewGraph[M, M]()
	if err := g.AddLambdaNode("x", compose.InvokableLambda(func(ctx context.Context, in M) (M, error) { return nil, base })); err != nil {
		panic(err)
	}
	if err := g.AddEdge(compose.START, "x"); err != nil {
		panic(err)
	}
	if err := g.AddEdge("x", compose.END); err != nil {
		panic(err)
	}
	r, err := g.Compile(context.Background())
	if err != nil {
		panic(err)
	}
	_, err = r.Invoke(context.Background(), M{})
	if err == nil {
		panic("harness: nested run did not fail")
	}
	return err
}

type ToolSpec struct {
	Beh string   `json:"beh"` // ok | fail | panic | convpanic (streamable tool whose stream panics while it is forwarded)
	Err *ErrSpec `json:"err,omitempty"`
	ID  int      `json:"id,omitempty"` // panic payload
	St  int      `json:"st,omitempty"` // how the call uses the local state (see Node.St)
	// Unknown: the call names a tool the ToolsNode does not have; the node's UnknownToolsHandler answers it and
	// behaves as Beh says (ok | fail | panic).  The framework runs the handler like an invokable tool: not an
	// input of the model.
	Unknown bool `json:"unknown,omitempty"`
}

type Node struct {
	Key  string   `json:"key"`
	Kind string   `json:"kind"`           // lam | sub | tools
	Flav string   `json:"flav,omitempty"` // i | s | c | t   (the lambda's only native paradigm)
	Beh  string   `json:"beh,omitempty"`  // ok | fail | panic | item | rerun | cancel | convpanic | prefail | postfail (the node's state pre / post handler returns Err; the body succeeds)
	Err  *ErrSpec `json:"err,omitempty"`
	ID   int      `json:"id,omitempty"` // panic payload
	// Pos: where the fault sits in the node's output stream (item: 0 = [chunk, error item], 1 = [error item,
	// chunk], 2 = [error item] alone; convpanic: 0 = the convert function panics at the first chunk, 1 = at
	// the second of two).  Whoever reads the stream to its end finds the same: not an input of the model.
	Pos   int        `json:"pos,omitempty"`
	Sub   *Graph     `json:"sub,omitempty"`
	Tools []ToolSpec `json:"tools,omitempty"`
	// node options that put a wrapper around the node's runnable (compose/runnable.go inputKeyed / outputKeyed
	// ComposableRunnable): OutKey = compose.WithOutputKey("ok:<path>") (the output becomes a map with that one
	// key), InKey = compose.WithInputKey(<the output key of the node InKey of the previous stage>) (the node
	// takes that predecessor's output out of the merged map / filters the merged stream for it).  Every error,
	// error item and panic passes the wrappers as it is: not an input of the model.
	OutKey bool   `json:"out_key,omitempty"`
	InKey  string `json:"in_key,omitempty"`
	// St: how the body uses the local state of the enclosing graph (only when the node's graph or a graph
	// around it declares one, see Graph.State): 0 = not at all, 1 = its whole call-time part — where its fault is
	// raised: the returned error, the panic, the rerun request, the cancellation — runs INSIDE the handler it
	// passes to compose.ProcessState, 2 = it updates the state through compose.ProcessState first and raises its
	// fault afterwards.  ProcessState hands the handler's error on as it is and a panic unwinds through it: not
	// an input of the model.
	St int `json:"st,omitempty"`
}

type Graph struct {
	Dag    bool      `json:"dag,omitempty"`
	Chain  bool      `json:"chain,omitempty"` // built with compose.NewChain (every stage is a single node, no branch)
	WF     bool      `json:"wf,omitempty"`    // built as a compose.Workflow (all-predecessor, eager scheduling: tasks are collected one by one)
	Stages [][]*Node `json:"stages"`
	// State: the graph declares a local state (compose.WithGenLocalState); its nodes' bodies and tool calls —
	// those of nested graphs that declare none of their own included: they find this one in their context —
	// may use it through compose.ProcessState (Node.St / ToolSpec.St).
	State bool `json:"state,omitempty"`
	Loop  bool `json:"loop,omitempty"` // last stage (a single node) branches back to the first stage, never to END
	Max   int  `json:"max,omitempty"`  // WithMaxRunSteps (0 = default)
	// The branch after the last node: a cyclic graph has one (back to the first node); with EndBr an
	// acyclic graph whose last stage is a single node reaches END through a branch instead of an edge.
	EndBr bool     `json:"end_br,omitempty"`
	Br    string   `json:"br,omitempty"` // "" (the condition succeeds) | fail | panic
	BrErr *ErrSpec `json:"br_err,omitempty"`
	BrID  int      `json:"br_id,omitempty"`
}

type Case struct {
	G            *Graph   `json:"g"`
	Par          string   `json:"par"`                     // invoke | stream | collect | transform
	CancelBefore bool     `json:"cancel_before,omitempty"` // context already cancelled at the call
	Deadline     bool     `json:"deadline,omitempty"`      // ... because its deadline has passed (ctx.Err() is context.DeadlineExceeded, not context.Canceled)
	Cause        bool     `json:"cause,omitempty"`         // the run's context is made with context.WithCancelCause / WithDeadlineCause and whoever cancels it (the caller before the call, a cancelling node, the passed deadline) gives a cause: ctx.Err() is still context.Canceled / context.DeadlineExceeded and that is what the run's error must match
	InErr        *ErrSpec `json:"in_err,omitempty"`        // collect/transform: the input stream carries this error item
	InPos        int      `json:"in_pos,omitempty"`        // ... 0 = after the chunk, 1 = before it, 2 = alone
	Resume       bool     `json:"resume,omitempty"`        // the graph is compiled with a checkpoint store; while a call ends in an interrupt (a node returned InterruptAndRerun: it succeeds when it is run again) the run is resumed from its checkpoint; the observation is the final one
	Twice        bool     `json:"twice,omitempty"`         // the compiled runnable is called a second time after the first call has returned (same input, fresh context): whatever the first run left behind — tasks still in flight after a failure, recovered panics — must not show in the second
	Conc         bool     `json:"conc,omitempty"`          // the freshly compiled runnable gets its FIRST two calls at the same time, from two goroutines (same input, a context each): what the runs share — the compiled graph, whatever a run keeps in it — must not mix their errors up; both observations go through the oracle and must be legal
	RtMax        int      `json:"rt_max,omitempty"`        // call option compose.WithRuntimeMaxSteps (top graph in Pregel mode only): overrides the compiled limit of the top graph, not of nested graphs
	Fwd          *FwdSpec `json:"fwd,omitempty"`           // a forwarder case (fwd.go): G / Par unused
}

// ---------------------------------------------------------------- error universe

var sentinels = []error{errors.New("sentinel zero"), errors.New("sentinel one")}

type custom0 struct{ code int }
type custom1 struct{ code int }

func (c *custom0) Error() string { return "custom0 #" + strconv.Itoa(c.code) }
func (c *custom1) Error() string { return "custom1 #" + strconv.Itoa(c.code) }

func (e *ErrSpec) mk() error {
	var err error
	switch e.Base {
	case "s0":
		err = sentinels[0]
	case "s1":
		err = sentinels[1]
	case "c0":
		err = &custom0{e.Code}
	case "c1":
		err = &custom1{e.Code}
	default:
		panic("harness: bad error base " + e.Base)
	}
	if e.Nested {
		err = nestedError(err)
	}
	if e.Typed {
		err = &ctxErr{e.TCode, err}
	}
	for i := 0; i < e.Wraps; i++ {
		err = fmt.Errorf("layer %d: %w", i, err)
	}
	return err
}

// texts: what the error's own message says, layer by layer (the caller must still find all of it in
// the message of the run's error).
func (e *ErrSpec) texts() []string {
	var t []string
	switch e.Base {
	case "s0":
		t = append(t, "sentinel zero")
	case "s1":
		t = append(t, "sentinel one")
	case "c0":
		t = append(t, "custom0 #"+strconv.Itoa(e.Code))
	case "c1":
		t = append(t, "custom1 #"+strconv.Itoa(e.Code))
	}
	if e.Typed {
		t = append(t, "ctx #"+strconv.Itoa(e.TCode)+": ")
	}
	for i := 0; i < e.Wraps; i++ {
		t = append(t, "layer "+strconv.Itoa(i)+": ")
	}
	return t
}

func (e *ErrSpec) coq() string {
	var t string
	switch e.Base {
	case "s0":
		t = "(Leaf 0%N)"
	case "s1":
		t = "(Leaf 1%N)"
	case "c0":
		t = lib.CoqApp("Custom", lib.CoqN(0), lib.CoqN(uint64(e.Code)))
	case "c1":
		t = lib.CoqApp("Custom", lib.CoqN(1), lib.CoqN(uint64(e.Code)))
	default:
		panic("harness: bad error base " + e.Base)
	}
	if e.Nested {
		t = "(Internal NodeRunError [] [\"x\"%string] " + t + ")"
	}
	if e.Typed {
		t = "(CustomW 2%N " + lib.CoqN(uint64(e.TCode)) + " " + t + ")"
	}
	for i := 0; i < e.Wraps; i++ {
		t = "(Wrapf " + t + ")"
	}
	return t
}

// ---------------------------------------------------------------- building the graph

type M = map[string]any

type execRec struct {
	Path string `json:"path"`
	What string `json:"what"` // ok | fail | panic | item | rerun | cancel | convpanic | tool-*
}

type env struct {
	mu     sync.Mutex
	log    []execRec
	cancel context.CancelFunc
	// resumed cases: the nodes that have asked for their rerun already (they succeed from then on)
	resume    bool
	rerunDone map[string]bool
	noMarker  bool   // the caller of callOnce keeps the fatal marker itself (concurrent calls)
	root      *Graph // the graph of the case (scoped: which bodies find a local state in their context)
}

// scoped: does the body of the node at path (keys from the top graph; a tool call: the ToolsNode node's
// path) find a local state in its context — does its own graph or a graph around it declare one?
func (e *env) scoped(path []string) bool {
	g := e.root
	for _, k := range path {
		if g == nil {
			return false
		}
		if len(stateOpts(g)) > 0 {
			return true
		}
		var next *Graph
		for _, st := range g.Stages {
			for _, n := range st {
				if n.Key == k && n.Kind == "sub" {
					next = n.Sub
				}
			}
		}
		g = next
	}
	return false
}

// useState runs f — the call-time part of a body — the way the node uses the local state (Node.St).
func useState(ctx context.Context, st int, scoped bool, f func() error) error {
	if !scoped {
		return f()
	}
	switch st {
	case 1:
		return compose.ProcessState[*hState](ctx, func(ctx context.Context, s *hState) error {
			s.n++
			return f()
		})
	case 2:
		if err := compose.ProcessState[*hState](ctx, func(ctx context.Context, s *hState) error {
			s.n++
			return nil
		}); err != nil {
			return err
		}
	}
	return f()
}

// memStore is the checkpoint store of a resumed case.
type memStore struct {
	mu sync.Mutex
	m  map[string][]byte
}

func (s *memStore) Get(ctx context.Context, id string) ([]byte, bool, error) {
	s.mu.Lock()
	defer s.mu.Unlock()
	b, ok := s.m[id]
	return b, ok, nil
}

func (s *memStore) Set(ctx context.Context, id string, b []byte) error {
	s.mu.Lock()
	defer s.mu.Unlock()
	s.m[id] = append([]byte(nil), b...)
	return nil
}

func (e *env) rec(path []string, what string) {
	e.mu.Lock()
	e.log = append(e.log, execRec{strings.Join(path, "/"), what})
	e.mu.Unlock()
}

func pathOf(prefix []string, key string) []string {
	p := make([]string, 0, len(prefix)+1)
	p = append(p, prefix...)
	return append(p, key)
}

// boom panics with payload id from a call stack 0-44 frames deep (user code panics anywhere; the
// depth decides how long the recovering side spends in debug.Stack).  The panic VALUE is, by
// id%3, the string "boom:<id>", an error value with that text, or a runtime error (index <id> of
// an empty slice) — what nil maps / bad indices in user code raise; and for one id in eight a nil
// error value (panic(err) with err == nil: recover() returns nil for it unless the main module's go
// directive is 1.21 or later — the harness's is 1.18 like eino's own): F-C13f.
func boom(id int) {
	var empty []int
	var down func(k int)
	down = func(k int) {
		if k <= 0 {
			if nilPanic(id) {
				var err error
				panic(err)
			}
			switch id % 3 {
			case 1:
				panic(fmt.Errorf("boom:%d", id))
			case 2:
				_ = empty[id]
			}
			panic("boom:" + strconv.Itoa(id))
		}
		down(k - 1)
	}
	down((id * 7) % 45)
}

// recoverAll is lib.Recover that also sees a panic with a nil value (recover() returns nil for it under
// this module's go directive): a function that neither returned nor panicked with a value panicked with nil.
func recoverAll(f func()) (p any) {
	finished := false
	defer func() {
		if r := recover(); r != nil {
			p = r
		} else if !finished {
			p = "panic called with nil argument"
		}
	}()
	f()
	finished = true
	return nil
}

// nilPanic: the panic with this id has a nil value; it carries no id, its payload in the model (and
// what the hook reports for it) is nilPayload.
func nilPanic(id int) bool { return id%8 == 5 }

const nilPayload = 999998

// pay: the payload of the panic with this id as the observer can read it back.
func pay(id int) int {
	if nilPanic(id) {
		return nilPayload
	}
	return id
}

// payloadOf reads the id back from a recovered panic value (-2: not one of the harness's).
func payloadOf(pi any) int {
	var s string
	switch v := pi.(type) {
	case string:
		s = v
	case error:
		s = v.Error()
	default:
		return -2
	}
	if strings.HasPrefix(s, "panic called with nil argument") {
		return nilPayload
	}
	if m := reBoom.FindStringSubmatch(s); m != nil {
		n, _ := strconv.Atoi(m[1])
		return n
	}
	if m := reIndex.FindStringSubmatch(s); m != nil {
		n, _ := strconv.Atoi(m[1])
		return n
	}
	return -2
}

// callTime is what every lambda flavour does when it is called.
func callTime(ctx context.Context, e *env, n *Node, path []string, scoped bool) error {
	return useState(ctx, n.St, scoped, func() error { return callTime1(e, n, path) })
}

func callTime1(e *env, n *Node, path []string) error {
	switch n.Beh {
	case "fail":
		e.rec(path, "fail")
		return n.Err.mk()
	case "panic":
		e.rec(path, "panic")
		boom(n.ID)
	case "rerun":
		if e.resume {
			key := strings.Join(path, "/")
			e.mu.Lock()
			again := e.rerunDone[key]
			e.rerunDone[key] = true
			e.mu.Unlock()
			if again {
				e.rec(path, "ok")
				return nil
			}
		}
		e.rec(path, "rerun")
		return compose.InterruptAndRerun
	case "cancel":
		e.rec(path, "cancel")
		e.mu.Lock()
		cancel := e.cancel
		e.mu.Unlock()
		cancel()
		return nil
	case "prefail", "postfail": // the body itself succeeds (the handler logs its own failure)
		e.rec(path, "ok")
		return nil
	}
	e.rec(path, n.Beh)
	return nil
}

// keyOpts: the input-key / output-key options of a node.
func keyOpts(n *Node, prefix []string) []compose.GraphAddNodeOpt {
	var o []compose.GraphAddNodeOpt
	if n.OutKey {
		o = append(o, compose.WithOutputKey("ok:"+strings.Join(pathOf(prefix, n.Key), "/")))
	}
	if n.InKey != "" {
		o = append(o, compose.WithInputKey("ok:"+strings.Join(pathOf(prefix, n.InKey), "/")))
	}
	return o
}

// hState is the local state of every graph of a case that has a node with a state handler.
type hState struct{ n int }

func genState(ctx context.Context) *hState { return &hState{} }

// handlerOpts: the state pre / post handler of a node whose behaviour is prefail / postfail
// (invoke-native handlers: in stream mode the framework reads the stream for them).
func handlerOpts(e *env, n *Node, path []string) []compose.GraphAddNodeOpt {
	switch n.Beh {
	case "prefail":
		return []compose.GraphAddNodeOpt{compose.WithStatePreHandler(func(ctx context.Context, in M, s *hState) (M, error) {
			e.rec(path, "prefail")
			return in, n.Err.mk()
		})}
	case "postfail":
		return []compose.GraphAddNodeOpt{compose.WithStatePostHandler(func(ctx context.Context, out M, s *hState) (M, error) {
			e.rec(path, "postfail")
			return out, n.Err.mk()
		})}
	}
	return nil
}

// stateOpts: the graph declares the state when the case says so or one of its own nodes has a handler.
func stateOpts(g *Graph) []compose.NewGraphOption {
	if g.State {
		return []compose.NewGraphOption{compose.WithGenLocalState(genState)}
	}
	for _, st := range g.Stages {
		for _, n := range st {
			if n.Kind == "lam" && (n.Beh == "prefail" || n.Beh == "postfail") {
				return []compose.NewGraphOption{compose.WithGenLocalState(genState)}
			}
		}
	}
	return nil
}

func lambdaOf(e *env, n *Node, path []string) *compose.Lambda {
	out := M{strings.Join(path, "/"): "v"} // globally unique key: fan-in merges never collide
	scoped := e.scoped(path)
	switch n.Flav {
	case "i":
		return compose.InvokableLambda(func(ctx context.Context, in M) (M, error) {
			if err := callTime(ctx, e, n, path, scoped); err != nil {
				return nil, err
			}
			return out, nil
		})
	case "s":
		return compose.StreamableLambda(func(ctx context.Context, in M) (*schema.StreamReader[M], error) {
			if err := callTime(ctx, e, n, path, scoped); err != nil {
				return nil, err
			}
			switch n.Beh {
			case "item":
				sr, sw := schema.Pipe[M](2)
				switch n.Pos {
				case 1:
					sw.Send(nil, n.Err.mk())
					sw.Send(out, nil)
				case 2:
					sw.Send(nil, n.Err.mk())
				default:
					sw.Send(out, nil)
					sw.Send(nil, n.Err.mk())
				}
				sw.Close()
				return sr, nil
			case "convpanic":
				if n.Pos == 1 {
					first := true
					src := schema.StreamReaderFromArray([]M{out, {strings.Join(path, "/") + "#2": "v"}})
					return schema.StreamReaderWithConvert(src, func(m M) (M, error) {
						if first {
							first = false
							return m, nil
						}
						boom(n.ID)
						return nil, nil
					}), nil
				}
				src := schema.StreamReaderFromArray([]M{out})
				return schema.StreamReaderWithConvert(src, func(m M) (M, error) {
					boom(n.ID)
					return nil, nil
				}), nil
			}
			return schema.StreamReaderFromArray([]M{out}), nil
		})
	case "c":
		return compose.CollectableLambda(func(ctx context.Context, in *schema.StreamReader[M]) (M, error) {
			defer in.Close()
			for {
				_, err := in.Recv()
				if err == io.EOF {
					break
				}
				if err != nil {
					return nil, err // the input's error item, as it is
				}
			}
			if err := callTime(ctx, e, n, path, scoped); err != nil {
				return nil, err
			}
			return out, nil
		})
	case "t":
		return compose.TransformableLambda(func(ctx context.Context, in *schema.StreamReader[M]) (*schema.StreamReader[M], error) {
			if err := callTime(ctx, e, n, path, scoped); err != nil {
				in.Close()
				return nil, err
			}
			// lazy: one output chunk per input chunk; error items of the input pass through
			return schema.StreamReaderWithConvert(in, func(m M) (M, error) { return out, nil }), nil
		})
	}
	panic("harness: bad flavour " + n.Flav)
}

type hTool struct {
	name string
	spec ToolSpec
	e    *env
	path []string
	// scoped: the ToolsNode sits in a graph that has a local state (its own or one around it)
	scoped bool
}

func (t *hTool) Info(ctx context.Context) (*schema.ToolInfo, error) {
	return &schema.ToolInfo{Name: t.name, Desc: t.name}, nil
}

func (t *hTool) InvokableRun(ctx context.Context, args string, opts ...tool.Option) (string, error) {
	err := useState(ctx, t.spec.St, t.scoped, func() error {
		switch t.spec.Beh {
		case "fail":
			t.e.rec(t.path, "tool-fail")
			return t.spec.Err.mk()
		case "panic":
			t.e.rec(t.path, "tool-panic")
			boom(t.spec.ID)
		}
		t.e.rec(t.path, "tool-ok")
		return nil
	})
	if err != nil {
		return "", err
	}
	return "r", nil
}

// sTool is a streamable-only tool whose output stream panics in its convert function:
// inside ToolsNode.Stream that function runs in the goroutine that forwards the tool's
// stream into the merged output (schema/stream.go toStream).
type sTool struct{ h hTool }

func (s *sTool) Info(ctx context.Context) (*schema.ToolInfo, error) { return s.h.Info(ctx) }

func (s *sTool) StreamableRun(ctx context.Context, args string, opts ...tool.Option) (*schema.StreamReader[string], error) {
	t := &s.h
	t.e.rec(t.path, "tool-convpanic")
	src := schema.StreamReaderFromArray([]string{"r"})
	return schema.StreamReaderWithConvert(src, func(s string) (string, error) {
		boom(t.spec.ID)
		return "", nil
	}), nil
}

// toolsGraph: pre (map -> assistant message with one call per tool) -> tn (ToolsNode) -> post (messages -> map)
func toolsGraph(e *env, n *Node, path []string) (*compose.Graph[M, M], error) {
	ctx := context.Background()
	var tools []tool.BaseTool
	var calls []schema.ToolCall
	unknown := map[string]*hTool{} // calls of tools the node does not have: answered by its UnknownToolsHandler
	for i, ts := range n.Tools {
		name := "t" + strconv.Itoa(i)
		ht := hTool{name: name, spec: ts, e: e, path: pathOf(pathOf(path, "tn"), name), scoped: e.scoped(path)}
		switch {
		case ts.Beh == "convpanic":
			tools = append(tools, &sTool{ht})
		case ts.Unknown:
			h := ht
			unknown[name] = &h
		default:
			h := ht
			tools = append(tools, invokableOnly{&h})
		}
		calls = append(calls, schema.ToolCall{ID: "c" + strconv.Itoa(i), Function: schema.FunctionCall{Name: name, Arguments: "{}"}})
	}
	conf := &compose.ToolsNodeConfig{Tools: tools}
	if len(unknown) > 0 {
		conf.UnknownToolsHandler = func(ctx context.Context, name, input string) (string, error) {
			h, ok := unknown[name]
			if !ok {
				return "", fmt.Errorf("harness: unknown-tool handler called for %q", name)
			}
			return h.InvokableRun(ctx, input)
		}
	}
	tn, err := compose.NewToolNode(ctx, conf)
	if err != nil {
		return nil, err
	}
	g := compose.NewGraph[M, M]()
	if err := g.AddLambdaNode("pre", compose.InvokableLambda(func(ctx context.Context, in M) (*schema.Message, error) {
		e.rec(pathOf(path, "pre"), "ok")
		return schema.AssistantMessage("", calls), nil
	})); err != nil {
		return nil, err
	}
	if err := g.AddToolsNode("tn", tn); err != nil {
		return nil, err
	}
	if err := g.AddLambdaNode("post", compose.InvokableLambda(func(ctx context.Context, in []*schema.Message) (M, error) {
		e.rec(pathOf(path, "post"), "ok")
		return M{strings.Join(path, "/"): "v"}, nil
	})); err != nil {
		return nil, err
	}
	for _, ed := range [][2]string{{compose.START, "pre"}, {"pre", "tn"}, {"tn", "post"}, {"post", compose.END}} {
		if err := g.AddEdge(ed[0], ed[1]); err != nil {
			return nil, err
		}
	}
	return g, nil
}

// invokableOnly hides every method but Info / InvokableRun.
type invokableOnly struct{ t *hTool }

func (i invokableOnly) Info(ctx context.Context) (*schema.ToolInfo, error) { return i.t.Info(ctx) }
func (i invokableOnly) InvokableRun(ctx context.Context, a string, o ...tool.Option) (string, error) {
	return i.t.InvokableRun(ctx, a, o...)
}

func compileOpts(g *Graph) []compose.GraphCompileOption {
	var o []compose.GraphCompileOption
	if g.WF {
		return o
	}
	if g.Dag {
		o = append(o, compose.WithNodeTriggerMode(compose.AllPredecessor))
	}
	if g.Max > 0 {
		o = append(o, compose.WithMaxRunSteps(g.Max))
	}
	return o
}

type compilable interface {
	compose.AnyGraph
	Compile(ctx context.Context, opts ...compose.GraphCompileOption) (compose.Runnable[M, M], error)
}

func build(e *env, g *Graph, prefix []string) (compilable, error) {
	if g.WF {
		return buildWF(e, g, prefix)
	}
	if g.Chain {
		return buildChain(e, g, prefix)
	}
	return buildGraph(e, g, prefix)
}

// buildChain: a graph whose stages are single nodes, built through the Chain front end.
func buildChain(e *env, g *Graph, prefix []string) (compilable, error) {
	if g.Loop || g.EndBr || len(g.Stages) == 0 {
		return nil, errors.New("chain cases have stages and no branch")
	}
	ch := compose.NewChain[M, M](stateOpts(g)...)
	for _, st := range g.Stages {
		if len(st) != 1 {
			return nil, errors.New("chain cases have single-node stages")
		}
		n := st[0]
		path := pathOf(prefix, n.Key)
		switch n.Kind {
		case "lam":
			ch.AppendLambda(lambdaOf(e, n, path), append(append(handlerOpts(e, n, path), keyOpts(n, prefix)...), compose.WithNodeKey(n.Key))...)
		case "sub":
			sg, err := build(e, n.Sub, path)
			if err != nil {
				return nil, err
			}
			ch.AppendGraph(sg, append(keyOpts(n, prefix), compose.WithNodeKey(n.Key), compose.WithGraphCompileOptions(compileOpts(n.Sub)...))...)
		case "tools":
			sg, err := toolsGraph(e, n, path)
			if err != nil {
				return nil, err
			}
			ch.AppendGraph(sg, append(keyOpts(n, prefix), compose.WithNodeKey(n.Key))...)
		default:
			return nil, fmt.Errorf("bad node kind %q", n.Kind)
		}
	}
	return ch, nil
}

// buildWF: the same layered shape as a Workflow. A node with one predecessor takes its whole
// output; with several, each predecessor's output goes to the map key named after it.
func buildWF(e *env, g *Graph, prefix []string) (compilable, error) {
	if len(g.Stages) == 0 || g.Loop {
		return nil, errors.New("workflow cases have stages and no cycle")
	}
	wf := compose.NewWorkflow[M, M](stateOpts(g)...)
	wire := func(wn *compose.WorkflowNode, preds []*Node) {
		if len(preds) == 1 {
			wn.AddInput(preds[0].Key)
			return
		}
		for _, p := range preds { // globally unique field names: merged chunk maps never collide on a key
			wn.AddInput(p.Key, compose.ToField("wf:"+strings.Join(pathOf(prefix, p.Key), "/")))
		}
	}
	for k, st := range g.Stages {
		for _, n := range st {
			path := pathOf(prefix, n.Key)
			var wn *compose.WorkflowNode
			switch n.Kind {
			case "lam":
				wn = wf.AddLambdaNode(n.Key, lambdaOf(e, n, path), handlerOpts(e, n, path)...)
			case "sub":
				sg, err := build(e, n.Sub, path)
				if err != nil {
					return nil, err
				}
				wn = wf.AddGraphNode(n.Key, sg, compose.WithGraphCompileOptions(compileOpts(n.Sub)...))
			case "tools":
				sg, err := toolsGraph(e, n, path)
				if err != nil {
					return nil, err
				}
				wn = wf.AddGraphNode(n.Key, sg)
			default:
				return nil, fmt.Errorf("bad node kind %q", n.Kind)
			}
			if k == 0 {
				wn.AddInput(compose.START)
			} else {
				wire(wn, g.Stages[k-1])
			}
		}
	}
	wire(wf.End(), g.Stages[len(g.Stages)-1])
	return wf, nil
}

func buildGraph(e *env, g *Graph, prefix []string) (compilable, error) {
	cg := compose.NewGraph[M, M](stateOpts(g)...)
	for _, st := range g.Stages {
		for _, n := range st {
			path := pathOf(prefix, n.Key)
			var err error
			switch n.Kind {
			case "lam":
				err = cg.AddLambdaNode(n.Key, lambdaOf(e, n, path), append(handlerOpts(e, n, path), keyOpts(n, prefix)...)...)
			case "sub":
				var sg compilable
				sg, err = build(e, n.Sub, path)
				if err == nil {
					err = cg.AddGraphNode(n.Key, sg, append(keyOpts(n, prefix), compose.WithGraphCompileOptions(compileOpts(n.Sub)...))...)
				}
			case "tools":
				var sg *compose.Graph[M, M]
				sg, err = toolsGraph(e, n, path)
				if err == nil {
					err = cg.AddGraphNode(n.Key, sg, keyOpts(n, prefix)...)
				}
			default:
				err = fmt.Errorf("bad node kind %q", n.Kind)
			}
			if err != nil {
				return nil, err
			}
		}
	}
	if len(g.Stages) == 0 {
		return nil, errors.New("no stages")
	}
	for _, n := range g.Stages[0] {
		if err := cg.AddEdge(compose.START, n.Key); err != nil {
			return nil, err
		}
	}
	for k := 0; k+1 < len(g.Stages); k++ {
		for _, a := range g.Stages[k] {
			for _, b := range g.Stages[k+1] {
				if err := cg.AddEdge(a.Key, b.Key); err != nil {
					return nil, err
				}
			}
		}
	}
	last := g.Stages[len(g.Stages)-1]
	if g.Loop || g.EndBr {
		if len(last) != 1 {
			return nil, errors.New("a graph with a branch has a single-node last stage")
		}
		if len(g.Stages[0]) != 1 || g.Dag {
			return nil, errors.New("a graph with a branch is a Pregel graph with a single-node first stage")
		}
		// a branch needs two possible ends: END and the first node (never chosen unless cyclic)
		target := compose.END
		ends := map[string]bool{compose.END: true, g.Stages[0][0].Key: true}
		if g.Loop {
			target = g.Stages[0][0].Key
		}
		brPath := pathOf(prefix, "#branch")
		br := compose.NewGraphBranch(func(ctx context.Context, in M) (string, error) {
			switch g.Br {
			case "fail":
				e.rec(brPath, "br-fail")
				return "", g.BrErr.mk()
			case "panic":
				e.rec(brPath, "br-panic")
				boom(g.BrID)
			}
			return target, nil
		}, ends)
		if err := cg.AddBranch(last[0].Key, br); err != nil {
			return nil, err
		}
	} else {
		for _, n := range last {
			if err := cg.AddEdge(n.Key, compose.END); err != nil {
				return nil, err
			}
		}
	}
	return cg, nil
}

// ---------------------------------------------------------------- observation

type Proj struct {
	Found      bool     `json:"found"`               // errors.As finds the path-carrying wrapper
	Outermost  bool     `json:"outermost,omitempty"` // ... and it is the returned error itself
	Typ        string   `json:"typ,omitempty"`
	NodePath   []string `json:"node_path,omitempty"`
	StreamPath []string `json:"stream_path,omitempty"`
	Is         []bool   `json:"is"`                  // errors.Is for s0, s1, ErrExceedMaxSteps, context.Canceled, InterruptAndRerun, ErrRecvAfterClosed
	As         []int    `json:"as"`                  // errors.As for custom0, custom1, ctxErr: code or -1
	Panic      int      `json:"panic"`               // payload of a recovered panic on the chain, -1 if none
	Interrupt  bool     `json:"interrupt,omitempty"` // compose.ExtractInterruptInfo succeeds
	MsgPath    []string `json:"msg_path,omitempty"`  // node path parsed from the message (public observable)
	Msg        string   `json:"msg,omitempty"`
	// read off the whole message (Msg is cut for display)
	MsgPanic  bool `json:"msg_panic,omitempty"`
	MsgLimit  bool `json:"msg_limit,omitempty"`
	MsgCancel bool `json:"msg_cancel,omitempty"`
	// IsCause: errors.Is(err, the cause given to the cancellation) — for the oracle only (the property asks for
	// the context's own error; the cause may or may not be on the chain)
	IsCause bool `json:"is_cause,omitempty"`
	full    string
}

type Obs struct {
	Class string    `json:"class"` // ok | err | item | panic | hang | build
	P     *Proj     `json:"p,omitempty"`
	Info  string    `json:"info,omitempty"`
	Log   []execRec `json:"log,omitempty"`
	F     *FObs     `json:"f,omitempty"` // forwarder cases
}

// errCause: the reason given to a cancellation with a cause (context.Cause(ctx); never ctx.Err()).
var errCause = errors.New("operator pressed abort")

var isTargets = []error{sentinels[0], sentinels[1], compose.ErrExceedMaxSteps, context.Canceled, compose.InterruptAndRerun, schema.ErrRecvAfterClosed}

var rePath = regexp.MustCompile(`node path: \[([^\]]*)\]`)
var reBoom = regexp.MustCompile(`^boom:(\d+)$`)
var reIndex = regexp.MustCompile(`^runtime error: index out of range \[(\d+)\] with length 0$`)

// ctxSentinel: the error of the run's context once it is done — what "context cancellation is
// matchable" is asked for (errors.Is slot 3).
func ctxSentinel(c *Case) error {
	if c.CancelBefore && c.Deadline {
		return context.DeadlineExceeded
	}
	return context.Canceled
}

func project(err error, ctxDone error) *Proj {
	p := &Proj{Panic: -1}
	p.Found, p.Outermost, p.Typ, p.NodePath, p.StreamPath = wbErrInfo(err)
	for i, t := range isTargets {
		if i == 3 {
			t = ctxDone
		}
		p.Is = append(p.Is, errors.Is(err, t))
	}
	var c0 *custom0
	var c1 *custom1
	var cw *ctxErr
	p.As = []int{-1, -1, -1}
	if errors.As(err, &cw) {
		p.As[2] = cw.code
	}
	if errors.As(err, &c0) {
		p.As[0] = c0.code
	}
	if errors.As(err, &c1) {
		p.As[1] = c1.code
	}
	if pi, ok := wbPanicInfo(err); ok {
		p.Panic = payloadOf(pi) // -2: a panic value the harness did not throw
	}
	_, p.Interrupt = compose.ExtractInterruptInfo(err)
	p.IsCause = errors.Is(err, errCause)
	msg := err.Error()
	p.full = msg
	if ms := rePath.FindAllStringSubmatch(msg, -1); len(ms) > 0 {
		last := ms[len(ms)-1][1]
		if last != "" {
			p.MsgPath = strings.Split(last, ", ")
		}
	}
	p.MsgPanic = strings.Contains(msg, "panic")
	p.MsgLimit = strings.Contains(msg, "exceeds max steps")
	p.MsgCancel = strings.Contains(msg, "context canceled") || strings.Contains(msg, "context deadline exceeded")
	if len(msg) > 160 {
		msg = msg[:160] + "..."
	}
	p.Msg = msg
	return p
}

func drain(sr *schema.StreamReader[M]) error {
	defer sr.Close()
	for {
		_, err := sr.Recv()
		if err == io.EOF {
			return nil
		}
		if err != nil {
			return err
		}
	}
}

func inputStream(c *Case) *schema.StreamReader[M] {
	if c.InErr == nil {
		return schema.StreamReaderFromArray([]M{{"in": "x"}})
	}
	sr, sw := schema.Pipe[M](2)
	switch c.InPos {
	case 1:
		sw.Send(nil, c.InErr.mk())
		sw.Send(M{"in": "x"}, nil)
	case 2:
		sw.Send(nil, c.InErr.mk())
	default:
		sw.Send(M{"in": "x"}, nil)
		sw.Send(nil, c.InErr.mk())
	}
	sw.Close()
	return sr
}

const watchdog = 10 * time.Second

// hangSeen: a run of this process has already met its watchdog (that is a violation on its own); the cases
// after it wait 1 s only, so that a defect that makes a whole class of cases hang does not cost 10 s each.
var hangSeen atomic.Bool

func watchdogPeriod() time.Duration {
	if hangSeen.Load() {
		return 1 * time.Second
	}
	return watchdog
}

var cpSeq atomic.Int64

var fatalMarker = func() string {
	d := os.Getenv("VERIF_RUNDIR")
	if d == "" {
		return ""
	}
	p := filepath.Join(d, "fatal.json")
	os.Remove(p)
	return p
}()

// schedSensitive: how many extra times a case is run because its answer may depend on the schedule
// (parallel nodes in one step, parallel tool calls): every run must satisfy the oracle and be a
// legal answer of the model.  Panics on spawned goroutines get more runs: the recovery paths
// (recover, debug.Stack, hand-off to the waiter) are where an ordering mistake hides.
func schedSensitive(c *Case) int {
	par, parPanic := false, false
	var walk func(g *Graph)
	walk = func(g *Graph) {
		for _, st := range g.Stages {
			for _, n := range st {
				if len(st) >= 2 {
					par = true
					if n.Beh == "panic" || n.Beh == "convpanic" {
						parPanic = true
					}
				}
				if n.Kind == "sub" {
					walk(n.Sub)
				}
				if n.Kind == "tools" && len(n.Tools) >= 2 {
					par = true
					for i, t := range n.Tools {
						if i >= 1 && (t.Beh == "panic" || t.Beh == "convpanic") {
							parPanic = true
						}
					}
				}
			}
		}
	}
	walk(c.G)
	switch {
	case parPanic:
		return 12
	case par:
		return 3
	}
	return 0
}

// runImpl runs the case 1 + schedSensitive(c) times (fresh graph each time) and returns the
// distinct observations, the first run's first.
func runImpl(c *Case) []Obs {
	first, again := runOnce(c)
	all := []Obs{first}
	if first.Class == "hang" || first.Class == "build" {
		return all
	}
	seen := map[string]bool{first.coq(): true}
	add := func(o *Obs) bool {
		if o == nil {
			return true
		}
		if key := o.coq(); !seen[key] {
			seen[key] = true
			all = append(all, *o)
		}
		return o.Class != "hang"
	}
	if !add(again) {
		return all
	}
	for k := schedSensitive(c); k > 0; k-- {
		o, o2 := runOnce(c)
		if !add(&o) || !add(o2) {
			break
		}
	}
	return all
}

// markFatal: a panic on a goroutine the harness does not own kills the process: leave a marker naming the
// case while it runs (the returned function removes it).
func markFatal(c *Case) func() {
	if fatalMarker == "" {
		return func() {}
	}
	// ("case" is blanked by ./check when it copies the marker into the replay file: the case is
	// kept under "failing_case" as well, with the way to re-run it)
	b, _ := json.Marshal(map[string]any{"case": c, "failing_case": c, "case_summary": summary(c),
		"how_to_replay": "write {\"case\": <the value of failing_case>} to a file F and run ./check C13 --replay F (the harness process dies again while it runs the case)",
		"what":          "the process died while this case was running (a panic escaped on a goroutine of the implementation): " + summary(c)})
	os.WriteFile(fatalMarker, b, 0o644)
	return func() { os.Remove(fatalMarker) }
}

// runOnce builds and compiles the graph of the case and calls it; with c.Twice the same compiled
// runnable is called again once the first call has returned (second result: the extra observation).
func runOnce(c *Case) (Obs, *Obs) {
	e := &env{root: c.G}
	cg, err := build(e, c.G, nil)
	if err != nil {
		return Obs{Class: "build", Info: err.Error()}, nil
	}
	copts := compileOpts(c.G)
	if c.Resume {
		e.resume = true
		copts = append(copts, compose.WithCheckPointStore(&memStore{m: map[string][]byte{}}))
	}
	r, err := cg.Compile(context.Background(), copts...)
	if err != nil {
		return Obs{Class: "build", Info: err.Error()}, nil
	}
	if c.Conc {
		// (the bodies of both calls write the same log: it names the bodies that ran and failed, and they do
		// the same in every call)
		done := markFatal(c)
		e.noMarker = true
		var a, b Obs
		var wg sync.WaitGroup
		wg.Add(2)
		go func() { defer wg.Done(); a = callOnce(c, e, r) }()
		go func() { defer wg.Done(); b = callOnce(c, e, r) }()
		wg.Wait()
		done()
		return a, &b
	}
	first := callOnce(c, e, r)
	if !c.Twice || first.Class == "hang" {
		return first, nil
	}
	e.mu.Lock()
	e.log = nil // (a task of the first run that is still in flight may add to the second run's log: it only names bodies that fail in every run)
	e.mu.Unlock()
	second := callOnce(c, e, r)
	return first, &second
}

func callOnce(c *Case, e *env, r compose.Runnable[M, M]) Obs {
	var ctx context.Context
	var cancel context.CancelFunc
	if c.Cause {
		// every cancellation of this run gives a reason: context.Cause(ctx) is errCause, ctx.Err() is unchanged
		cctx, cc := context.WithCancelCause(context.Background())
		defer cc(nil)
		ctx, cancel = cctx, func() { cc(errCause) }
	} else {
		ctx, cancel = context.WithCancel(context.Background())
		defer cancel()
	}
	e.mu.Lock()
	e.cancel = cancel
	e.rerunDone = map[string]bool{}
	e.mu.Unlock()
	if c.CancelBefore {
		if c.Deadline {
			var cancelD context.CancelFunc
			if c.Cause {
				ctx, cancelD = context.WithDeadlineCause(ctx, time.Now().Add(-time.Second), errCause)
			} else {
				ctx, cancelD = context.WithDeadline(ctx, time.Now().Add(-time.Second))
			}
			defer cancelD()
		} else {
			cancel()
		}
	}
	if !e.noMarker {
		defer markFatal(c)()
	}
	type out struct {
		callErr, itemErr error
		pan              any
	}
	var opts []compose.Option
	if c.RtMax > 0 {
		opts = append(opts, compose.WithRuntimeMaxSteps(c.RtMax))
	}
	if c.Resume {
		opts = append(opts, compose.WithCheckPointID(fmt.Sprintf("cp-%d", cpSeq.Add(1))))
	}
	var o out
	for attempt := 0; ; attempt++ {
		done := make(chan out, 1)
		go func() {
			var o out
			o.pan = recoverAll(func() {
				switch c.Par {
				case "invoke":
					_, o.callErr = r.Invoke(ctx, M{"in": "x"}, opts...)
				case "stream":
					var sr *schema.StreamReader[M]
					sr, o.callErr = r.Stream(ctx, M{"in": "x"}, opts...)
					if o.callErr == nil {
						o.itemErr = drain(sr)
					}
				case "collect":
					_, o.callErr = r.Collect(ctx, inputStream(c), opts...)
				case "transform":
					var sr *schema.StreamReader[M]
					sr, o.callErr = r.Transform(ctx, inputStream(c), opts...)
					if o.callErr == nil {
						o.itemErr = drain(sr)
					}
				default:
					panic("harness: bad paradigm " + c.Par)
				}
			})
			done <- o
		}()
		select {
		case o = <-done:
		case <-time.After(watchdogPeriod()):
			hangSeen.Store(true)
			return Obs{Class: "hang", Log: e.snapshot()}
		}
		// an interrupted run of a resumed case is continued from its checkpoint (same id, same input)
		if c.Resume && o.pan == nil && o.callErr != nil && attempt < 8 {
			if _, isInt := compose.ExtractInterruptInfo(o.callErr); isInt {
				continue
			}
		}
		break
	}
	switch {
	case o.pan != nil:
		return Obs{Class: "panic", Info: fmt.Sprint(o.pan), Log: e.snapshot()}
	case o.callErr != nil:
		return Obs{Class: "err", P: project(o.callErr, ctxSentinel(c)), Log: e.snapshot()}
	case o.itemErr != nil:
		return Obs{Class: "item", P: project(o.itemErr, ctxSentinel(c)), Log: e.snapshot()}
	}
	return Obs{Class: "ok", Log: e.snapshot()}
}

// summary: the paradigm and the faults of a case with their node paths, in words.
func summary(c *Case) string {
	if c.Fwd != nil {
		return fmt.Sprintf("forwarder case, %d sources", len(c.Fwd.Srcs))
	}
	var fs []string
	var walk func(g *Graph, prefix []string)
	walk = func(g *Graph, prefix []string) {
		for _, st := range g.Stages {
			for _, n := range st {
				p := strings.Join(pathOf(prefix, n.Key), "/")
				switch n.Kind {
				case "lam":
					if n.Beh != "ok" {
						fs = append(fs, p+":"+n.Flav+"-lambda "+n.Beh)
					}
				case "sub":
					walk(n.Sub, pathOf(prefix, n.Key))
				case "tools":
					for i, t := range n.Tools {
						if t.Beh != "ok" {
							fs = append(fs, fmt.Sprintf("%s/tn:tool call %d of %d %s", p, i, len(n.Tools), t.Beh))
						}
					}
				}
			}
		}
		if g.Br != "" {
			fs = append(fs, strings.Join(pathOf(prefix, "#branch"), "/")+":condition "+g.Br)
		}
	}
	walk(c.G, nil)
	s := c.Par + "; faults: " + strings.Join(fs, ", ")
	if c.CancelBefore {
		s += "; context cancelled before the call"
		if c.Deadline {
			s += " (deadline passed)"
		}
	}
	if c.Cause && (c.CancelBefore || hasBeh(c.G, "cancel")) {
		s += "; the cancellation gives a cause (context.WithCancelCause / WithDeadlineCause)"
	}
	if c.InErr != nil {
		s += "; error item on the input stream"
	}
	if c.Conc {
		s += "; two calls at the same time on the freshly compiled runnable"
	}
	return s
}

func (e *env) snapshot() []execRec {
	e.mu.Lock()
	defer e.mu.Unlock()
	l := append([]execRec(nil), e.log...)
	sort.SliceStable(l, func(i, j int) bool { return l[i].Path < l[j].Path })
	return l
}

// ---------------------------------------------------------------- engine

type engine struct{}

func (engine) ID() string { return "C13" }
func (engine) CoqHeader() string {
	return "From Eino Require Import Base.Util Model.Errors Model.ErrorsFwd Corr.C13.\nOpen Scope string_scope.\n"
}
func (engine) CoqCaseType() string { return "ccase" }

func (engine) Decode(raw json.RawMessage) (any, error) {
	var c Case
	if err := json.Unmarshal(raw, &c); err != nil {
		return nil, err
	}
	if c.G == nil && c.Fwd == nil {
		return nil, errors.New("case without graph")
	}
	return &c, nil
}

// Run runs the case; a case once seen failing keeps its failing result (see shrink.go).
func (e engine) Run(ci any) lib.Result {
	c := ci.(*Case)
	key := caseKey(c)
	if r, ok := failed[key]; ok {
		return r
	}
	r := e.run1(c)
	if r.Oracle != "" {
		failed[key] = r
	}
	return r
}

func (engine) run1(c *Case) lib.Result {
	if c.Fwd != nil {
		o := runFwd(c)
		res := lib.Result{Obs: o, Tags: fwdTags(c, &o)}
		n, _, _ := membersShape(c.Fwd)
		res.Nontrivial = n >= 2 && len(o.F.Out) > 0
		res.Oracle, res.Sig = oracleFwd(c, &o)
		res.CoqTerm = fwdCaseCoq(c, &o)
		return res
	}
	all := runImpl(c)
	o := all[0]
	res := lib.Result{Obs: o}
	res.Tags = append(tagsOf(c, &o), fmt.Sprintf("runs:%d", 1+schedSensitive(c)), fmt.Sprintf("distinct-answers:%d", len(all)))
	res.Nontrivial = o.Class != "ok" && o.Class != "build"
	if o.Class == "build" {
		// the generator only emits well-formed graphs: a build failure is a harness defect, make it loud
		res.Oracle = "harness could not build the graph: " + o.Info
		res.Sig = "harness-build"
		return res
	}
	for i := range all {
		if res.Oracle, res.Sig = oracle(c, &all[i]); res.Oracle != "" {
			res.Obs = all[i] // the run that violates the property
			if i > 0 {
				res.Oracle = fmt.Sprintf("(one of %d runs of the case) ", 1+schedSensitive(c)) + res.Oracle
			}
			break
		}
	}
	res.CoqTerm = caseCoq(c, all)
	return res
}

func main() { lib.Main(engine{}) }
