//go:build verif_c13wb

package main

// The white-box group of property C13: the hooks compose/verif_c13.go and internal/safe/verif_c13.go
// (build tags verif && verif_c13wb) read private fields — the wrapper's type, node path and stream-wrapper
// path, the value a safe.panicErr carries.  When they no longer compile against a tree (a rename the hooks
// do not follow), ./check builds the harness without the tag: wb_off.go, the black-box tie.

import "github.com/cloudwego/eino/compose"

const whitebox = true

func wbErrInfo(err error) (found, outermost bool, typ string, nodePath, streamPath []string) {
	i := compose.VerifC13Info(err)
	return i.Found, i.Outermost, i.Typ, i.NodePath, i.StreamPath
}

func wbPanicInfo(err error) (any, bool) { return compose.VerifC13PanicInfo(err) }
