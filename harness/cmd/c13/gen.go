package main

import (
	"fmt"

	"verif/harness/lib"
)

// Generator.  Restrictions (stated in notes/C13.md, each keeps the set of legal answers exact):
//   * a node that cancels the context sits only where every enclosing stage, at every nesting
//     level, has a single node (otherwise whether a parallel sibling sub-graph still sees the
//     live context is a race the model does not describe);
//   * cyclic graphs are chains (single-node stages) in Pregel mode whose last node is a plain
//     successful lambda carrying the branch back to the first node;
//   * error items and panicking converters are produced by stream-native lambdas only.

type slot struct {
	n         *Node
	t         *ToolSpec
	singleton bool // every enclosing stage is a single node
	tail      bool // the branching last node of a cyclic graph: stays a successful lambda
	g         *Graph
	stage     int
}

// convOK: may this lambda return a stream whose convert function panics?  Only where the panic
// is certain to happen on a goroutine of the framework (the property's domain): the stage is
// merged into its successors (two or more nodes: forwarding goroutines), or every successor
// reads its input to the end inside its own task (executor goroutine).  Otherwise the panic
// would fire on the caller's goroutine while it reads the result stream.
func (s slot) convOK() bool {
	if s.g == nil {
		return false
	}
	if len(s.g.Stages[s.stage]) >= 2 {
		return true
	}
	if s.stage+1 >= len(s.g.Stages) {
		return false
	}
	for _, n := range s.g.Stages[s.stage+1] {
		switch {
		case n.Kind == "tools":
		case n.Kind == "lam" && n.Flav != "t":
		default:
			return false
		}
	}
	return true
}

type brSlot struct {
	g   *Graph
	top bool
}

type gen struct {
	r     *lib.Rng
	tier  string
	brs   []brSlot // graphs with a branch after their last stage
	slots []slot
	nextI int
	convW int // weight of panics inside forwarded streams
}

func (g *gen) weighted(ws ...int) int {
	tot := 0
	for _, w := range ws {
		tot += w
	}
	x := g.r.Intn(tot)
	for i, w := range ws {
		if x < w {
			return i
		}
		x -= w
	}
	return len(ws) - 1
}

func (g *gen) graph(depthLeft int, singleton bool, top bool) *Graph {
	r := g.r
	big := g.tier == "thorough"
	gr := &Graph{}
	gr.Loop = r.Chance(15, 100)
	var widths []int
	if gr.Loop {
		n := r.Range(1, 3)
		for i := 0; i < n; i++ {
			widths = append(widths, 1)
		}
		if r.Chance(80, 100) {
			gr.Max = r.Range(1, 6)
		}
	} else {
		maxSt := 3
		if top || big {
			maxSt = 4
		}
		n := r.Range(1, maxSt)
		for i := 0; i < n; i++ {
			w := 1 + g.weighted(50, 35, 15)
			if big && r.Chance(10, 100) {
				w = 4
			}
			widths = append(widths, w)
		}
		gr.Dag = r.Chance(30, 100)
		if r.Chance(20, 100) {
			gr.WF, gr.Dag = true, false
		}
		if !gr.Dag && !gr.WF && r.Chance(15, 100) {
			gr.Max = r.Range(1, n+1)
		}
	}
	// the spine: one position that certainly nests (so that the chosen depth is reached)
	spineS := r.Intn(len(widths))
	spineI := r.Intn(widths[spineS])
	for s, w := range widths {
		var st []*Node
		for i := 0; i < w; i++ {
			n := &Node{Key: fmt.Sprintf("n%d%c", s, 'a'+i)}
			single := singleton && w == 1
			tail := gr.Loop && s == len(widths)-1
			switch {
			case !tail && depthLeft > 0 && ((s == spineS && i == spineI) || r.Chance(12, 100)):
				n.Kind = "sub"
				n.Sub = g.graph(depthLeft-1, single, false)
			case !tail && r.Chance(13, 100):
				n.Kind = "tools"
				nt := r.Range(1, 3)
				if big {
					nt = r.Range(1, 4)
				}
				n.Tools = make([]ToolSpec, nt)
				for k := range n.Tools {
					n.Tools[k].Beh = "ok"
				}
				for k := range n.Tools {
					g.slots = append(g.slots, slot{n: n, t: &n.Tools[k]})
				}
			default:
				n.Kind = "lam"
				n.Beh = "ok"
				n.Flav = []string{"i", "s", "c", "t"}[g.weighted(55, 15, 15, 15)]
				if tail {
					n.Flav = "i"
				}
				g.slots = append(g.slots, slot{n: n, singleton: single, tail: tail, g: gr, stage: s})
			}
			st = append(st, n)
		}
		gr.Stages = append(gr.Stages, st)
	}
	// a graph that is a plain sequence may be built through the Chain front end
	if !gr.Loop && !gr.WF && !gr.Dag && r.Chance(30, 100) { // (a chain is always a Pregel graph)
		seq := true
		for _, w := range widths {
			seq = seq && w == 1
		}
		gr.Chain = seq
	}
	// an acyclic Pregel graph with single-node first and last stages may reach END through a branch
	if !gr.Loop && !gr.Dag && !gr.WF && !gr.Chain && widths[0] == 1 && widths[len(widths)-1] == 1 && r.Chance(25, 100) {
		gr.EndBr = true
	}
	if gr.Loop || gr.EndBr {
		g.brs = append(g.brs, brSlot{g: gr, top: top})
	}
	return gr
}

func (g *gen) errSpec() *ErrSpec {
	r := g.r
	e := &ErrSpec{Base: []string{"s0", "s1", "c0", "c1"}[r.Intn(4)]}
	if e.Base[0] == 'c' {
		e.Code = r.Range(0, 9)
	}
	e.Wraps = g.weighted(45, 35, 20)
	e.Nested = r.Chance(15, 100)
	if r.Chance(20, 100) || (e.Nested && r.Chance(50, 100)) {
		e.Typed, e.TCode = true, r.Range(0, 9)
	}
	return e
}

// id: a fresh panic payload; ids are distinct within a case and spread over the residues that decide
// the kind of the panic value (boom: string / error / runtime error, one in eight nil).
func (g *gen) id() int {
	g.nextI++
	return g.nextI*8 + g.r.Intn(8)
}

func (engine) Generate(r *lib.Rng, tier string, i int) any {
	g := &gen{r: r, tier: tier, convW: 10}
	if r.Chance(12, 100) {
		return g.fwdCase()
	}
	depth := g.weighted(25, 35, 25, 15)
	c := &Case{Par: []string{"invoke", "stream", "collect", "transform"}[r.Intn(4)]}
	c.G = g.graph(depth, true, true)
	nf := g.weighted(8, 52, 27, 13)
	if tier == "thorough" && r.Chance(10, 100) {
		nf = 4
	}
	// a context cancelled before the call: half of these cases have nothing else to report
	c.CancelBefore = r.Chance(6, 100)
	if c.CancelBefore && r.Chance(50, 100) {
		nf = 0
	}
	c.Deadline = c.CancelBefore && r.Chance(40, 100)
	perm := r.Perm(len(g.slots))
	if r.Chance(25, 100) { // tool calls first: ToolsNode failures are otherwise rare
		var ts, ns []int
		for _, si := range perm {
			if g.slots[si].t != nil {
				ts = append(ts, si)
			} else {
				ns = append(ns, si)
			}
		}
		perm = append(ts, ns...)
	}
	hasRerun, hasConv, hasHandler := false, false, false
	for _, si := range perm {
		if nf == 0 {
			break
		}
		s := g.slots[si]
		if s.tail {
			continue
		}
		nf--
		if s.t != nil {
			switch g.weighted(45, 40, g.convW) {
			case 0:
				s.t.Beh, s.t.Err = "fail", g.errSpec()
			case 1:
				s.t.Beh, s.t.ID = "panic", g.id()
			default:
				if hasRerun {
					s.t.Beh, s.t.ID = "panic", g.id()
				} else {
					s.t.Beh, s.t.ID = "convpanic", g.id()
					hasConv = true
				}
			}
			continue
		}
		n := s.n
		switch g.weighted(45, 22, 10, 8, 7, g.convW, 9) {
		case 6:
			// a state handler of the node fails.  Not together with self-panicking streams (an
			// invoke-native handler makes the run loop itself read the node's stream); a post-handler
			// not on a lazily transforming lambda (same reason: it would read the node's input).
			switch {
			case hasConv:
				n.Beh, n.Err = "fail", g.errSpec()
			case n.Flav != "t" && r.Chance(50, 100):
				n.Beh, n.Err = "postfail", g.errSpec()
				hasHandler = true
			default:
				n.Beh, n.Err = "prefail", g.errSpec()
				hasHandler = true
			}
		case 0:
			n.Beh, n.Err = "fail", g.errSpec()
		case 1:
			n.Beh, n.ID = "panic", g.id()
		case 2:
			n.Beh, n.Err, n.Flav = "item", g.errSpec(), "s"
		case 3:
			if hasConv { // converting an interrupt's checkpoint would read the panicking stream on the run loop's goroutine
				n.Beh, n.Err = "fail", g.errSpec()
			} else {
				n.Beh = "rerun"
				hasRerun = true
			}
		case 4:
			if s.singleton {
				n.Beh = "cancel"
			} else {
				n.Beh, n.Err = "fail", g.errSpec()
			}
		default:
			if s.convOK() && !hasRerun && !hasHandler {
				n.Beh, n.ID, n.Flav = "convpanic", g.id(), "s"
				hasConv = true
			} else {
				n.Beh, n.ID = "panic", g.id()
			}
		}
	}
	// one case in twelve gets one more rerun request on a node that is otherwise fine (resumed runs:
	// what fails AFTER the run has been resumed must be reported like in an uninterrupted run)
	if !hasConv && r.Chance(8, 100) {
		// preferably in front of something that fails: a stage of a graph one of whose later stages holds a fault
		faultLater := func(s slot) bool {
			if s.g == nil {
				return false
			}
			for _, st := range s.g.Stages[s.stage+1:] {
				for _, n := range st {
					if (n.Kind == "lam" && n.Beh != "ok") || (n.Sub != nil && hasFault(n.Sub)) {
						return true
					}
					for _, t := range n.Tools {
						if t.Beh != "ok" {
							return true
						}
					}
				}
			}
			return false
		}
		pick := -1
		for _, si := range perm {
			s := g.slots[si]
			if s.t != nil || s.tail || s.n.Beh != "ok" || s.n.Flav == "t" {
				continue
			}
			if pick < 0 {
				pick = si
			}
			if faultLater(s) {
				pick = si
				break
			}
		}
		if pick >= 0 {
			g.slots[pick].n.Beh = "rerun"
			hasRerun = true
		}
	}
	for _, b := range g.brs { // the branch conditions are user code too
		if !r.Chance(15, 100) {
			continue
		}
		// a panicking condition only below the top level: there the parent's executor contains it;
		// at the top level it reaches the caller (not one of the places the property names)
		if !b.top && r.Chance(30, 100) {
			b.g.Br, b.g.BrID = "panic", g.id()
		} else {
			b.g.Br, b.g.BrErr = "fail", g.errSpec()
		}
	}
	if r.Chance(7, 100) {
		g.sharedItem(c.G)
	}
	// the caller of Stream / Transform reads the result: an error item (or, behind the merge of a last
	// stage of two or more nodes, a panicking stream) in the last stage of the top graph reaches it
	if (c.Par == "stream" || c.Par == "transform") && !c.G.Loop && !c.G.EndBr && r.Chance(12, 100) {
		last := c.G.Stages[len(c.G.Stages)-1]
		n := last[r.Intn(len(last))]
		if n.Kind == "lam" && n.Beh == "ok" {
			if len(last) >= 2 && !hasBeh(c.G, "rerun") && !hasBeh(c.G, "prefail") && !hasBeh(c.G, "postfail") && r.Chance(40, 100) {
				n.Beh, n.ID, n.Flav = "convpanic", g.id(), "s"
			} else {
				n.Beh, n.Err, n.Flav = "item", g.errSpec(), "s"
			}
		}
	}
	if (c.Par == "collect" || c.Par == "transform") && r.Chance(6, 100) {
		c.InErr = g.errSpec()
	}
	// the step limit given as a call option: below / at / above what the top graph needs
	if !c.G.Dag && !c.G.WF && r.Chance(8, 100) {
		c.RtMax = r.Range(1, len(c.G.Stages)+2)
	}
	// a case with a rerun request is mostly resumed from its checkpoint until it no longer interrupts
	// (not with an explicit step limit: the step counter restarts on resume; not
	// with state handlers: the local state would have to be a registered serializable type; not with a
	// transform-native node asking for the rerun: it has not read its input, and by design a rerun node is
	// given an EMPTY input when the run is resumed — whatever waited on that input, an error item
	// included, is dropped: the rerun-input semantics are property C05's, the case would not be exact here)
	if hasBeh(c.G, "rerun") && !lazyRerun(c.G) && c.RtMax == 0 && !anyMax(c.G) && !hasBeh(c.G, "prefail") && !hasBeh(c.G, "postfail") && r.Chance(65, 100) {
		c.Resume = true
	}
	// a fifth of the cases call the compiled runnable a second time
	c.Twice = r.Chance(20, 100)
	// where the fault sits in a faulty stream
	var place func(gr *Graph)
	place = func(gr *Graph) {
		for _, st := range gr.Stages {
			for _, n := range st {
				switch {
				case n.Kind == "sub":
					place(n.Sub)
				case n.Beh == "item":
					n.Pos = g.weighted(55, 30, 15)
				case n.Beh == "convpanic":
					n.Pos = g.weighted(65, 35)
				}
			}
		}
	}
	place(c.G)
	if c.InErr != nil {
		c.InPos = g.weighted(55, 30, 15)
	}
	// node options that wrap the node's runnable: output keys, and input keys taking one predecessor's keyed output
	// (not in workflows: their inputs are field mappings; not beside rerun requests and state handlers)
	if !hasBeh(c.G, "rerun") && !hasBeh(c.G, "prefail") && !hasBeh(c.G, "postfail") && r.Chance(30, 100) {
		g.keys(c.G)
	}
	// half of the cases make their context with WithCancelCause / WithDeadlineCause: whoever cancels gives a cause
	c.Cause = r.Chance(50, 100)
	// the first two calls on the fresh runnable at the same time (not with a node that cancels "the" context of
	// the run, not resumed: the harness keeps one cancel function / one set of rerun marks per case)
	if !c.Twice && !c.Resume && !hasBeh(c.G, "cancel") && r.Chance(12, 100) {
		c.Conc = true
	}
	// tool calls that name a tool their ToolsNode does not have (answered by the node's UnknownToolsHandler)
	for _, s := range g.slots {
		if s.t != nil && s.t.Beh != "convpanic" && r.Chance(15, 100) {
			s.t.Unknown = true
		}
	}
	// local state used by the bodies themselves (not in resumed cases: the state would have to be a registered
	// serializable type)
	if !c.Resume {
		g.states(c.G, false)
	}
	return c
}

// states: 15% of the graphs, at every level, declare a local state; the lambdas and tool calls that find
// one in their context (their own graph's or one of a graph around it) mostly use it through
// compose.ProcessState: 45% raise their fault INSIDE the handler they pass to it, 25% update the state first.
func (g *gen) states(gr *Graph, scoped bool) {
	r := g.r
	gr.State = r.Chance(15, 100)
	scoped = scoped || len(stateOpts(gr)) > 0
	for _, st := range gr.Stages {
		for _, n := range st {
			switch n.Kind {
			case "sub":
				g.states(n.Sub, scoped)
			case "lam":
				if scoped {
					n.St = g.weighted(30, 45, 25)
				}
			case "tools":
				for k := range n.Tools {
					if scoped && n.Tools[k].Beh != "convpanic" {
						n.Tools[k].St = g.weighted(30, 45, 25)
					}
				}
			}
		}
	}
}

// keys: a fifth of the nodes of the Graph / Chain graphs of the case get an output key; a node behind a keyed
// predecessor mostly takes its input by that key.
func (g *gen) keys(gr *Graph) {
	r := g.r
	for s, st := range gr.Stages {
		for _, n := range st {
			if n.Sub != nil {
				g.keys(n.Sub)
			}
			if gr.WF {
				continue
			}
			if s >= 1 && n.Kind == "lam" {
				var keyed []*Node
				for _, p := range gr.Stages[s-1] {
					if p.OutKey {
						keyed = append(keyed, p)
					}
				}
				if len(keyed) > 0 && r.Chance(60, 100) {
					n.InKey = keyed[r.Intn(len(keyed))].Key
				}
			}
			n.OutKey = r.Chance(20, 100)
		}
	}
}

func hasBeh(g *Graph, beh string) bool {
	for _, st := range g.Stages {
		for _, n := range st {
			if n.Beh == beh || (n.Sub != nil && hasBeh(n.Sub, beh)) {
				return true
			}
		}
	}
	return false
}

// sharedItem rewrites the top graph so that ONE error value reaches several nodes: a stage
// becomes a single stream-native node emitting an error item that is (mostly) itself the error
// of a nested run — a path-carrying wrapper — and the next stage, two or three nodes wide, is
// made of consumers that hand the item back as their own error (collect-native lambdas, directly
// or inside sub-graphs).  The stream is copied for them, so all of them hold the same error value.
func (g *gen) sharedItem(top *Graph) {
	r := g.r
	if top.Loop || top.EndBr || len(top.Stages) < 2 || hasBeh(top, "cancel") || hasBeh(top, "convpanic") {
		return
	}
	s := r.Intn(len(top.Stages) - 1)
	top.Chain = false // the consumers' stage becomes two or three nodes wide
	e := g.errSpec()
	e.Nested = r.Chance(80, 100)
	if r.Chance(60, 100) {
		e.Wraps, e.Typed, e.TCode = 0, false, 0
	}
	top.Stages[s] = []*Node{{Key: fmt.Sprintf("n%da", s), Kind: "lam", Flav: "s", Beh: "item", Err: e}}
	next := top.Stages[s+1]
	for len(next) < 2 || (len(next) < 3 && r.Chance(40, 100)) {
		k := fmt.Sprintf("n%d%c", s+1, 'a'+len(next))
		n := &Node{Key: k, Kind: "lam", Flav: "c", Beh: "ok"}
		if r.Chance(50, 100) {
			inner := &Node{Key: "n0a", Kind: "lam", Flav: "c", Beh: "ok"}
			n = &Node{Key: k, Kind: "sub", Sub: &Graph{Dag: r.Chance(30, 100), Stages: [][]*Node{{inner}}}}
		}
		next = append(next, n)
	}
	var first func(gr *Graph)
	first = func(gr *Graph) { // the nodes that read the graph's input
		for _, n := range gr.Stages[0] {
			switch {
			case n.Kind == "sub":
				first(n.Sub)
			case n.Kind == "lam" && (n.Beh == "ok" || n.Beh == "fail") && r.Chance(75, 100):
				n.Flav = "c"
			}
		}
	}
	first(&Graph{Stages: [][]*Node{next}})
	top.Stages[s+1] = next
}

// anyMax: some graph of the case has an explicit step limit.
func anyMax(g *Graph) bool {
	if g.Max > 0 {
		return true
	}
	for _, st := range g.Stages {
		for _, n := range st {
			if n.Sub != nil && anyMax(n.Sub) {
				return true
			}
		}
	}
	return false
}

// lazyRerun: some transform-native lambda of the case asks for a rerun.
func lazyRerun(g *Graph) bool {
	for _, st := range g.Stages {
		for _, n := range st {
			if (n.Beh == "rerun" && n.Flav == "t") || (n.Sub != nil && lazyRerun(n.Sub)) {
				return true
			}
		}
	}
	return false
}

// hasFault: some node / tool call of the graph (at any depth) is not a plain success.
func hasFault(g *Graph) bool {
	for _, st := range g.Stages {
		for _, n := range st {
			if (n.Kind == "lam" && n.Beh != "ok") || (n.Sub != nil && hasFault(n.Sub)) {
				return true
			}
			for _, t := range n.Tools {
				if t.Beh != "ok" {
					return true
				}
			}
		}
	}
	return false
}
