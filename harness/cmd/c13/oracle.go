package main

import (
	"fmt"
	"strconv"
	"strings"
)

// Direct oracle: property C13 evaluated on the implementation's own outputs, using only what the
// harness's node bodies logged (which bodies really ran and failed) and the public observables
// (errors.Is / errors.As, the node path printed in the message, ExtractInterruptInfo, process
// survival).  It accepts every answer the property allows (any one of several parallel failures,
// call error or error item) and knows nothing about the model.

type cand struct {
	path   []string // nil: the error may surface anywhere (lazy failure inside a stream)
	err    *ErrSpec // expected to be recoverable with errors.Is / errors.As
	pan    int      // >= 0: a panic with this payload
	masked bool     // the panic left a nested run: in stream mode a second panic replaces it (notes/C13.md)
	what   string
}

func findGraph(g *Graph, path []string) *Graph {
	if len(path) == 0 {
		return g
	}
	for _, st := range g.Stages {
		for _, n := range st {
			if n.Key == path[0] && n.Kind == "sub" {
				return findGraph(n.Sub, path[1:])
			}
		}
	}
	return nil
}

// isToolsGraph: path leads (through sub-graph nodes) to a ToolsNode node of the case, which the
// harness builds as a sub-graph pre -> tn -> post of its own.
func isToolsGraph(g *Graph, path []string) bool {
	if len(path) == 0 {
		return false
	}
	for _, st := range g.Stages {
		for _, n := range st {
			if n.Key != path[0] {
				continue
			}
			switch n.Kind {
			case "tools":
				return len(path) == 1
			case "sub":
				return isToolsGraph(n.Sub, path[1:])
			}
			return false
		}
	}
	return false
}

func findNode(g *Graph, path []string) (*Node, *ToolSpec) {
	if len(path) == 0 {
		return nil, nil
	}
	for _, st := range g.Stages {
		for _, n := range st {
			if n.Key != path[0] {
				continue
			}
			switch n.Kind {
			case "lam":
				if len(path) == 1 {
					return n, nil
				}
			case "sub":
				return findNode(n.Sub, path[1:])
			case "tools":
				// path = key / tn / t<i>
				if len(path) == 3 && path[1] == "tn" && strings.HasPrefix(path[2], "t") {
					var i int
					fmt.Sscanf(path[2], "t%d", &i)
					if i >= 0 && i < len(n.Tools) {
						return n, &n.Tools[i]
					}
				}
			}
			return nil, nil
		}
	}
	return nil, nil
}

func hasLimit(g *Graph) bool {
	if g.Loop || g.Max > 0 {
		return true
	}
	for _, st := range g.Stages {
		for _, n := range st {
			if n.Kind == "sub" && hasLimit(n.Sub) {
				return true
			}
		}
	}
	return false
}

func (p *Proj) recovers(e *ErrSpec) bool {
	if e.Typed && p.As[2] != e.TCode {
		return false
	}
	switch e.Base {
	case "s0":
		return p.Is[0]
	case "s1":
		return p.Is[1]
	case "c0":
		return p.As[0] == e.Code
	case "c1":
		return p.As[1] == e.Code
	}
	return false
}

// saysSo: the message of the run's error still says what the cause said (observed "by message").
func (p *Proj) saysSo(c *cand) string {
	if c.pan >= 0 {
		if c.masked && p.Panic == -2 {
			return ""
		}
		id := strconv.Itoa(c.pan)
		if c.pan == nilPayload {
			if strings.Contains(p.full, "nil") {
				return ""
			}
			return "that the panic value was nil"
		}
		if strings.Contains(p.full, "boom:"+id) || strings.Contains(p.full, "index out of range ["+id+"]") {
			return ""
		}
		return "the panic value of panic " + id
	}
	for _, t := range c.err.texts() {
		if !strings.Contains(p.full, t) {
			return strconv.Quote(t)
		}
	}
	return ""
}

func (p *Proj) matches(c *cand) bool {
	if c.pan >= 0 {
		return (p.Panic == c.pan || (c.masked && p.Panic == -2)) && p.MsgPanic
	}
	return p.recovers(c.err)
}

func samePath(a, b []string) bool {
	if len(a) != len(b) {
		return false
	}
	for i := range a {
		if a[i] != b[i] {
			return false
		}
	}
	return true
}

// anyNested: some error value of the case is itself the error of a one-node graph run by a
// node body (its own path is [x]).
func anyNested(c *Case) bool {
	found := false
	var walk func(g *Graph)
	walk = func(g *Graph) {
		if g.BrErr != nil && g.BrErr.Nested {
			found = true
		}
		for _, st := range g.Stages {
			for _, n := range st {
				if n.Err != nil && n.Err.Nested {
					found = true
				}
				for _, t := range n.Tools {
					if t.Err != nil && t.Err.Nested {
						found = true
					}
				}
				if n.Sub != nil {
					walk(n.Sub)
				}
			}
		}
	}
	walk(c.G)
	return found || (c.InErr != nil && c.InErr.Nested)
}

// realPath: is path a path of existing nodes of g (sub-graph nodes descended into), optionally
// followed by the path [x] a nested error value brought with it?  The empty path names no node.
func realPath(g *Graph, path []string, nested bool) bool {
	if len(path) == 0 {
		return true
	}
	if nested && len(path) == 1 && path[0] == "x" {
		return true
	}
	for _, st := range g.Stages {
		for _, n := range st {
			if n.Key != path[0] {
				continue
			}
			rest := path[1:]
			switch n.Kind {
			case "sub":
				return realPath(n.Sub, rest, nested)
			case "tools": // the harness builds pre -> tn -> post under the node's key
				if len(rest) == 0 {
					return true
				}
				if rest[0] != "pre" && rest[0] != "tn" && rest[0] != "post" {
					return false
				}
				rest = rest[1:]
			}
			return len(rest) == 0 || (nested && len(rest) == 1 && rest[0] == "x")
		}
	}
	return false
}

func oracle(c *Case, o *Obs) (string, string) {
	switch o.Class {
	case "panic":
		return "a panic escaped to the caller of the run: " + o.Info, "escaped-panic"
	case "hang":
		return "the run did not return within the watchdog period", "hang"
	}
	var eager, lazy []cand
	rerun, cancelled := false, c.CancelBefore
	for _, r := range o.Log {
		path := strings.Split(r.Path, "/")
		n, t := findNode(c.G, path)
		switch r.What {
		case "fail", "prefail", "postfail":
			if n.Err.Nested { // the body's error already names node x of the graph the body ran
				path = append(path, "x")
			}
			what := map[string]string{"fail": " failed", "prefail": ": its state pre-handler failed", "postfail": ": its state post-handler failed"}[r.What]
			eager = append(eager, cand{path: path, err: n.Err, pan: -1, what: r.Path + what})
		case "panic":
			eager = append(eager, cand{path: path, pan: pay(n.ID), what: r.Path + " panicked"})
		case "tool-fail":
			tp := append([]string(nil), path[:len(path)-1]...)
			if t.Err.Nested {
				tp = append(tp, "x")
			}
			eager = append(eager, cand{path: tp, err: t.Err, pan: -1, what: r.Path + " (tool) failed"})
		case "tool-panic":
			eager = append(eager, cand{path: path[:len(path)-1], pan: pay(t.ID), what: r.Path + " (tool) panicked"})
		case "item":
			lazy = append(lazy, cand{err: n.Err, pan: -1, what: r.Path + " emitted an error item"})
		case "convpanic":
			lazy = append(lazy, cand{pan: pay(n.ID), what: r.Path + " panics while its stream is read"})
		case "tool-convpanic":
			lazy = append(lazy, cand{pan: pay(t.ID), what: r.Path + " (tool) panics while its stream is forwarded"})
		case "br-fail":
			gp := path[:len(path)-1]
			be := findGraph(c.G, gp).BrErr
			bp := append([]string{}, gp...)
			if be.Nested && len(bp) == 0 {
				// newGraphRunError starts a wrapper with an empty path: at the top level nothing is
				// prepended to it, and the path printed last is the one the error value brought (node x of
				// the graph the condition ran); below, the parent's keys go to the outer wrapper
				bp = append(bp, "x")
			}
			eager = append(eager, cand{path: bp, err: be, pan: -1, what: "the branch condition of graph /" + strings.Join(gp, "/") + " failed"})
		case "br-panic":
			gp := path[:len(path)-1]
			eager = append(eager, cand{path: append([]string{}, gp...), pan: pay(findGraph(c.G, gp).BrID), masked: true, what: "the branch condition of graph /" + strings.Join(gp, "/") + " panicked"})
		case "rerun":
			rerun = true
		case "cancel":
			cancelled = true
		}
	}
	if c.InErr != nil && (c.Par == "collect" || c.Par == "transform") {
		lazy = append(lazy, cand{err: c.InErr, pan: -1, what: "the input stream carries an error item"})
	}
	if c.Resume {
		// the run was resumed until it no longer interrupted: the nodes that asked for a rerun have succeeded since
		if o.P != nil && o.P.Interrupt {
			return "the run still ends in an interrupt after 8 resumes from its checkpoint: " + o.P.Msg, "resume-stuck"
		}
		rerun = false
	}
	if o.Class == "ok" {
		switch {
		case len(eager) > 0:
			return "swallowed: " + eager[0].what + " but the run reported success", "swallowed"
		case len(lazy) > 0:
			return "swallowed: " + lazy[0].what + " but the run reported success", "swallowed-lazy"
		case rerun:
			return "a node asked for interrupt-and-rerun but the run reported success", "swallowed-interrupt"
		case c.CancelBefore:
			return "the context was cancelled before the call but the run reported success", "cancel-ignored"
		}
		return "", ""
	}
	p := o.P
	// sentinels are matchable whenever the message says it is them
	if p.MsgLimit && !p.Is[2] {
		return "the error says the step limit was exceeded but errors.Is(err, ErrExceedMaxSteps) is false", "sentinel-not-matchable"
	}
	if p.MsgCancel && !p.Is[3] {
		return "the error says the context was cancelled but errors.Is(err, <the context's error>) is false", "sentinel-not-matchable"
	}
	// ... and whenever the run was stopped by its context and says why: a cancellation that gives a cause
	// (context.WithCancelCause / WithDeadlineCause) is still a cancellation — the context's own error stays matchable
	if cancelled && p.IsCause && !p.Is[3] {
		return "the run was stopped by its context and its error carries the cause given to the cancellation, but errors.Is(err, <the context's error: context.Canceled / context.DeadlineExceeded>) is false: " + p.Msg, "sentinel-not-matchable"
	}
	// whatever failed, the path the error names is a path of nodes that exist
	if !realPath(c.G, p.MsgPath, anyNested(c)) {
		return fmt.Sprintf("the error names the node path %v, which is not a path of nodes of the graph: %s", p.MsgPath, p.Msg), "path-not-a-node"
	}
	pathHit := false
	// (several candidates may unwrap alike — two nodes failing with the same sentinel —: the message
	// must say what ONE of the matching causes said)
	lostMsg := ""
	for i := range eager {
		if samePath(p.MsgPath, eager[i].path) {
			pathHit = true
			if p.matches(&eager[i]) {
				lost := p.saysSo(&eager[i])
				if lost == "" || p.full == "" {
					return "", ""
				}
				if lostMsg == "" {
					lostMsg = fmt.Sprintf("the error names the failing node %v and unwraps to its error, but its message no longer contains %s of the cause: %s", p.MsgPath, lost, p.Msg)
				}
			}
		}
	}
	for i := range lazy {
		if p.matches(&lazy[i]) {
			lost := p.saysSo(&lazy[i])
			if lost == "" || p.full == "" {
				return "", ""
			}
			if lostMsg == "" {
				lostMsg = fmt.Sprintf("the error unwraps to the stream's error, but its message no longer contains %s of the cause: %s", lost, p.Msg)
			}
		}
		// an interrupt's checkpoint conversion read the panicking stream on the run loop's goroutine of a
		// nested run: the parent's executor contained it; in stream mode the payload is a second panic's
		if lazy[i].pan >= 0 && rerun && p.Panic == -2 && p.MsgPanic {
			return "", ""
		}
	}
	if lostMsg != "" {
		return lostMsg, "message-lost-cause"
	}
	if p.Is[2] && (hasLimit(c.G) || c.RtMax > 0) {
		// the path names the nested graph whose limit was exceeded (sub-graph nodes from the top)
		if g := findGraph(c.G, p.MsgPath); g == nil || !(g.Loop || g.Max > 0 || (len(p.MsgPath) == 0 && c.RtMax > 0)) {
			return fmt.Sprintf("the step limit was exceeded, but the path %v the error names does not lead to a graph with a step limit that can be exceeded: %s", p.MsgPath, p.Msg), "limit-wrong-graph"
		}
		return "", ""
	}
	if p.Is[3] && cancelled {
		// a run loop notices the cancellation: the path names that (nested) graph
		if findGraph(c.G, p.MsgPath) == nil && !isToolsGraph(c.G, p.MsgPath) {
			return fmt.Sprintf("the context was cancelled, but the path %v the error names does not lead to a graph: %s", p.MsgPath, p.Msg), "cancel-wrong-graph"
		}
		return "", ""
	}
	if rerun && p.Interrupt && !p.Found {
		// an interrupt is the answer of a run in which nothing has FAILED.  A node (handler, tool call,
		// branch condition) that failed or panicked beside an interrupting sibling - in the same step, or in
		// a nested graph running beside it - still fails the run: every task that was started is collected
		// before the interrupt is answered, so "it completed later" is no excuse.  Reporting the interrupt
		// instead loses the node's error (errors.Is / errors.As find nothing, no path names the node), and
		// a resumed run would simply run the failed node again.
		if len(eager) > 0 {
			return fmt.Sprintf("swallowed: %s, but the run reports an interrupt and the failure is lost - no node path, nothing for errors.Is / errors.As to find: %s", eager[0].what, p.Msg), "swallowed-by-interrupt"
		}
		return "", ""
	}
	if pathHit {
		return fmt.Sprintf("the error names the failing node %v but the node's own error cannot be recovered with errors.Is / errors.As: %s", p.MsgPath, p.Msg), "not-unwrappable"
	}
	if len(eager) > 0 {
		return fmt.Sprintf("the error (path %v) does not identify any node that failed (%s): %s", p.MsgPath, eager[0].what, p.Msg), "wrong-path"
	}
	if rerun {
		return "an interrupt was wrapped or lost: " + p.Msg, "interrupt-wrapped"
	}
	return "the run failed with an error no node, limit or cancellation accounts for: " + p.Msg, "unexpected-error"
}

func tagsOf(c *Case, o *Obs) []string {
	t := []string{"par:" + c.Par, "class:" + o.Class, fmt.Sprintf("depth:%d", depthOf(c.G)), fmt.Sprintf("graphs:%d", countGraphs(c.G))}
	if !whitebox {
		t = append(t, "whitebox:unavailable")
	}
	faults := map[string]int{}
	maxPar := 0
	var walk func(g *Graph)
	walk = func(g *Graph) {
		if g.Chain {
			faults["front-chain"]++
		}
		if g.WF {
			faults["mode-workflow"]++
		} else if g.Dag {
			faults["mode-dag"]++
		} else {
			faults["mode-pregel"]++
		}
		if g.Loop {
			faults["loop"]++
		}
		if g.EndBr {
			faults["end-branch"]++
		}
		if g.Br != "" {
			faults["branch-"+g.Br]++
		}
		if g.Max > 0 {
			faults["explicit-max"]++
		}
		for _, st := range g.Stages {
			if len(st) > maxPar {
				maxPar = len(st)
			}
			for _, n := range st {
				if n.OutKey {
					faults["opt-output-key"]++
				}
				if n.InKey != "" {
					faults["opt-input-key"]++
				}
				switch n.Kind {
				case "lam":
					if n.Beh != "ok" {
						faults[n.Beh]++
						faults["flav-"+n.Flav]++
					}
					if n.Beh == "item" || n.Beh == "convpanic" {
						faults[fmt.Sprintf("pos-%s-%d", n.Beh, n.Pos)]++
					}
					if (n.Beh == "panic" || n.Beh == "convpanic") && nilPanic(n.ID) {
						faults["err-nil-panic-value"]++
					}
					if n.Err != nil {
						faults[fmt.Sprintf("err-%s-w%d", n.Err.Base[:1], n.Err.Wraps)]++
						if n.Err.Nested {
							faults["err-nested-run"]++
						}
						if n.Err.Typed {
							faults["err-typed-wrapper"]++
						}
					}
				case "sub":
					walk(n.Sub)
				case "tools":
					for _, ts := range n.Tools {
						if ts.Beh != "ok" {
							faults["tool-"+ts.Beh]++
						}
						if ts.Unknown && ts.Beh != "convpanic" {
							faults["opt-unknown-tool-call"]++
							if ts.Beh != "ok" {
								faults["opt-unknown-tool-handler-"+ts.Beh]++
							}
						}
						if (ts.Beh == "panic" || ts.Beh == "convpanic") && nilPanic(ts.ID) {
							faults["err-nil-panic-value"]++
						}
					}
				}
			}
		}
	}
	walk(c.G)
	// local state used by the bodies (only where a state is in scope)
	var stWalk func(g *Graph, scoped bool)
	stWalk = func(g *Graph, scoped bool) {
		if g.State {
			faults["opt-local-state"]++
		}
		scoped = scoped || len(stateOpts(g)) > 0
		use := func(beh string, st int) {
			if !scoped || st < 1 || st > 2 {
				return
			}
			faults["opt-body-uses-state"]++
			if beh != "ok" {
				faults[[]string{"", "opt-fault-inside-state-handler", "opt-fault-after-state-update"}[st]]++
			}
			if beh == "panic" && st == 1 {
				faults["opt-panic-inside-state-handler"]++
			}
		}
		for _, st := range g.Stages {
			for _, n := range st {
				switch n.Kind {
				case "sub":
					stWalk(n.Sub, scoped)
				case "lam":
					use(n.Beh, n.St)
				case "tools":
					for _, ts := range n.Tools {
						use(ts.Beh, ts.St)
					}
				}
			}
		}
	}
	stWalk(c.G, false)
	for s, st := range c.G.Stages {
		if len(st) == 1 && st[0].Beh == "item" && s+1 < len(c.G.Stages) && len(c.G.Stages[s+1]) >= 2 {
			t = append(t, "has:shared-item")
			if st[0].Err.Nested {
				t = append(t, "has:shared-wrapper-item")
			}
		}
	}
	nf := 0
	for k, v := range faults {
		t = append(t, "has:"+k)
		if !strings.HasPrefix(k, "mode-") && !strings.HasPrefix(k, "front-") && !strings.HasPrefix(k, "flav-") && !strings.HasPrefix(k, "err-") && !strings.HasPrefix(k, "pos-") && !strings.HasPrefix(k, "opt-") && k != "loop" && k != "explicit-max" && k != "end-branch" {
			nf += v
		}
	}
	t = append(t, fmt.Sprintf("faults:%d", nf), fmt.Sprintf("maxpar:%d", maxPar))
	if c.CancelBefore {
		t = append(t, "has:cancel-before")
		if c.Deadline {
			t = append(t, "has:deadline-passed")
		}
	}
	if c.Cause && (c.CancelBefore || hasBeh(c.G, "cancel")) {
		t = append(t, "has:cancellation-with-cause")
	}
	if c.InErr != nil {
		t = append(t, "has:input-error-item")
	}
	if c.RtMax > 0 {
		t = append(t, "has:runtime-max-steps")
	}
	if c.Twice {
		t = append(t, "has:second-call-on-the-same-runnable")
	}
	if c.Resume {
		t = append(t, "has:resumed-from-checkpoint")
	}
	if c.Conc {
		t = append(t, "has:two-concurrent-first-calls")
	}
	if o.P != nil {
		switch {
		case o.P.Interrupt:
			t = append(t, "err:interrupt")
		case o.P.Is[2]:
			t = append(t, "err:step-limit")
		case o.P.Is[3]:
			t = append(t, "err:cancelled")
		case o.P.Panic >= 0:
			t = append(t, "err:panic")
		case o.P.Is[5]:
			t = append(t, "err:recv-after-closed")
		default:
			t = append(t, "err:node")
		}
		if o.P.Found {
			t = append(t, fmt.Sprintf("pathlen:%d", len(o.P.NodePath)), fmt.Sprintf("streamwrappers:%d", len(o.P.StreamPath)))
		}
	}
	return t
}

func depthOf(g *Graph) int {
	d := 0
	for _, st := range g.Stages {
		for _, n := range st {
			if n.Kind == "sub" {
				if x := 1 + depthOf(n.Sub); x > d {
					d = x
				}
			} else if n.Kind == "tools" && d < 1 {
				d = 1
			}
		}
	}
	return d
}

func countGraphs(g *Graph) int {
	c := 1
	for _, st := range g.Stages {
		for _, n := range st {
			if n.Kind == "sub" {
				c += countGraphs(n.Sub)
			} else if n.Kind == "tools" {
				c++
			}
		}
	}
	return c
}
