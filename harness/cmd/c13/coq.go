package main

import (
	"strings"

	"verif/harness/lib"
)

// Gallina printing: the nested case is flattened into a forest (pre-order: a sub-graph's
// index is strictly larger than its parent's), see Model/Errors.v.

type flat struct{ graphs []string }

func (f *flat) add(g *Graph) int {
	idx := len(f.graphs)
	f.graphs = append(f.graphs, "") // reserve: parents come first
	var stages []string
	for _, st := range g.Stages {
		var ns []string
		for _, n := range st {
			ns = append(ns, f.node(n))
		}
		stages = append(stages, lib.CoqList(ns))
	}
	f.graphs[idx] = lib.CoqApp("mkGraph", lib.CoqBool(g.Dag || g.WF), lib.CoqList(stages), lib.CoqBool(g.Loop), lib.CoqNat(g.Max), brCoq(g))
	return idx
}

func brCoq(g *Graph) string {
	if !g.Loop && !g.EndBr {
		return "BrNone"
	}
	switch g.Br {
	case "fail":
		return lib.CoqApp("BrFail", g.BrErr.coq())
	case "panic":
		return lib.CoqApp("BrPanic", lib.CoqN(uint64(pay(g.BrID))))
	}
	return "BrOk"
}

func flavCoq(s string) string {
	switch s {
	case "i":
		return "FI"
	case "s":
		return "FS"
	case "c":
		return "FC"
	case "t":
		return "FT"
	}
	panic("harness: bad flavour " + s)
}

func (f *flat) node(n *Node) string {
	switch n.Kind {
	case "lam":
		var b string
		switch n.Beh {
		case "ok":
			b = "BOk"
		case "fail":
			b = lib.CoqApp("BFail", n.Err.coq())
		case "panic":
			b = lib.CoqApp("BPanic", lib.CoqN(uint64(pay(n.ID))))
		case "item":
			b = lib.CoqApp("BItem", n.Err.coq())
		case "rerun":
			b = "BRerun"
		case "cancel":
			b = "BCancel"
		case "convpanic":
			b = lib.CoqApp("BConvPanic", lib.CoqN(uint64(pay(n.ID))))
		case "prefail":
			b = lib.CoqApp("BPreFail", n.Err.coq())
		case "postfail":
			b = lib.CoqApp("BPostFail", n.Err.coq())
		default:
			panic("harness: bad behaviour " + n.Beh)
		}
		return lib.CoqApp("NLam", lib.CoqStr(n.Key), flavCoq(n.Flav), b)
	case "sub":
		idx := f.add(n.Sub)
		return lib.CoqApp("NSub", lib.CoqStr(n.Key), lib.CoqNat(idx))
	case "tools":
		// the harness builds  pre -> tn -> post  as a sub-graph under the node's key
		idx := len(f.graphs)
		var ts []string
		for _, t := range n.Tools {
			switch t.Beh {
			case "ok":
				ts = append(ts, "TOk")
			case "fail":
				ts = append(ts, lib.CoqApp("TFail", t.Err.coq()))
			case "panic":
				ts = append(ts, lib.CoqApp("TPanic", lib.CoqN(uint64(pay(t.ID)))))
			case "convpanic":
				ts = append(ts, lib.CoqApp("TConvPanic", lib.CoqN(uint64(pay(t.ID)))))
			default:
				panic("harness: bad tool behaviour " + t.Beh)
			}
		}
		stages := lib.CoqList([]string{
			lib.CoqList([]string{lib.CoqApp("NLam", lib.CoqStr("pre"), "FI", "BOk")}),
			lib.CoqList([]string{lib.CoqApp("NTools", lib.CoqStr("tn"), lib.CoqList(ts))}),
			lib.CoqList([]string{lib.CoqApp("NLam", lib.CoqStr("post"), "FI", "BOk")}),
		})
		f.graphs = append(f.graphs, lib.CoqApp("mkGraph", "false", stages, "false", lib.CoqNat(0), "BrNone"))
		return lib.CoqApp("NSub", lib.CoqStr(n.Key), lib.CoqNat(idx))
	}
	panic("harness: bad node kind " + n.Kind)
}

var actionNames = map[string]bool{
	"InvokeByStream": true, "InvokeByCollect": true, "InvokeByTransform": true,
	"StreamByInvoke": true, "StreamByTransform": true, "StreamByCollect": true,
	"CollectByTransform": true, "CollectByInvoke": true, "CollectByStream": true,
	"TransformByStream": true, "TransformByCollect": true, "TransformByInvoke": true,
}

func (p *Proj) coq() string {
	internal := "None"
	if p.Found {
		typ := "NodeRunError"
		switch p.Typ {
		case "NodeRunError":
		case "GraphRunError":
			typ = "GraphRunError"
		default:
			typ = "UnknownErrorType" // not a constructor: a changed type string is a visible Coq error
		}
		var acts []string
		for _, a := range p.StreamPath {
			if !actionNames[a] {
				a = "UnknownAction_" + a
			}
			acts = append(acts, a)
		}
		internal = lib.CoqSome(lib.CoqTuple(typ, lib.CoqList(acts), lib.CoqStrList(p.NodePath), lib.CoqBool(p.Outermost)))
	}
	var is []string
	for _, b := range p.Is {
		is = append(is, lib.CoqBool(b))
	}
	var as []string
	for _, c := range p.As {
		if c < 0 {
			as = append(as, "None")
		} else {
			as = append(as, lib.CoqSome(lib.CoqN(uint64(c))))
		}
	}
	pan := "None"
	if p.Panic >= 0 {
		pan = lib.CoqSome(lib.CoqN(uint64(p.Panic)))
	} else if p.Panic == -2 {
		pan = lib.CoqSome(lib.CoqN(999999))
	}
	return lib.CoqApp("mkProj", internal, lib.CoqList(is), lib.CoqList(as), pan, lib.CoqBool(p.Interrupt), lib.CoqStrList(p.MsgPath))
}

func (o *Obs) coq() string {
	switch o.Class {
	case "ok":
		return "OOk"
	case "err":
		if !whitebox {
			return lib.CoqApp("OErrB", o.P.coq())
		}
		return lib.CoqApp("OErr", o.P.coq())
	case "item":
		if !whitebox {
			return lib.CoqApp("OItemB", o.P.coq())
		}
		return lib.CoqApp("OItem", o.P.coq())
	case "panic":
		return "OPanic"
	}
	return "OHang"
}

func parCoq(s string) string {
	switch s {
	case "invoke":
		return "PInvoke"
	case "stream":
		return "PStream"
	case "collect":
		return "PCollect"
	case "transform":
		return "PTransform"
	}
	panic("harness: bad paradigm " + s)
}

func caseCoq(c *Case, all []Obs) string {
	f := &flat{}
	top := c.G
	if c.RtMax > 0 { // the call option replaces the compiled step limit of the top graph (and of no other)
		g := *c.G
		g.Max = c.RtMax
		top = &g
	}
	f.add(top)
	inErr := "None"
	if c.InErr != nil && (c.Par == "collect" || c.Par == "transform") {
		inErr = lib.CoqSome(c.InErr.coq())
	}
	if c.Resume {
		var os []string
		for i := range all {
			os = append(os, "\n  "+all[i].coq())
		}
		return lib.CoqApp("CaseR", "\n  "+lib.CoqList(f.graphs), parCoq(c.Par), lib.CoqBool(c.CancelBefore), inErr, lib.CoqList(os))
	}
	if len(all) == 1 {
		return lib.CoqApp("Case", "\n  "+lib.CoqList(f.graphs), parCoq(c.Par), lib.CoqBool(c.CancelBefore), inErr, "\n  "+all[0].coq())
	}
	var os []string
	for i := range all {
		os = append(os, "\n  "+all[i].coq())
	}
	return lib.CoqApp("CaseN", "\n  "+lib.CoqList(f.graphs), parCoq(c.Par), lib.CoqBool(c.CancelBefore), inErr, lib.CoqList(os))
}

var _ = strings.Join
