package main

// Forwarder cases: the stream-forwarding goroutines of schema/stream.go on their own.
// Several sources (convert readers whose convert function returns chunks / errors / ErrNoValue
// or panics, plain pipes, arrays, the two children of a copied convert reader) are merged with
// schema.MergeStreamReaders and the merged stream is read to EOF, continuing past error items.
// Model: coq/Model/ErrorsFwd.v (fwd / direct / is_interleaving).

import (
	"errors"
	"fmt"
	"io"
	"strconv"
	"strings"
	"sync/atomic"
	"time"

	"github.com/cloudwego/eino/schema"

	"verif/harness/lib"
)

type FSrc struct {
	Kind  string   `json:"kind"`  // conv | convp (a convert reader over a pipe: "item" elements are error items of the SOURCE, the convert function decides val / skip / boom per chunk — what the key filters and type converters of a graph are) | pipe | array | copy (a convert reader copied in two: two members) | copy1 (copied in two, only the first child is merged and read; the second is closed unread afterwards)
	Elems []string `json:"elems"` // val | item | skip | boom
}

type FwdSpec struct {
	Srcs []FSrc `json:"srcs"`
	// Slow: the reader of the merged stream is behind its producers.  1 = it starts to read only when
	// the forwarding goroutines have run as far ahead as their buffers let them (or have met their
	// panic); 2 = the same, and it pauses again after every third item.  What it must find is the same
	// as for a reader that keeps up: the timing of the reader is not an input of the model.
	Slow int `json:"slow,omitempty"`
}

// progress of the convert functions of a case's sources (one counter per source): how far the
// goroutines that read them have come.  Only used to let a slow reader wait for its producers.
type fwdProgress struct {
	n     []*int32
	spent time.Duration // total time waited so far: bounded, so that a loaded machine never turns waiting into a "hang"
}

func (p *fwdProgress) counter() *int32 {
	c := new(int32)
	p.n = append(p.n, c)
	return c
}

func (p *fwdProgress) sum() int32 {
	var t int32
	for _, c := range p.n {
		t += atomic.LoadInt32(c)
	}
	return t
}

// settle waits until no convert function has been called for a few milliseconds (the producers are
// parked on full buffers, finished, or recovering from their panic), at most 150 ms, then a little
// longer for the deferred handlers.  Waiting too short only makes the reader less slow.
func (p *fwdProgress) settle() {
	if p.spent > 1500*time.Millisecond {
		return
	}
	start := time.Now()
	defer func() { p.spent += time.Since(start) }()
	deadline := time.Now().Add(150 * time.Millisecond)
	last, since := p.sum(), time.Now()
	for time.Now().Before(deadline) {
		time.Sleep(300 * time.Microsecond)
		if s := p.sum(); s != last {
			last, since = s, time.Now()
		} else if time.Since(since) > 3*time.Millisecond {
			break
		}
	}
	time.Sleep(2 * time.Millisecond)
}

type FItem struct {
	V int    `json:"v,omitempty"`
	E string `json:"e,omitempty"` // "" = a chunk; "c:<code>" custom0; "p:<payload>" recovered panic; "?:<msg>" anything else
}

type FObs struct {
	Out   []FItem `json:"out"`
	Panic string  `json:"panic,omitempty"`
}

func fid(j, k int) int { return j*100 + k }

func convSource(j int, elems []string, prog *int32) *schema.StreamReader[int] {
	idx := make([]int, len(elems))
	for k := range idx {
		idx[k] = k
	}
	return schema.StreamReaderWithConvert(schema.StreamReaderFromArray(idx), func(k int) (int, error) {
		atomic.AddInt32(prog, 1)
		switch elems[k] {
		case "item":
			return 0, &custom0{fid(j, k)}
		case "skip":
			return 0, schema.ErrNoValue
		case "boom":
			boom(fid(j, k))
		}
		return fid(j, k), nil
	})
}

// convPipeSource: the same elements, but the error items come from the source (a pipe) and the convert
// function sees the chunks only: it skips (ErrNoValue), panics or converts by the chunk's index.
func convPipeSource(j int, elems []string, prog *int32) *schema.StreamReader[int] {
	sr, sw := schema.Pipe[int](1)
	go func() {
		defer sw.Close()
		for k, e := range elems {
			var closed bool
			if e == "item" {
				closed = sw.Send(0, &custom0{fid(j, k)})
			} else {
				closed = sw.Send(k, nil)
			}
			if closed {
				return
			}
		}
	}()
	return schema.StreamReaderWithConvert(sr, func(k int) (int, error) {
		atomic.AddInt32(prog, 1)
		switch elems[k] {
		case "skip":
			return 0, schema.ErrNoValue
		case "boom":
			boom(fid(j, k))
		}
		return fid(j, k), nil
	})
}

// members builds the readers handed to MergeStreamReaders and, per member, the source elements
// with the member index used for its ids.
func (f *FwdSpec) members(prog *fwdProgress) ([]*schema.StreamReader[int], []*schema.StreamReader[int]) {
	var srs, unread []*schema.StreamReader[int]
	var elems [][]string
	var ids []int
	for _, s := range f.Srcs {
		j := len(srs)
		switch s.Kind {
		case "conv":
			srs = append(srs, convSource(j, s.Elems, prog.counter()))
			elems, ids = append(elems, s.Elems), append(ids, j)
		case "convp":
			srs = append(srs, convPipeSource(j, s.Elems, prog.counter()))
			elems, ids = append(elems, s.Elems), append(ids, j)
		case "copy":
			cs := convSource(j, s.Elems, prog.counter()).Copy(2)
			srs = append(srs, cs...)
			elems, ids = append(elems, s.Elems, s.Elems), append(ids, j, j)
		case "copy1":
			cs := convSource(j, s.Elems, prog.counter()).Copy(2)
			srs = append(srs, cs[0])
			unread = append(unread, cs[1])
			elems, ids = append(elems, s.Elems), append(ids, j)
		case "pipe":
			sr, sw := schema.Pipe[int](1)
			go func(es []string) {
				defer sw.Close()
				for k, e := range es {
					var closed bool
					if e == "item" {
						closed = sw.Send(0, &custom0{fid(j, k)})
					} else {
						closed = sw.Send(fid(j, k), nil)
					}
					if closed {
						return
					}
				}
			}(s.Elems)
			srs = append(srs, sr)
			elems, ids = append(elems, s.Elems), append(ids, j)
		case "array":
			arr := make([]int, len(s.Elems))
			for k := range arr {
				arr[k] = fid(j, k)
			}
			srs = append(srs, schema.StreamReaderFromArray(arr))
			elems, ids = append(elems, s.Elems), append(ids, j)
		default:
			panic("harness: bad source kind " + s.Kind)
		}
	}
	_, _ = elems, ids
	return srs, unread
}

func classifyItem(err error) string {
	var c0 *custom0
	if errors.As(err, &c0) {
		return "c:" + strconv.Itoa(c0.code)
	}
	if pi, ok := wbPanicInfo(err); ok {
		if n := payloadOf(pi); n >= 0 {
			return "p:" + strconv.Itoa(n)
		}
		return "?:panic " + fmt.Sprint(pi)
	}
	msg := err.Error()
	if len(msg) > 60 {
		msg = msg[:60]
	}
	return "?:" + msg
}

func runFwd(c *Case) Obs {
	prog := &fwdProgress{}
	srs, unread := c.Fwd.members(prog)
	type res struct {
		out []FItem
		pan any
	}
	done := make(chan res, 1)
	go func() {
		var r res
		r.pan = recoverAll(func() {
			m := schema.MergeStreamReaders(srs)
			defer func() {
				m.Close()
				for _, u := range unread {
					u.Close()
				}
			}()
			if c.Fwd.Slow > 0 {
				prog.settle()
			}
			for n := 0; n < 10000; n++ { // a stream that never ends is a hang, not an out-of-memory
				if c.Fwd.Slow == 2 && n > 0 && n%3 == 0 {
					prog.settle()
				}
				v, err := m.Recv()
				if err == io.EOF {
					return
				}
				if err != nil {
					r.out = append(r.out, FItem{E: classifyItem(err)})
				} else {
					r.out = append(r.out, FItem{V: v})
				}
			}
			panic("harness: the merged stream did not end after 10000 items")
		})
		done <- r
	}()
	select {
	case r := <-done:
		if r.pan != nil {
			return Obs{Class: "panic", Info: fmt.Sprint(r.pan), F: &FObs{Out: r.out, Panic: fmt.Sprint(r.pan)}}
		}
		return Obs{Class: "ok", F: &FObs{Out: r.out}}
	case <-time.After(watchdog):
		return Obs{Class: "hang", F: &FObs{}}
	}
}

// expected items of one member behind a forwarder, computed from the case alone (the direct
// oracle does not use the model: it restates the property — every chunk and error item before
// the panic is delivered in order, the panic is delivered once as an error item, then nothing)
func expectedMember(j int, elems []string) []FItem {
	var out []FItem
	for k, e := range elems {
		switch e {
		case "val":
			out = append(out, FItem{V: fid(j, k)})
		case "item":
			out = append(out, FItem{E: "c:" + strconv.Itoa(fid(j, k))})
		case "boom":
			return append(out, FItem{E: "p:" + strconv.Itoa(pay(fid(j, k)))})
		}
	}
	return out
}

func oracleFwd(c *Case, o *Obs) (string, string) {
	_, elems, ids := membersShape(c.Fwd)
	if len(elems) < 2 {
		if o.Class == "hang" {
			return "reading a single source did not end", "hang"
		}
		return "", "" // a single member is returned as it is: no forwarder, outside the property
	}
	switch o.Class {
	case "panic":
		return "a panic of a merged source escaped to the reader of the merged stream: " + o.Info, "escaped-panic"
	case "hang":
		return "the merged stream did not end within the watchdog period", "hang"
	}
	// every member's expected items form a subsequence of the output, and nothing else is there
	total := 0
	for m := range elems {
		exp := expectedMember(ids[m], elems[m])
		total += len(exp)
		pos := 0
		for _, it := range o.F.Out {
			if pos < len(exp) && it == exp[pos] {
				pos++
			}
		}
		if pos < len(exp) {
			what := "chunk " + strconv.Itoa(exp[pos].V)
			sig := "forwarder-lost-item"
			if strings.HasPrefix(exp[pos].E, "p:") {
				what, sig = "the panic "+exp[pos].E[2:]+" of its source (as an error item)", "forwarder-swallowed-panic"
			} else if exp[pos].E != "" {
				what = "error item " + exp[pos].E
			}
			return fmt.Sprintf("member %d of the merge never delivered %s (got %v)", m, what, o.F.Out), sig
		}
	}
	if len(o.F.Out) < total { // (the two copies of one source hold the same items: each must deliver its own)
		return fmt.Sprintf("the merged stream delivered %d items, its members hold %d — an item of some member is lost: %v", len(o.F.Out), total, o.F.Out), "forwarder-lost-item"
	}
	if len(o.F.Out) > total {
		return fmt.Sprintf("the merged stream delivered %d items, its members hold %d: %v", len(o.F.Out), total, o.F.Out), "forwarder-extra-item"
	}
	return "", ""
}

func membersShape(f *FwdSpec) (int, [][]string, []int) {
	var elems [][]string
	var ids []int
	for _, s := range f.Srcs {
		j := len(elems)
		if s.Kind == "copy" {
			elems, ids = append(elems, s.Elems, s.Elems), append(ids, j, j)
		} else {
			elems, ids = append(elems, s.Elems), append(ids, j)
		}
	}
	return len(elems), elems, ids
}

func fitemCoq(it FItem) string {
	switch {
	case it.E == "":
		return lib.CoqApp("RVal", lib.CoqN(uint64(it.V)))
	case strings.HasPrefix(it.E, "c:"):
		n, _ := strconv.Atoi(it.E[2:])
		return lib.CoqApp("RErr", lib.CoqApp("Custom", lib.CoqN(0), lib.CoqN(uint64(n))))
	case strings.HasPrefix(it.E, "p:"):
		n, _ := strconv.Atoi(it.E[2:])
		return lib.CoqApp("RErr", lib.CoqApp("PanicErr", lib.CoqN(uint64(n))))
	}
	return "(RErr (Leaf id_misc))"
}

func fwdCaseCoq(c *Case, o *Obs) string {
	_, elems, ids := membersShape(c.Fwd)
	var srcs []string
	for m := range elems {
		var es []string
		for k, e := range elems[m] {
			switch e {
			case "val":
				es = append(es, lib.CoqApp("SVal", lib.CoqN(uint64(fid(ids[m], k)))))
			case "item":
				es = append(es, lib.CoqApp("SItem", lib.CoqApp("Custom", lib.CoqN(0), lib.CoqN(uint64(fid(ids[m], k))))))
			case "skip":
				es = append(es, "SSkip")
			case "boom":
				es = append(es, lib.CoqApp("SBoom", lib.CoqN(uint64(pay(fid(ids[m], k))))))
			default:
				panic("harness: bad element " + e)
			}
		}
		srcs = append(srcs, lib.CoqList(es))
	}
	var out []string
	if o.F != nil {
		for _, it := range o.F.Out {
			out = append(out, fitemCoq(it))
		}
	}
	var obs string
	switch o.Class {
	case "ok":
		obs = lib.CoqApp("FOut", lib.CoqList(out))
	case "panic":
		pay := uint64(999999)
		if n := payloadOf(o.Info); n >= 0 {
			pay = uint64(n)
		}
		obs = lib.CoqApp("FPanic", lib.CoqList(out), lib.CoqN(pay))
	default:
		obs = "FHang"
	}
	if len(srcs) == 1 && c.Fwd.Srcs[0].Kind == "copy1" {
		return lib.CoqApp("FwdChild", "\n  "+srcs[0], "\n  "+obs) // a copy child read directly: no merge, no forwarder
	}
	return lib.CoqApp("FwdCase", "\n  "+lib.CoqList(srcs), "\n  "+obs)
}

func fwdTags(c *Case, o *Obs) []string {
	n, elems, _ := membersShape(c.Fwd)
	t := []string{"kind:fwd", "class:" + o.Class, fmt.Sprintf("fwd-members:%d", n)}
	booms, items := 0, 0
	for _, es := range elems {
		for _, e := range es {
			if e == "boom" {
				booms++
				break
			}
			if e == "item" {
				items++
			}
		}
	}
	t = append(t, fmt.Sprintf("fwd-panicking-sources:%d", booms))
	for _, s := range c.Fwd.Srcs {
		t = append(t, "fwd-has:"+s.Kind)
	}
	t = append(t, fmt.Sprintf("fwd-slow-reader:%d", c.Fwd.Slow))
	late := false
	for _, es := range elems {
		ahead := 0
		for _, e := range es {
			if e == "boom" && ahead >= 5 {
				late = true
			}
			if e == "val" || e == "item" {
				ahead++
			}
		}
	}
	if late {
		t = append(t, "fwd-has:panic-beyond-buffer")
	}
	if items > 0 {
		t = append(t, "fwd-has:error-item")
	}
	return t
}

func (g *gen) fwdCase() *Case {
	r := g.r
	f := &FwdSpec{}
	m := 2 + g.weighted(45, 35, 20)
	if r.Chance(5, 100) {
		m = 1
	}
	// a third of the cases have a reader that is behind its producers; their sources are mostly longer
	// than a forwarder's buffer, with the panic late
	if r.Chance(33, 100) {
		f.Slow = 1 + g.weighted(60, 40)
	}
	for len(f.Srcs) < m {
		s := FSrc{Kind: []string{"conv", "convp", "pipe", "array", "copy", "copy1"}[g.weighted(33, 12, 15, 8, 12, 20)]}
		n := r.Range(0, 6)
		long := f.Slow > 0 && r.Chance(70, 100)
		if long {
			n = r.Range(6, 12)
		}
		for k := 0; k < n; k++ {
			var e string
			switch s.Kind {
			case "conv", "convp", "copy1", "copy": // (every copy of a panicking source delivers the panic as an error item: F-C13d)
				if long {
					e = []string{"val", "item", "skip", "boom"}[g.weighted(70, 12, 8, 10)]
					break
				}
				e = []string{"val", "item", "skip", "boom"}[g.weighted(58, 14, 10, 18)]
			case "pipe":
				e = []string{"val", "item"}[g.weighted(80, 20)]
			default:
				e = "val"
			}
			s.Elems = append(s.Elems, e)
		}
		f.Srcs = append(f.Srcs, s)
	}
	return &Case{Fwd: f}
}
