package main

import (
	"encoding/json"
	"time"

	"verif/harness/lib"
)

// Shrinker: a case on which the direct oracle fails is minimised greedily (lib.Main then reports
// the small case as the replay).  Every candidate is a deep copy with one simplification; it is
// kept when the oracle still fails with the same signature.  A failure that depends on the
// schedule may not show again: the engine remembers every failing result by case (failed), so the
// final re-run of the chosen case reports the failure that was seen.

var failed = map[string]lib.Result{}

// hangShrunk: a hanging case has been shrunk already in this process
var hangShrunk bool

func caseKey(c *Case) string {
	b, _ := json.Marshal(c)
	return string(b)
}

func clone(c *Case) *Case {
	b, _ := json.Marshal(c)
	var d Case
	if err := json.Unmarshal(b, &d); err != nil {
		panic(err)
	}
	return &d
}

func okLambda(key string) *Node { return &Node{Key: key, Kind: "lam", Flav: "i", Beh: "ok"} }

// simplifications of the graph at *gp (recursively), each applied to a fresh clone of the case
func graphCands(root *Case, at func(c *Case) *Graph) []*Case {
	var out []*Case
	g := at(root)
	add := func(f func(g *Graph) bool) {
		d := clone(root)
		if f(at(d)) {
			out = append(out, d)
		}
	}
	for si, st := range g.Stages {
		for ni, n := range st {
			si, ni, n := si, ni, n
			switch {
			case n.Kind == "sub":
				add(func(g *Graph) bool { g.Stages[si][ni] = okLambda(n.Key); return true })
				out = append(out, graphCands(root, func(c *Case) *Graph { return at(c).Stages[si][ni].Sub })...)
			case n.Kind == "tools":
				add(func(g *Graph) bool { g.Stages[si][ni] = okLambda(n.Key); return true })
				for ti := range n.Tools {
					ti := ti
					if n.Tools[ti].Beh != "ok" {
						add(func(g *Graph) bool { g.Stages[si][ni].Tools[ti] = ToolSpec{Beh: "ok"}; return true })
					}
				}
				if len(n.Tools) > 1 {
					add(func(g *Graph) bool { t := g.Stages[si][ni].Tools; g.Stages[si][ni].Tools = t[:len(t)-1]; return true })
				}
			case n.Beh != "ok":
				add(func(g *Graph) bool {
					if g.Loop && si == len(g.Stages)-1 {
						return false
					}
					g.Stages[si][ni] = okLambda(n.Key)
					return true
				})
				if n.Err != nil && (n.Err.Wraps > 0 || n.Err.Typed || n.Err.Nested) {
					add(func(g *Graph) bool {
						e := g.Stages[si][ni].Err
						e.Wraps, e.Typed, e.TCode, e.Nested = 0, false, 0, false
						return true
					})
				}
			}
			if n.InKey != "" {
				add(func(g *Graph) bool { g.Stages[si][ni].InKey = ""; return true })
			}
			if n.OutKey {
				add(func(g *Graph) bool { g.Stages[si][ni].OutKey = false; return true }) // (normKeys then frees the nodes that took it)
			}
			if len(st) > 1 {
				add(func(g *Graph) bool {
					s := g.Stages[si]
					g.Stages[si] = append(append([]*Node{}, s[:ni]...), s[ni+1:]...)
					return true
				})
			}
		}
	}
	if len(g.Stages) > 1 && !g.Loop && !g.EndBr {
		add(func(g *Graph) bool { g.Stages = g.Stages[:len(g.Stages)-1]; return true })
		add(func(g *Graph) bool { g.Stages = g.Stages[1:]; return true })
	}
	if g.Br != "" {
		add(func(g *Graph) bool { g.Br, g.BrErr, g.BrID = "", nil, 0; return true })
	}
	if g.Max > 0 && !g.Loop {
		add(func(g *Graph) bool { g.Max = 0; return true })
	}
	return out
}

func caseCands(c *Case) []*Case {
	var out []*Case
	if c.Fwd != nil {
		for i := range c.Fwd.Srcs {
			if len(c.Fwd.Srcs) > 2 {
				d := clone(c)
				d.Fwd.Srcs = append(d.Fwd.Srcs[:i:i], d.Fwd.Srcs[i+1:]...)
				out = append(out, d)
			}
			for k := range c.Fwd.Srcs[i].Elems {
				d := clone(c)
				e := d.Fwd.Srcs[i].Elems
				d.Fwd.Srcs[i].Elems = append(e[:k:k], e[k+1:]...)
				out = append(out, d)
			}
		}
		return out
	}
	// the failing part may be a nested graph on its own
	for _, st := range c.G.Stages {
		for _, n := range st {
			if n.Kind == "sub" {
				d := clone(c)
				d.G = clone(&Case{G: n.Sub}).G
				d.RtMax = 0
				out = append(out, d)
			}
		}
	}
	if c.InErr != nil {
		d := clone(c)
		d.InErr = nil
		out = append(out, d)
	}
	if c.CancelBefore {
		d := clone(c)
		d.CancelBefore, d.Deadline = false, false
		out = append(out, d)
	}
	if c.RtMax > 0 {
		d := clone(c)
		d.RtMax = 0
		out = append(out, d)
	}
	if c.Conc || c.Twice {
		d := clone(c)
		d.Conc, d.Twice = false, false
		out = append(out, d)
	}
	return append(out, graphCands(c, func(c *Case) *Graph { return c.G })...)
}

// normKeys: a simplification may have removed or replaced the keyed predecessor of a node that takes its
// input by key; such a node goes back to taking its whole input (a dangling input key would be a failure of
// the harness's own graph, not of the run).
func normKeys(g *Graph) {
	for s, st := range g.Stages {
		for _, n := range st {
			if n.Sub != nil {
				normKeys(n.Sub)
			}
			if n.InKey == "" {
				continue
			}
			ok := false
			if s >= 1 {
				for _, p := range g.Stages[s-1] {
					ok = ok || (p.Key == n.InKey && p.OutKey)
				}
			}
			if !ok {
				n.InKey = ""
			}
		}
	}
}

func (engine) Shrink(ci any, stillFails func(any) bool) any {
	cur := ci.(*Case)
	var deadline time.Time
	if r, ok := failed[caseKey(cur)]; ok && r.Sig == "hang" {
		// every attempt that still hangs waits for the (by now short) watchdog: only the first hang of the
		// process is shrunk, for 15 s at most
		if hangShrunk {
			return cur
		}
		hangShrunk = true
		deadline = time.Now().Add(15 * time.Second)
	}
	budget := 150
	for progress := true; progress && budget > 0; {
		progress = false
		for _, d := range caseCands(cur) {
			if budget--; budget < 0 || (!deadline.IsZero() && time.Now().After(deadline)) {
				budget = -1
				break
			}
			if d.G != nil {
				normKeys(d.G)
			}
			if (d.Fwd == nil && d.G == nil) || !stillFails(d) {
				continue
			}
			cur, progress = d, true
			break
		}
	}
	return cur
}
