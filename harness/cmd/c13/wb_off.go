//go:build !verif_c13wb

package main

// Black-box tie: built without the white-box group (see wb_on.go).  The wrapper's private fields are not
// observed (observations are sent to the model as OErrB / OItemB: compared on the public observables only);
// the value of a recovered panic is read from the message, where safe.panicErr prints it.

import (
	"regexp"
	"strings"
)

const whitebox = false

func wbErrInfo(err error) (found, outermost bool, typ string, nodePath, streamPath []string) {
	return false, false, "", nil, nil
}

var (
	reBoomMsg  = regexp.MustCompile(`boom:(\d+)`)
	reIndexMsg = regexp.MustCompile(`runtime error: index out of range \[(\d+)\] with length 0`)
)

// wbPanicInfo: the panic value of the first "panic error: <value>, \nstack: ..." of the message, as a string.
func wbPanicInfo(err error) (any, bool) {
	msg := err.Error()
	i := strings.Index(msg, "panic error: ")
	if i < 0 {
		return nil, false
	}
	v := msg[i+len("panic error: "):]
	if j := strings.Index(v, "\nstack:"); j >= 0 {
		v = v[:j]
	}
	switch {
	case strings.HasPrefix(v, "panic called with nil argument"):
		return "panic called with nil argument", true
	case reBoomMsg.MatchString(v):
		return "boom:" + reBoomMsg.FindStringSubmatch(v)[1], true
	case reIndexMsg.MatchString(v):
		return reIndexMsg.FindString(v), true
	}
	return "a panic value the harness did not throw: " + v, true
}
