// Engine C12 — checkpoint serialisation (internal/serialization) round-trips every
// supported value or fails loudly.
//
// A case is a Go type (described by Ty, struct types built with reflect.StructOf or taken
// from a small fixed family of named types) and a value of that type (described by V).
// The value is marshalled and unmarshalled through the real entry points (bytes in
// between, as checkPointer.set/get do); the observation is the outcome class plus the
// decoded value, printed as a term of Base/Universe.v's [val] by the same printer that
// prints the input.
package main

import (
	"context"
	"encoding/hex"
	"encoding/json"
	"fmt"
	"io"
	"math"
	"math/big"
	"reflect"
	"sort"
	"strconv"
	"strings"
	"sync"
	"time"
	"unicode/utf8"

	"github.com/cloudwego/eino/compose"
	"github.com/cloudwego/eino/schema"

	"verif/harness/cmd/c12/alt"
	"verif/harness/lib"
)

// ------------------------------------------------------------------ type universe

type Ty struct {
	K   string `json:"k"`             // base | named | struct | ptr | slice | map | iface | any | array | ncont
	B   string `json:"b,omitempty"`   // base: Go name of the basic kind
	N   int    `json:"n,omitempty"`   // named / struct / iface / ncont: id; array: length
	E   *Ty    `json:"e,omitempty"`   // ptr / slice element, map value
	Key *Ty    `json:"key,omitempty"` // map key
}

var baseOrder = []string{"bool", "int", "int8", "int16", "int32", "int64", "uint", "uint8", "uint16", "uint32",
	"uint64", "uintptr", "float32", "float64", "complex64", "complex128", "string"}
var baseCoq = map[string]string{"bool": "BBool", "int": "BInt", "int8": "BInt8", "int16": "BInt16", "int32": "BInt32",
	"int64": "BInt64", "uint": "BUint", "uint8": "BUint8", "uint16": "BUint16", "uint32": "BUint32", "uint64": "BUint64",
	"uintptr": "BUintptr", "float32": "BFloat32", "float64": "BFloat64", "complex64": "BComplex64",
	"complex128": "BComplex128", "string": "BString"}
var baseGo = map[string]reflect.Type{"bool": reflect.TypeOf(false), "int": reflect.TypeOf(int(0)), "int8": reflect.TypeOf(int8(0)),
	"int16": reflect.TypeOf(int16(0)), "int32": reflect.TypeOf(int32(0)), "int64": reflect.TypeOf(int64(0)),
	"uint": reflect.TypeOf(uint(0)), "uint8": reflect.TypeOf(uint8(0)), "uint16": reflect.TypeOf(uint16(0)),
	"uint32": reflect.TypeOf(uint32(0)), "uint64": reflect.TypeOf(uint64(0)), "uintptr": reflect.TypeOf(uintptr(0)),
	"float32": reflect.TypeOf(float32(0)), "float64": reflect.TypeOf(float64(0)), "complex64": reflect.TypeOf(complex64(0)),
	"complex128": reflect.TypeOf(complex128(0)), "string": reflect.TypeOf("")}
var kindBase = map[reflect.Kind]string{reflect.Bool: "bool", reflect.Int: "int", reflect.Int8: "int8", reflect.Int16: "int16",
	reflect.Int32: "int32", reflect.Int64: "int64", reflect.Uint: "uint", reflect.Uint8: "uint8", reflect.Uint16: "uint16",
	reflect.Uint32: "uint32", reflect.Uint64: "uint64", reflect.Uintptr: "uintptr", reflect.Float32: "float32",
	reflect.Float64: "float64", reflect.Complex64: "complex64", reflect.Complex128: "complex128", reflect.String: "string"}

// named basic types (fixed family); 0..7 registered through the public API, 8..9 never registered
type NInt int
type NStr string
type NF64 float64
type NU8 uint8
type NBool bool
type NI64 int64
type NF32 float32
type NU64 uint64
type UInt int
type UStr string

// named types with a JSON form of their own: NLvl marshals itself as the string "L<n>"
// (json.Marshaler / json.Unmarshaler), NTk as the text "T<n>" (encoding.TextMarshaler /
// TextUnmarshaler: also used for map keys of this type)
type NLvl int

func (l NLvl) MarshalJSON() ([]byte, error) { return []byte(`"L` + strconv.Itoa(int(l)) + `"`), nil }
func (l *NLvl) UnmarshalJSON(b []byte) error {
	s := string(b)
	if len(s) < 4 || !strings.HasPrefix(s, `"L`) || !strings.HasSuffix(s, `"`) {
		return fmt.Errorf("NLvl: bad JSON %s", s)
	}
	n, err := strconv.Atoi(s[2 : len(s)-1])
	*l = NLvl(n)
	return err
}

type NTk int

func (t NTk) MarshalText() ([]byte, error) { return []byte("T" + strconv.Itoa(int(t))), nil }
func (t *NTk) UnmarshalText(b []byte) error {
	if len(b) < 2 || b[0] != 'T' {
		return fmt.Errorf("NTk: bad text %q", b)
	}
	n, err := strconv.Atoi(string(b[1:]))
	*t = NTk(n)
	return err
}

// time.Time: a struct type with unexported fields only and a JSON form of its own.  For the
// model it is a named type whose literal is the RFC 3339 text (id timeNamed, basic kind string).
var timeType = reflect.TypeOf(time.Time{})

const timeNamed = 13

type namedInfo struct {
	base string
	rt   reflect.Type
	reg  bool
}

var named = []namedInfo{
	{"int", reflect.TypeOf(NInt(0)), true}, {"string", reflect.TypeOf(NStr("")), true},
	{"float64", reflect.TypeOf(NF64(0)), true}, {"uint8", reflect.TypeOf(NU8(0)), true},
	{"bool", reflect.TypeOf(NBool(false)), true}, {"int64", reflect.TypeOf(NI64(0)), true},
	{"float32", reflect.TypeOf(NF32(0)), true}, {"uint64", reflect.TypeOf(NU64(0)), true},
	{"int", reflect.TypeOf(UInt(0)), false}, {"string", reflect.TypeOf(UStr("")), false},
	{"int", reflect.TypeOf(NLvl(0)), true}, {"int", reflect.TypeOf(NTk(0)), true},
	{"int", reflect.TypeOf(alt.NInt(0)), true}, {"string", timeType, true},
}

// the registered named types the generator picks from
var regNamed = []int{0, 1, 2, 3, 4, 5, 6, 7, 0, 1, 2, 3, 4, 5, 6, 7, 10, 11, 12, timeNamed}

// named interface types: E0 registered, E1 not
type E0 interface{}
type E1 interface{}

var anyType = reflect.TypeOf((*any)(nil)).Elem()
var ifaces = []reflect.Type{reflect.TypeOf((*E0)(nil)).Elem(), reflect.TypeOf((*E1)(nil)).Elem()}

// fixed named struct types, ids fixedBase+i
const fixedBase = 1000

type Empty struct{}
type Node struct {
	V    int
	Next *Node
	Kids []*Node
	M    map[string]*Node
	A    any
}
type Unreg struct{ A int }
type Rec struct {
	Chan map[string]E0 // like checkpoint.Channels: map of a registered interface type
	In   map[string]any
	St   any
	Skip map[string]bool
	Sub  map[string]*Rec
}

// the real checkpoint record family of compose (ids as in Model/SerCheckpoint.v): struct
// 9000 checkpoint, 9001 dagChannel, 9002 pregelChannel, interface 9000 channel, named
// basic type 9000 dependencyState.  Their declarations are NOT printed by the harness:
// the model uses its own (ckpt_env / ckpt_registry), so a change of the record shape or
// of the registrations in compose shows up as a disagreement.
const ckptBase = 9000

var ckptTypes = wbCheckpointTypes()
var ckptStructs = []reflect.Type{ckptTypes["checkpoint"], ckptTypes["dag"], ckptTypes["pregel"]}

func namedInfoOf(n int) (namedInfo, bool) {
	if n == ckptBase {
		return namedInfo{"uint8", ckptTypes["depstate"], true}, true
	}
	if n >= 0 && n < len(named) {
		return named[n], true
	}
	return namedInfo{}, false
}

func ifaceOf(n int) (reflect.Type, bool) {
	if n == ckptBase {
		return ckptTypes["channel"], true
	}
	if n >= 0 && n < len(ifaces) {
		return ifaces[n], true
	}
	return nil, false
}

// Holder is the state type of the black-box companion (a graph interrupted and resumed)
type Holder struct {
	V any
	M map[string]any
}

// an embedded struct, json tags (which the serialiser does not look at: fields go by name)
type Inner struct {
	A int
	B string
}
type Outer struct {
	Inner
	P    *Inner
	Tag  string `json:"tag,omitempty"`
	Skip int    `json:"-"`
	Low  []int  `json:"Tag"`
}

// embedded fields that are not plain structs: a pointer to a struct, a named basic type, an
// interface (each is an exported field named after its type)
type Emb struct {
	*Inner
	NInt
	E0
	X []*Inner
}

// a struct type that can marshal itself but not unmarshal itself: it has no JSON form of its
// own that could be read back, the serialiser has to write it field by field
type OnlyM struct {
	A int
	S []string
}

func (o OnlyM) MarshalJSON() ([]byte, error) { return []byte(`"only-m"`), nil }

// a comparable struct whose plain JSON does not identify it (a field is left out): as a map
// key type it belongs to finding F-C12j
type KT struct {
	A int
	B int `json:"-"`
}

// a comparable struct with json tags that keep its JSON faithful (renamed members, members
// left out when zero): as a key type it must round-trip - a member that is absent from the text
// of one key must come back zero whatever the other keys of the map hold
type KO struct {
	Name NStr    `json:"name"`
	Rev  int     `json:"rev,omitempty"`
	On   bool    `json:",omitempty"`
	W    float64 `json:"w,omitempty"`
	Tag  string  `json:"tag,omitempty"`
}

// a comparable struct used as a map key type (keys are written as plain JSON)
type KS struct {
	A int
	B NStr
}

var fixedStructs = []struct {
	rt  reflect.Type
	reg bool
}{{reflect.TypeOf(Empty{}), true}, {reflect.TypeOf(Node{}), true}, {reflect.TypeOf(Unreg{}), false}, {reflect.TypeOf(Rec{}), true},
	{reflect.TypeOf(Holder{}), true}, {reflect.TypeOf(Inner{}), true}, {reflect.TypeOf(Outer{}), true}, {reflect.TypeOf(KS{}), true}, {reflect.TypeOf(OnlyM{}), true}, {reflect.TypeOf(KT{}), true}, {reflect.TypeOf(KO{}), true}, {reflect.TypeOf(Emb{}), true}, {reflect.TypeOf(HP{}), true}}

// container types registered under a name (so that they may be element types)
var regContainers = []struct {
	name string
	t    *Ty
}{
	{"c12_ints", &Ty{K: "slice", E: &Ty{K: "base", B: "int"}}},
	{"c12_strmap", &Ty{K: "map", Key: &Ty{K: "base", B: "string"}, E: &Ty{K: "base", B: "string"}}},
}

// arrays, and defined container types (fixed family; 0..2 registered)
type NSl []int
type NMp map[string]NInt
type NAr [2]string
type USl []string
type UMp map[string]int

var namedConts = []struct {
	rt    reflect.Type
	under *Ty
	reg   bool
}{
	{reflect.TypeOf(NSl(nil)), &Ty{K: "slice", E: &Ty{K: "base", B: "int"}}, true},
	{reflect.TypeOf(NMp(nil)), &Ty{K: "map", Key: &Ty{K: "base", B: "string"}, E: &Ty{K: "named", N: 0}}, true},
	{reflect.TypeOf(NAr{}), &Ty{K: "array", N: 2, E: &Ty{K: "base", B: "string"}}, true},
	{reflect.TypeOf(USl(nil)), &Ty{K: "slice", E: &Ty{K: "base", B: "string"}}, false},
	{reflect.TypeOf(UMp(nil)), &Ty{K: "map", Key: &Ty{K: "base", B: "string"}, E: &Ty{K: "base", B: "int"}}, false},
}

// defined pointer types (type PInt *int): a pointer type with a name.  GenericRegister strips the
// pointers of the type it is given, so such a type cannot be registered under its own name; the
// encoder strips the pointers too and writes the pointee.  In a typed position the decoder's unnamed
// pointer is assignable (supported, must round-trip); directly in an interface position the name is
// lost (finding F-C12m).  Outside Base/Universe.v: judged by the direct oracle only.
type PInt *int
type PNode *Node
type PPStr **NStr

var namedPtrs = []struct {
	rt    reflect.Type
	under *Ty
}{
	{reflect.TypeOf(PInt(nil)), &Ty{K: "ptr", E: &Ty{K: "base", B: "int"}}},
	{reflect.TypeOf(PNode(nil)), &Ty{K: "ptr", E: &Ty{K: "struct", N: fixedBase + 1}}},
	{reflect.TypeOf(PPStr(nil)), &Ty{K: "ptr", E: &Ty{K: "ptr", E: &Ty{K: "named", N: 1}}}},
}

// a registered struct with fields of defined pointer types (typed positions: supported) and interface
// positions.  A defined pointer type behind a pointer (*PInt) or as the key / element type of a container
// ([]PInt, map[string]PNode, []*PInt) cannot be rebuilt by the decoder at all: the encoder must refuse it
// (fix F-C12m; malformed kind "defined-pointer-elem").
type HP struct {
	P  PInt
	Q  PNode
	S  PPStr
	A  any
	As []any
}

// registered container types of the extension that may be element types
var extElems = []*Ty{{K: "array", N: 2, E: &Ty{K: "base", B: "int"}}, {K: "ncont", N: 0}, {K: "ncont", N: 1}, {K: "ncont", N: 2}}

func must(err error) {
	if err != nil {
		panic(err)
	}
}

func init() {
	must(compose.RegisterSerializableType[NInt]("c12_n0"))
	must(compose.RegisterSerializableType[NStr]("c12_n1"))
	must(compose.RegisterSerializableType[NF64]("c12_n2"))
	must(compose.RegisterSerializableType[NU8]("c12_n3"))
	must(compose.RegisterSerializableType[NBool]("c12_n4"))
	must(compose.RegisterSerializableType[NI64]("c12_n5"))
	must(compose.RegisterSerializableType[NF32]("c12_n6"))
	must(compose.RegisterSerializableType[NU64]("c12_n7"))
	must(compose.RegisterSerializableType[E0]("c12_e0"))
	must(compose.RegisterSerializableType[Empty]("c12_s1000"))
	must(compose.RegisterSerializableType[*Node]("c12_s1001")) // pointers are stripped by the registration
	must(compose.RegisterSerializableType[Rec]("c12_s1003"))
	must(compose.RegisterSerializableType[Holder]("c12_s1004"))
	must(compose.RegisterSerializableType[Inner]("c12_s1005"))
	must(compose.RegisterSerializableType[Outer]("c12_s1006"))
	must(compose.RegisterSerializableType[KS]("c12_s1007"))
	must(compose.RegisterSerializableType[OnlyM]("c12_s1008"))
	must(compose.RegisterSerializableType[KT]("c12_s1009"))
	must(compose.RegisterSerializableType[KO]("c12_s1010"))
	must(compose.RegisterSerializableType[Emb]("c12_s1011"))
	must(compose.RegisterSerializableType[HP]("c12_s1012"))
	must(compose.RegisterSerializableType[NLvl]("c12_n10"))
	must(compose.RegisterSerializableType[NTk]("c12_n11"))
	must(compose.RegisterSerializableType[alt.NInt]("c12_n12"))
	must(compose.RegisterSerializableType[time.Time]("c12_n13"))
	must(compose.RegisterSerializableType[[]int]("c12_ints"))
	must(compose.RegisterSerializableType[map[string]string]("c12_strmap"))
	must(compose.RegisterSerializableType[NSl]("c12_nsl"))
	must(compose.RegisterSerializableType[NMp]("c12_nmp"))
	must(compose.RegisterSerializableType[NAr]("c12_nar"))
	must(compose.RegisterSerializableType[[2]int]("c12_arr2"))
}

type Field struct {
	Name string `json:"name"`
	T    *Ty    `json:"t"`
}
type SDecl struct {
	ID     int     `json:"id"`
	Reg    bool    `json:"reg"`
	Fields []Field `json:"fields"`
}

// world of one case: struct id <-> reflect.Type
type world struct {
	byID  map[int]reflect.Type
	rev   map[reflect.Type]int
	decls []SDecl // every struct declaration (case-local first, then the fixed family)
}

func newWorld(structs []SDecl) (w *world, err error) {
	w = &world{byID: map[int]reflect.Type{}, rev: map[reflect.Type]int{}}
	for i, fs := range fixedStructs {
		w.byID[fixedBase+i] = fs.rt
		w.rev[fs.rt] = fixedBase + i
	}
	for i, rt := range ckptStructs {
		w.byID[ckptBase+i] = rt
		w.rev[rt] = ckptBase + i
	}
	for _, d := range structs {
		if len(d.Fields) == 0 {
			return nil, fmt.Errorf("struct %d: no fields", d.ID)
		}
		fields := make([]reflect.StructField, len(d.Fields))
		for j, f := range d.Fields {
			ft, e := w.goType(f.T)
			if e != nil {
				return nil, e
			}
			fields[j] = reflect.StructField{Name: f.Name, Type: ft}
		}
		var st reflect.Type
		if p := lib.Recover(func() { st = reflect.StructOf(fields) }); p != nil {
			return nil, fmt.Errorf("StructOf: %v", p)
		}
		if _, dup := w.rev[st]; dup {
			return nil, fmt.Errorf("struct %d: same Go type as another declaration", d.ID)
		}
		w.byID[d.ID] = st
		w.rev[st] = d.ID
		if d.Reg {
			h := fmt.Sprintf("c12_so_%x", fnv(st.String()))
			if e := wbRegisterType(h, st); e != nil {
				return nil, e
			}
		} else if _, isReg := wbRegistered(st); isReg {
			return nil, fmt.Errorf("struct %d declared unregistered but its Go type is registered", d.ID)
		}
		w.decls = append(w.decls, d)
	}
	for i, fs := range fixedStructs {
		d := SDecl{ID: fixedBase + i, Reg: fs.reg}
		for j := 0; j < fs.rt.NumField(); j++ {
			f := fs.rt.Field(j)
			t, ok := w.tyOf(f.Type)
			if !ok {
				panic("fixed struct field type outside the universe")
			}
			d.Fields = append(d.Fields, Field{Name: f.Name, T: t})
		}
		w.decls = append(w.decls, d)
	}
	return w, nil
}

func fnv(s string) uint64 {
	h := uint64(14695981039346656037)
	for i := 0; i < len(s); i++ {
		h ^= uint64(s[i])
		h *= 1099511628211
	}
	return h
}

func (w *world) goType(t *Ty) (reflect.Type, error) {
	switch t.K {
	case "base":
		if rt, ok := baseGo[t.B]; ok {
			return rt, nil
		}
	case "named":
		if ni, ok := namedInfoOf(t.N); ok {
			return ni.rt, nil
		}
	case "struct":
		if rt, ok := w.byID[t.N]; ok {
			return rt, nil
		}
	case "ptr", "slice":
		et, err := w.goType(t.E)
		if err != nil {
			return nil, err
		}
		if t.K == "ptr" {
			return reflect.PointerTo(et), nil
		}
		return reflect.SliceOf(et), nil
	case "map":
		kt, err := w.goType(t.Key)
		if err != nil {
			return nil, err
		}
		et, err := w.goType(t.E)
		if err != nil {
			return nil, err
		}
		if !kt.Comparable() {
			return nil, fmt.Errorf("map key type %v not comparable", kt)
		}
		return reflect.MapOf(kt, et), nil
	case "iface":
		if it, ok := ifaceOf(t.N); ok {
			return it, nil
		}
	case "any":
		return anyType, nil
	case "array":
		et, err := w.goType(t.E)
		if err != nil {
			return nil, err
		}
		if t.N < 0 || t.N > 8 {
			return nil, fmt.Errorf("array length %d", t.N)
		}
		return reflect.ArrayOf(t.N, et), nil
	case "ncont":
		if t.N >= 0 && t.N < len(namedConts) {
			return namedConts[t.N].rt, nil
		}
	case "nptr":
		if t.N >= 0 && t.N < len(namedPtrs) {
			return namedPtrs[t.N].rt, nil
		}
	}
	return nil, fmt.Errorf("bad type descriptor %+v", *t)
}

// tyOf is the inverse of goType on the universe
func (w *world) tyOf(rt reflect.Type) (*Ty, bool) {
	if rt == timeType {
		return &Ty{K: "named", N: timeNamed}, true
	}
	switch rt.Kind() {
	case reflect.Ptr:
		if rt.Name() != "" {
			for i, np := range namedPtrs {
				if np.rt == rt {
					return &Ty{K: "nptr", N: i}, true
				}
			}
			return nil, false
		}
		e, ok := w.tyOf(rt.Elem())
		return &Ty{K: "ptr", E: e}, ok
	case reflect.Array:
		if rt.Name() != "" {
			return ncontOf(rt)
		}
		e, ok := w.tyOf(rt.Elem())
		return &Ty{K: "array", N: rt.Len(), E: e}, ok
	case reflect.Slice:
		if rt.Name() != "" {
			return ncontOf(rt)
		}
		e, ok := w.tyOf(rt.Elem())
		return &Ty{K: "slice", E: e}, ok
	case reflect.Map:
		if rt.Name() != "" {
			return ncontOf(rt)
		}
		k, ok1 := w.tyOf(rt.Key())
		e, ok2 := w.tyOf(rt.Elem())
		return &Ty{K: "map", Key: k, E: e}, ok1 && ok2
	case reflect.Struct:
		id, ok := w.rev[rt]
		return &Ty{K: "struct", N: id}, ok
	case reflect.Interface:
		if rt == anyType {
			return &Ty{K: "any"}, true
		}
		for i, it := range ifaces {
			if rt == it {
				return &Ty{K: "iface", N: i}, true
			}
		}
		if rt == ckptTypes["channel"] {
			return &Ty{K: "iface", N: ckptBase}, true
		}
		return nil, false
	}
	if b, ok := kindBase[rt.Kind()]; ok {
		if rt.PkgPath() == "" {
			return &Ty{K: "base", B: b}, true
		}
		for i, n := range named {
			if n.rt == rt {
				return &Ty{K: "named", N: i}, true
			}
		}
		if rt == ckptTypes["depstate"] {
			return &Ty{K: "named", N: ckptBase}, true
		}
	}
	return nil, false
}

func ncontOf(rt reflect.Type) (*Ty, bool) {
	for i, nc := range namedConts {
		if nc.rt == rt {
			return &Ty{K: "ncont", N: i}, true
		}
	}
	return nil, false
}

// ext: the type lies outside Base/Universe.v (a pointer to an interface type); struct types
// are judged by their declarations (caseUsesExt)
func (t *Ty) ext() bool {
	switch t.K {
	case "nptr":
		return true
	case "ncont":
		return namedConts[t.N].under.ext()
	case "ptr":
		return t.E.K == "iface" || t.E.K == "any" || t.E.ext()
	case "slice", "array":
		return t.E.ext()
	case "map":
		return t.Key.ext() || t.E.ext() || !t.Key.keyable()
	}
	return false
}

// keyable: a map key type of the model's universe: a basic kind, a named basic type, an array
// of such, the fixed comparable struct KS (fields of basic kind, no json tags)
func (t *Ty) keyable() bool {
	switch t.K {
	case "base", "named":
		return true
	case "array":
		return t.E.keyable()
	case "struct":
		return t.N == fixedBase+7 || t.N == fixedBase+10
	}
	return false
}

func (v *V) usesExt() bool {
	if v == nil {
		return false
	}
	if v.DT != nil && v.DT.ext() {
		return true
	}
	for _, x := range v.F {
		if x.usesExt() {
			return true
		}
	}
	for _, x := range v.E {
		if x.usesExt() {
			return true
		}
	}
	for _, kv := range v.KV {
		if kv[0].usesExt() || kv[1].usesExt() {
			return true
		}
	}
	return v.P.usesExt() || v.DV.usesExt()
}

// caseUsesExt: some type of the case is outside the model's universe
func caseUsesExt(c *Case) bool {
	for _, d := range c.Structs {
		for _, f := range d.Fields {
			if f.T.ext() {
				return true
			}
		}
	}
	return c.T != nil && (c.T.ext() || c.V.usesExt())
}

func (t *Ty) coq() string {
	switch t.K {
	case "base":
		return "(TBase " + baseCoq[t.B] + ")"
	case "named":
		ni, _ := namedInfoOf(t.N)
		return fmt.Sprintf("(TNamed %d%%N %s)", t.N, baseCoq[ni.base])
	case "struct":
		return fmt.Sprintf("(TStruct %d%%N)", t.N)
	case "ptr":
		return "(TPtr " + t.E.coq() + ")"
	case "slice":
		return "(TSlice " + t.E.coq() + ")"
	case "map":
		return "(TMap " + t.Key.coq() + " " + t.E.coq() + ")"
	case "iface":
		return fmt.Sprintf("(TIface %d%%N)", t.N)
	case "array":
		return fmt.Sprintf("(TArray %d%%nat %s)", t.N, t.E.coq())
	case "ncont":
		return fmt.Sprintf("(TDef %d%%N %s)", t.N, namedConts[t.N].under.coq())
	}
	return "TAny"
}

func (t *Ty) String() string {
	switch t.K {
	case "base":
		return t.B
	case "named":
		return fmt.Sprintf("N%d", t.N)
	case "struct":
		return fmt.Sprintf("S%d", t.N)
	case "ptr":
		return "*" + t.E.String()
	case "slice":
		return "[]" + t.E.String()
	case "map":
		return "map[" + t.Key.String() + "]" + t.E.String()
	case "iface":
		return fmt.Sprintf("E%d", t.N)
	case "array":
		return fmt.Sprintf("[%d]%s", t.N, t.E.String())
	case "ncont":
		return fmt.Sprintf("C%d", t.N)
	case "nptr":
		return fmt.Sprintf("P%d", t.N)
	}
	return "any"
}

// ------------------------------------------------------------------ values

type Lit struct {
	B *bool      `json:"b,omitempty"`
	Z *string    `json:"z,omitempty"` // integer, decimal
	F *string    `json:"f,omitempty"` // IEEE bits of a float32 / float64, decimal
	C *[2]string `json:"c,omitempty"` // complex: bits of the two parts
	S *string    `json:"s,omitempty"` // string bytes, hex
}

type V struct {
	Nil bool    `json:"nil,omitempty"` // nil pointer / slice / map / interface
	L   *Lit    `json:"l,omitempty"`
	P   *V      `json:"p,omitempty"`  // pointee
	F   []*V    `json:"f,omitempty"`  // struct fields, declaration order
	E   []*V    `json:"e,omitempty"`  // slice elements (non-nil slice, may be empty)
	KV  [][2]*V `json:"kv,omitempty"` // map entries (non-nil map, may be empty)
	DT  *Ty     `json:"dt,omitempty"` // interface position: dynamic type and value
	DV  *V      `json:"dv,omitempty"`
}

func (w *world) build(t *Ty, v *V) (rv reflect.Value, err error) {
	rt, err := w.goType(t)
	if err != nil {
		return rv, err
	}
	if v == nil {
		return rv, fmt.Errorf("missing value for %s", t)
	}
	rv = reflect.New(rt).Elem()
	switch t.K {
	case "nptr":
		uv, e := w.build(namedPtrs[t.N].under, v)
		if e != nil {
			return rv, e
		}
		rv.Set(uv.Convert(rt))
	case "ncont":
		uv, e := w.build(namedConts[t.N].under, v)
		if e != nil {
			return rv, e
		}
		rv.Set(uv.Convert(rt))
	case "array":
		if len(v.E) != t.N {
			return rv, fmt.Errorf("array %s needs %d elements", t, t.N)
		}
		for i, x := range v.E {
			ev, e := w.build(t.E, x)
			if e != nil {
				return rv, e
			}
			rv.Index(i).Set(ev)
		}
	case "base", "named":
		if v.L == nil {
			return rv, fmt.Errorf("missing literal for %s", t)
		}
		return rv, setLit(rv, v.L)
	case "struct":
		n := 0
		for i := 0; i < rt.NumField(); i++ {
			if rt.Field(i).PkgPath != "" {
				continue
			}
			if n >= len(v.F) {
				return rv, fmt.Errorf("too few field values for %s", t)
			}
			ft, ok := w.tyOf(rt.Field(i).Type)
			if !ok {
				return rv, fmt.Errorf("field type outside the universe")
			}
			fv, e := w.build(ft, v.F[n])
			if e != nil {
				return rv, e
			}
			rv.Field(i).Set(fv)
			n++
		}
		if n != len(v.F) {
			return rv, fmt.Errorf("too many field values for %s", t)
		}
	case "ptr":
		if v.Nil {
			return rv, nil
		}
		ev, e := w.build(t.E, v.P)
		if e != nil {
			return rv, e
		}
		p := reflect.New(rt.Elem())
		p.Elem().Set(ev)
		rv.Set(p)
	case "slice":
		if v.Nil {
			return rv, nil
		}
		// spare capacity (len < cap), as slices built with append usually have
		s := reflect.MakeSlice(rt, 0, len(v.E)+(len(v.E)*7+3)%4)
		for _, x := range v.E {
			ev, e := w.build(t.E, x)
			if e != nil {
				return rv, e
			}
			s = reflect.Append(s, ev)
		}
		rv.Set(s)
	case "map":
		if v.Nil {
			return rv, nil
		}
		m := reflect.MakeMap(rt)
		for _, kv := range v.KV {
			k, e := w.build(t.Key, kv[0])
			if e != nil {
				return rv, e
			}
			x, e := w.build(t.E, kv[1])
			if e != nil {
				return rv, e
			}
			m.SetMapIndex(k, x)
		}
		rv.Set(m)
	case "iface", "any":
		if v.Nil {
			return rv, nil
		}
		if v.DT == nil || v.DT.K == "iface" || v.DT.K == "any" {
			return rv, fmt.Errorf("interface position needs a concrete dynamic type")
		}
		dv, e := w.build(v.DT, v.DV)
		if e != nil {
			return rv, e
		}
		rv.Set(dv)
	}
	return rv, nil
}

func setLit(rv reflect.Value, l *Lit) error {
	switch rv.Kind() {
	case reflect.Bool:
		if l.B == nil {
			return fmt.Errorf("bool literal expected")
		}
		rv.SetBool(*l.B)
	case reflect.Int, reflect.Int8, reflect.Int16, reflect.Int32, reflect.Int64:
		if l.Z == nil {
			return fmt.Errorf("int literal expected")
		}
		z, err := strconv.ParseInt(*l.Z, 10, 64)
		if err != nil || rv.OverflowInt(z) {
			return fmt.Errorf("int literal %s out of range", *l.Z)
		}
		rv.SetInt(z)
	case reflect.Uint, reflect.Uint8, reflect.Uint16, reflect.Uint32, reflect.Uint64, reflect.Uintptr:
		if l.Z == nil {
			return fmt.Errorf("uint literal expected")
		}
		z, err := strconv.ParseUint(*l.Z, 10, 64)
		if err != nil || rv.OverflowUint(z) {
			return fmt.Errorf("uint literal %s out of range", *l.Z)
		}
		rv.SetUint(z)
	case reflect.Float32, reflect.Float64:
		if l.F == nil {
			return fmt.Errorf("float literal expected")
		}
		f, err := floatOfBits(rv.Kind() == reflect.Float32, *l.F)
		if err != nil {
			return err
		}
		rv.SetFloat(f)
	case reflect.Complex64, reflect.Complex128:
		if l.C == nil {
			return fmt.Errorf("complex literal expected")
		}
		re, err := floatOfBits(rv.Kind() == reflect.Complex64, l.C[0])
		if err != nil {
			return err
		}
		im, err := floatOfBits(rv.Kind() == reflect.Complex64, l.C[1])
		if err != nil {
			return err
		}
		rv.SetComplex(complex(re, im))
	case reflect.String:
		if l.S == nil {
			return fmt.Errorf("string literal expected")
		}
		b, err := hex.DecodeString(*l.S)
		if err != nil {
			return err
		}
		rv.SetString(string(b))
	case reflect.Struct:
		if rv.Type() != timeType || l.S == nil {
			return fmt.Errorf("time literal expected")
		}
		b, err := hex.DecodeString(*l.S)
		if err != nil {
			return err
		}
		tm, err := time.Parse(time.RFC3339Nano, string(b))
		if err != nil {
			return err
		}
		rv.Set(reflect.ValueOf(tm.UTC()))
	default:
		return fmt.Errorf("not a basic kind: %v", rv.Kind())
	}
	return nil
}

func floatOfBits(is32 bool, s string) (float64, error) {
	u, err := strconv.ParseUint(s, 10, 64)
	if err != nil {
		return 0, err
	}
	if is32 {
		if u>>32 != 0 {
			return 0, fmt.Errorf("float32 bits out of range")
		}
		return float64(math.Float32frombits(uint32(u))), nil
	}
	return math.Float64frombits(u), nil
}

func bitsOf(is32 bool, f float64) uint64 {
	if f == 0 {
		return 0 // -0 is printed as +0 on both sides (reflect.DeepEqual identifies them)
	}
	if is32 {
		return uint64(math.Float32bits(float32(f)))
	}
	return math.Float64bits(f)
}

func coqBytes(s string) string {
	ascii := true
	for i := 0; i < len(s); i++ {
		if s[i] < 32 || s[i] > 126 {
			ascii = false
			break
		}
	}
	if ascii {
		return lib.CoqStr(s)
	}
	items := make([]string, len(s))
	for i := 0; i < len(s); i++ {
		items[i] = lib.CoqN(uint64(s[i]))
	}
	return "(sb " + lib.CoqList(items) + ")"
}

// litCoq prints the literal of a value of basic kind and a sort key for map entries
func litCoq(rv reflect.Value) (string, string) {
	switch rv.Kind() {
	case reflect.Bool:
		return "(LBool " + lib.CoqBool(rv.Bool()) + ")", fmt.Sprintf("b%v", rv.Bool())
	case reflect.Int, reflect.Int8, reflect.Int16, reflect.Int32, reflect.Int64:
		return "(LInt " + lib.CoqZ(rv.Int()) + ")", fmt.Sprintf("i%020d", uint64(rv.Int())^(1<<63))
	case reflect.Uint, reflect.Uint8, reflect.Uint16, reflect.Uint32, reflect.Uint64, reflect.Uintptr:
		return fmt.Sprintf("(LInt %d%%Z)", rv.Uint()), fmt.Sprintf("u%020d", rv.Uint())
	case reflect.Float32, reflect.Float64:
		b := bitsOf(rv.Kind() == reflect.Float32, rv.Float())
		return "(LFloat " + lib.CoqN(b) + ")", fmt.Sprintf("f%020d", b)
	case reflect.Complex64, reflect.Complex128:
		c := rv.Complex()
		is32 := rv.Kind() == reflect.Complex64
		re, im := bitsOf(is32, real(c)), bitsOf(is32, imag(c))
		return "(LComplex " + lib.CoqN(re) + " " + lib.CoqN(im) + ")", fmt.Sprintf("c%020d,%020d", re, im)
	case reflect.String:
		return "(LStr " + coqBytes(rv.String()) + ")", "s" + rv.String()
	case reflect.Struct:
		if rv.Type() == timeType {
			s := rv.Interface().(time.Time).Format(time.RFC3339Nano)
			return "(LStr " + coqBytes(s) + ")", "t" + s
		}
	}
	return "", ""
}

// coqVal prints a Go value of the universe as a [val]; ok = false if some type met on
// the way is outside the universe.
func (w *world) coqVal(rv reflect.Value) (string, bool) {
	t, ok := w.tyOf(rv.Type())
	if !ok {
		return fmt.Sprintf("(VBase BString (LStr %s))", lib.CoqStr("<outside the universe: "+rv.Type().String()+">")), false
	}
	switch t.K {
	case "nptr":
		return fmt.Sprintf("(VBase BString (LStr %s))", lib.CoqStr("<outside the universe: "+rv.Type().String()+">")), false
	case "ncont":
		u := namedConts[t.N].under
		ut, _ := w.goType(u)
		s, ok := w.coqVal(rv.Convert(ut))
		return fmt.Sprintf("(VDef %d%%N %s)", t.N, s), ok
	case "array":
		items := make([]string, rv.Len())
		all := true
		for i := range items {
			s, ok := w.coqVal(rv.Index(i))
			all = all && ok
			items[i] = s
		}
		return "(VArray " + t.E.coq() + " " + lib.CoqList(items) + ")", all
	case "base":
		l, _ := litCoq(rv)
		return "(VBase " + baseCoq[t.B] + " " + l + ")", true
	case "named":
		l, _ := litCoq(rv)
		ni, _ := namedInfoOf(t.N)
		return fmt.Sprintf("(VNamed %d%%N %s %s)", t.N, baseCoq[ni.base], l), true
	case "struct":
		var items []string
		all := true
		for i := 0; i < rv.NumField(); i++ {
			f := rv.Type().Field(i)
			if f.PkgPath != "" {
				continue
			}
			s, ok := w.coqVal(rv.Field(i))
			all = all && ok
			items = append(items, lib.CoqPair(lib.CoqStr(f.Name), s))
		}
		return fmt.Sprintf("(VStruct %d%%N %s)", t.N, lib.CoqList(items)), all
	case "ptr":
		if rv.IsNil() {
			return "(VNilPtr " + t.E.coq() + ")", true
		}
		s, ok := w.coqVal(rv.Elem())
		return "(VPtr " + s + ")", ok
	case "slice":
		if rv.IsNil() {
			return "(VSlice " + t.E.coq() + " None)", true
		}
		items := make([]string, rv.Len())
		all := true
		for i := range items {
			s, ok := w.coqVal(rv.Index(i))
			all = all && ok
			items[i] = s
		}
		return "(VSlice " + t.E.coq() + " (Some " + lib.CoqList(items) + "))", all
	case "map":
		if rv.IsNil() {
			return "(VMap " + t.Key.coq() + " " + t.E.coq() + " None)", true
		}
		type ent struct{ sk, s string }
		var ents []ent
		all := true
		it := rv.MapRange()
		for it.Next() {
			ks, ok1 := w.coqVal(it.Key())
			vs, ok2 := w.coqVal(it.Value())
			all = all && ok1 && ok2
			_, sk := litCoq(it.Key())
			if sk == "" {
				sk = ks
			}
			ents = append(ents, ent{sk, lib.CoqPair(ks, vs)})
		}
		sort.Slice(ents, func(i, j int) bool { return ents[i].sk < ents[j].sk })
		items := make([]string, len(ents))
		for i, e := range ents {
			items[i] = e.s
		}
		return "(VMap " + t.Key.coq() + " " + t.E.coq() + " (Some " + lib.CoqList(items) + "))", all
	default: // iface, any
		if rv.IsNil() {
			return "(VIface " + t.coq() + " None)", true
		}
		s, ok := w.coqVal(rv.Elem())
		return "(VIface " + t.coq() + " (Some " + s + "))", ok
	}
}

// ------------------------------------------------------------------ direct oracle

// jsonCoerce is what encoding/json does to a string: every byte that does not start a
// valid UTF-8 sequence becomes U+FFFD.
func jsonCoerce(s string) string {
	if utf8.ValidString(s) {
		return s
	}
	var b strings.Builder
	for i := 0; i < len(s); {
		r, n := utf8.DecodeRuneInString(s[i:])
		if r == utf8.RuneError && n == 1 {
			b.WriteString("�")
		} else {
			b.WriteString(s[i : i+n])
		}
		i += n
	}
	return b.String()
}

// relaxations of equiv, each used only to recognise one known finding
type eqMode int

const (
	eqExact     eqMode = iota
	eqCoerce           // F-C12c: string values modulo jsonCoerce
	eqRetype           // F-C12g: an unregistered defined container type may come back as its unnamed type
	eqPtrIface         // F-C12h: what a pointer to an interface points to is not compared
	eqMapKey           // F-C12j: maps whose key type is not of basic kind are not compared
	eqRetypePtr        // F-C12m: a defined pointer type may come back as its unnamed pointer type
)

func unregisteredDefinedContainer(t reflect.Type) bool {
	for _, nc := range namedConts {
		if nc.rt == t {
			return !nc.reg
		}
	}
	return false
}

// keyUntyped: a map key type with an interface or pointer type in it, or a struct with a field
// that its JSON leaves out (F-C12j): the plain JSON of such a key does not carry the dynamic
// type / the identity of the pointer / the whole key
func keyUntyped(t reflect.Type) bool {
	switch t.Kind() {
	case reflect.Interface, reflect.Ptr:
		return true
	case reflect.Array:
		return keyUntyped(t.Elem())
	case reflect.Struct:
		for i := 0; i < t.NumField(); i++ {
			f := t.Field(i)
			if keyUntyped(f.Type) || f.PkgPath != "" || strings.HasPrefix(f.Tag.Get("json"), "-") {
				return true // a field the plain JSON of the key leaves out
			}
		}
	}
	return false
}

// equiv: deeply equal, identical types, nil and empty containers identified.
func equiv(a, b reflect.Value, mode eqMode) bool {
	if a.Type() != b.Type() {
		if mode == eqRetype && unregisteredDefinedContainer(a.Type()) && a.Type().ConvertibleTo(b.Type()) &&
			b.Type().Name() == "" && a.Kind() == b.Kind() {
			return equiv(a.Convert(b.Type()), b, mode)
		}
		if mode == eqRetypePtr && a.Kind() == reflect.Ptr && a.Type().Name() != "" && b.Type() == reflect.PointerTo(a.Type().Elem()) {
			return equiv(a.Convert(b.Type()), b, mode)
		}
		if mode == eqRetype && a.Kind() == reflect.Ptr && b.Kind() == reflect.Ptr && a.Type().Name() == "" {
			if a.IsNil() || b.IsNil() {
				return false // a nil pointer keeps its full type or fails
			}
			return equiv(a.Elem(), b.Elem(), mode)
		}
		return false
	}
	coerce := mode
	switch a.Kind() {
	case reflect.Ptr:
		if mode == eqPtrIface && !a.IsNil() {
			// a pointer chain ending in an interface type: b holds the generic JSON value, or
			// is nil (at whatever depth) if the JSON of what the interface held was null
			base := a.Type()
			for base.Kind() == reflect.Ptr {
				base = base.Elem()
			}
			if base.Kind() == reflect.Interface && (b.IsNil() || a.Type().Elem().Kind() == reflect.Interface) {
				return true
			}
		}
		if a.IsNil() || b.IsNil() {
			return a.IsNil() == b.IsNil()
		}
		return equiv(a.Elem(), b.Elem(), coerce)
	case reflect.Interface:
		if a.IsNil() || b.IsNil() {
			return a.IsNil() == b.IsNil()
		}
		return equiv(a.Elem(), b.Elem(), coerce)
	case reflect.Struct:
		if a.Type() == timeType {
			// the same instant in the same zone, and interchangeable as map keys / under ==
			// (the harness only builds UTC times without a monotonic reading)
			ta, tb := a.Interface().(time.Time), b.Interface().(time.Time)
			return ta.Equal(tb) && ta == tb
		}
		for i := 0; i < a.NumField(); i++ {
			if a.Type().Field(i).PkgPath != "" {
				continue
			}
			if !equiv(a.Field(i), b.Field(i), coerce) {
				return false
			}
		}
		return true
	case reflect.Slice, reflect.Array:
		if a.Len() != b.Len() {
			return false
		}
		for i := 0; i < a.Len(); i++ {
			if !equiv(a.Index(i), b.Index(i), coerce) {
				return false
			}
		}
		return true
	case reflect.Map:
		if mode == eqMapKey && keyUntyped(a.Type().Key()) {
			return a.IsNil() == b.IsNil() || a.Len() == 0
		}
		if a.Len() != b.Len() {
			return false
		}
		it := a.MapRange()
		for it.Next() {
			bv := b.MapIndex(it.Key())
			if !bv.IsValid() || !equiv(it.Value(), bv, coerce) {
				return false
			}
		}
		return true
	case reflect.Bool:
		return a.Bool() == b.Bool()
	case reflect.Int, reflect.Int8, reflect.Int16, reflect.Int32, reflect.Int64:
		return a.Int() == b.Int()
	case reflect.Uint, reflect.Uint8, reflect.Uint16, reflect.Uint32, reflect.Uint64, reflect.Uintptr:
		return a.Uint() == b.Uint()
	case reflect.Float32, reflect.Float64:
		return a.Float() == b.Float()
	case reflect.Complex64, reflect.Complex128:
		return a.Complex() == b.Complex()
	case reflect.String:
		if mode == eqCoerce {
			return jsonCoerce(a.String()) == b.String()
		}
		return a.String() == b.String()
	}
	return false
}

// ------------------------------------------------------------------ case, run

type Case struct {
	Structs   []SDecl  `json:"structs,omitempty"`
	TopNil    bool     `json:"topnil,omitempty"` // Marshal(nil)
	Probe     string   `json:"probe,omitempty"`  // registry probe: "dup-key" | "dup-type" (GenericRegister must refuse)
	BB        int      `json:"bb,omitempty"`     // black-box companion: 1 = Pregel graph, 2 = DAG graph, 3 = DAG fan-in, 4..6 = the same through Stream, 7..10 = the value itself as pending input of type any, 11..14 = a nil pending input, 15..16 = an empty stream as pending input, 17..20 = the interrupt inside a nested graph with its own state, 21..24 = two successive interrupts of one run (the second checkpoint is written by a resumed run), twice on one compiled graph under two checkpoint ids, 25..32 = the value (25..28) or a nil answer (29..32) is held in a CHANNEL at the interrupt because a sibling node asked for InterruptAndRerun in the same step (see runBB, runBBNested, runBBTwice, runBBRerun)
	Conv      int      `json:"conv,omitempty"`   // stream conversion of a pending input around an interrupt: the stream has no chunk (1, 4), the one chunk nil (2, 5), the one chunk that is the value (3, 6); resumed through Stream (1..3) or Invoke (4..6); 7..10: written by a run without streams, the pending input is nil (7, 9) or the value (8, 10), resumed through Stream (7, 8) or Invoke (9, 10) (see runConv)
	Par       int      `json:"par,omitempty"`    // after the sequential round trip: this many goroutines marshal and unmarshal the same value at the same time, parRounds times each; every one of them must restore the value (runs of one process write their checkpoints concurrently)
	T         *Ty      `json:"t,omitempty"`
	V         *V       `json:"v,omitempty"`
	Malformed []string `json:"malformed,omitempty"` // why the value is not in the supported universe
}

type Obs struct {
	Class string `json:"class"` // ok-equal | ok-different | enc-error | dec-error | panic | lost | skipped | bad-case
	Type  string `json:"type,omitempty"`
	Val   string `json:"val,omitempty"`
	Msg   string `json:"msg,omitempty"`
	Bytes int    `json:"bytes,omitempty"`
}

type stats struct {
	ptrDepth, maxNest, nodes     int
	nilPtr, innerNil, iface      bool
	containers, structs, nilCont bool
	arrays, defConts, defPtrs    bool
	keyKinds                     map[string]bool
}

func (w *world) stat(t *Ty, v *V, depth int, st *stats) {
	st.nodes++
	if depth > st.maxNest {
		st.maxNest = depth
	}
	switch t.K {
	case "nptr":
		st.nodes--
		st.defPtrs = true
		w.stat(namedPtrs[t.N].under, v, depth, st)
	case "ncont":
		st.nodes--
		st.defConts = true
		w.stat(namedConts[t.N].under, v, depth, st)
	case "array":
		st.containers = true
		st.arrays = true
		for _, x := range v.E {
			w.stat(t.E, x, depth+1, st)
		}
	case "ptr":
		d := 0
		tt, vv := t, v
		for tt.K == "ptr" {
			d++
			if vv.Nil {
				st.nilPtr = true
				if d > 1 {
					st.innerNil = true
				}
				break
			}
			tt, vv = tt.E, vv.P
		}
		if d > st.ptrDepth {
			st.ptrDepth = d
		}
		if !v.Nil {
			w.stat(t.E, v.P, depth, st)
		}
	case "struct":
		st.structs = true
		rt := w.byID[t.N]
		n := 0
		for i := 0; i < rt.NumField() && n < len(v.F); i++ {
			if rt.Field(i).PkgPath != "" {
				continue
			}
			ft, _ := w.tyOf(rt.Field(i).Type)
			w.stat(ft, v.F[n], depth+1, st)
			n++
		}
	case "slice":
		st.containers = true
		st.nilCont = st.nilCont || v.Nil
		for _, x := range v.E {
			w.stat(t.E, x, depth+1, st)
		}
	case "map":
		st.containers = true
		st.nilCont = st.nilCont || v.Nil
		if len(v.KV) > 0 {
			if st.keyKinds == nil {
				st.keyKinds = map[string]bool{}
			}
			kk := t.Key.K
			switch {
			case kk == "base":
				kk = t.Key.B
			case kk == "named":
				kk = fmt.Sprintf("named-%s-%d", baseOfTy(t.Key), t.Key.N)
			}
			st.keyKinds[kk] = true
		}
		for _, kv := range v.KV {
			w.stat(t.E, kv[1], depth+1, st)
		}
	case "iface", "any":
		st.iface = true
		if !v.Nil {
			w.stat(v.DT, v.DV, depth+1, st)
		}
	}
}

func hasInvalidUTF8Value(rv reflect.Value) bool {
	switch rv.Kind() {
	case reflect.Ptr, reflect.Interface:
		return !rv.IsNil() && hasInvalidUTF8Value(rv.Elem())
	case reflect.Struct:
		for i := 0; i < rv.NumField(); i++ {
			if rv.Type().Field(i).PkgPath == "" && hasInvalidUTF8Value(rv.Field(i)) {
				return true
			}
		}
	case reflect.Slice, reflect.Array:
		for i := 0; i < rv.Len(); i++ {
			if hasInvalidUTF8Value(rv.Index(i)) {
				return true
			}
		}
	case reflect.Map:
		it := rv.MapRange()
		for it.Next() {
			if hasInvalidUTF8Value(it.Value()) {
				return true
			}
		}
	case reflect.String:
		return !utf8.ValidString(rv.String())
	}
	return false
}

func declCoq(d SDecl) (reg string, env string) {
	if d.Reg {
		reg = lib.CoqPair(lib.CoqStr(fmt.Sprintf("s%d", d.ID)), fmt.Sprintf("(TStruct %d%%N)", d.ID))
	}
	fs := make([]string, len(d.Fields))
	for j, f := range d.Fields {
		fs[j] = lib.CoqPair(lib.CoqStr(f.Name), f.T.coq())
	}
	return reg, lib.CoqPair(lib.CoqN(uint64(d.ID)), lib.CoqList(fs))
}

// coqEnv: registry entries and struct declarations of the case-local (StructOf) types
func (w *world) coqEnv() (string, string) {
	var regx, env []string
	for _, d := range w.decls {
		if d.ID >= fixedBase {
			continue
		}
		r, e := declCoq(d)
		if r != "" {
			regx = append(regx, r)
		}
		env = append(env, e)
	}
	return lib.CoqList(regx), lib.CoqList(env)
}

// coqFixed: the fixed family (named basics, E0, registered containers, fixed structs),
// emitted once in the header of every cases file
func coqFixed() string {
	w, err := newWorld(nil)
	must(err)
	var regx, env []string
	for i, n := range named {
		if n.reg {
			t := &Ty{K: "named", N: i}
			regx = append(regx, lib.CoqPair(lib.CoqStr(fmt.Sprintf("c12_n%d", i)), t.coq()))
		}
	}
	regx = append(regx, lib.CoqPair(lib.CoqStr("c12_e0"), "(TIface 0%N)"))
	for _, c := range regContainers {
		regx = append(regx, lib.CoqPair(lib.CoqStr(c.name), c.t.coq()))
	}
	regx = append(regx, lib.CoqPair(lib.CoqStr("c12_arr2"), extElems[0].coq()))
	for i, nc := range namedConts {
		if nc.reg {
			regx = append(regx, lib.CoqPair(lib.CoqStr(fmt.Sprintf("c12_nc%d", i)), (&Ty{K: "ncont", N: i}).coq()))
		}
	}
	for _, d := range w.decls {
		r, e := declCoq(d)
		if r != "" {
			regx = append(regx, r)
		}
		env = append(env, e)
	}
	return "Definition regx0 : registry := " + lib.CoqList(regx) + ".\n" +
		"Definition env0 : senv := " + lib.CoqList(env) + ".\n" +
		"Definition mk (rx : registry) (ex : senv) (w : bool) (v : val) (o : obs) : ccase :=\n" +
		"  Case (ckpt_registry ++ regx0 ++ rx)%list (ckpt_env ++ ex ++ env0)%list w v o.\n"
}

const decodeRepeats = 4

// parRounds: round trips per goroutine of a concurrent case (Case.Par)
const parRounds = 6

type memStore struct{ m map[string][]byte }

func (s *memStore) Get(_ context.Context, id string) ([]byte, bool, error) {
	b, ok := s.m[id]
	return b, ok, nil
}
func (s *memStore) Set(_ context.Context, id string, b []byte) error {
	s.m[id] = b
	return nil
}

// runBB: the black-box companion.  The value becomes part of the state of a real graph
// (START -> a -> b -> END, state *Holder) and of the input pending for node b; the run is
// interrupted before b (checkpoint written to a store), resumed from the store, and the
// state handed to the StateModifier, the input node b receives and the final output are
// compared with what was there before the interrupt.
// Returns the restored state (what the model is compared with) and the other restored copies.
func runBB(mode int, val any) (state any, copies []any, bytes int, phase string, err error) {
	if mode > 24 {
		return runBBRerun(mode-25, val)
	}
	if mode > 20 {
		return runBBTwice(mode-21, val)
	}
	if mode > 16 {
		return runBBNested(mode-17, val)
	}
	ctx := context.Background()
	// modes 7..14: the value itself (not a map holding it) is node a's output and node b's pending
	// input, both of type any (7..10), and the same with node a returning nil, so that the pending
	// input is a nil interface (11..14); each for Pregel / DAG through Invoke, then through Stream
	// modes 15, 16: node a is a streaming node that emits no chunk at all, node b a streaming consumer:
	// the pending input is an empty stream (Pregel / DAG, through Stream only: a stream without chunks
	// cannot be made into a value for Invoke)
	plumb := 0
	switch {
	case mode > 14:
		plumb, mode = 3, 4+(mode-15)%2
	case mode > 6:
		k := mode - 7
		plumb = 1 + k/4
		k %= 4
		mode = 1 + k%2
		if k >= 2 {
			mode += 3
		}
	}
	stream := mode > 3 // modes 4..6: the same graphs run through Stream (the checkpoint is
	// converted from / restored to streams: convertCheckPoint / restoreCheckPoint)
	if stream {
		mode -= 3
	}
	// (node b's output type differs from its input type, so that the input and output stream
	// converters of a node are not interchangeable)
	g := compose.NewGraph[map[string]any, *Holder](compose.WithGenLocalState(func(ctx context.Context) *Holder {
		return &Holder{}
	}))
	var bInput map[string]any
	var bDirect any
	bCalled := false
	bChunks := 0
	setState := func(ctx context.Context) error {
		return compose.ProcessState[*Holder](ctx, func(_ context.Context, h *Holder) error {
			h.V = val
			h.M = map[string]any{"v": val}
			return nil
		})
	}
	if plumb == 0 {
		if err = g.AddLambdaNode("a", compose.InvokableLambda(func(ctx context.Context, in map[string]any) (map[string]any, error) {
			e := setState(ctx)
			return map[string]any{"v": val, "x": in["x"]}, e
		})); err != nil {
			return nil, nil, 0, "build", err
		}
		if err = g.AddLambdaNode("b", compose.InvokableLambda(func(ctx context.Context, in map[string]any) (*Holder, error) {
			bInput, bCalled = in, true
			return &Holder{V: in["v"], M: in}, nil
		})); err != nil {
			return nil, nil, 0, "build", err
		}
	} else if plumb == 3 {
		if err = g.AddLambdaNode("a", compose.StreamableLambda(func(ctx context.Context, in map[string]any) (*schema.StreamReader[any], error) {
			e := setState(ctx)
			return schema.StreamReaderFromArray([]any{}), e
		})); err != nil {
			return nil, nil, 0, "build", err
		}
		if err = g.AddLambdaNode("b", compose.TransformableLambda(func(ctx context.Context, in *schema.StreamReader[any]) (*schema.StreamReader[*Holder], error) {
			bCalled = true
			defer in.Close()
			for {
				_, e := in.Recv()
				if e == io.EOF {
					break
				}
				if e != nil {
					return nil, e
				}
				bChunks++
			}
			return schema.StreamReaderFromArray([]*Holder{{M: map[string]any{"x": "in"}}}), nil
		})); err != nil {
			return nil, nil, 0, "build", err
		}
	} else {
		if err = g.AddLambdaNode("a", compose.InvokableLambda(func(ctx context.Context, in map[string]any) (any, error) {
			e := setState(ctx)
			if plumb == 2 {
				return nil, e
			}
			return val, e
		})); err != nil {
			return nil, nil, 0, "build", err
		}
		if err = g.AddLambdaNode("b", compose.InvokableLambda(func(ctx context.Context, in any) (*Holder, error) {
			bDirect, bCalled = in, true
			return &Holder{V: in, M: map[string]any{"x": "in"}}, nil
		})); err != nil {
			return nil, nil, 0, "build", err
		}
	}
	edges := [][2]string{{compose.START, "a"}, {"a", "b"}, {"b", compose.END}}
	st := &memStore{m: map[string][]byte{}}
	opts := []compose.GraphCompileOption{compose.WithCheckPointStore(st)}
	switch mode {
	case 1:
		opts = append(opts, compose.WithInterruptBeforeNodes([]string{"b"}))
	case 2:
		opts = append(opts, compose.WithInterruptBeforeNodes([]string{"b"}), compose.WithNodeTriggerMode(compose.AllPredecessor))
	default:
		// mode 3: fan-in in a DAG.  START -> a -> b, START -> p -> q -> b; the run is interrupted
		// after p: the channel of b then holds a's output (waiting for q) - the value is restored
		// as a channel value, not as a pending input
		for _, k := range []string{"p", "q"} {
			k := k
			if err = g.AddLambdaNode(k, compose.InvokableLambda(func(ctx context.Context, in map[string]any) (map[string]any, error) {
				return map[string]any{k: "done"}, nil
			})); err != nil {
				return nil, nil, 0, "build", err
			}
		}
		edges = append(edges, [2]string{compose.START, "p"}, [2]string{"p", "q"}, [2]string{"q", "b"})
		opts = append(opts, compose.WithInterruptAfterNodes([]string{"p"}), compose.WithNodeTriggerMode(compose.AllPredecessor))
	}
	for _, e := range edges {
		if err = g.AddEdge(e[0], e[1]); err != nil {
			return nil, nil, 0, "build", err
		}
	}
	r, err := g.Compile(ctx, opts...)
	if err != nil {
		return nil, nil, 0, "build", err
	}
	call := func(in map[string]any, opts ...compose.Option) (*Holder, error) {
		if !stream {
			return r.Invoke(ctx, in, opts...)
		}
		sr, err := r.Stream(ctx, in, opts...)
		if err != nil {
			return nil, err
		}
		defer sr.Close()
		var out *Holder
		for {
			chunk, err := sr.Recv()
			if err == io.EOF {
				return out, nil
			}
			if err != nil {
				return nil, err
			}
			if out != nil {
				return nil, fmt.Errorf("more than one chunk")
			}
			out = chunk
		}
	}
	_, err = call(map[string]any{"x": "in"}, compose.WithCheckPointID("cp"))
	if err == nil {
		return nil, nil, 0, "build", fmt.Errorf("the run was not interrupted")
	}
	if _, ok := compose.ExtractInterruptInfo(err); !ok {
		return nil, nil, 0, "interrupt", err // the checkpoint could not be written
	}
	if _, ok := st.m["cp"]; !ok {
		return nil, nil, 0, "lost", errCheckpointLost
	}
	bytes = len(st.m["cp"])
	out, err := call(map[string]any{"x": "ignored"}, compose.WithCheckPointID("cp"),
		compose.WithStateModifier(func(_ context.Context, _ compose.NodePath, s any) error {
			state = s
			return nil
		}))
	if err != nil {
		return nil, nil, bytes, "resume", err
	}
	switch plumb {
	case 0:
		if bInput == nil || out == nil || bInput["x"] != "in" || out.M["x"] != "in" {
			return state, nil, bytes, "resume", fmt.Errorf("node b did not receive the pending input: %v / %v", bInput, out)
		}
		return state, []any{bInput["v"], out.V}, bytes, "", nil
	case 1:
		if !bCalled || out == nil {
			return state, nil, bytes, "resume", fmt.Errorf("node b did not run on the pending input: %v", out)
		}
		return state, []any{bDirect, out.V}, bytes, "", nil
	case 2:
		if !bCalled || out == nil || bDirect != nil || out.V != nil {
			return state, nil, bytes, "resume", fmt.Errorf("node b did not receive the nil pending input: called=%v input=%v out=%v", bCalled, bDirect, out)
		}
		return state, nil, bytes, "", nil
	default:
		if !bCalled || out == nil || bChunks != 0 {
			return state, nil, bytes, "resume", fmt.Errorf("node b did not receive the empty pending stream: called=%v chunks=%d out=%v", bCalled, bChunks, out)
		}
		return state, nil, bytes, "", nil
	}
}

// runBBNested: modes 17..20.  The interrupt happens inside a nested graph that has a state of its own:
// outer graph START -> pre -> sub -> END (state *Holder), sub = inner graph START -> a -> b -> END (its own
// state *Holder), interrupted before b.  The checkpoint of the inner graph travels inside the outer
// one (checkpoint.SubGraphs), is written to the store with it and handed back to the inner graph at the
// resume (forwardCheckPoint, the inner restoreCheckPoint).  Compared: the outer state (returned as state,
// the record the model is asked about), and as copies the inner state's two members, the pending input
// of b and the output.  k: 0 Pregel / Invoke, 1 DAG / Invoke, 2 Pregel / Stream, 3 DAG / Stream.
func runBBNested(k int, val any) (state any, copies []any, bytes int, phase string, err error) {
	ctx := context.Background()
	stream, dag := k >= 2, k%2 == 1
	inner := compose.NewGraph[map[string]any, *Holder](compose.WithGenLocalState(func(ctx context.Context) *Holder {
		return &Holder{}
	}))
	outer := compose.NewGraph[map[string]any, *Holder](compose.WithGenLocalState(func(ctx context.Context) *Holder {
		return &Holder{}
	}))
	var bInput map[string]any
	if err = inner.AddLambdaNode("a", compose.InvokableLambda(func(ctx context.Context, in map[string]any) (map[string]any, error) {
		e := compose.ProcessState[*Holder](ctx, func(_ context.Context, h *Holder) error {
			h.V = val
			h.M = map[string]any{"w": val}
			return nil
		})
		return map[string]any{"v": val, "x": in["x"]}, e
	})); err != nil {
		return nil, nil, 0, "build", err
	}
	if err = inner.AddLambdaNode("b", compose.InvokableLambda(func(ctx context.Context, in map[string]any) (*Holder, error) {
		bInput = in
		return &Holder{V: in["v"], M: in}, nil
	})); err != nil {
		return nil, nil, 0, "build", err
	}
	if err = outer.AddLambdaNode("pre", compose.InvokableLambda(func(ctx context.Context, in map[string]any) (map[string]any, error) {
		e := compose.ProcessState[*Holder](ctx, func(_ context.Context, h *Holder) error {
			h.V = val
			h.M = map[string]any{"v": val}
			return nil
		})
		return in, e
	})); err != nil {
		return nil, nil, 0, "build", err
	}
	innerOpts := []compose.GraphCompileOption{compose.WithInterruptBeforeNodes([]string{"b"})}
	st := &memStore{m: map[string][]byte{}}
	outerOpts := []compose.GraphCompileOption{compose.WithCheckPointStore(st)}
	if dag {
		innerOpts = append(innerOpts, compose.WithNodeTriggerMode(compose.AllPredecessor))
		outerOpts = append(outerOpts, compose.WithNodeTriggerMode(compose.AllPredecessor))
	}
	for _, e := range [][2]string{{compose.START, "a"}, {"a", "b"}, {"b", compose.END}} {
		if err = inner.AddEdge(e[0], e[1]); err != nil {
			return nil, nil, 0, "build", err
		}
	}
	if err = outer.AddGraphNode("sub", inner, compose.WithGraphCompileOptions(innerOpts...)); err != nil {
		return nil, nil, 0, "build", err
	}
	for _, e := range [][2]string{{compose.START, "pre"}, {"pre", "sub"}, {"sub", compose.END}} {
		if err = outer.AddEdge(e[0], e[1]); err != nil {
			return nil, nil, 0, "build", err
		}
	}
	r, err := outer.Compile(ctx, outerOpts...)
	if err != nil {
		return nil, nil, 0, "build", err
	}
	call := func(in map[string]any, opts ...compose.Option) (*Holder, error) {
		if !stream {
			return r.Invoke(ctx, in, opts...)
		}
		sr, err := r.Stream(ctx, in, opts...)
		if err != nil {
			return nil, err
		}
		defer sr.Close()
		var out *Holder
		for {
			chunk, err := sr.Recv()
			if err == io.EOF {
				return out, nil
			}
			if err != nil {
				return nil, err
			}
			if out != nil {
				return nil, fmt.Errorf("more than one chunk")
			}
			out = chunk
		}
	}
	_, err = call(map[string]any{"x": "in"}, compose.WithCheckPointID("cp"))
	if err == nil {
		return nil, nil, 0, "build", fmt.Errorf("the run was not interrupted")
	}
	if _, ok := compose.ExtractInterruptInfo(err); !ok {
		return nil, nil, 0, "interrupt", err // the checkpoint could not be written
	}
	if _, ok := st.m["cp"]; !ok {
		return nil, nil, 0, "lost", errCheckpointLost
	}
	bytes = len(st.m["cp"])
	var innerState any
	innerSeen := 0
	out, err := call(map[string]any{"x": "ignored"}, compose.WithCheckPointID("cp"),
		compose.WithStateModifier(func(_ context.Context, path compose.NodePath, s any) error {
			if len(path.GetPath()) == 0 {
				state = s
			} else {
				innerState = s
				innerSeen++
			}
			return nil
		}))
	if err != nil {
		return nil, nil, bytes, "resume", err
	}
	ih, ok := innerState.(*Holder)
	if !ok || ih == nil || innerSeen != 1 {
		return state, nil, bytes, "resume", fmt.Errorf("the state of the nested graph was not restored: %T, modifier called %d times for it", innerState, innerSeen)
	}
	if bInput == nil || out == nil || bInput["x"] != "in" || out.M["x"] != "in" {
		return state, nil, bytes, "resume", fmt.Errorf("node b of the nested graph did not receive the pending input: %v / %v", bInput, out)
	}
	if len(ih.M) != 1 {
		return state, nil, bytes, "resume", fmt.Errorf("the state of the nested graph came back with %d members in M", len(ih.M))
	}
	return state, []any{ih.V, ih.M["w"], bInput["v"], out.V}, bytes, "", nil
}

// errCheckpointLost: a run reported an interrupt (not an error) although nothing was written to the store
var errCheckpointLost = fmt.Errorf("the run reported an interrupt, not an error, but the store holds no checkpoint under the id")

// bbModes: the number of modes of the black-box companion (runBB)
const bbModes = 32

// runBBTwice: modes 21..24.  One run is interrupted twice, and the compiled graph is used for two runs.
// START -> a -> b -> c -> END with state *Holder, interrupts before b and before c.  Node a puts the
// value into the state and into its output; the run stops before b (first checkpoint: written by a
// fresh run), is resumed, b hands the value on, the run stops before c (second checkpoint: written by
// a RESUMED run, i.e. from a state and channels that were themselves restored, under the same id,
// over the first one), is resumed again and ends.  Then the same compiled graph does all of it again
// under a second checkpoint id, the first one still in the store.  Compared: the state at the first
// resume (returned as state, the record the model is asked about), and as copies the state's two
// members at every later resume, the pending inputs b and c receive and the outputs - of both runs;
// the last resume of each run is done twice (the checkpoint stays in the store: a retry).
// k: 0 Pregel / Invoke, 1 DAG / Invoke, 2 Pregel / Stream, 3 DAG / Stream.
func runBBTwice(k int, val any) (state any, copies []any, bytes int, phase string, err error) {
	ctx := context.Background()
	stream, dag := k >= 2, k%2 == 1
	g := compose.NewGraph[map[string]any, *Holder](compose.WithGenLocalState(func(ctx context.Context) *Holder {
		return &Holder{}
	}))
	var bInput, cInput map[string]any
	bCalls, cCalls := 0, 0
	if err = g.AddLambdaNode("a", compose.InvokableLambda(func(ctx context.Context, in map[string]any) (map[string]any, error) {
		e := compose.ProcessState[*Holder](ctx, func(_ context.Context, h *Holder) error {
			h.V = val
			h.M = map[string]any{"v": val}
			return nil
		})
		return map[string]any{"v": val, "x": in["x"]}, e
	})); err != nil {
		return nil, nil, 0, "build", err
	}
	if err = g.AddLambdaNode("b", compose.InvokableLambda(func(ctx context.Context, in map[string]any) (map[string]any, error) {
		bInput = in
		bCalls++
		return map[string]any{"v": in["v"], "x": in["x"], "b": "done"}, nil
	})); err != nil {
		return nil, nil, 0, "build", err
	}
	if err = g.AddLambdaNode("c", compose.InvokableLambda(func(ctx context.Context, in map[string]any) (*Holder, error) {
		cInput = in
		cCalls++
		return &Holder{V: in["v"], M: in}, nil
	})); err != nil {
		return nil, nil, 0, "build", err
	}
	for _, e := range [][2]string{{compose.START, "a"}, {"a", "b"}, {"b", "c"}, {"c", compose.END}} {
		if err = g.AddEdge(e[0], e[1]); err != nil {
			return nil, nil, 0, "build", err
		}
	}
	st := &memStore{m: map[string][]byte{}}
	opts := []compose.GraphCompileOption{compose.WithCheckPointStore(st), compose.WithInterruptBeforeNodes([]string{"b", "c"})}
	if dag {
		opts = append(opts, compose.WithNodeTriggerMode(compose.AllPredecessor))
	}
	r, err := g.Compile(ctx, opts...)
	if err != nil {
		return nil, nil, 0, "build", err
	}
	call := func(in map[string]any, opts ...compose.Option) (*Holder, error) {
		if !stream {
			return r.Invoke(ctx, in, opts...)
		}
		sr, err := r.Stream(ctx, in, opts...)
		if err != nil {
			return nil, err
		}
		defer sr.Close()
		var out *Holder
		for {
			chunk, err := sr.Recv()
			if err == io.EOF {
				return out, nil
			}
			if err != nil {
				return nil, err
			}
			if out != nil {
				return nil, fmt.Errorf("more than one chunk")
			}
			out = chunk
		}
	}
	for pass, id := range []string{"cp", "cp-second-run"} {
		bInput, cInput = nil, nil
		bCalls, cCalls = 0, 0
		x := fmt.Sprintf("in%d", pass)
		_, err = call(map[string]any{"x": x}, compose.WithCheckPointID(id))
		if err == nil {
			return nil, nil, 0, "build", fmt.Errorf("the run was not interrupted")
		}
		if _, ok := compose.ExtractInterruptInfo(err); !ok {
			return nil, nil, 0, "interrupt", err // the checkpoint could not be written
		}
		if _, ok := st.m[id]; !ok {
			return nil, nil, 0, "lost", errCheckpointLost
		}
		if pass == 0 {
			bytes = len(st.m[id])
		}
		var seen []any
		modifier := compose.WithStateModifier(func(_ context.Context, _ compose.NodePath, s any) error {
			seen = append(seen, s)
			return nil
		})
		// first resume: b runs on its pending input, the run stops again before c
		_, err = call(map[string]any{"x": "ignored"}, compose.WithCheckPointID(id), modifier)
		if err == nil {
			return state, nil, bytes, "resume", fmt.Errorf("the resumed run was not interrupted before c")
		}
		if _, ok := compose.ExtractInterruptInfo(err); !ok {
			return state, nil, bytes, "resume", err
		}
		if len(seen) != 1 || bInput == nil || bInput["x"] != x || cInput != nil {
			return state, nil, bytes, "resume", fmt.Errorf("first resume of run %d: state modifier called %d times, b received %v, c received %v", pass, len(seen), bInput, cInput)
		}
		// second resume: from the checkpoint the resumed run wrote
		out, err := call(map[string]any{"x": "ignored"}, compose.WithCheckPointID(id), modifier)
		if err != nil {
			return state, nil, bytes, "resume", err
		}
		if len(seen) != 2 || cInput == nil || out == nil || cInput["x"] != x || cInput["b"] != "done" || out.M["x"] != x || bCalls != 1 || cCalls != 1 {
			return state, nil, bytes, "resume", fmt.Errorf("second resume of run %d: state modifier called %d times, c received %v, output %v, b ran %d times, c %d times", pass, len(seen), cInput, out, bCalls, cCalls)
		}
		// the checkpoint stays in the store: resuming from it once more (a retry) must restore the same
		// state and pending input again - reading a checkpoint does not use it up or change it
		cInput = nil
		out2, err := call(map[string]any{"x": "ignored"}, compose.WithCheckPointID(id), modifier)
		if err != nil {
			return state, nil, bytes, "resume", fmt.Errorf("resuming a second time from the same stored checkpoint: %w", err)
		}
		if len(seen) != 3 || cInput == nil || out2 == nil || cInput["x"] != x || cInput["b"] != "done" || out2.M["x"] != x || bCalls != 1 || cCalls != 2 {
			return state, nil, bytes, "resume", fmt.Errorf("second resume of run %d repeated: state modifier called %d times, c received %v, output %v, b ran %d times, c %d times", pass, len(seen), cInput, out2, bCalls, cCalls)
		}
		copies = append(copies, cInput["v"], out2.V)
		for i, s := range seen {
			if pass == 0 && i == 0 {
				state = s
				continue
			}
			h, ok := s.(*Holder)
			if !ok || h == nil || len(h.M) != 1 {
				return state, nil, bytes, "resume", fmt.Errorf("resume %d of run %d: the state came back as %T / with another number of members in M", i+1, pass, s)
			}
			copies = append(copies, h.V, h.M["v"])
		}
		copies = append(copies, bInput["v"], cInput["v"], out.V)
	}
	return state, copies, bytes, "", nil
}

// runBBRerun: modes 25..32.  The value is a CHANNEL value at the interrupt, not a pending input: START -> a -> b -> END
// and START -> r -> END; in the first step a answers (the value, or nil in modes 29..32: k >= 4) and puts the
// value into the state while its sibling r asks for InterruptAndRerun, so a's answer is folded into the channel
// of b and written with the checkpoint; at the resume r runs again (on its restored input) and b receives what
// a answered.  Compared: the state (returned as state), b's input and the output member that carries it
// (as copies; for the nil variant they must be nil), how often b and r ran.
// k%4: 0 Pregel / Invoke, 1 DAG / Invoke, 2 Pregel / Stream, 3 DAG / Stream.
func runBBRerun(k int, val any) (state any, copies []any, bytes int, phase string, err error) {
	ctx := context.Background()
	answerNil := k >= 4
	k %= 4
	stream, dag := k >= 2, k%2 == 1
	g := compose.NewGraph[map[string]any, map[string]any](compose.WithGenLocalState(func(ctx context.Context) *Holder {
		return &Holder{}
	}))
	var bInput any
	bCalls, rCalls := 0, 0
	var rInput map[string]any
	if err = g.AddLambdaNode("a", compose.InvokableLambda(func(ctx context.Context, in map[string]any) (any, error) {
		e := compose.ProcessState[*Holder](ctx, func(_ context.Context, h *Holder) error {
			h.V = val
			h.M = map[string]any{"v": val}
			return nil
		})
		if answerNil {
			return nil, e
		}
		return val, e
	})); err != nil {
		return nil, nil, 0, "build", err
	}
	if err = g.AddLambdaNode("b", compose.InvokableLambda(func(ctx context.Context, in any) (map[string]any, error) {
		bInput = in
		bCalls++
		return map[string]any{"v": in}, nil
	})); err != nil {
		return nil, nil, 0, "build", err
	}
	if err = g.AddLambdaNode("r", compose.InvokableLambda(func(ctx context.Context, in map[string]any) (map[string]any, error) {
		rCalls++
		if rCalls == 1 {
			return nil, compose.InterruptAndRerun
		}
		rInput = in
		return map[string]any{"r": "rerun"}, nil
	})); err != nil {
		return nil, nil, 0, "build", err
	}
	// (r2 keeps r's branch as long as a's: in Pregel mode END is reached by the first branch that gets there)
	if err = g.AddLambdaNode("r2", compose.InvokableLambda(func(ctx context.Context, in map[string]any) (map[string]any, error) {
		return map[string]any{"r": in["r"]}, nil
	})); err != nil {
		return nil, nil, 0, "build", err
	}
	for _, e := range [][2]string{{compose.START, "a"}, {"a", "b"}, {"b", compose.END}, {compose.START, "r"}, {"r", "r2"}, {"r2", compose.END}} {
		if err = g.AddEdge(e[0], e[1]); err != nil {
			return nil, nil, 0, "build", err
		}
	}
	st := &memStore{m: map[string][]byte{}}
	opts := []compose.GraphCompileOption{compose.WithCheckPointStore(st)}
	if dag {
		opts = append(opts, compose.WithNodeTriggerMode(compose.AllPredecessor))
	}
	r, err := g.Compile(ctx, opts...)
	if err != nil {
		return nil, nil, 0, "build", err
	}
	call := func(in map[string]any, opts ...compose.Option) (map[string]any, error) {
		if !stream {
			return r.Invoke(ctx, in, opts...)
		}
		sr, err := r.Stream(ctx, in, opts...)
		if err != nil {
			return nil, err
		}
		defer sr.Close()
		out := map[string]any{}
		for {
			chunk, err := sr.Recv()
			if err == io.EOF {
				return out, nil
			}
			if err != nil {
				return nil, err
			}
			for k, v := range chunk {
				if _, dup := out[k]; dup {
					return nil, fmt.Errorf("output member %s delivered twice", k)
				}
				out[k] = v
			}
		}
	}
	_, err = call(map[string]any{"x": "in"}, compose.WithCheckPointID("cp"))
	if err == nil {
		return nil, nil, 0, "build", fmt.Errorf("the run was not interrupted")
	}
	if _, ok := compose.ExtractInterruptInfo(err); !ok {
		return nil, nil, 0, "interrupt", err // the checkpoint could not be written
	}
	if _, ok := st.m["cp"]; !ok {
		return nil, nil, 0, "lost", errCheckpointLost
	}
	bytes = len(st.m["cp"])
	if bCalls != 0 {
		return nil, nil, bytes, "build", fmt.Errorf("node b ran before the interrupt")
	}
	seen := 0
	out, err := call(map[string]any{"x": "ignored"}, compose.WithCheckPointID("cp"),
		compose.WithStateModifier(func(_ context.Context, _ compose.NodePath, s any) error {
			state = s
			seen++
			return nil
		}))
	if err != nil {
		return nil, nil, bytes, "resume", err
	}
	// (a node that asked for InterruptAndRerun is run again on the zero value of its input type, by design: rInput is not compared)
	if seen != 1 || bCalls != 1 || rCalls != 2 || out == nil || out["r"] != "rerun" {
		return state, nil, bytes, "resume", fmt.Errorf("resume with a rerun sibling: state modifier called %d times, b ran %d times, r %d times on %v, output %v", seen, bCalls, rCalls, rInput, out)
	}
	if _, ok := out["v"]; !ok {
		return state, nil, bytes, "resume", fmt.Errorf("the output has no member v: %v", out)
	}
	if answerNil {
		if bInput != nil || out["v"] != nil {
			return state, nil, bytes, "resume", fmt.Errorf("node b did not receive the nil value held in its channel: input %T, output member %T", bInput, out["v"])
		}
		return state, nil, bytes, "", nil
	}
	return state, []any{bInput, out["v"]}, bytes, "", nil
}

type probeFresh int

// fresh types for registrations that must succeed (once per process)
type pfA int
type pfB string
type pfC struct{ X int }
type pfD []int
type pfE int

// a registration attempt: GenericRegister must refuse it iff the key or the (pointer-stripped)
// type is taken.  key strings are the same in the process and in the model's registry.
type probeDef struct {
	name string
	key  string
	rt   reflect.Type // the type the registry would store (pointers stripped)
	coqT string       // the type as passed to the registration (the model strips the pointers itself)
	do   func(key string) error
	ok   func() bool // after a successful registration: a value of the type round-trips
}

func rtOK(v any) func() bool {
	return func() bool {
		data, err := wbMarshal(v)
		if err != nil {
			return false
		}
		out, err := wbUnmarshal(data)
		return err == nil && reflect.DeepEqual(out, v)
	}
}

var probes = []probeDef{
	// a taken key with a fresh type of another kind / of the same kind as the key's type
	{"dup-key", "c12_n1", reflect.TypeOf(probeFresh(0)), "(TNamed 99%N BInt)", compose.RegisterSerializableType[probeFresh], nil},
	{"dup-key-same-kind", "c12_n0", reflect.TypeOf(probeFresh(0)), "(TNamed 99%N BInt)", compose.RegisterSerializableType[probeFresh], nil},
	{"dup-key-builtin", "_eino_string", reflect.TypeOf(pfB("")), "(TNamed 101%N BString)", compose.RegisterSerializableType[pfB], nil},
	{"dup-key-compose", "_eino_checkpoint", reflect.TypeOf(pfC{}), "(TStruct 8000%N)", compose.RegisterSerializableType[pfC], nil},
	{"dup-key-container", "c12_ints", reflect.TypeOf(pfD(nil)), "(TDef 50%N (TSlice (TBase BInt)))", compose.RegisterSerializableType[pfD], nil},
	// a registered type under a fresh key: through a pointer type, directly, through two pointers
	{"dup-type", "c12_probe_fresh", reflect.TypeOf(NStr("")), "(TPtr (TNamed 1%N BString))", compose.RegisterSerializableType[*NStr], nil},
	{"dup-type-direct", "c12_probe_fresh2", reflect.TypeOf(NStr("")), "(TNamed 1%N BString)", compose.RegisterSerializableType[NStr], nil},
	{"dup-type-ptr2", "c12_probe_fresh3", reflect.TypeOf(Node{}), "(TPtr (TPtr (TStruct 1001%N)))", compose.RegisterSerializableType[**Node], nil},
	{"dup-type-builtin", "c12_probe_fresh4", reflect.TypeOf(int(0)), "(TBase BInt)", compose.RegisterSerializableType[int], nil},
	{"dup-type-container", "c12_probe_fresh5", reflect.TypeOf([]int(nil)), "(TPtr (TSlice (TBase BInt)))", compose.RegisterSerializableType[*[]int], nil},
	// fresh key and fresh type: accepted the first time in a process, refused from then on
	{"fresh", "c12_probe_pfA", reflect.TypeOf(pfA(0)), "(TNamed 100%N BInt)", compose.RegisterSerializableType[pfA], rtOK(pfA(7))},
	{"fresh-ptr", "c12_probe_pfD", reflect.TypeOf(pfD(nil)), "(TPtr (TDef 50%N (TSlice (TBase BInt))))", compose.RegisterSerializableType[*pfD], rtOK([]any{pfD{1, 2}})},
	{"fresh-struct", "c12_probe_pfC", reflect.TypeOf(pfC{}), "(TStruct 8000%N)", compose.RegisterSerializableType[pfC], rtOK(&pfC{X: 3})},
	// the key of "fresh" with another fresh type; the type of "fresh-ptr" under another key
	{"fresh-key-again", "c12_probe_pfA", reflect.TypeOf(pfE(0)), "(TNamed 102%N BInt)", compose.RegisterSerializableType[pfE], rtOK(pfE(1))},
	{"fresh-type-again", "c12_probe_pfD2", reflect.TypeOf(pfD(nil)), "(TDef 50%N (TSlice (TBase BInt)))", compose.RegisterSerializableType[pfD], rtOK([]any{pfD{4}})},
}

// keys known to be taken in this process: the built-in ones, compose's, the fixed family's
// (those spelled the same in the model's registry), and what earlier probes registered
var probeKeys = map[string]bool{"c12_n0": true, "c12_n1": true, "c12_ints": true, "_eino_string": true, "_eino_checkpoint": true}
var probeRegistered []string // model registry entries of the successful probe registrations, in order

// runProbe: the theorems assume registry names and types are unique because GenericRegister
// refuses a second registration of a key or of a type; check that it does (and that it accepts
// a registration of a fresh key and type, after which values of the type are serialisable).
func runProbe(c *Case) (res lib.Result) {
	var pd *probeDef
	for i := range probes {
		if probes[i].name == c.Probe {
			pd = &probes[i]
		}
	}
	if pd == nil {
		res.Obs = Obs{Class: "bad-case", Msg: "unknown probe " + c.Probe}
		res.Oracle, res.Sig = "harness could not build the case", "bad-case"
		return
	}
	_, typeTaken := wbRegistered(pd.rt)
	wantRefused := probeKeys[pd.key] || typeTaken
	extra := lib.CoqList(probeRegistered)
	var err error
	usable := true
	p := lib.Recover(func() {
		err = pd.do(pd.key)
		if err == nil && pd.ok != nil {
			usable = pd.ok()
		}
	})
	o := Obs{Class: "enc-error"}
	switch {
	case p != nil:
		o = Obs{Class: "panic", Msg: fmt.Sprint(p)}
		res.Oracle, res.Sig = "registration panicked: "+o.Msg, "panic"
	case err == nil && wantRefused:
		o = Obs{Class: "ok-different", Msg: "a duplicate registration was accepted"}
		res.Oracle, res.Sig = "GenericRegister accepted a second registration ("+c.Probe+": key "+pd.key+", type "+pd.rt.String()+")", "registry-duplicate"
	case err != nil && !wantRefused:
		o = Obs{Class: "enc-error", Msg: err.Error()}
		res.Oracle, res.Sig = "GenericRegister refused a fresh key and type ("+c.Probe+"): "+err.Error(), "registry-refused-fresh"
	case err == nil && !usable:
		o = Obs{Class: "ok-different", Msg: "registered, but a value of the type does not round-trip"}
		res.Oracle, res.Sig = "a value of a freshly registered type does not round-trip ("+c.Probe+")", "registry-fresh-unusable"
	case err == nil:
		o = Obs{Class: "ok-equal", Msg: "registered"}
	default:
		o.Msg = err.Error()
	}
	if err == nil && p == nil {
		probeKeys[pd.key] = true
	}
	res.Obs = o
	res.Nontrivial = true
	res.Tags = []string{"class:" + o.Class, "probe:" + c.Probe, "malformed:registry-probe", fmt.Sprintf("probe-refused:%v", err != nil)}
	// the model's GenericRegister ([register]) on the same registry
	if p == nil {
		res.CoqTerm = lib.CoqApp("Probe", "(ckpt_registry ++ regx0 ++ "+extra+")%list", lib.CoqStr(pd.key), pd.coqT, lib.CoqBool(err != nil))
	}
	if err == nil && p == nil {
		st := pd.coqT
		for strings.HasPrefix(st, "(TPtr ") {
			st = st[len("(TPtr ") : len(st)-1]
		}
		probeRegistered = append(probeRegistered, lib.CoqPair(lib.CoqStr(pd.key), st))
	}
	return
}

// usesCkpt: the type mentions one of compose's private checkpoint record types
func (t *Ty) usesCkpt() bool {
	if t == nil {
		return false
	}
	if (t.K == "struct" || t.K == "named" || t.K == "iface") && t.N >= ckptBase {
		return true
	}
	return t.E.usesCkpt() || t.Key.usesCkpt()
}

func (v *V) usesCkpt() bool {
	if v == nil {
		return false
	}
	if v.DT.usesCkpt() || v.P.usesCkpt() || v.DV.usesCkpt() {
		return true
	}
	for _, x := range v.F {
		if x.usesCkpt() {
			return true
		}
	}
	for _, x := range v.E {
		if x.usesCkpt() {
			return true
		}
	}
	for _, kv := range v.KV {
		if kv[0].usesCkpt() || kv[1].usesCkpt() {
			return true
		}
	}
	return false
}

// needsWhitebox: why a case cannot be run through the public API alone ("" = it can)
func needsWhitebox(c *Case) string {
	switch {
	case c.Probe != "":
		return "registry-probe"
	case c.TopNil:
		return "marshal-nil"
	case len(c.Structs) > 0:
		return "reflect-structof-type"
	case c.T.usesCkpt() || c.V.usesCkpt():
		return "compose-record-type"
	}
	return ""
}

func runCase(c *Case) (res lib.Result) {
	if !whitebox {
		// black-box tie (wb_off.go): the case goes through a real interrupted and resumed graph, or is skipped
		if why := needsWhitebox(c); why != "" {
			res.Obs = Obs{Class: "skipped", Msg: "needs the white-box group: " + why}
			res.Tags = []string{"class:skipped", "whitebox:skipped-" + why}
			return
		}
		cc := *c
		cc.Conv, cc.Par = 0, 0
		if cc.BB == 0 {
			js, _ := json.Marshal(struct {
				T *Ty
				V *V
			}{c.T, c.V})
			cc.BB = 1 + int(fnv(string(js))%bbModes)
		}
		c = &cc
		defer func() { res.Tags = append(res.Tags, "whitebox:unavailable") }()
	}
	if c.Probe != "" {
		return runProbe(c)
	}
	w, err := newWorld(c.Structs)
	if err != nil {
		res.Obs = Obs{Class: "bad-case", Msg: err.Error()}
		res.Oracle, res.Sig = "harness could not build the case: "+err.Error(), "bad-case"
		return
	}
	var in any
	var rv reflect.Value
	if !c.TopNil {
		if c.T == nil {
			res.Obs = Obs{Class: "bad-case", Msg: "no type"}
			res.Oracle, res.Sig = "harness could not build the case", "bad-case"
			return
		}
		if c.T.K == "iface" || c.T.K == "any" {
			res.Obs = Obs{Class: "bad-case", Msg: "top-level type must be concrete"}
			res.Oracle, res.Sig = "harness could not build the case", "bad-case"
			return
		}
		var e error
		if p := lib.Recover(func() { rv, e = w.build(c.T, c.V) }); p != nil || e != nil {
			res.Obs = Obs{Class: "bad-case", Msg: fmt.Sprint(p, e)}
			res.Oracle, res.Sig = "harness could not build the case", "bad-case"
			return
		}
		in = rv.Interface()
	}

	if c.Conv != 0 && !c.TopNil {
		return runConv(c, w, in, rv)
	}

	// ---- the implementation
	var o Obs
	var out any
	viaCP := !c.TopNil && c.BB == 0 && rv.Type() == reflect.PointerTo(ckptTypes["checkpoint"])
	var bbCopies []any
	parNote := ""
	if c.BB != 0 && !c.TopNil {
		// the model is asked about the state record: &Holder{V: val, M: {"v": val}}
		rv = reflect.ValueOf(&Holder{V: in, M: map[string]any{"v": in}})
	}
	p := lib.Recover(func() {
		if c.BB != 0 && !c.TopNil {
			state, copies, n, phase, err := runBB(c.BB, in)
			o.Bytes = n
			switch {
			case err != nil && phase == "interrupt":
				o = Obs{Class: "enc-error", Msg: err.Error()}
			case err != nil && phase == "resume":
				o = Obs{Class: "dec-error", Msg: err.Error(), Bytes: n}
			case err != nil && phase == "lost":
				o = Obs{Class: "lost", Msg: err.Error()}
			case err != nil:
				panic("black-box harness: " + err.Error())
			default:
				out, bbCopies, o.Class = state, copies, "ok"
			}
			return
		}
		if viaCP {
			// a *checkpoint goes through checkPointer.set / get and a store, as in a run: the store
			// holds an earlier checkpoint under the same id and receives another one under another id
			got, n, setErr, getErr := wbCheckpointScenario(in)
			o.Bytes = n
			switch {
			case setErr != nil:
				o = Obs{Class: "enc-error", Msg: setErr.Error()}
			case getErr != nil:
				o = Obs{Class: "dec-error", Msg: getErr.Error(), Bytes: n}
			default:
				out, o.Class = got, "ok"
			}
			return
		}
		data, err := wbMarshal(in)
		if err != nil {
			o = Obs{Class: "enc-error", Msg: err.Error()}
			return
		}
		o.Bytes = len(data)
		// the decoder walks Go maps (random order): the bytes are read several times and every
		// reading must restore the value; the first reading that does not is the observation
		for rep := 0; rep < decodeRepeats; rep++ {
			out, err = wbUnmarshal(data)
			if err != nil {
				o = Obs{Class: "dec-error", Msg: err.Error(), Bytes: len(data)}
				return
			}
			if c.TopNil || out == nil || !equiv(rv, reflect.ValueOf(out), eqExact) {
				break
			}
		}
		o.Class = "ok"
		if c.Par > 0 && !c.TopNil && out != nil && equiv(rv, reflect.ValueOf(out), eqExact) {
			// concurrent round trips of the same value: the first goroutine whose result is not the
			// value (or an error, or a panic) supplies the observation
			type parRes struct {
				out any
				o   Obs
				bad bool
			}
			results := make([]parRes, c.Par)
			var wg sync.WaitGroup
			start := make(chan struct{})
			for gi := 0; gi < c.Par; gi++ {
				wg.Add(1)
				go func(pr *parRes) {
					defer wg.Done()
					<-start
					if pp := lib.Recover(func() {
						for round := 0; round < parRounds && !pr.bad; round++ {
							d, e := wbMarshal(in)
							if e != nil {
								pr.o, pr.bad = Obs{Class: "enc-error", Msg: e.Error()}, true
								return
							}
							x, e := wbUnmarshal(d)
							if e != nil {
								pr.o, pr.bad = Obs{Class: "dec-error", Msg: e.Error(), Bytes: len(d)}, true
								return
							}
							if x == nil || !equiv(rv, reflect.ValueOf(x), eqExact) {
								pr.out, pr.o, pr.bad = x, Obs{Class: "ok", Bytes: len(d)}, true
							}
						}
					}); pp != nil {
						pr.o, pr.bad = Obs{Class: "panic", Msg: fmt.Sprint(pp)}, true
					}
				}(&results[gi])
			}
			close(start)
			wg.Wait()
			for _, pr := range results {
				if pr.bad {
					out, o = pr.out, pr.o
					parNote = fmt.Sprintf(" (in one of %d concurrent round trips of the value; the sequential round trip restored it)", c.Par)
					break
				}
			}
		}
	})
	if p != nil {
		o = Obs{Class: "panic", Msg: fmt.Sprint(p)}
	}

	// ---- observation and direct oracle
	obsCoq := ""
	renderable := true
	switch o.Class {
	case "ok":
		if out == nil {
			o.Type, o.Val = "<nil>", "nil"
			obsCoq = "(OOk (VIface TAny None))" // never what the model says for a successful decode
			if c.TopNil {
				o.Class = "ok-equal"
			} else {
				o.Class = "ok-different"
			}
		} else {
			ov := reflect.ValueOf(out)
			o.Type = ov.Type().String()
			var s string
			s, renderable = w.coqVal(ov)
			o.Val = s
			obsCoq = "(OOk " + s + ")"
			if !c.TopNil && equiv(rv, ov, eqExact) {
				o.Class = "ok-equal"
			} else {
				o.Class = "ok-different"
			}
			for _, cp := range bbCopies {
				// the pending input of node b and the final output carry the value too
				if (cp == nil) != (in == nil) || cp != nil && !equiv(reflect.ValueOf(in), reflect.ValueOf(cp), eqExact) {
					o.Class = "ok-different"
					o.Msg = "the value restored as pending input / output differs"
				}
			}
		}
	case "enc-error":
		obsCoq = "OEncErr"
	case "dec-error":
		obsCoq = "ODecErr"
	default:
		obsCoq = "OPanic"
	}
	_ = renderable
	res.Obs = o
	supported := len(c.Malformed) == 0 && !c.TopNil
	switch {
	case o.Class == "panic":
		res.Oracle, res.Sig = "serialiser panicked: "+o.Msg, "panic"
	case o.Class == "lost":
		// second sentence of the property at the level of a run: what cannot be written is an error of the interrupt
		res.Oracle, res.Sig = "a checkpoint that could not be written was not reported: "+o.Msg, "checkpoint-lost"
	case o.Class == "ok-different":
		res.Oracle, res.Sig = "decoded value differs from the encoded one (type "+o.Type+")", "ok-different"
		if !c.TopNil && out != nil {
			if what, sig := knownDifference(rv, reflect.ValueOf(out)); sig != "" {
				res.Oracle, res.Sig = what, sig
			}
		}
	case supported && o.Class != "ok-equal":
		res.Oracle, res.Sig = "supported value was rejected: "+o.Class+": "+o.Msg, "error-on-supported"
	}
	if res.Oracle != "" {
		res.Oracle += parNote
	}

	// ---- model side
	var st stats
	inCoq := "(VIface TAny None)"
	inOK := true
	if !c.TopNil {
		inCoq, inOK = w.coqVal(rv)
		w.stat(c.T, c.V, 0, &st)
	}
	ext := caseUsesExt(c)
	if inOK && !ext {
		regx, env := w.coqEnv()
		res.CoqTerm = lib.CoqApp("mk", regx, env, "true", inCoq, obsCoq)
	}
	res.Nontrivial = st.nodes >= 2
	res.Tags = []string{"class:" + o.Class, fmt.Sprintf("ptrdepth:%d", st.ptrDepth), fmt.Sprintf("nest:%d", st.maxNest)}
	if viaCP {
		res.Tags = append(res.Tags, "via:checkpointer")
	}
	if c.Par > 0 && !viaCP && c.BB == 0 {
		res.Tags = append(res.Tags, fmt.Sprintf("via:concurrent-%d", c.Par))
	}
	if c.BB != 0 {
		res.Tags = append(res.Tags, fmt.Sprintf("via:interrupt-resume-%d", c.BB))
	}
	if ext {
		res.Tags = append(res.Tags, "universe:go-only")
	} else {
		res.Tags = append(res.Tags, "universe:model")
	}
	if c.TopNil {
		res.Tags = append(res.Tags, "top:nil")
	} else {
		res.Tags = append(res.Tags, "top:"+c.T.K)
	}
	sz := "1"
	switch {
	case st.nodes >= 30:
		sz = "30+"
	case st.nodes >= 10:
		sz = "10-29"
	case st.nodes >= 4:
		sz = "4-9"
	case st.nodes >= 2:
		sz = "2-3"
	}
	res.Tags = append(res.Tags, "nodes:"+sz)
	for _, f := range []struct {
		on   bool
		name string
	}{{st.nilPtr, "nilptr"}, {st.innerNil, "innernil"}, {st.iface, "iface"}, {st.containers, "container"},
		{st.nilCont, "nilcontainer"}, {st.structs, "struct"}, {st.arrays, "array"}, {st.defConts, "definedcontainer"}, {st.defPtrs, "definedpointer"}} {
		if f.on {
			res.Tags = append(res.Tags, "has:"+f.name)
		}
	}
	var kks []string
	for kk := range st.keyKinds {
		kks = append(kks, "key:"+kk)
	}
	sort.Strings(kks)
	res.Tags = append(res.Tags, kks...)
	for _, m := range c.Malformed {
		res.Tags = append(res.Tags, "malformed:"+m)
	}
	if len(c.Malformed) == 0 {
		res.Tags = append(res.Tags, "malformed:none")
	}
	return
}

// knownDifference: is the difference between a written value and the value read back exactly one of
// the recorded findings (every other part of the two values identical)?  Used by the serialiser
// cases, the companion and the stream-conversion cases alike, so that one behaviour carries one
// signature wherever the value travels.
func knownDifference(rv, ov reflect.Value) (what, sig string) {
	switch {
	case hasInvalidUTF8Value(rv) && equiv(rv, ov, eqCoerce):
		return "string value with invalid UTF-8 came back with U+FFFD substituted", "invalid-utf8-coerced"
	case equiv(rv, ov, eqRetype):
		return "value of an unregistered defined container type held in an interface came back with the unnamed type", "defined-container-retyped"
	case equiv(rv, ov, eqPtrIface):
		return "the value a pointer to an interface points to came back as a generic JSON value", "ptr-to-interface-untyped"
	case equiv(rv, ov, eqRetypePtr):
		return "value of a defined pointer type (type P *T) held in an interface came back with the unnamed pointer type", "defined-pointer-retyped"
	case equiv(rv, ov, eqMapKey):
		return "keys of a map whose key type is an interface / pointer type (or a struct whose JSON leaves a field out) came back as generic JSON values or collapsed", "map-key-untyped"
	}
	return "", ""
}

// runConv: a pending input of a node of output type any, as the stream a streaming run holds at
// an interrupt, is converted for the checkpoint, written, read back and restored (hook
// VerifC12ConvertRestore): the successor must be handed what it would have been handed without
// the interrupt - a stream with the same chunks (resumed through Stream) or the value (Invoke).
func runConv(c *Case, w *world, in any, rv reflect.Value) (res lib.Result) {
	pat := (c.Conv - 1) % 3 // 0: no chunk, 1: the chunk nil, 2: the chunk that is the value
	stream := c.Conv <= 3
	written := c.Conv <= 6 // written by a streaming run
	if !written {
		pat = 1 + (c.Conv-7)%2
		stream = c.Conv <= 8
	}
	var chunks []any
	switch pat {
	case 0:
		chunks = []any{}
	case 1:
		chunks = []any{nil}
	default:
		chunks = []any{in}
	}
	var stored, value any
	var restored []any
	var err error
	p := lib.Recover(func() {
		if written {
			stored, restored, value, err = wbConvertRestore(chunks, stream)
		} else {
			stored, restored, value, err = wbConvertRestoreValue(chunks[0], stream)
		}
	})
	o := Obs{Class: "ok-equal"}
	handed := restored
	if !stream {
		handed = []any{value}
	}
	want := chunks
	if !stream && pat == 0 {
		want = []any{nil} // without streams a stream that had no chunk is the nil value
	}
	switch {
	case p != nil:
		o = Obs{Class: "panic", Msg: fmt.Sprint(p)}
		res.Oracle, res.Sig = "stream conversion of a checkpoint value panicked: "+o.Msg, "panic"
	case err != nil:
		o = Obs{Class: "dec-error", Msg: err.Error()}
		res.Oracle, res.Sig = "stream conversion of a checkpoint value failed: "+err.Error(), "error-on-supported"
	default:
		same := len(handed) == len(want)
		for i := 0; same && i < len(want); i++ {
			same = (handed[i] == nil) == (want[i] == nil) &&
				(want[i] == nil || equiv(reflect.ValueOf(want[i]), reflect.ValueOf(handed[i]), eqExact))
		}
		if !same {
			o.Class = "ok-different"
			what := fmt.Sprintf("a stream of %d chunk(s) %v (streaming run)", len(chunks), chunks)
			if !written {
				what = fmt.Sprintf("the value %v (run without streams)", chunks[0])
			}
			types := func(l []any) (ts []string) {
				for _, x := range l {
					ts = append(ts, fmt.Sprintf("%T", x))
				}
				return
			}
			res.Oracle = fmt.Sprintf("a pending input that was %s is handed to the successor as %v after the resume (through Stream: %v; dynamic types written %v, handed on %v)", what, handed, stream, types(chunks), types(handed))
			res.Sig = "ok-different"
			// the chunk is an interface position: a value that the serialiser is known to retype there
			// (recorded findings) is retyped here too - same signature, provided nothing else differs
			if len(handed) == len(want) && len(want) == 1 && want[0] != nil && handed[0] != nil {
				if kw, ksig := knownDifference(reflect.ValueOf(want[0]), reflect.ValueOf(handed[0])); ksig != "" {
					res.Oracle, res.Sig = kw+" (stream conversion of a checkpoint value)", ksig
				}
			}
		}
	}
	res.Obs = o
	res.Nontrivial = true
	res.Tags = []string{"class:" + o.Class, fmt.Sprintf("via:stream-conversion-%d", c.Conv), "malformed:none"}
	if p != nil || err != nil || caseUsesExt(c) {
		return
	}
	chunkCoq := func(l []any) (string, bool) {
		var items []string
		for _, x := range l {
			if x == nil {
				items = append(items, "None")
				continue
			}
			s, ok := w.coqVal(reflect.ValueOf(x))
			if !ok {
				return "", false
			}
			items = append(items, "(Some "+s+")")
		}
		return lib.CoqList(items), true
	}
	held := "2"
	switch {
	case stored == nil:
		held = "0"
	case wbIsNilChunk(stored):
		held = "1"
	}
	sc, ok1 := chunkCoq(chunks)
	hc, ok2 := chunkCoq(handed)
	if ok1 && ok2 && written {
		res.CoqTerm = lib.CoqApp("Conv", sc, lib.CoqBool(stream), "("+held+"%N)", hc)
	} else if ok1 && ok2 {
		res.CoqTerm = lib.CoqApp("ConvV", sc[1:len(sc)-1], lib.CoqBool(stream), "("+held+"%N)", hc)
	}
	return
}

// ------------------------------------------------------------------ generator

type gen struct {
	r         *lib.Rng
	structs   []SDecl
	malformed map[string]bool
	allowBad  bool   // this case belongs to the malformed stream
	badKind   string // the one kind of malformation this case may contain (so that they do not mask each other)
	forceBad  bool   // the next literal of a fitting kind is the malformed one
	extOK     bool   // the case may use arrays / defined container types
	budget    int    // remaining value nodes
	maxDepth  int
}

func (g *gen) bad(reason string) { g.malformed[reason] = true }

// want: should a malformation of this kind be placed here?  Only in the malformed stream,
// only the kind chosen for the case, with probability num/den.
func (g *gen) want(kind string, num, den int) bool {
	return g.allowBad && g.badKind == kind && g.r.Chance(num, den)
}

var badKinds = []string{"unregistered-named", "unregistered-named", "complex", "unregistered-container-elem",
	"unregistered-iface-elem", "unregistered-struct", "unregistered-struct", "invalid-utf8", "invalid-utf8", "non-finite-float",
	"unregistered-defined-container", "ptr-to-iface", "non-basic-key", "non-finite-key", "complex-key", "defined-pointer-elem"}

var commonBases = []string{"int", "string", "bool", "float64", "int64", "uint8", "int32", "uint64", "float32", "uint", "int8",
	"int16", "uint16", "uint32", "uintptr"}

func (g *gen) basicType() *Ty {
	r := g.r
	switch {
	case r.Chance(1, 4):
		return &Ty{K: "named", N: regNamed[r.Intn(len(regNamed))]}
	case g.want("unregistered-named", 1, 3):
		g.bad("unregistered-named")
		return &Ty{K: "named", N: 8 + r.Intn(2)}
	case g.want("complex", 1, 3):
		g.bad("complex")
		return &Ty{K: "base", B: r.Pick([]string{"complex64", "complex128"})}
	case g.want("non-finite-float", 1, 2):
		return &Ty{K: "base", B: r.Pick([]string{"float64", "float32"})}
	case g.want("invalid-utf8", 1, 3):
		return &Ty{K: "base", B: "string"}
	}
	if r.Chance(2, 3) {
		return &Ty{K: "base", B: commonBases[r.Intn(4)]}
	}
	return &Ty{K: "base", B: r.Pick(commonBases)}
}

func (g *gen) keyType() *Ty {
	r := g.r
	switch r.Intn(10) {
	case 0, 1, 2, 3:
		return &Ty{K: "base", B: "string"}
	case 4:
		return &Ty{K: "base", B: r.Pick([]string{"uint64", "int64", "int", "uint64", "uint"})}
	case 5:
		return &Ty{K: "named", N: []int{0, 1, 2, 3, 4, 5, 6, 7, 10, 11, 12, timeNamed}[r.Intn(12)]}
	case 6:
		return &Ty{K: "base", B: r.Pick([]string{"float64", "float32", "bool"})}
	case 7:
		if r.Chance(1, 2) {
			// a registered comparable struct type, a registered array type as key type (the key
			// is written as its plain JSON)
			if r.Chance(1, 2) {
				return &Ty{K: "struct", N: fixedBase + []int{7, 10, 10}[r.Intn(3)]}
			}
			return &Ty{K: "array", N: 2, E: &Ty{K: "base", B: "int"}}
		}
		fallthrough
	default:
		return &Ty{K: "base", B: r.Pick([]string{"int", "int64", "uint8", "uint64", "int8", "uint", "int32", "uintptr", "int16", "uint16", "uint32"})}
	}
}

// elemType: element / value type of a container: after stripping pointers it must be a
// registered non-container type (or a registered container type)
func (g *gen) elemType(depth int) *Ty {
	r := g.r
	var t *Ty
	switch x := r.Intn(20); {
	case x < 6:
		t = g.basicType()
	case x < 10:
		t = &Ty{K: "any"}
	case x < 11:
		t = &Ty{K: "iface", N: 0}
	case x < 15:
		t = g.structType(depth - 1)
	case x < 17:
		t = regContainers[r.Intn(len(regContainers))].t
		if g.extOK && r.Chance(1, 2) {
			t = extElems[r.Intn(len(extElems))]
		}
	case x < 18 && g.want("unregistered-container-elem", 1, 1), x < 8 && g.want("unregistered-container-elem", 1, 2):
		g.bad("unregistered-container-elem")
		if r.Chance(1, 2) {
			t = &Ty{K: "slice", E: &Ty{K: "base", B: "string"}}
		} else {
			t = &Ty{K: "map", Key: &Ty{K: "base", B: "string"}, E: &Ty{K: "base", B: "int"}}
		}
	case x < 19 && g.want("unregistered-iface-elem", 1, 1), x < 8 && g.want("unregistered-iface-elem", 1, 2):
		g.bad("unregistered-iface-elem")
		t = &Ty{K: "iface", N: 1}
	default:
		t = g.basicType()
	}
	if t.K != "any" && t.K != "iface" {
		for n := ptrCount(r); n > 0; n-- {
			t = &Ty{K: "ptr", E: t}
		}
	}
	return t
}

func ptrCount(r *lib.Rng) int {
	switch x := r.Intn(12); {
	case x < 6:
		return 0
	case x < 9:
		return 1
	case x < 11:
		return 2
	}
	return 3
}

func (g *gen) structType(depth int) *Ty {
	r := g.r
	switch {
	case r.Chance(1, 6):
		if g.extOK && r.Chance(1, 4) {
			return &Ty{K: "struct", N: fixedBase + 12}
		}
		return &Ty{K: "struct", N: fixedBase + []int{0, 1, 1, 3, 5, 6, 6, 7, 8, 11, 11}[r.Intn(11)]}
	case g.want("unregistered-struct", 1, 5):
		g.bad("unregistered-struct")
		return &Ty{K: "struct", N: fixedBase + 2}
	case len(g.structs) > 0 && (r.Chance(1, 3) || len(g.structs) >= 5 || depth <= 0):
		return &Ty{K: "struct", N: g.structs[r.Intn(len(g.structs))].ID}
	case depth <= 0:
		return &Ty{K: "struct", N: fixedBase}
	}
	// a new StructOf declaration; its field types are generated first (dependency order)
	reg := true
	if g.want("unregistered-struct", 1, 4) {
		reg = false
		g.bad("unregistered-struct")
	}
	nf := 1 + r.Intn(4)
	fields := make([]Field, nf)
	for j := range fields {
		fields[j].T = g.anyType(depth-1, true)
	}
	id := len(g.structs)
	pre := "R"
	if !reg {
		pre = "U"
	}
	for j := range fields {
		fields[j].Name = fmt.Sprintf("%s%d_%d", pre, id, j)
	}
	g.structs = append(g.structs, SDecl{ID: id, Reg: reg, Fields: fields})
	return &Ty{K: "struct", N: id}
}

// anyType: a type for a struct field, a pointee, a dynamic type (ifaceOK = false)
func (g *gen) anyType(depth int, ifaceOK bool) *Ty {
	r := g.r
	if depth <= 0 {
		if ifaceOK && r.Chance(1, 5) {
			return &Ty{K: "any"}
		}
		return g.basicType()
	}
	var t *Ty
	switch x := r.Intn(24); {
	case x < 6:
		t = g.basicType()
	case x >= 3 && x <= 6 && g.extOK:
		// an array, or a registered defined container type
		if r.Chance(1, 8) {
			// a defined pointer type, as it is (behind a pointer the encoder refuses it)
			return &Ty{K: "nptr", N: r.Intn(len(namedPtrs))}
		}
		if r.Chance(1, 2) {
			t = &Ty{K: "array", N: r.Intn(4), E: g.elemType(depth - 1)}
		} else {
			t = &Ty{K: "ncont", N: r.Intn(3)}
		}
	case x < 10:
		t = g.structType(depth - 1)
	case x < 14:
		t = &Ty{K: "slice", E: g.elemType(depth - 1)}
	case x < 18:
		t = &Ty{K: "map", Key: g.keyType(), E: g.elemType(depth - 1)}
	case x < 22 && ifaceOK:
		if r.Chance(1, 4) {
			return &Ty{K: "iface", N: r.Intn(2)} // E1 in a field is fine: fields are never looked up
		}
		return &Ty{K: "any"}
	default:
		t = g.basicType()
	}
	for n := ptrCount(r); n > 0; n-- {
		t = &Ty{K: "ptr", E: t}
	}
	return t
}

func isRegContainer(t *Ty) bool {
	for _, c := range regContainers {
		if c.t.String() == t.String() {
			return true
		}
	}
	for _, c := range extElems {
		if c.String() == t.String() {
			return true
		}
	}
	return false
}

func sp(s string) *string { return &s }

var strPool = []string{"", "a", "hello world", "\"quoted\" \\ back/slash", "tab\tnl\ncr\r nul\x00 del\x7f", "<html>&amp;",
	"héllo", "中文", "\U0001F600 smile", "� replacement itself", "line sep ", "null", "123", "{\"k\":1}",
	"ÿĀ߿ࠀ￿\U00010000\U0010ffff"}
var badStrPool = []string{"\xff", "a\xffb", "\xc0\xaf", "\xe2\x82", "\xed\xa0\x80", "\xf4\x90\x80\x80", "ok\xf0\x9f\x98", "\x80\x80 tail",
	"\xc3\x28", "\xe0\x80\xaf", "\xf8\x88\x80\x80\x80", "mixed é \xe9 end"}

var timePool = []string{"0001-01-01T00:00:00Z", "1970-01-01T00:00:00Z", "1969-12-31T23:59:59.999999999Z", "2024-02-29T12:34:56.789Z",
	"9999-12-31T23:59:59.999999999Z", "2038-01-19T03:14:08Z", "0000-01-01T00:00:00Z", "2001-09-09T01:46:40.000000001Z"}

// litOf: a literal of the basic / named type t
func (g *gen) litOf(t *Ty, isKey bool) *Lit {
	if t.K == "named" && t.N == timeNamed {
		s := g.r.Pick(timePool)
		if g.r.Chance(1, 2) {
			s = time.Unix(int64(g.r.Range(-2000000000, 2000000000)), int64(g.r.Intn(3))*int64(g.r.Intn(1000000000))).UTC().Format(time.RFC3339Nano)
		}
		return &Lit{S: sp(hex.EncodeToString([]byte(s)))}
	}
	return g.lit(baseOfTy(t), isKey)
}

func (g *gen) lit(base string, isKey bool) *Lit {
	r := g.r
	switch base {
	case "bool":
		b := r.Chance(1, 2)
		return &Lit{B: &b}
	case "string":
		if !isKey && (g.forceBad && g.badKind == "invalid-utf8" || g.want("invalid-utf8", 1, 3)) {
			g.forceBad = false
			g.bad("invalid-utf8")
			return &Lit{S: sp(hex.EncodeToString([]byte(r.Pick(badStrPool))))}
		}
		if g.allowBad && isKey && r.Chance(1, 8) {
			// invalid UTF-8 in a map key is kept byte for byte by sonic: not a malformed input
			return &Lit{S: sp(hex.EncodeToString([]byte(r.Pick(badStrPool))))}
		}
		s := r.Pick(strPool)
		if r.Chance(1, 4) {
			n := r.Intn(6)
			b := make([]byte, n)
			for i := range b {
				b[i] = byte(32 + r.Intn(95))
			}
			s = string(b)
		}
		return &Lit{S: sp(hex.EncodeToString([]byte(s)))}
	case "float32", "float64":
		is32 := base == "float32"
		var bits uint64
		switch x := r.Intn(12); {
		case x == 0:
			bits = 0
		case x == 1: // -0
			if is32 {
				bits = 1 << 31
			} else {
				bits = 1 << 63
			}
		case x == 2:
			if is32 {
				bits = uint64(math.Float32bits(math.MaxFloat32))
			} else {
				bits = math.Float64bits(math.MaxFloat64)
			}
		case x == 3:
			bits = 1 // smallest subnormal
		case x == 4:
			if is32 {
				bits = uint64(math.Float32bits(0.1))
			} else {
				bits = math.Float64bits(0.1)
			}
		case x < 8:
			f := float64(r.Range(-1000, 1000)) / float64([]int{1, 2, 4, 10, 3}[r.Intn(5)])
			if is32 {
				bits = uint64(math.Float32bits(float32(f)))
			} else {
				bits = math.Float64bits(f)
			}
		default:
			bits = r.U64()
			if is32 {
				bits &= 0xffffffff
			}
		}
		f, _ := floatOfBits(is32, strconv.FormatUint(bits, 10))
		if isKey && g.forceBad && g.badKind == "non-finite-key" {
			g.forceBad = false
			g.bad("non-finite-key")
			bits = []uint64{math.Float64bits(math.NaN()), math.Float64bits(math.Inf(1)), math.Float64bits(math.Inf(-1))}[r.Intn(3)]
			if is32 {
				bits = uint64(math.Float32bits(float32(math.Float64frombits(bits))))
			}
			return &Lit{F: sp(strconv.FormatUint(bits, 10))}
		}
		if math.IsNaN(f) || math.IsInf(f, 0) {
			if !isKey && (g.forceBad && g.badKind == "non-finite-float" || g.want("non-finite-float", 1, 1)) {
				g.forceBad = false
				g.bad("non-finite-float")
			} else {
				bits = 0x3f800000 // 1.0 as float32, a tiny subnormal as float64: both finite
			}
		} else if !isKey && (g.forceBad && g.badKind == "non-finite-float" || g.want("non-finite-float", 1, 2)) {
			g.forceBad = false
			g.bad("non-finite-float")
			if is32 {
				bits = uint64(math.Float32bits(float32(math.Inf(1 - 2*r.Intn(2)))))
			} else {
				bits = math.Float64bits(math.Inf(1 - 2*r.Intn(2)))
			}
			if r.Chance(1, 2) {
				if is32 {
					bits = uint64(math.Float32bits(float32(math.NaN())))
				} else {
					bits = math.Float64bits(math.NaN())
				}
			}
		}
		return &Lit{F: sp(strconv.FormatUint(bits, 10))}
	case "complex64", "complex128":
		one := strconv.FormatUint(math.Float64bits(1.5), 10)
		if base == "complex64" {
			one = strconv.FormatUint(uint64(math.Float32bits(1.5)), 10)
		}
		return &Lit{C: &[2]string{one, "0"}}
	}
	// integers
	rt := baseGo[base]
	bitsz := rt.Bits()
	signed := strings.HasPrefix(base, "int")
	lo, hi := new(big.Int), new(big.Int)
	if signed {
		lo.Lsh(big.NewInt(-1), uint(bitsz-1))
		hi.Sub(new(big.Int).Lsh(big.NewInt(1), uint(bitsz-1)), big.NewInt(1))
	} else {
		hi.Sub(new(big.Int).Lsh(big.NewInt(1), uint(bitsz)), big.NewInt(1))
	}
	var z *big.Int
	switch x := r.Intn(10); {
	case x == 0:
		z = lo
	case x == 1:
		z = hi
	case x == 2:
		z = big.NewInt(0)
	case x == 3:
		z = new(big.Int).Sub(hi, big.NewInt(1))
	case x == 4 && signed:
		z = big.NewInt(-1)
	case x < 8:
		z = big.NewInt(int64(r.Range(0, 100)))
		if signed && r.Chance(1, 3) {
			z.Neg(z)
		}
	default:
		span := new(big.Int).Sub(hi, lo)
		span.Add(span, big.NewInt(1))
		z = new(big.Int).SetUint64(r.U64())
		z.Mod(z, span)
		z.Add(z, lo)
	}
	if z.Cmp(lo) < 0 {
		z = lo
	}
	if z.Cmp(hi) > 0 {
		z = hi
	}
	return &Lit{Z: sp(z.String())}
}

func cloneV(v *V) *V {
	b, _ := json.Marshal(v)
	var c V
	_ = json.Unmarshal(b, &c)
	return &c
}

// varyKey: members of a composite key other than the first are zero in about half of the
// keys (a struct member that is zero may be left out of the key's JSON text); one member of a
// cloned key gets a fresh value
func (g *gen) varyKey(t *Ty, k *V) {
	var ts []*Ty
	var vs []*V
	switch t.K {
	case "struct":
		ts, vs = g.fieldTypes(t), k.F
	case "array":
		for range k.E {
			ts = append(ts, t.E)
		}
		vs = k.E
	}
	for i := range vs {
		if i >= len(ts) || ts[i].K != "base" && ts[i].K != "named" || ts[i].K == "named" && ts[i].N == timeNamed {
			continue
		}
		switch {
		case i > 0 && g.r.Chance(1, 2):
			vs[i].L = zeroLit(baseOfTy(ts[i]))
		case g.r.Chance(1, 3):
			vs[i].L = g.litOf(ts[i], true)
		}
	}
}

func zeroLit(base string) *Lit {
	switch base {
	case "bool":
		b := false
		return &Lit{B: &b}
	case "string":
		return &Lit{S: sp("")}
	case "float32", "float64":
		return &Lit{F: sp("0")}
	case "complex64", "complex128":
		return &Lit{C: &[2]string{"0", "0"}}
	}
	return &Lit{Z: sp("0")}
}

func baseOfTy(t *Ty) string {
	if t.K == "named" {
		ni, _ := namedInfoOf(t.N)
		return ni.base
	}
	return t.B
}

func (g *gen) fieldTypes(t *Ty) []*Ty {
	if t.N >= fixedBase {
		w, _ := newWorld(nil)
		rt := w.byID[t.N]
		var out []*Ty
		for i := 0; i < rt.NumField(); i++ {
			if rt.Field(i).PkgPath != "" {
				continue // unexported: not part of the serialised value
			}
			ft, ok := w.tyOf(rt.Field(i).Type)
			if !ok {
				panic("field type outside the universe: " + rt.Field(i).Type.String())
			}
			out = append(out, ft)
		}
		return out
	}
	var out []*Ty
	for _, f := range g.structs[t.N].Fields {
		out = append(out, f.T)
	}
	return out
}

func (g *gen) count(max int) int {
	if g.budget <= 0 {
		return 0
	}
	n := g.r.Intn(max + 1)
	if g.r.Chance(1, 12) {
		n = max + g.r.Intn(10) // now and then a longer container
	}
	if n > g.budget {
		n = g.budget
	}
	return n
}

func (g *gen) value(t *Ty, depth int) *V {
	r := g.r
	g.budget--
	switch t.K {
	case "nptr":
		g.budget++
		return g.value(namedPtrs[t.N].under, depth)
	case "ncont":
		g.budget++
		return g.value(namedConts[t.N].under, depth)
	case "array":
		v := &V{E: []*V{}}
		for n := 0; n < t.N; n++ {
			v.E = append(v.E, g.value(t.E, depth-1))
		}
		return v
	case "base", "named":
		return &V{L: g.litOf(t, false)}
	case "struct":
		v := &V{}
		for _, ft := range g.fieldTypes(t) {
			v.F = append(v.F, g.value(ft, depth-1))
		}
		return v
	case "ptr":
		if r.Chance(1, 4) || (depth <= -6) {
			b := t
			for b.K == "ptr" {
				b = b.E
			}
			if (b.K == "slice" || b.K == "map" || b.K == "array" || b.K == "ncont") && !isRegContainer(b) {
				// the encoder looks the pointer-stripped type up in the registry: an
				// unregistered container type below a nil pointer is rejected (loudly)
				g.bad("nil-ptr-to-unregistered-container")
			}
			return &V{Nil: true}
		}
		return &V{P: g.value(t.E, depth)}
	case "slice":
		if r.Chance(1, 6) || depth <= -4 {
			return &V{Nil: true}
		}
		v := &V{E: []*V{}}
		for n := g.count(3); n > 0; n-- {
			v.E = append(v.E, g.value(t.E, depth-1))
		}
		return v
	case "map":
		if r.Chance(1, 6) || depth <= -4 {
			return &V{Nil: true}
		}
		v := &V{KV: [][2]*V{}}
		seen := map[string]bool{}
		n := g.count(3)
		composite := t.Key.K == "struct" || t.Key.K == "array"
		if composite && g.budget > 0 {
			// several entries: what one key's text leaves out must not come from another key,
			// in whatever order the decoder meets them
			n = 2 + r.Intn(7)
		}
		for ; n > 0; n-- {
			var k *V
			switch t.Key.K {
			case "any":
				kt := &Ty{K: "base", B: r.Pick([]string{"int", "string", "int", "uint8", "float64", "bool"})}
				k = &V{DT: kt, DV: &V{L: g.lit(kt.B, true)}}
			case "ptr":
				k = &V{P: &V{L: g.lit(baseOfTy(t.Key.E), true)}}
			case "base", "named":
				k = &V{L: g.litOf(t.Key, true)}
			default: // struct / array keys
				g.budget++
				if len(v.KV) > 0 && r.Chance(1, 3) {
					// a key that differs from an earlier one in one member only
					k = cloneV(v.KV[r.Intn(len(v.KV))][0])
				} else {
					k = g.value(t.Key, 1)
				}
				g.varyKey(t.Key, k)
			}
			kb, _ := json.Marshal(k)
			ks := string(kb)
			if k.L != nil && k.L.F != nil { // +0 and -0 are one key
				if f, _ := floatOfBits(baseOfTy(t.Key) == "float32", *k.L.F); f == 0 {
					ks = "zero"
				}
			}
			if seen[ks] {
				continue
			}
			seen[ks] = true
			v.KV = append(v.KV, [2]*V{k, g.value(t.E, depth-1)})
		}
		return v
	default: // iface, any
		if r.Chance(1, 5) || depth <= -4 {
			return &V{Nil: true}
		}
		if t.K == "iface" && t.N == ckptBase {
			// compose's channel interface: *dagChannel or *pregelChannel
			dt := &Ty{K: "ptr", E: &Ty{K: "struct", N: ckptBase + 1 + r.Intn(2)}}
			if r.Chance(1, 12) {
				return &V{DT: dt, DV: &V{Nil: true}}
			}
			return &V{DT: dt, DV: &V{P: g.value(dt.E, depth-1)}}
		}
		d := depth - 1
		if d > 2 {
			d = 2
		}
		if d < 0 {
			d = 0
		}
		dt := g.anyType(d, false)
		return &V{DT: dt, DV: g.value(dt, depth-1)}
	}
}

// badLeaf: a type that carries the case's malformation at (or directly below) its root
func (g *gen) badLeaf() *Ty {
	r := g.r
	str := &Ty{K: "base", B: "string"}
	switch g.badKind {
	case "unregistered-named":
		g.bad("unregistered-named")
		return &Ty{K: "named", N: 8 + r.Intn(2)}
	case "complex":
		g.bad("complex")
		return &Ty{K: "base", B: r.Pick([]string{"complex64", "complex128"})}
	case "unregistered-struct":
		g.bad("unregistered-struct")
		if r.Chance(1, 2) {
			return &Ty{K: "struct", N: fixedBase + 2}
		}
		nf := 1 + r.Intn(3)
		fields := make([]Field, nf)
		id := len(g.structs)
		for j := range fields {
			fields[j] = Field{Name: fmt.Sprintf("U%d_%d", id, j), T: g.anyType(1, true)}
		}
		g.structs = append(g.structs, SDecl{ID: id, Reg: false, Fields: fields})
		return &Ty{K: "struct", N: id}
	case "unregistered-container-elem":
		g.bad("unregistered-container-elem")
		var inner *Ty
		if r.Chance(1, 2) {
			inner = &Ty{K: "slice", E: g.basicType()}
		} else {
			inner = &Ty{K: "map", Key: str, E: &Ty{K: "base", B: "int"}}
		}
		if isRegContainer(inner) {
			inner = &Ty{K: "slice", E: str}
		}
		for n := ptrCount(r); n > 0; n-- {
			inner = &Ty{K: "ptr", E: inner}
		}
		if r.Chance(1, 2) {
			return &Ty{K: "slice", E: inner}
		}
		return &Ty{K: "map", Key: str, E: inner}
	case "unregistered-iface-elem":
		g.bad("unregistered-iface-elem")
		if r.Chance(1, 2) {
			return &Ty{K: "slice", E: &Ty{K: "iface", N: 1}}
		}
		return &Ty{K: "map", Key: g.keyType(), E: &Ty{K: "iface", N: 1}}
	case "invalid-utf8":
		if r.Chance(1, 4) {
			return &Ty{K: "named", N: 1}
		}
		return str
	case "unregistered-defined-container":
		g.bad("unregistered-defined-container")
		return &Ty{K: "ncont", N: 3 + r.Intn(2)}
	case "ptr-to-iface":
		g.bad("ptr-to-iface")
		return &Ty{K: "ptr", E: &Ty{K: "any"}}
	case "defined-pointer-elem":
		g.bad("defined-pointer-elem")
		np := &Ty{K: "nptr", N: r.Intn(len(namedPtrs))}
		switch r.Intn(6) {
		case 0:
			return &Ty{K: "slice", E: np}
		case 1:
			return &Ty{K: "map", Key: str, E: np}
		case 2:
			return &Ty{K: "ptr", E: np}
		case 3:
			return &Ty{K: "map", Key: np, E: &Ty{K: "base", B: "int"}}
		case 4:
			return &Ty{K: "slice", E: &Ty{K: "ptr", E: np}}
		}
		return &Ty{K: "array", N: 1 + r.Intn(2), E: np}
	case "non-finite-key":
		// a NaN / Inf map key has no JSON text: the encoder must refuse the map
		return &Ty{K: "map", Key: []*Ty{{K: "base", B: "float64"}, {K: "base", B: "float32"}, {K: "named", N: 2}, {K: "named", N: 6}}[r.Intn(4)], E: g.basicType()}
	case "complex-key":
		g.bad("complex-key")
		return &Ty{K: "map", Key: &Ty{K: "base", B: r.Pick([]string{"complex64", "complex128"})}, E: &Ty{K: "base", B: "int"}}
	case "non-basic-key":
		g.bad("non-basic-key")
		if r.Chance(1, 3) {
			return &Ty{K: "map", Key: &Ty{K: "ptr", E: &Ty{K: "base", B: "int"}}, E: g.basicType()}
		}
		if r.Chance(1, 3) {
			return &Ty{K: "map", Key: &Ty{K: "struct", N: fixedBase + 9}, E: g.basicType()}
		}
		return &Ty{K: "map", Key: &Ty{K: "any"}, E: g.basicType()}
	default: // non-finite-float
		return []*Ty{{K: "base", B: "float64"}, {K: "base", B: "float32"}, {K: "named", N: 2}, {K: "named", N: 6}}[r.Intn(4)]
	}
}

// wrap puts (t, v) into a randomly chosen valid context
func (g *gen) wrap(t *Ty, v *V) (*Ty, *V) {
	r := g.r
	concrete := t.K != "iface" && t.K != "any"
	b := t
	for b.K == "ptr" {
		b = b.E
	}
	// may be an element type as it is: the encoder looks the pointer-stripped type up
	elemOK := b.K != "slice" && b.K != "map" && b.K != "array" && b.K != "ncont" || isRegContainer(b)
	if t.K == "ptr" && (t.E.K == "any" || t.E.K == "iface") {
		elemOK = false // the encoder looks up the pointer-stripped element type: an interface type, fine, but keep it simple
	}
	str := &Ty{K: "base", B: "string"}
	key := func() *V { return &V{L: g.lit("string", true)} }
	switch x := r.Intn(8); {
	case x == 0 && concrete:
		return &Ty{K: "ptr", E: t}, &V{P: v}
	case x == 1 && elemOK:
		vs := []*V{v}
		if r.Chance(1, 2) {
			vs = append([]*V{g.value(t, 1)}, vs...)
		}
		return &Ty{K: "slice", E: t}, &V{E: vs}
	case x == 2 && elemOK:
		return &Ty{K: "map", Key: str, E: t}, &V{KV: [][2]*V{{key(), v}}}
	case x == 3 && concrete:
		return &Ty{K: "slice", E: &Ty{K: "any"}}, &V{E: []*V{{Nil: true}, {DT: t, DV: v}}}
	case x == 4 && concrete:
		return &Ty{K: "map", Key: str, E: &Ty{K: "any"}}, &V{KV: [][2]*V{{key(), {DT: t, DV: v}}}}
	default:
		// a field of a new registered struct, as it is or boxed in an [any] field
		ft, fv := t, v
		if concrete && r.Chance(1, 3) {
			ft, fv = &Ty{K: "any"}, &V{DT: t, DV: v}
		}
		nf := 1 + r.Intn(3)
		at := r.Intn(nf)
		id := len(g.structs)
		fields := make([]Field, nf)
		vals := make([]*V, nf)
		// the other fields' types first: they may declare structs of their own
		for j := range fields {
			if j != at {
				fields[j].T = g.anyType(1, true)
			}
		}
		id = len(g.structs)
		for j := range fields {
			fields[j].Name = fmt.Sprintf("R%d_%d", id, j)
			if j == at {
				fields[j].T, vals[j] = ft, fv
			} else {
				vals[j] = g.value(fields[j].T, 1)
			}
		}
		g.structs = append(g.structs, SDecl{ID: id, Reg: true, Fields: fields})
		return &Ty{K: "struct", N: id}, &V{F: vals}
	}
}

// directed malformed case: one malformation, placed in 0..3 nested valid contexts
func (g *gen) badCase() (*Ty, *V) {
	t := g.badLeaf()
	g.forceBad = true
	v := g.value(t, 2)
	g.forceBad = false
	for n := g.r.Intn(4); n > 0; n-- {
		t, v = g.wrap(t, v)
	}
	if t.K == "iface" || t.K == "any" {
		t, v = g.wrap(t, v)
	}
	return t, v
}

func genCase(r *lib.Rng, tier string, i int) *Case {
	g := &gen{r: r, malformed: map[string]bool{}, maxDepth: 4, budget: 40}
	if tier == "thorough" {
		g.maxDepth, g.budget = 6, 90
	}
	g.allowBad = i%5 == 3 // the malformed stream
	g.extOK = i%4 == 1    // every 4th case may use arrays / defined container types
	if g.allowBad {
		g.badKind = r.Pick(badKinds)
	}
	if i%97 == 50 {
		return &Case{TopNil: true, Malformed: []string{"top-level-nil"}}
	}
	if i%61 == 7 {
		return &Case{Probe: probes[(i/61+r.Intn(2)*7)%len(probes)].name, Malformed: []string{"registry-probe"}}
	}
	depth := 1 + r.Intn(g.maxDepth)
	var t *Ty
	if g.allowBad && r.Chance(2, 3) {
		t, v := g.badCase()
		c := &Case{Structs: g.structs, T: t, V: v}
		for m := range g.malformed {
			c.Malformed = append(c.Malformed, m)
		}
		sort.Strings(c.Malformed)
		if i%6 == 2 {
			c.BB = 1 + (i/6)%bbModes // a value the serialiser must refuse (or a recorded finding), inside a real run: the interrupt must fail loudly
		}
		return c
	}
	switch x := r.Intn(10); {
	case x < 3:
		t = g.structType(depth)
		for n := ptrCount(r); n > 0; n-- {
			t = &Ty{K: "ptr", E: t}
		}
	case x == 3: // a checkpoint: the real *checkpoint of compose, or the look-alike *Rec
		t = &Ty{K: "ptr", E: &Ty{K: "struct", N: fixedBase + 3}}
		if r.Chance(2, 3) {
			t = &Ty{K: "ptr", E: &Ty{K: "struct", N: ckptBase}}
			if r.Chance(1, 8) {
				t = &Ty{K: "struct", N: ckptBase + 1 + r.Intn(2)} // a channel record on its own
			}
		}
	default:
		t = g.anyType(depth, false)
	}
	if g.extOK && r.Chance(1, 3) {
		// an array / a registered defined container at top level or directly behind pointers
		if r.Chance(1, 2) {
			t = &Ty{K: "array", N: r.Intn(4), E: g.elemType(depth - 1)}
		} else {
			t = &Ty{K: "ncont", N: r.Intn(3)}
		}
		for n := ptrCount(r); n > 0; n-- {
			t = &Ty{K: "ptr", E: t}
		}
	}
	v := g.value(t, depth)
	c := &Case{Structs: g.structs, T: t, V: v}
	for m := range g.malformed {
		c.Malformed = append(c.Malformed, m)
	}
	sort.Strings(c.Malformed)
	if i%6 == 2 {
		c.BB = 1 + (i/6)%bbModes // through a real graph: interrupt, store, resume (see runBB)
	}
	if len(c.Malformed) == 0 && i%12 == 5 {
		c.Conv = 1 + (i/12)%10 // the value as a stream / as itself in a checkpoint (see runConv)
	}
	if len(c.Malformed) == 0 && i%12 == 11 {
		c.Par = 2 + (i/12)%7 // concurrent round trips of the value (2..8 goroutines)
	}
	return c
}

// ------------------------------------------------------------------ engine

type engine struct{}

func (engine) ID() string { return "C12" }
func (engine) CoqHeader() string {
	return "From Eino Require Import Base.Util Base.Universe Model.Ser Model.SerCheckpoint Corr.C12.\n" + coqFixed()
}
func (engine) CoqCaseType() string { return "ccase" }

func (engine) Generate(r *lib.Rng, tier string, i int) any { return genCase(r, tier, i) }

func (engine) Decode(raw json.RawMessage) (any, error) {
	var c Case
	if err := json.Unmarshal(raw, &c); err != nil {
		return nil, err
	}
	return &c, nil
}

func (engine) Run(c any) lib.Result { return runCase(c.(*Case)) }

func main() { lib.Main(engine{}) }
