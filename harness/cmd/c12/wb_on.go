//go:build verif_c12wb

package main

// White-box tie: the harness is built with the sub-tag verif_c12wb, which switches on the C12
// re-exports in /repo (compose/verif_c12*.go, internal/serialization/verif_c12.go).  Every use of
// them goes through the wrappers below; wb_off.go holds their black-box twins, used when the group
// no longer compiles against a tree (./check then builds the harness with -tags verif only).

import (
	"reflect"

	"github.com/cloudwego/eino/compose"
)

const whitebox = true

func wbCheckpointTypes() map[string]reflect.Type { return compose.VerifC12CheckpointTypes() }

func wbMarshal(v any) ([]byte, error) { return compose.VerifC12Marshal(v) }

func wbUnmarshal(data []byte) (any, error) { return compose.VerifC12Unmarshal(data) }

func wbRegisterType(key string, t reflect.Type) error { return compose.VerifC12RegisterType(key, t) }

func wbRegistered(t reflect.Type) (string, bool) { return compose.VerifC12Registered(t) }

func wbCheckpointScenario(cp any) (out any, bytes int, setErr error, getErr error) {
	return compose.VerifC12CheckpointScenario(cp)
}

func wbConvertRestore(chunks []any, resumeStream bool) (stored any, restored []any, value any, err error) {
	return compose.VerifC12ConvertRestore(chunks, resumeStream)
}

func wbConvertRestoreValue(val any, resumeStream bool) (stored any, restored []any, value any, err error) {
	return compose.VerifC12ConvertRestoreValue(val, resumeStream)
}

func wbIsNilChunk(v any) bool { return compose.VerifC12IsNilChunk(v) }
