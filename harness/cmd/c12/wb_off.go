//go:build !verif_c12wb

package main

// Black-box tie: built without the white-box group (see wb_on.go), i.e. against a tree in which the
// C12 re-exports no longer compile (a rename in checkpoint.go / serialization.go that they do not
// follow).  Nothing private of eino is reachable then.  What remains is the public API: types of the
// fixed family are registered with compose.RegisterSerializableType, and every case that needs
// nothing else is taken through a real graph that is interrupted, written to a CheckPointStore and
// resumed (runBB: the value sits in the graph state and in a pending node input, so it goes through
// serialization.Marshal / Unmarshal and convertCheckPoint / restoreCheckPoint exactly as in a run).
// Cases that need a private entry point (reflect.StructOf types, which only the hook can register;
// compose's own checkpoint record types; the stream-conversion hook; registry probes that read the
// registry; Marshal(nil)) are skipped and counted under the tag whitebox:skipped.

import (
	"errors"
	"reflect"
)

const whitebox = false

var errNoWhitebox = errors.New("white-box group of C12 unavailable")

// stand-ins for compose's private record types: never built (cases that mention them are skipped),
// they only keep the tables of the harness well-formed
type bbNoCheckpoint struct{ NoWhitebox int }
type bbNoDag struct{ NoWhitebox int8 }
type bbNoPregel struct{ NoWhitebox int16 }
type bbNoChannel interface{ bbNoChannel() }
type bbNoDepState uint8

func wbCheckpointTypes() map[string]reflect.Type {
	return map[string]reflect.Type{
		"checkpoint": reflect.TypeOf(bbNoCheckpoint{}),
		"dag":        reflect.TypeOf(bbNoDag{}),
		"pregel":     reflect.TypeOf(bbNoPregel{}),
		"channel":    reflect.TypeOf((*bbNoChannel)(nil)).Elem(),
		"depstate":   reflect.TypeOf(bbNoDepState(0)),
	}
}

func wbMarshal(v any) ([]byte, error) { return nil, errNoWhitebox }

func wbUnmarshal(data []byte) (any, error) { return nil, errNoWhitebox }

func wbRegisterType(key string, t reflect.Type) error { return errNoWhitebox }

func wbRegistered(t reflect.Type) (string, bool) { return "", false }

func wbCheckpointScenario(cp any) (out any, bytes int, setErr error, getErr error) {
	return nil, 0, errNoWhitebox, nil
}

func wbConvertRestore(chunks []any, resumeStream bool) (stored any, restored []any, value any, err error) {
	return nil, nil, nil, errNoWhitebox
}

func wbConvertRestoreValue(val any, resumeStream bool) (stored any, restored []any, value any, err error) {
	return nil, nil, nil, errNoWhitebox
}

func wbIsNilChunk(v any) bool { return false }
