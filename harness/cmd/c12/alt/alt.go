// Package alt declares a type with the same name as one of the C12 engine's own named
// types (main.NInt) in another package: the registry must keep the two apart.
package alt

type NInt int
