// Engine C05 — interrupt + resume == uninterrupted (shared code in harness/intr).
package main

import (
	"verif/harness/intr"
	"verif/harness/lib"
)

func main() { lib.Main(intr.Engine{Prop: "C05"}) }
