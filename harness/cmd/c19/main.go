// main.go: engine C19 — oracle (producers released, no framework goroutine left, every
// internal stream drained or closed) and the observables sent to the model.
package main

import (
	"encoding/json"
	"fmt"
	"os"
	"regexp"
	"runtime"
	"sort"
	"strconv"
	"strings"
	"sync/atomic"
	"time"

	"github.com/cloudwego/eino/schema"

	"verif/harness/lib"
)

type engine struct{}

func main() { lib.Main(engine{}) }

func (engine) ID() string { return "C19" }
func (engine) CoqHeader() string {
	return "From Eino Require Import Base.Util Model.StreamAcct Model.StreamRun Corr.C19.\nOpen Scope N_scope.\n"
}
func (engine) CoqCaseType() string { return "ccase" }

func (engine) Generate(r *lib.Rng, tier string, i int) any {
	c := genCase(r, tier)
	storm, prelude := stormOf(c, tier), preludeOf(c) // both derived from the case as generated
	tails := tailsOf(c)
	c.Storm, c.Prelude = storm, prelude
	for i, t := range tails {
		c.Nodes[i].Tail = t
	}
	return c
}

func (engine) Decode(raw json.RawMessage) (any, error) {
	c := &Case{}
	if err := json.Unmarshal(raw, c); err != nil {
		return nil, err
	}
	return c, nil
}

// ---------------------------------------------------------------- goroutine dump

var goHdr = regexp.MustCompile(`^goroutine (\d+) \[([^\]]*)\]:`)

type goro struct {
	id    int
	state string
	text  string
}

var dumpBuf = make([]byte, 256<<10)

func dumpGoroutines() []goro {
	var buf []byte
	for {
		n := runtime.Stack(dumpBuf, true)
		if n < len(dumpBuf) {
			buf = dumpBuf[:n]
			break
		}
		dumpBuf = make([]byte, 2*len(dumpBuf))
	}
	var out []goro
	for i, blk := range strings.Split(string(buf), "\n\n") {
		m := goHdr.FindStringSubmatch(blk)
		if m == nil || i == 0 { // block 0 is the calling goroutine
			continue
		}
		id, _ := strconv.Atoi(m[1])
		out = append(out, goro{id: id, state: m[2], text: blk})
	}
	return out
}

var frameworkFrames = []string{
	"github.com/cloudwego/eino/schema.",
	"github.com/cloudwego/eino/compose.",
	"github.com/cloudwego/eino/internal/",
	"main.produce(",
	"main.forward(",
}

func isFramework(g goro) bool {
	for _, f := range frameworkFrames {
		if strings.Contains(g.text, f) {
			return true
		}
	}
	return false
}

// topFrame names the innermost eino / harness function of a goroutine (for the report).
func topFrame(g goro) string {
	for _, line := range strings.Split(g.text, "\n") {
		for _, f := range frameworkFrames {
			if strings.HasPrefix(line, strings.TrimSuffix(f, "(")) || strings.Contains(line, f) && !strings.HasPrefix(line, "\t") {
				if i := strings.Index(line, "("); i > 0 {
					s := line[:strings.LastIndex(line, "(")]
					s = strings.TrimPrefix(s, "github.com/cloudwego/eino/")
					return regexp.MustCompile(`\[[^\]]*\]`).ReplaceAllString(s, "")
				}
			}
		}
	}
	return "?"
}

// ---------------------------------------------------------------- accounting log

type hookSummary struct {
	Copies        []int `json:"copies"`         // sizes of copyItem copies made by resolveCompletedTasks, sorted
	ResolveCloses int   `json:"resolve_closes"` // outermost closes issued by resolveCompletedTasks
	UpdateCloses  int   `json:"update_closes"`  // ... by channelManager.updateValues
	ChanCloses    int   `json:"chan_closes"`    // ... by dagChannel.reportValues (skipped channel)
	SkipCloses    int   `json:"skip_closes"`    // ... by dagChannel.reportSkip (channel becomes skipped)
	Merges        []int `json:"merges"`         // sizes of the mergeValues calls of channel.get, sorted
	CPDrains      int   `json:"cp_drains"`      // streams concatenated (drained and closed) by checkPointer.convertCheckPoint
	InputCloses   int   `json:"input_closes"`   // ignored inputs of resumed calls closed by runner.run
	// closes issued by the run loop that could not be attributed to one of the five functions above (white-box
	// attribution by function name unavailable: the model side compares totals); Unattributed counts every
	// engine event (copy / close / merge) attributed by position only
	UnattributedCloses int            `json:"unattributed_closes,omitempty"`
	Unattributed       int            `json:"unattributed,omitempty"`
	OtherMerges        map[string]int `json:"other_merges,omitempty"`
	CallbackCopies     []int          `json:"callback_copies,omitempty"`
	OtherCopies        map[string]int `json:"other_copies,omitempty"`
	OtherCloses        map[string]int `json:"other_closes,omitempty"`
	Parents            int            `json:"copy_parents"`
	Streams            int            `json:"streams"`
	Undrained          []string       `json:"undrained,omitempty"` // copy parents / streams neither fully closed nor drained
}

// ---- white-box attribution of an engine event to the function of the run loop that issued it.
// The hook reports the callers outside package schema, innermost first. An event of the run loop starts with
// the packer method (compose.streamReaderPacker.close / copy / merge); it belongs to the innermost of the known
// functions on the chain. Private helpers between the two (a loop extracted into a function or a closure of the
// known function, copyItem, mergeValues) are stepped over: plain functions of package compose and methods of the
// run-loop types. A closure of another function, a method of another type or a frame of another package ends
// the walk: the event was issued by a handler / a node / a converter, not by the run loop (attrOther).
// attrUnknown: the chain consists of run-loop frames only and none of them is a known function — the functions
// have other names than the ones this harness knows.
const (
	actResolve      = "(*runner).resolveCompletedTasks"
	actUpdate       = "(*channelManager).updateValues"
	actReportValues = "(*dagChannel).reportValues"
	actReportSkip   = "(*dagChannel).reportSkip"
	actRun          = "(*runner).run"
	actDagGet       = "(*dagChannel).get"
	actPregelGet    = "(*pregelChannel).get"

	attrKnown   = 0
	attrOther   = 1
	attrUnknown = 2
)

var (
	closeActors = []string{actResolve, actUpdate, actReportValues, actReportSkip, actRun}
	copyActors  = []string{actResolve}
	mergeActors = []string{actDagGet, actPregelGet}
	closureSfx  = regexp.MustCompile(`(\.func\d+|\.\d+|\.gowrap\d+)+$`)
	runLoopRecv = []string{"(*runner).", "(*channelManager).", "(*dagChannel).", "(*pregelChannel)."}
)

func attribute(origin, first string, actors []string) (string, int) {
	frames := strings.Split(origin, "<")
	// the engine reaches schema through its packer (compose/stream_reader.go); the method's name is not insisted on
	if len(frames) == 0 || (frames[0] != first && !strings.HasPrefix(frames[0], "compose.streamReaderPacker.")) {
		return "", attrOther
	}
	methods := 0
	for _, f := range frames[1:] {
		if !strings.HasPrefix(f, "compose.") {
			return "", attrOther
		}
		name := strings.TrimPrefix(f, "compose.")
		base := closureSfx.ReplaceAllString(name, "")
		for _, a := range actors {
			if base == a {
				if a == actRun && methods > 0 {
					// everything the run loop does is below runner.run: only a close issued by run itself (or by
					// a plain helper of it) is the close of the ignored input
					return "", attrUnknown
				}
				return a, attrKnown
			}
		}
		if base != name {
			return "", attrOther // a closure of a function that is not a known one
		}
		if strings.HasPrefix(name, "(") {
			ok := false
			for _, r := range runLoopRecv {
				if strings.HasPrefix(name, r) {
					ok = true
				}
			}
			if !ok {
				return "", attrOther
			}
			methods++
		}
	}
	return "", attrUnknown
}

func shortOrigin(o string) string {
	parts := strings.Split(o, "<")
	if len(parts) > 3 {
		parts = parts[:3]
	}
	return strings.Join(parts, "<")
}

func summarise(ev []schema.VerifC19Event) hookSummary {
	s := hookSummary{Copies: []int{}, Merges: []int{}, OtherCopies: map[string]int{}, OtherCloses: map[string]int{}, OtherMerges: map[string]int{}}
	type parent struct {
		n, closed int
		eof       bool
		done      map[int]bool // children that were closed or handed io.EOF
	}
	type stream struct{ closedRecv, eof bool }
	parents := map[int]*parent{}
	streams := map[int]*stream{}
	for _, e := range ev {
		switch e.Kind {
		case "copy":
			// a copy made by the run loop: copyItem called from resolveCompletedTasks, directly or through private
			// helpers of the run loop (attribute); a copy of the engine that cannot be attributed (the functions
			// were renamed) is counted with them — the engine has no other copy site than the callbacks'
			actor, kind := attribute(e.Origin, "compose.streamReaderPacker.copy", copyActors)
			switch {
			case strings.Contains(e.Origin, "internal/callbacks."): // OnWithStreamHandle, under whatever name
				s.CallbackCopies = append(s.CallbackCopies, e.N)
			case kind == attrKnown && actor == actResolve:
				s.Copies = append(s.Copies, e.N)
			case kind == attrUnknown:
				s.Copies = append(s.Copies, e.N)
				s.Unattributed++
			default:
				s.OtherCopies[shortOrigin(e.Origin)]++
			}
		case "close":
			actor, kind := attribute(e.Origin, "compose.streamReaderPacker.close", closeActors)
			switch {
			case kind == attrKnown && actor == actResolve:
				s.ResolveCloses++
			case kind == attrKnown && actor == actUpdate:
				s.UpdateCloses++
			case kind == attrKnown && actor == actReportValues:
				s.ChanCloses++
			case kind == attrKnown && actor == actReportSkip:
				s.SkipCloses++
			case kind == attrKnown && actor == actRun:
				s.InputCloses++
			case kind == attrUnknown:
				// a close issued by the run loop from a function this harness does not know (renamed): the model
				// side then compares the total number of closes instead of the number per origin
				s.UnattributedCloses++
				s.Unattributed++
			default:
				if strings.Contains(e.Origin, "<compose.convert<compose.(*streamConverter).convert") {
					s.CPDrains++
				}
				s.OtherCloses[shortOrigin(e.Origin)]++
			}
		case "merge":
			_, kind := attribute(e.Origin, "compose.streamReaderPacker.merge", mergeActors)
			switch kind {
			case attrKnown:
				s.Merges = append(s.Merges, e.N)
			case attrUnknown:
				s.Merges = append(s.Merges, e.N)
				s.Unattributed++
			default:
				s.OtherMerges[shortOrigin(e.Origin)]++
			}
		case "child_new":
			parents[e.ID] = &parent{n: e.N, done: map[int]bool{}}
		case "child_close":
			if p := parents[e.ID]; p != nil {
				p.closed++
				p.done[e.N] = true
			}
		case "child_end":
			if p := parents[e.ID]; p != nil {
				p.done[e.N] = true
			}
		case "child_eof":
			if p := parents[e.ID]; p != nil {
				p.eof = true
			}
		case "stream_new":
			streams[e.ID] = &stream{}
		case "stream_close_recv":
			if st := streams[e.ID]; st != nil {
				st.closedRecv = true
			}
		case "stream_eof":
			if st := streams[e.ID]; st != nil {
				st.eof = true
			}
		}
	}
	sort.Ints(s.Copies)
	sort.Ints(s.CallbackCopies)
	sort.Ints(s.Merges)
	if len(s.OtherMerges) == 0 {
		s.OtherMerges = nil
	}
	s.Parents, s.Streams = len(parents), len(streams)
	for id, p := range parents {
		if !p.eof && p.closed < p.n {
			s.Undrained = append(s.Undrained, fmt.Sprintf("copy-parent#%d: %d of %d children closed, source not drained", id, p.closed, p.n))
			continue
		}
		// every single copy is a stream the framework created: its reader closes it or reads it to its end
		// (a copy nobody was given stays behind even when the other copies drain the source)
		for i := 0; i < p.n; i++ {
			if !p.done[i] {
				s.Undrained = append(s.Undrained, fmt.Sprintf("copy-parent#%d: copy %d of %d neither closed nor read to its end", id, i, p.n))
			}
		}
	}
	for id, st := range streams {
		if !st.eof && !st.closedRecv {
			s.Undrained = append(s.Undrained, fmt.Sprintf("stream#%d: neither drained nor closed by its reader", id))
		}
	}
	sort.Strings(s.Undrained)
	if len(s.OtherCopies) == 0 {
		s.OtherCopies = nil
	}
	if len(s.OtherCloses) == 0 {
		s.OtherCloses = nil
	}
	return s
}

// ---------------------------------------------------------------- observation

type Obs struct {
	Class     string                 `json:"class"`
	Msg       string                 `json:"msg,omitempty"`
	Chunks    int                    `json:"chunks"`
	EOF       bool                   `json:"eof"`
	Execs     []string               `json:"execs"`
	Sched     [][]string             `json:"sched"`             // batches of completed tasks as taskManager.wait returned them
	Producers []string               `json:"producers"`         // name:state
	Blocked   []string               `json:"blocked,omitempty"` // producers still running after the settle period
	Leaked    []string               `json:"leaked,omitempty"`  // goroutines with framework / producer frames after the settle period
	Hook      hookSummary            `json:"hook"`
	Events    []schema.VerifC19Event `json:"events,omitempty"` // only when the direct oracle fails: the accounting log
	SettleMs  int                    `json:"-"`
}

// C19_TIMING=1: where the wall time of the harness goes (stderr, every 200 cases)
var (
	timing                                  = os.Getenv("C19_TIMING") != ""
	timeRun, timeSettle, timeLoop, timeDump time.Duration
	timeCases, timeIters                    int
)

const (
	settleQuiet = 150 * time.Millisecond
	settleHard  = 10 * time.Second
)

// settleOut is what the settle loop found after a call (or a prelude of calls) returned
type settleOut struct {
	blocked, leaked []string
	sum             hookSummary
	earlyWhy        string // why the run counts as unfinished (outside the property), judged right after it returned
	events          []schema.VerifC19Event
}

func baseline() (map[int]bool, int) {
	base := map[int]bool{}
	for _, g := range dumpGoroutines() {
		base[g.id] = true
	}
	return base, runtime.NumGoroutine()
}

// settle waits for the run to go quiet, stops the accounting log and says what was left behind
func settle(c *Case, e *env, base map[int]bool, baseN int, out runOut) settleOut {
	// settle: poll until every producer is released, no new framework goroutine is left and every
	// internal stream is drained or closed. A failure verdict is only given once the run is
	// quiescent: for settleQuiet no accounting event was logged and every goroutine created
	// since the start of the case stayed parked in the same state (so a slow machine delays the
	// verdict instead of changing it); settleHard bounds the wait.
	var blocked, leaked []string
	var sum hookSummary
	t0 := time.Now()
	lastSig, quietSince, settled := "", time.Now(), false
	pause, polls := 100*time.Microsecond, 0
	// a run that returned while a node it had started was not collected (or, any-predecessor mode, with a node
	// scheduled beside END) is outside the property and gets no verdict below; what makes it so cannot be undone
	// after the run has returned, so there is no need to wait for such a run to go quiet
	earlyWhy := ""
	if out.class == "ok" {
		earlyWhy = unfinished(c, e)
	}
	earlyEnd := earlyWhy != ""
	// a goroutine dump stops the world and costs a millisecond or two: while the goroutine count says that
	// goroutines of this case are still winding down, wait without dumping (bounded; the verdict is always
	// given on a dump)
	for i := 0; i < 2000 && runtime.NumGoroutine() > baseN; i++ {
		runtime.Gosched() // no sleep: on a loaded machine a sleep of any length costs a millisecond or more
	}
	for {
		timeIters++
		blocked, leaked = nil, nil
		e.mu.Lock()
		prods := append([]*producer(nil), e.producers...)
		e.mu.Unlock()
		for _, p := range prods {
			if atomic.LoadInt32(&p.state) == 0 {
				blocked = append(blocked, p.name)
			}
		}
		var sig strings.Builder
		active := false
		tDump := time.Now()
		gs := dumpGoroutines()
		if timing {
			timeDump += time.Since(tDump)
		}
		for _, g := range gs {
			if base[g.id] {
				continue
			}
			st := strings.SplitN(g.state, ",", 2)[0]
			fmt.Fprintf(&sig, "%d:%s;", g.id, st)
			switch st {
			case "running", "runnable", "syscall", "sleep", "IO wait":
				active = true
			}
			if isFramework(g) {
				leaked = append(leaked, fmt.Sprintf("[%s] %s", st, topFrame(g)))
			}
		}
		ev := schema.VerifC19Snapshot()
		sum = summarise(ev)
		fmt.Fprintf(&sig, "ev=%d", len(ev))
		if len(blocked) == 0 && len(leaked) == 0 && len(sum.Undrained) == 0 {
			settled = true
			break
		}
		now := time.Now()
		if active || sig.String() != lastSig {
			lastSig, quietSince = sig.String(), now
		} else if now.Sub(quietSince) >= settleQuiet {
			break
		}
		if now.Sub(t0) > settleHard || out.class == "hang" {
			break
		}
		if (out.class != "ok" || earlyEnd) && now.Sub(t0) > 8*time.Millisecond {
			break // no verdict is given on a run that did not complete
		}
		// most runs are quiet within a fraction of a millisecond: poll quickly at first, then every 2 ms
		runtime.Gosched()
		if polls++; polls > 12 { // on a loaded machine a sleep of any length costs a millisecond or more: yield first
			time.Sleep(pause)
			if pause < 2*time.Millisecond {
				pause *= 2
			}
		}
	}
	_ = settled
	if timing {
		timeLoop += time.Since(t0)
	}
	if os.Getenv("C19_DEBUG") != "" {
		for _, g := range dumpGoroutines() {
			if !base[g.id] && isFramework(g) {
				fmt.Fprintln(os.Stderr, g.text+"\n")
			}
		}
		for _, ev := range schema.VerifC19Snapshot() {
			fmt.Fprintf(os.Stderr, "%+v\n", ev)
		}
	}
	finalEvents := schema.VerifC19Stop()
	sort.Strings(blocked)
	sort.Strings(leaked)

	return settleOut{blocked: blocked, leaked: leaked, sum: sum, earlyWhy: earlyWhy, events: finalEvents}
}

func (engine) Run(ci any) lib.Result {
	c := ci.(*Case)
	e := newEnv(c)

	if c.Storm != nil {
		// before the run, with the accounting log off: sibling copies closed at the same moment (storm.go)
		if why := closeStorm(c.Storm); why != "" {
			return lib.Result{Obs: &Obs{Class: "storm", Msg: why, Execs: []string{}, Producers: []string{}},
				Oracle: why, Sig: "close-storm", Tags: []string{"class:storm-failed", "has:close-storm"}}
		}
	}

	base, baseN := baseline()
	schema.VerifC19Start()
	tRun := time.Now()
	r, out := buildCase(e)
	var preTag []string
	if out.class == "" && c.Prelude != "" {
		// earlier calls on the same compiled runnable (prelude.go), judged by the direct oracle alone; the run
		// below is then NOT the first call on this compiled object
		var bad *lib.Result
		if bad, preTag = prelude(c, e, r, base, baseN); bad != nil {
			return *bad
		}
		base, baseN = baseline()
		schema.VerifC19Start()
	}
	if out.class == "" {
		out = runCalls(e, r, []int{c.Read})
	}
	if timing {
		timeRun += time.Since(tRun)
		defer func(t time.Time) {
			timeSettle += time.Since(t)
			timeCases++
			if timeCases%200 == 0 {
				fmt.Fprintf(os.Stderr, "c19 timing: %d cases, run %v, settle+rest %v (settle loop %v, %d polls, dumps %v)\n", timeCases, timeRun, timeSettle, timeLoop, timeIters, timeDump)
			}
		}(time.Now())
	}

	st := settle(c, e, base, baseN, out)
	blocked, leaked, sum, earlyWhy, finalEvents := st.blocked, st.leaked, st.sum, st.earlyWhy, st.events

	obs := Obs{Class: out.class, Msg: out.msg, Chunks: out.chunks, EOF: out.eof, Blocked: blocked, Leaked: leaked, Hook: sum,
		Execs: []string{}, Producers: []string{}, Sched: e.sched}
	e.mu.Lock()
	for _, x := range e.execs {
		obs.Execs = append(obs.Execs, nodeName(x))
	}
	for _, p := range e.producers {
		obs.Producers = append(obs.Producers, fmt.Sprintf("%s:%d", p.name, atomic.LoadInt32(&p.state)))
	}
	e.mu.Unlock()
	sort.Strings(obs.Producers)

	res := lib.Result{Obs: &obs}
	res.Tags = append(tagsOf(c, e, &obs), preTag...)

	if out.class == "panic" || out.class == "hang" {
		res.Oracle = "streaming run " + out.class + ": " + out.msg
		res.Sig = out.class
		return res
	}
	if out.class != "ok" {
		// the run did not complete: outside the property (only completed runs are constrained).
		// What an aborted run leaves behind is recorded in the distribution (abort:clean / abort:leak).
		if out.class == "run_err" || out.class == "stream_err" {
			if len(blocked) == 0 && len(leaked) == 0 && len(sum.Undrained) == 0 {
				res.Tags = append(res.Tags, "abort:clean")
			} else {
				res.Tags = append(res.Tags, "abort:leak")
			}
			res.Tags = append(res.Tags, "abort-kind:"+abortKind(out.msg))
		}
		if out.class == "run_err" && abortKind(out.msg) == "other" {
			// every abort exit the generator plans (a failing node, the step limit, END skipped, a branch that
			// selects nothing) is recognised above; any other error means the engine could not carry a run
			// through that the case gives it no reason to abandon. The property speaks about completed runs
			// only, so this is not a verdict of C19 (round 4: it was an oracle failure, sig unexpected-error,
			// for one evening and fired on a defect of the checkpoint round trip, C05's subject): it goes to
			// the distribution, with the class of the message, so that a change of the count is visible.
			res.Tags = append(res.Tags, "abort:unplanned", "abort-unplanned:"+unplannedKind(out.msg))
		}
		e.releaseAll()
		quiesce(base)
		return res
	}
	why := earlyWhy // what made the run unfinished when it returned cannot be undone afterwards
	if why == "" {
		why = unfinished(c, e) // ... but a task submitted just before the run returned may have started since
	}
	if why != "" {
		// END was reached while a node that had been triggered had not run, or a task was still in
		// flight (eager mode): not every produced value has a consumer / not every node ran or was
		// skipped — outside the property
		obs.Class = "early_end"
		obs.Msg = why
		res.Tags = append(tagsOf(c, e, &obs), preTag...)
		e.releaseAll()
		quiesce(base)
		return res
	}
	// ---- direct oracle
	var fails []string
	if len(blocked) > 0 {
		fails = append(fails, fmt.Sprintf("producer(s) still blocked after the caller finished and the run went quiet: %v", blocked))
		res.Sig = "blocked-producer"
	}
	if len(leaked) > 0 {
		fails = append(fails, fmt.Sprintf("goroutine(s) left behind: %v", leaked))
		if res.Sig == "" {
			res.Sig = "leaked-goroutine"
		}
	}
	if len(sum.Undrained) > 0 {
		fails = append(fails, fmt.Sprintf("internal stream(s) neither drained nor closed: %v", sum.Undrained))
		if res.Sig == "" {
			res.Sig = "undrained-stream"
		}
	}
	res.Oracle = strings.Join(fails, "; ")
	if res.Oracle != "" {
		// the accounting log of the failing run goes into the replay (what was copied, merged and closed by whom)
		obs.Events = finalEvents
		if len(obs.Events) > 600 {
			obs.Events = obs.Events[:600]
		}
	}

	// ---- model case: the whole run, every call of an interrupted and resumed run included
	if term, ok := coqCase(c, e, &sum); ok {
		res.CoqTerm = term
	}
	res.Nontrivial = len(e.producers) > 0 && (len(sum.Copies) > 0 || len(sum.CallbackCopies) > 0 || sum.Streams > len(e.producers))
	return res
}

// quiesce waits, after a run that gets no verdict (aborted, or returned before every started node was collected)
// has been released, until the goroutines it created are gone or parked for good. Such a run goes on in the
// background — a task that was never collected still finishes, fires its callbacks, copies and closes streams —
// and whatever it does would be written into the accounting log of the NEXT case (seen once in round 5: a callback
// copy made for the one handler of an earlier case showed up as an undrained copy parent of a case with two).
func quiesce(base map[int]bool) {
	t0 := time.Now()
	last, since := "", time.Now()
	pause := 100 * time.Microsecond
	for time.Since(t0) < 500*time.Millisecond {
		var sig strings.Builder
		n, active := 0, false
		for _, g := range dumpGoroutines() {
			if base[g.id] {
				continue
			}
			n++
			st := strings.SplitN(g.state, ",", 2)[0]
			fmt.Fprintf(&sig, "%d:%s;", g.id, st)
			switch st {
			case "running", "runnable", "syscall", "sleep", "IO wait":
				active = true
			}
		}
		if n == 0 {
			return
		}
		now := time.Now()
		if active || sig.String() != last {
			last, since = sig.String(), now
		} else if now.Sub(since) >= 40*time.Millisecond {
			return
		}
		runtime.Gosched()
		time.Sleep(pause)
		if pause < time.Millisecond {
			pause *= 2
		}
	}
}

// unplannedKind classifies the message of a run error that no planned abort exit explains (distribution only).
func unplannedKind(msg string) string {
	switch {
	case strings.Contains(msg, "chunk type mismatch"), strings.Contains(msg, "unsupported chunk type"):
		return "restored-any-stream-at-fan-in"
	case strings.Contains(msg, "failed to set checkpoint"):
		return "set-checkpoint"
	case strings.Contains(msg, "checkpoint"):
		return "checkpoint"
	}
	return "other"
}

func abortKind(msg string) string {
	switch {
	case strings.Contains(msg, "node failed on purpose"):
		return "node-error"
	case strings.Contains(msg, "exceeds max steps"):
		return "step-limit"
	case strings.Contains(msg, "unknown node: end"):
		return "end-skipped"
	case strings.Contains(msg, "no tasks to execute"):
		return "no-tasks"
	case strings.Contains(msg, "stream reader is empty, concat fail"):
		// a node that asked for a rerun runs on an empty stream when the run is resumed (its input is not
		// kept); what it passes on may be empty, and a node that needs a value fails on it
		return "empty-concat"
	}
	return "other"
}

// unfinished tells whether the run returned while part of the graph was still to run. In
// all-predecessor mode a node one of whose control predecessors reported "ready" (a control edge
// of an executed node, or a branch of it that selected the node) cannot be skipped any more: it
// must have run. In every mode each started task must have been collected by the run loop.
func unfinished(c *Case, e *env) string {
	e.mu.Lock()
	defer e.mu.Unlock()
	started := map[int]int{}
	for _, x := range e.execs {
		started[x]++
	}
	collected := map[int]int{}
	for key, n := range e.collected {
		if i, ok := nodeIndex(key); ok {
			collected[i] += n
		}
	}
	for x, n := range collected { // a passthrough node has no function of the harness: it started when it was collected
		if c.spec(x).Kind == "pass" {
			started[x] = n
		}
	}
	for x, n := range started {
		if collected[x] != n {
			return fmt.Sprintf("%s started %d time(s), collected %d time(s)", nodeName(x), n, collected[x])
		}
	}
	_, controls := c.callsOf()
	if c.Mode == "pregel" {
		// END must be reached with no other node scheduled: the tasks of the last pass may only have
		// generated END (a generated node would have been scheduled together with END and dropped)
		var passes [][]string // the passes of every call, in order
		for _, seg := range e.segs {
			passes = append(passes, seg.sched...)
		}
		if len(passes) == 0 { // END generated by START itself
			gen := append([]int(nil), controls[START]...)
			for bi := range c.StartBranches {
				if log := e.brLog[[2]int{START, bi}]; len(log) > 0 {
					gen = append(gen, log[0]...)
				}
			}
			for _, y := range gen {
				if y != END {
					return fmt.Sprintf("%s was scheduled together with END (generated by start)", nodeName(y))
				}
			}
			return ""
		}
		occ := map[int]int{}
		for _, b := range passes[:len(passes)-1] {
			for _, key := range b {
				if i, ok := nodeIndex(key); ok {
					occ[i]++
				}
			}
		}
		for _, key := range passes[len(passes)-1] {
			x, ok := nodeIndex(key)
			if !ok || x >= subBase {
				continue
			}
			gen := append([]int(nil), controls[x]...)
			for bi := range c.Nodes[x].Branches {
				if log := e.brLog[[2]int{x, bi}]; occ[x] < len(log) {
					gen = append(gen, log[occ[x]]...)
				}
			}
			for _, y := range gen {
				if y != END {
					return fmt.Sprintf("%s was scheduled together with END (generated by %s)", nodeName(y), nodeName(x))
				}
			}
		}
		return ""
	}
	check := func(from int, brs []BranchSpec, k int) string {
		// a control edge triggers its target whatever the branches of the node select (665541a)
		trig := append([]int(nil), controls[from]...)
		for bi := range brs {
			if log := e.brLog[[2]int{from, bi}]; k < len(log) {
				trig = append(trig, log[k]...)
			}
		}
		for _, y := range trig {
			if y != END && started[y] == 0 && collected[y] == 0 {
				return fmt.Sprintf("%s was triggered by %s and did not run", nodeName(y), nodeName(from))
			}
		}
		return ""
	}
	if w := check(START, c.StartBranches, 0); w != "" {
		return w
	}
	for x := range c.Nodes {
		if started[x] > 0 || collected[x] > 0 {
			if w := check(x, c.Nodes[x].Branches, 0); w != "" {
				return w
			}
		}
	}
	return ""
}

// coqGraph renders the chanCalls of one graph (START first) for the model.
func coqGraph(nodes []NodeSpec, startBranches []BranchSpec, writeTo, controls map[int][]int, nodata bool) string {
	callOf := func(node int, brs []BranchSpec) string {
		var bs []string
		for _, b := range brs {
			bs = append(bs, lib.CoqApp("mkbd", lib.CoqBool(nodata), coqKeys(b.Ends)))
		}
		return lib.CoqPair(lib.CoqN(coqKey(node)), lib.CoqApp("mkc", coqKeys(writeTo[node]), coqKeys(controls[node]), lib.CoqList(bs)))
	}
	calls := []string{callOf(START, startBranches)}
	for i := range nodes {
		calls = append(calls, callOf(i, nodes[i].Branches))
	}
	return lib.CoqList(calls)
}

// coqEntry renders one collected task with the outcome of its branch conditions (the k-th execution of a
// node uses the k-th logged evaluation of each of its branches; seen counts the executions across runs).
func coqEntry(e *env, id, local int, brs []BranchSpec, seen map[int]int) (string, bool) {
	k := seen[id]
	seen[id]++
	var outs []string
	for bi := range brs {
		log := e.brLog[[2]int{id, bi}]
		if k >= len(log) {
			return "", false
		}
		outs = append(outs, coqKeys(log[k]))
	}
	return lib.CoqPair(lib.CoqN(coqKey(local)), lib.CoqList(outs)), true
}

// coqCall renders one recorded call: its batches and the tasks that interrupted themselves (those carry
// no branch outcomes: their branches were not evaluated).
func coqCall(e *env, call callRec, nodes []NodeSpec, idOf func(int) int, seen map[int]int) (string, bool) {
	localOf := func(key string) (int, int, bool) {
		id, ok := nodeIndex(key)
		if !ok {
			return 0, 0, false
		}
		for j := range nodes {
			if idOf(j) == id {
				return id, j, true
			}
		}
		return 0, 0, false
	}
	var out []string
	for bi, b := range call.sched {
		isRR := map[string]bool{}
		var rr []uint64
		for _, k := range call.rr[bi] {
			isRR[k] = true
			_, local, ok := localOf(k)
			if !ok {
				return "", false
			}
			rr = append(rr, coqKey(local))
		}
		var items []string
		for _, key := range b {
			id, local, ok := localOf(key)
			if !ok {
				return "", false
			}
			if isRR[key] {
				items = append(items, lib.CoqPair(lib.CoqN(coqKey(local)), lib.CoqList(nil)))
				continue
			}
			it, ok := coqEntry(e, id, local, nodes[local].Branches, seen)
			if !ok {
				return "", false
			}
			items = append(items, it)
		}
		out = append(out, lib.CoqPair(lib.CoqList(items), lib.CoqNList(rr)))
	}
	return lib.CoqList(out), true
}

// coqCase renders the compiled graph (chanCall of START and of every node), the interrupt
// configuration, the calls of the run (the first run and every resumed run), each with its schedule
// (the batches of completed tasks with the outcome of their branch conditions), the runs of the nested
// graphs (each with its own graph and schedule) and the hook observables (totals over all runs).
func coqCase(c *Case, e *env, sum *hookSummary) (string, bool) {
	e.mu.Lock()
	defer e.mu.Unlock()
	writeTo, controls := c.callsOf()
	seen := map[int]int{}
	ident := func(i int) int { return i }
	start, ok := coqEntry(e, START, START, c.StartBranches, seen)
	if !ok {
		return "", false
	}
	var tms []string
	// successful completions of every top-level node (a nested graph node: its finished runs)
	done := map[int]int{}
	fired := []uint64{}
	for _, call := range e.segs {
		tm, ok := coqCall(e, call, c.Nodes, ident, seen)
		if !ok {
			return "", false
		}
		tms = append(tms, tm)
		for bi, b := range call.sched {
			isRR := map[string]bool{}
			for _, k := range call.rr[bi] {
				isRR[k] = true
			}
			for _, key := range b {
				id, ok := nodeIndex(key)
				if !ok || id >= subBase {
					return "", false
				}
				if !isRR[key] {
					done[id]++
					fired = append(fired, coqKey(id))
				}
			}
		}
	}
	// nested graph nodes: the recorded calls of all the runs of a node, in order; a call belongs to the
	// outer node named in its first task
	callsOfNode := map[int][]callRec{}
	for _, call := range e.subCalls {
		if len(call.sched) == 0 || len(call.sched[0]) == 0 {
			return "", false // a nested call without a task cannot be attributed
		}
		id, ok := nodeIndex(call.sched[0][0])
		if !ok || id < subBase {
			return "", false
		}
		outer := id/subBase - 1
		if outer >= len(c.Nodes) || c.Nodes[outer].Sub == nil {
			return "", false
		}
		callsOfNode[outer] = append(callsOfNode[outer], call)
	}
	var subs []string
	for outer := range c.Nodes {
		sub := c.Nodes[outer].Sub
		if sub == nil || (done[outer] == 0 && len(callsOfNode[outer]) == 0) {
			continue
		}
		sw, sc := map[int][]int{START: sub.StartSucc}, map[int][]int{START: sub.StartSucc}
		for j, n := range sub.Nodes {
			sw[j], sc[j] = n.Succ, n.Succ
		}
		idOf := func(j int) int { return subBase*(outer+1) + j }
		var starts []string
		for k := 0; k < done[outer]; k++ { // one run per execution of the node
			st, ok := coqEntry(e, subBase*(outer+1)+subStart, START, sub.StartBranches, seen)
			if !ok {
				return "", false
			}
			starts = append(starts, lib.CoqList([]string{st}))
		}
		var stms []string
		for _, call := range callsOfNode[outer] {
			tm, ok := coqCall(e, call, sub.Nodes, idOf, seen)
			if !ok {
				return "", false
			}
			stms = append(stms, tm)
		}
		subs = append(subs, lib.CoqApp("mkSubs", lib.CoqBool(sub.Mode != "pregel"), coqGraph(sub.Nodes, sub.StartBranches, sw, sc, false),
			coqKeys(sub.IntBefore), coqKeys(sub.IntAfter), lib.CoqList(starts), lib.CoqList(stms)))
	}
	sort.Slice(fired, func(i, j int) bool { return fired[i] < fired[j] })
	cps := make([]string, len(sum.Copies))
	for i, n := range sum.Copies {
		cps[i] = lib.CoqZ(int64(n))
	}
	// every execution of a node: its streaming callback sites and the handlers that apply to it
	var sides []string
	handlersAt := func(x int) int {
		n := c.Handlers
		for _, y := range c.HandlerNodes {
			if y == x {
				n++
			}
		}
		return n
	}
	for k, x := range e.execs {
		n := streamSides(c.spec(x))
		if e.execRerun[k] {
			n = 1 // the execution ends with an error: only its input side is a streaming callback site
		}
		sides = append(sides, lib.CoqPair(lib.CoqNat(n), lib.CoqNat(handlersAt(x))))
	}
	passKeys := []string{}
	for key := range e.collected {
		passKeys = append(passKeys, key)
	}
	sort.Strings(passKeys)
	for _, key := range passKeys {
		if x, ok := nodeIndex(key); ok && c.spec(x).Kind == "pass" {
			for k := 0; k < e.collected[key]; k++ {
				sides = append(sides, lib.CoqPair(lib.CoqNat(passSides), lib.CoqNat(handlersAt(x))))
			}
		}
	}
	cbc := make([]string, len(sum.CallbackCopies))
	for i, n := range sum.CallbackCopies {
		cbc[i] = lib.CoqZ(int64(n))
	}
	mgs := make([]string, len(sum.Merges))
	for i, n := range sum.Merges {
		mgs[i] = lib.CoqNat(n)
	}
	return lib.CoqApp("mkRS", lib.CoqBool(c.Mode != "pregel"), lib.CoqBool(c19Eager(c)),
		coqGraph(c.Nodes, c.StartBranches, writeTo, controls, c.Mode == "workflow"),
		coqKeys(c.IntBefore), coqKeys(c.IntAfter), lib.CoqList([]string{start}), lib.CoqList(tms), lib.CoqList(subs),
		lib.CoqList(cps), lib.CoqNat(sum.ResolveCloses), lib.CoqNat(sum.UpdateCloses), lib.CoqNat(sum.ChanCloses), lib.CoqNat(sum.SkipCloses),
		lib.CoqList(mgs), lib.CoqNList(fired),
		lib.CoqNat(c.Handlers), lib.CoqList(sides), lib.CoqList(cbc),
		lib.CoqNat(sum.CPDrains), lib.CoqNat(sum.InputCloses), lib.CoqNat(sum.UnattributedCloses)), true
}

// passSides: the streaming callback sites of one execution of a passthrough node.
const passSides = 0

// streamSides: how many sides of a lambda's own paradigm are streams (its callbacks are
// injected around the user function in that paradigm).
func streamSides(n *NodeSpec) int {
	if n.Fail {
		return 1 // a failing node is a TransformableLambda that never reaches OnEnd
	}
	switch n.Kind {
	case "prod", "coll":
		return 1
	case "tools": // the StreamableLambda and the streamed output of every tool call
		return 1 + n.Tools
	case "xform", "conv", "ident", "anyx":
		return 2
	}
	return 0
}

func nodeIndex(key string) (int, bool) {
	if len(key) < 2 || key[0] != 'n' {
		return 0, false
	}
	if k := strings.IndexByte(key, 's'); k > 0 { // inner node "n<i>s<j>"
		i, err1 := strconv.Atoi(key[1:k])
		j, err2 := strconv.Atoi(key[k+1:])
		return subBase*(i+1) + j, err1 == nil && err2 == nil
	}
	i, err := strconv.Atoi(key[1:])
	return i, err == nil
}

func tagsOf(c *Case, e *env, o *Obs) []string {
	mode := c.Mode
	if c.Free {
		mode = "pregel-free"
	}
	t := []string{"mode:" + mode, fmt.Sprintf("nodes:%d", len(c.Nodes)), "class:" + o.Class, "input:" + c.Input,
		fmt.Sprintf("handlers:%d", c.Handlers)}
	switch {
	case c.Read < 0:
		t = append(t, "read:eof")
	case c.Read == 0:
		t = append(t, "read:close-at-once")
	case o.EOF:
		t = append(t, "read:prefix-hit-eof")
	default:
		t = append(t, "read:prefix")
	}
	kinds := map[string]bool{}
	keys := false
	for _, x := range e.execs {
		kinds[c.spec(x).Kind] = true
		if c.spec(x).InKey != "" || c.spec(x).OutKey != "" {
			keys = true
		}
	}
	for key := range e.collected {
		if x, ok := nodeIndex(key); ok && c.spec(x).Kind == "pass" {
			kinds["pass"] = true
		}
	}
	for k := range kinds {
		t = append(t, "ran:"+k)
	}
	if c.SameHandler {
		t = append(t, "opt:same-handler")
	}
	if extraInterrupts(c) {
		t = append(t, "opt:rerun-or-nested-interrupt")
	}
	if len(c.HandlerNodes) > 0 {
		t = append(t, "opt:designated-handler")
	}
	for i := range c.Nodes {
		if c.Nodes[i].Static && c.Mode == "workflow" && staticable(c.Nodes[i].Kind) {
			t = append(t, "opt:static-value")
			break
		}
	}
	if keys {
		t = append(t, "has:keys")
	}
	e.mu.Lock()
	nb, none, several, dup, loop := 0, false, false, false, false
	count := map[int]int{}
	for _, x := range e.execs {
		count[x]++
		if count[x] > 1 {
			loop = true
		}
	}
	specOf := func(node int) ([]int, []BranchSpec) {
		switch {
		case node == START:
			return c.StartSucc, c.StartBranches
		case node >= subBase && node%subBase == subStart:
			sub := c.Nodes[node/subBase-1].Sub
			return sub.StartSucc, sub.StartBranches
		}
		return c.spec(node).Succ, c.spec(node).Branches
	}
	for k, log := range e.brLog {
		succ, brs := specOf(k[0])
		for i, outc := range log {
			nb++
			if brs[k[1]].Multi && len(outc) == 0 {
				none = true
			}
			if len(outc) > 1 {
				several = true
			}
			for _, x := range outc {
				for _, s := range succ {
					if s == x {
						dup = true
					}
				}
				for bj := range brs {
					if bj != k[1] {
						if l2 := e.brLog[[2]int{k[0], bj}]; i < len(l2) {
							for _, y := range l2[i] {
								if y == x {
									dup = true
								}
							}
						}
					}
				}
			}
		}
	}
	e.mu.Unlock()
	if nb > 0 {
		t = append(t, "has:branch")
	}
	if none {
		t = append(t, "has:multi-selects-none")
	}
	if several {
		t = append(t, "has:multi-selects-several")
	}
	if dup {
		t = append(t, "has:target-selected-twice")
	}
	if loop {
		t = append(t, "has:loop")
	}
	if o.Hook.Streams > len(e.producers) {
		t = append(t, "has:merge-forwarder")
	}
	for _, n := range o.Hook.Merges {
		if n > 5 {
			t = append(t, "has:merge-wider-than-static-select")
			break
		}
	}
	if e.resumes > 0 {
		t = append(t, "has:interrupt-resume")
	}
	if len(e.subCalls) > 0 {
		t = append(t, "has:nested-run")
	}
	if e.resumes > 0 {
		t = append(t, fmt.Sprintf("resumes:%d", e.resumes))
	}
	if len(c.IntBefore)+len(c.IntAfter) > 0 {
		t = append(t, "opt:interrupt")
	}
	if c.State {
		t = append(t, "opt:state-handlers")
	}
	if c.Storm != nil {
		t = append(t, "has:close-storm", fmt.Sprintf("storm-copies:%d", c.Storm.Copies))
	}
	if o.Hook.Unattributed > 0 {
		// engine events attributed by position only: the functions of the run loop carry other names than the
		// ones the harness knows (0 on the tree the harness was written for)
		t = append(t, "whitebox:attribution-by-name-unavailable")
	}
	sort.Strings(t)
	return t
}
