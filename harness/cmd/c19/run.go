// run.go: build the graph of a case through the public compose API, run it in streaming
// mode, let the caller stop reading at the chosen point, and collect what happened.
package main

import (
	"context"
	"errors"
	"fmt"
	"io"
	"runtime"
	"strings"
	"sync"
	"sync/atomic"
	"time"

	"github.com/cloudwego/eino/callbacks"
	"github.com/cloudwego/eino/components/tool"
	"github.com/cloudwego/eino/compose"
	"github.com/cloudwego/eino/schema"

	"verif/harness/lib"
)

type M = map[string]any

// producer is one goroutine of the harness that sends into a Pipe.
type producer struct {
	name  string
	state int32 // 0 still running (possibly blocked on Send), 1 sent everything and closed, 2 Send reported closed
}

type env struct {
	c         *Case
	mu        sync.Mutex
	execs     []int              // node executions in start order
	execRerun []bool             // parallel to execs: the execution asked for an interrupt-and-rerun
	brLog     map[[2]int][][]int // (node, branch index) -> outcomes in evaluation order
	producers []*producer
	sched     [][]string     // batches of completed tasks (node keys) as taskManager.wait returned them (C03 trace hook), first run
	scheds    []callRec      // the same for every task manager of the case, in order of first appearance (nested runs, resumed runs)
	reruns    map[int]int    // node id -> executions so far of a node with Rerun > 0
	collected map[string]int // node key -> tasks collected by any run loop of the case (resumed runs included)
	resumes   int
	segs      []callRec      // every call of the top-level runnable that has a task-manager trace (the first run and every resumed run), in order
	subCalls  []callRec      // the calls of the nested graph runs, in order of their start
	pipes     []func()       // drains every Pipe the harness created (used after an aborted run)
	brOff     map[[2]int]int // (node, branch index) -> evaluations made by earlier calls on the same compiled runnable (prelude.go)
}

// callRec is one call of a runnable as its task manager shows it: the batches of collected tasks and
// the tasks that ended with an interrupt of their own (InterruptAndRerun, or an interrupted nested graph).
type callRec struct {
	sched [][]string
	rr    [][]string // parallel to sched: the tasks of the batch that interrupted themselves
}

func newEnv(c *Case) *env {
	return &env{c: c, brLog: map[[2]int][][]int{}, reruns: map[int]int{}, brOff: map[[2]int]int{}}
}

func (e *env) exec(idx int) int {
	e.mu.Lock()
	e.execs = append(e.execs, idx)
	e.execRerun = append(e.execRerun, false)
	pos := len(e.execs) - 1
	e.mu.Unlock()
	return pos
}

func (e *env) addPipe(closeReader func()) {
	e.mu.Lock()
	e.pipes = append(e.pipes, closeReader)
	e.mu.Unlock()
}

// releaseAll drains every pipe of the case so that its producers run to their end. Used only
// after a run that did not complete (outside the property): its blocked producers would otherwise
// pile up in the process. Receiving never panics (closing a stream twice would).
func (e *env) releaseAll() {
	e.mu.Lock()
	ps := e.pipes
	e.pipes = nil
	e.mu.Unlock()
	var wg sync.WaitGroup
	for _, f := range ps {
		wg.Add(1)
		go func(f func()) {
			defer wg.Done()
			lib.Recover(f)
		}(f)
	}
	done := make(chan struct{})
	go func() { wg.Wait(); close(done) }()
	select {
	case <-done:
	case <-time.After(2 * time.Second):
	}
}

func drain[T any](sr *schema.StreamReader[T]) func() {
	return func() {
		for {
			if _, err := sr.Recv(); err != nil {
				return
			}
		}
	}
}

func (e *env) newProducer(name string) *producer {
	p := &producer{name: name}
	e.mu.Lock()
	e.producers = append(e.producers, p)
	e.mu.Unlock()
	return p
}

// decide returns the outcome of the next evaluation of branch bi of node.
func (e *env) decide(node, bi int, b *BranchSpec) []int {
	e.mu.Lock()
	k := len(e.brLog[[2]int{node, bi}])
	out := b.Table[(e.brOff[[2]int{node, bi}]+k)%len(b.Table)]
	e.brLog[[2]int{node, bi}] = append(e.brLog[[2]int{node, bi}], out)
	e.mu.Unlock()
	schema.VerifC19Mark(fmt.Sprintf("branch:%s:%d", nodeName(node), bi))
	return out
}

func yieldNow(i, every int) {
	if every > 0 && i%every == every-1 {
		if i%(2*every) == every-1 {
			runtime.Gosched()
		} else {
			time.Sleep(20 * time.Microsecond)
		}
	}
}

// produce is the body of every sending goroutine of the harness.
func produce(p *producer, items, yield int, send func(i int) bool, closeSend func()) {
	defer closeSend()
	for i := 0; i < items; i++ {
		yieldNow(i, yield)
		if send(i) {
			atomic.StoreInt32(&p.state, 2)
			return
		}
	}
	atomic.StoreInt32(&p.state, 1)
}

// forward is the body of an xform node's goroutine.
func forward(p *producer, in *schema.StreamReader[M], sw *schema.StreamWriter[M], yield int) {
	defer sw.Close()
	defer in.Close()
	for i := 0; ; i++ {
		yieldNow(i, yield)
		ch, err := in.Recv()
		if err == io.EOF {
			atomic.StoreInt32(&p.state, 1)
			return
		}
		if sw.Send(ch, err) {
			atomic.StoreInt32(&p.state, 2)
			return
		}
		if err != nil {
			atomic.StoreInt32(&p.state, 1)
			return
		}
	}
}

func chunkOf[O any](name string, i int) O {
	var o O
	switch p := any(&o).(type) {
	case *string:
		*p = fmt.Sprintf("%s.%d,", name, i)
	case *M:
		*p = M{name: fmt.Sprintf("%d,", i)}
	default:
		panic("chunkOf: unsupported type")
	}
	return o
}

func readPrefix[T any](in *schema.StreamReader[T], k int) error {
	defer in.Close()
	for i := 0; i < k; i++ {
		_, err := in.Recv()
		if err == io.EOF {
			return nil
		}
		if err != nil {
			return err
		}
	}
	return nil
}

func keyedLambda[I, O any](e *env, idx int) *compose.Lambda {
	spec := *e.c.spec(idx)
	name := nodeName(idx)
	switch spec.Kind {
	case "prod":
		return compose.StreamableLambda(func(ctx context.Context, in I) (*schema.StreamReader[O], error) {
			e.exec(idx)
			sr, sw := schema.Pipe[O](spec.Cap)
			e.addPipe(drain(sr))
			p := e.newProducer(name)
			items := spec.Items
			if spec.Tail == "empty" {
				items = 0
			}
			go produce(p, items, spec.Yield, func(i int) bool {
				if spec.Tail == "err" && i == items-1 {
					var zero O
					return sw.Send(zero, errPlannedChunk)
				}
				return sw.Send(chunkOf[O](name, i), nil)
			}, sw.Close)
			return sr, nil
		})
	case "inv":
		return compose.InvokableLambda(func(ctx context.Context, in I) (O, error) {
			e.exec(idx)
			return chunkOf[O](name, 0), nil
		})
	case "coll":
		return compose.CollectableLambda(func(ctx context.Context, in *schema.StreamReader[I]) (O, error) {
			pos := e.exec(idx)
			if spec.Rerun > 0 {
				e.mu.Lock()
				k := e.reruns[idx]
				e.reruns[idx]++
				if k < spec.Rerun {
					e.execRerun[pos] = true
				}
				e.mu.Unlock()
				if k < spec.Rerun {
					in.Close()
					var o O
					return o, compose.InterruptAndRerun
				}
			}
			if err := readPrefix(in, spec.Prefix); err != nil {
				var o O
				return o, err
			}
			return chunkOf[O](name, 0), nil
		})
	}
	panic("keyedLambda: kind " + spec.Kind)
}

var errNodeFailed = errors.New("node failed on purpose")

// the error chunk a producer with Tail "err" sends as its last item (tails.go)
var errPlannedChunk = errors.New("c19 planned error chunk")

// streamTool is a tool.StreamableTool whose every call starts a producer goroutine.
type streamTool struct {
	e     *env
	name  string
	items int
	cap   int
	yield int
}

func (t *streamTool) Info(context.Context) (*schema.ToolInfo, error) {
	return &schema.ToolInfo{Name: t.name, Desc: t.name}, nil
}

func (t *streamTool) StreamableRun(_ context.Context, _ string, _ ...tool.Option) (*schema.StreamReader[string], error) {
	sr, sw := schema.Pipe[string](t.cap)
	t.e.addPipe(drain(sr))
	p := t.e.newProducer(t.name)
	go produce(p, t.items, t.yield, func(i int) bool { return sw.Send(fmt.Sprintf("%s.%d,", t.name, i), nil) }, sw.Close)
	return sr, nil
}

// toolsLambda: a StreamableLambda that asks a real ToolsNode to stream spec.Tools tool calls and
// converts the merged message stream back to M chunks.
func toolsLambda(e *env, idx int) *compose.Lambda {
	spec := *e.c.spec(idx)
	name := nodeName(idx)
	var tools []tool.BaseTool
	msg := &schema.Message{Role: schema.Assistant}
	for k := 0; k < spec.Tools; k++ {
		tn := fmt.Sprintf("%st%d", name, k)
		tools = append(tools, &streamTool{e: e, name: tn, items: spec.Items, cap: spec.Cap, yield: spec.Yield})
		msg.ToolCalls = append(msg.ToolCalls, schema.ToolCall{ID: fmt.Sprintf("c%d", k), Function: schema.FunctionCall{Name: tn, Arguments: "{}"}})
	}
	node, err := compose.NewToolNode(context.Background(), &compose.ToolsNodeConfig{Tools: tools})
	return compose.StreamableLambda(func(ctx context.Context, in M) (*schema.StreamReader[M], error) {
		e.exec(idx)
		if err != nil {
			return nil, err
		}
		out, err := node.Stream(ctx, msg)
		if err != nil {
			return nil, err
		}
		return schema.StreamReaderWithConvert(out, func(ms []*schema.Message) (M, error) {
			s := ""
			for _, m := range ms {
				if m != nil {
					s += m.Content
				}
			}
			return M{name: s}, nil
		}), nil
	})
}

func lambdaOf(e *env, idx int) *compose.Lambda {
	spec := *e.c.spec(idx)
	name := nodeName(idx)
	if spec.Kind == "tools" && !spec.Fail {
		return toolsLambda(e, idx)
	}
	if spec.Fail {
		return compose.TransformableLambda(func(ctx context.Context, in *schema.StreamReader[M]) (*schema.StreamReader[M], error) {
			e.exec(idx)
			in.Close()
			return nil, errNodeFailed
		})
	}
	// rerun tells whether this execution asks for an interrupt-and-rerun (it closes its input first)
	rerun := func(pos int, in interface{ Close() }) bool {
		if spec.Rerun == 0 {
			return false
		}
		e.mu.Lock()
		k := e.reruns[idx]
		e.reruns[idx]++
		if k < spec.Rerun {
			e.execRerun[pos] = true
		}
		e.mu.Unlock()
		if k < spec.Rerun {
			in.Close()
			return true
		}
		return false
	}
	switch spec.Kind {
	case "anyx":
		return compose.TransformableLambda(func(ctx context.Context, in *schema.StreamReader[any]) (*schema.StreamReader[any], error) {
			e.exec(idx)
			return in, nil
		})
	case "xform":
		return compose.TransformableLambda(func(ctx context.Context, in *schema.StreamReader[M]) (*schema.StreamReader[M], error) {
			if rerun(e.exec(idx), in) {
				return nil, compose.InterruptAndRerun
			}
			sr, sw := schema.Pipe[M](spec.Cap)
			e.addPipe(drain(sr))
			p := e.newProducer(name)
			go forward(p, in, sw, spec.Yield)
			return sr, nil
		})
	case "conv":
		return compose.TransformableLambda(func(ctx context.Context, in *schema.StreamReader[M]) (*schema.StreamReader[M], error) {
			if rerun(e.exec(idx), in) {
				return nil, compose.InterruptAndRerun
			}
			return schema.StreamReaderWithConvert(in, func(m M) (M, error) {
				if spec.Tail == "drop" {
					return nil, schema.ErrNoValue
				}
				return m, nil
			}), nil
		})
	case "ident":
		return compose.TransformableLambda(func(ctx context.Context, in *schema.StreamReader[M]) (*schema.StreamReader[M], error) {
			if rerun(e.exec(idx), in) {
				return nil, compose.InterruptAndRerun
			}
			return in, nil
		})
	}
	switch {
	case spec.InKey != "" && spec.OutKey != "":
		return keyedLambda[string, string](e, idx)
	case spec.InKey != "":
		return keyedLambda[string, M](e, idx)
	case spec.OutKey != "":
		return keyedLambda[M, string](e, idx)
	}
	return keyedLambda[M, M](e, idx)
}

func graphKey(i int) string {
	switch i {
	case START:
		return compose.START
	case END:
		return compose.END
	}
	return nodeName(i)
}

// keyOf maps the node references of the branch (indices local to its graph) to graph keys.
func branchOf(e *env, node, bi int, b *BranchSpec, keyOf func(int) string) *compose.GraphBranch {
	graphKey := keyOf
	ends := map[string]bool{}
	for _, t := range b.Ends {
		ends[graphKey(t)] = true
	}
	multi := func(out []int) map[string]bool {
		m := map[string]bool{}
		for _, t := range out {
			m[graphKey(t)] = true
		}
		return m
	}
	switch {
	case b.Stream && b.Multi:
		return compose.NewStreamGraphMultiBranch(func(ctx context.Context, in *schema.StreamReader[M]) (map[string]bool, error) {
			if err := readPrefix(in, b.Prefix); err != nil {
				return nil, err
			}
			return multi(e.decide(node, bi, b)), nil
		}, ends)
	case b.Stream:
		return compose.NewStreamGraphBranch(func(ctx context.Context, in *schema.StreamReader[M]) (string, error) {
			if err := readPrefix(in, b.Prefix); err != nil {
				return "", err
			}
			return graphKey(e.decide(node, bi, b)[0]), nil
		}, ends)
	case b.Multi:
		return compose.NewGraphMultiBranch(func(ctx context.Context, in M) (map[string]bool, error) {
			return multi(e.decide(node, bi, b)), nil
		}, ends)
	}
	return compose.NewGraphBranch(func(ctx context.Context, in M) (string, error) {
		return graphKey(e.decide(node, bi, b)[0]), nil
	}, ends)
}

// staticable: the node kinds whose input is a map (a static value is one more key of it)
func staticable(kind string) bool { return kind != "pass" && kind != "anyx" }

func buildWorkflow(e *env) (compose.Runnable[M, M], error) {
	c := e.c
	wf := compose.NewWorkflow[M, M](newGraphOpts(c.State)...)
	nodes := make([]*compose.WorkflowNode, len(c.Nodes))
	for i := range c.Nodes {
		if c.Nodes[i].Kind == "sub" {
			sub, opts, err := buildSub(e, i)
			if err != nil {
				return nil, err
			}
			nodes[i] = wf.AddGraphNode(nodeName(i), sub, opts)
			continue
		}
		var opts []compose.GraphAddNodeOpt
		if c.State {
			opts = stateOpts(&c.Nodes[i])
		}
		nodes[i] = wf.AddLambdaNode(nodeName(i), lambdaOf(e, i), opts...)
	}
	wire := func(n *compose.WorkflowNode, ins []InputSpec) {
		for _, in := range ins {
			var maps []*compose.FieldMapping
			if in.Map == "to" {
				maps = append(maps, compose.ToField(nodeName(in.From)))
			}
			switch in.Kind {
			case "in":
				n.AddInput(graphKey(in.From), maps...)
			case "dep":
				n.AddDependency(graphKey(in.From))
			case "data":
				n.AddInputWithOptions(graphKey(in.From), maps, compose.WithNoDirectDependency())
			}
		}
	}
	for i := range c.Nodes {
		wire(nodes[i], c.Nodes[i].Inputs)
	}
	wire(wf.End(), c.EndInputs)
	for i := range c.Nodes {
		// a static value: the framework merges a one-chunk stream of its own into the node's mapped input (or, for
		// a node with dependencies only, hands it the static values alone and closes the empty input)
		if c.Nodes[i].Static && staticable(c.Nodes[i].Kind) {
			nodes[i].SetStaticValue(compose.FieldPath{"static"}, "s")
		}
	}
	for bi := range c.StartBranches {
		wf.AddBranch(compose.START, branchOf(e, START, bi, &c.StartBranches[bi], graphKey))
	}
	for i := range c.Nodes {
		for bi := range c.Nodes[i].Branches {
			wf.AddBranch(nodeName(i), branchOf(e, i, bi, &c.Nodes[i].Branches[bi], graphKey))
		}
	}
	return wf.Compile(context.Background(), interruptOpts(c)...)
}

// memStore is an in-memory compose.CheckPointStore.
type memStore struct {
	mu sync.Mutex
	m  map[string][]byte
}

func (s *memStore) Get(_ context.Context, id string) ([]byte, bool, error) {
	s.mu.Lock()
	defer s.mu.Unlock()
	b, ok := s.m[id]
	return b, ok, nil
}

func (s *memStore) Set(_ context.Context, id string, b []byte) error {
	s.mu.Lock()
	defer s.mu.Unlock()
	s.m[id] = append([]byte(nil), b...)
	return nil
}

// extraInterrupts: the case has interrupts raised by a node or inside a nested graph (not in the model).
func extraInterrupts(c *Case) bool {
	for i := range c.Nodes {
		n := &c.Nodes[i]
		if n.Rerun > 0 {
			return true
		}
		if n.Sub != nil {
			if len(n.Sub.IntBefore)+len(n.Sub.IntAfter) > 0 {
				return true
			}
			for j := range n.Sub.Nodes {
				if n.Sub.Nodes[j].Rerun > 0 {
					return true
				}
			}
		}
	}
	return false
}

func interruptOpts(c *Case) []compose.GraphCompileOption {
	if len(c.IntBefore)+len(c.IntAfter) == 0 && !extraInterrupts(c) {
		return nil
	}
	names := func(xs []int) []string {
		var out []string
		for _, x := range xs {
			out = append(out, nodeName(x))
		}
		return out
	}
	opts := []compose.GraphCompileOption{compose.WithCheckPointStore(&memStore{m: map[string][]byte{}})}
	if len(c.IntBefore) > 0 {
		opts = append(opts, compose.WithInterruptBeforeNodes(names(c.IntBefore)))
	}
	if len(c.IntAfter) > 0 {
		opts = append(opts, compose.WithInterruptAfterNodes(names(c.IntAfter)))
	}
	return opts
}

type runState struct{ N int }

func init() { _ = compose.RegisterSerializableType[runState]("c19_run_state") }

// stateOpts renders the state handlers of a node (all of them leave the data unchanged).
func stateOpts(n *NodeSpec) []compose.GraphAddNodeOpt {
	var opts []compose.GraphAddNodeOpt
	wrap := func(in *schema.StreamReader[M]) *schema.StreamReader[M] {
		return schema.StreamReaderWithConvert(in, func(m M) (M, error) { return m, nil })
	}
	switch n.Pre {
	case "value":
		opts = append(opts, compose.WithStatePreHandler(func(ctx context.Context, in M, st *runState) (M, error) { st.N++; return in, nil }))
	case "stream":
		opts = append(opts, compose.WithStreamStatePreHandler(func(ctx context.Context, in *schema.StreamReader[M], st *runState) (*schema.StreamReader[M], error) {
			st.N++
			return in, nil
		}))
	case "wrap":
		opts = append(opts, compose.WithStreamStatePreHandler(func(ctx context.Context, in *schema.StreamReader[M], st *runState) (*schema.StreamReader[M], error) {
			st.N++
			return wrap(in), nil
		}))
	}
	switch n.Post {
	case "value":
		opts = append(opts, compose.WithStatePostHandler(func(ctx context.Context, out M, st *runState) (M, error) { st.N++; return out, nil }))
	case "stream":
		opts = append(opts, compose.WithStreamStatePostHandler(func(ctx context.Context, out *schema.StreamReader[M], st *runState) (*schema.StreamReader[M], error) {
			st.N++
			return out, nil
		}))
	case "wrap":
		opts = append(opts, compose.WithStreamStatePostHandler(func(ctx context.Context, out *schema.StreamReader[M], st *runState) (*schema.StreamReader[M], error) {
			st.N++
			return wrap(out), nil
		}))
	}
	return opts
}

func newGraphOpts(stateful bool) []compose.NewGraphOption {
	if !stateful {
		return nil
	}
	return []compose.NewGraphOption{compose.WithGenLocalState(func(ctx context.Context) *runState { return &runState{} })}
}

// buildGraph adds the nodes, edges and branches of one Graph[M, M]. idOf maps a node index of this
// graph to its global id (inner nodes of a nested graph have their own id range).
func buildGraph(e *env, nodes []NodeSpec, startSucc []int, startBranches []BranchSpec, idOf func(int) int, stateful bool) (*compose.Graph[M, M], error) {
	keyOf := func(i int) string {
		switch i {
		case START:
			return compose.START
		case END:
			return compose.END
		}
		return nodeName(idOf(i))
	}
	idOrStart := func(i int) int {
		if i == START {
			return idOf(START)
		}
		return idOf(i)
	}
	g := compose.NewGraph[M, M](newGraphOpts(stateful)...)
	for i, n := range nodes {
		if n.Kind == "sub" {
			sub, opt, err := buildSub(e, idOf(i))
			if err != nil {
				return nil, err
			}
			sopts := []compose.GraphAddNodeOpt{opt}
			if n.InKey != "" {
				sopts = append(sopts, compose.WithInputKey(n.InKey))
			}
			if n.OutKey != "" {
				sopts = append(sopts, compose.WithOutputKey(n.OutKey))
			}
			if err := g.AddGraphNode(keyOf(i), sub, sopts...); err != nil {
				return nil, err
			}
			continue
		}
		if n.Kind == "pass" {
			if err := g.AddPassthroughNode(keyOf(i)); err != nil {
				return nil, err
			}
			continue
		}
		var opts []compose.GraphAddNodeOpt
		if n.InKey != "" {
			opts = append(opts, compose.WithInputKey(n.InKey))
		}
		if n.OutKey != "" {
			opts = append(opts, compose.WithOutputKey(n.OutKey))
		}
		if stateful {
			opts = append(opts, stateOpts(&nodes[i])...)
		}
		if err := g.AddLambdaNode(keyOf(i), lambdaOf(e, idOf(i)), opts...); err != nil {
			return nil, err
		}
	}
	wire := func(from int, succ []int, brs []BranchSpec) error {
		for _, t := range succ {
			if err := g.AddEdge(keyOf(from), keyOf(t)); err != nil {
				return err
			}
		}
		for bi := range brs {
			if err := g.AddBranch(keyOf(from), branchOf(e, idOrStart(from), bi, &brs[bi], keyOf)); err != nil {
				return err
			}
		}
		return nil
	}
	if err := wire(START, startSucc, startBranches); err != nil {
		return nil, err
	}
	for i := range nodes {
		if err := wire(i, nodes[i].Succ, nodes[i].Branches); err != nil {
			return nil, err
		}
	}
	return g, nil
}

// startID is the pseudo id under which the branch outcomes of a graph's START are logged:
// START for the top-level graph, subBase*(i+1)+subStart for the nested graph of node i.
const subStart = subBase - 1

// buildSub builds the nested graph of outer node i.
func buildSub(e *env, i int) (*compose.Graph[M, M], compose.GraphAddNodeOpt, error) {
	sub := e.c.Nodes[i].Sub
	idOf := func(j int) int {
		if j == START {
			return subBase*(i+1) + subStart
		}
		return subBase*(i+1) + j
	}
	g, err := buildGraph(e, sub.Nodes, sub.StartSucc, sub.StartBranches, idOf, false)
	if err != nil {
		return nil, nil, err
	}
	var iopts []compose.GraphCompileOption
	names := func(xs []int) []string {
		var out []string
		for _, x := range xs {
			out = append(out, nodeName(idOf(x)))
		}
		return out
	}
	if len(sub.IntBefore) > 0 {
		iopts = append(iopts, compose.WithInterruptBeforeNodes(names(sub.IntBefore)))
	}
	if len(sub.IntAfter) > 0 {
		iopts = append(iopts, compose.WithInterruptAfterNodes(names(sub.IntAfter)))
	}
	if sub.Mode == "dag" {
		return g, compose.WithGraphCompileOptions(append(iopts, compose.WithNodeTriggerMode(compose.AllPredecessor))...), nil
	}
	return g, compose.WithGraphCompileOptions(append(iopts, compose.WithNodeTriggerMode(compose.AnyPredecessor), compose.WithMaxRunSteps(300))...), nil
}

func build(e *env) (compose.Runnable[M, M], error) {
	c := e.c
	if c.Mode == "workflow" {
		return buildWorkflow(e)
	}
	g, err := buildGraph(e, c.Nodes, c.StartSucc, c.StartBranches, func(i int) int { return i }, c.State)
	if err != nil {
		return nil, err
	}
	if c.Mode == "dag" {
		return g.Compile(context.Background(), append(interruptOpts(c), compose.WithNodeTriggerMode(compose.AllPredecessor))...)
	}
	steps := 300
	if c.MaxSteps > 0 {
		steps = c.MaxSteps
	}
	return g.Compile(context.Background(), append(interruptOpts(c), compose.WithNodeTriggerMode(compose.AnyPredecessor), compose.WithMaxRunSteps(steps))...)
}

func handlerOf(prefix int) callbacks.Handler {
	return callbacks.NewHandlerBuilder().
		OnStartWithStreamInputFn(func(ctx context.Context, info *callbacks.RunInfo, in *schema.StreamReader[callbacks.CallbackInput]) context.Context {
			_ = readPrefix(in, prefix)
			return ctx
		}).
		OnEndWithStreamOutputFn(func(ctx context.Context, info *callbacks.RunInfo, out *schema.StreamReader[callbacks.CallbackOutput]) context.Context {
			_ = readPrefix(out, prefix)
			return ctx
		}).Build()
}

// outcome of the caller's side of a run
type runOut struct {
	class    string // ok | compile_err | run_err | stream_err | panic | hang
	msg      string
	chunks   int  // chunks the caller read
	eof      bool // the caller saw io.EOF
	errChunk bool // the caller met a planned error chunk and closed the output
}

// buildCase compiles the case; class "" = built.
func buildCase(e *env) (compose.Runnable[M, M], runOut) {
	var r compose.Runnable[M, M]
	var err error
	if p := lib.Recover(func() { r, err = build(e) }); p != nil {
		return nil, runOut{class: "panic", msg: fmt.Sprint("build: ", p)}
	}
	if err != nil {
		return nil, runOut{class: "compile_err", msg: err.Error()}
	}
	return r, runOut{}
}

// runCalls calls the compiled runnable: once (reads[0] = how the caller reads), or, with several entries, that many
// times at the same moment from different goroutines (prelude.go); the task-manager trace of everything that ran is
// put into the environment.
func runCalls(e *env, r compose.Runnable[M, M], reads []int) runOut {
	done := make(chan runOut, len(reads))
	compose.VerifC03Begin(0, true)
	defer compose.VerifC03End()
	var gate sync.WaitGroup
	gate.Add(1)
	for _, rd := range reads {
		go func(rd int) {
			gate.Wait()
			var out runOut
			if p := lib.Recover(func() { out = callAndRead(e, r, rd) }); p != nil {
				out = runOut{class: "panic", msg: fmt.Sprint(p)}
			}
			done <- out
		}(rd)
	}
	gate.Done()
	var out runOut
	timeout := time.After(15 * time.Second)
	for i := range reads {
		select {
		case o := <-done:
			if i == 0 || (out.class == "ok" && o.class != "ok") || o.class == "panic" {
				out = o
			}
		case <-timeout:
			return runOut{class: "hang", msg: "run or read did not return within 15s"}
		}
	}
	evs := compose.VerifC03Events()
	var top []bool
	e.scheds, top = schedulesOf(evs, c19Eager(e.c))
	if len(e.scheds) > 0 {
		e.sched = e.scheds[0].sched
	}
	for tm := range e.scheds {
		if top[tm] {
			e.segs = append(e.segs, e.scheds[tm])
		} else {
			e.subCalls = append(e.subCalls, e.scheds[tm])
		}
	}
	e.collected = map[string]int{}
	for _, ev := range evs {
		if ev.Kind == "recv" {
			e.collected[ev.Key]++
		}
	}
	return out
}

func c19Eager(c *Case) bool { return c.Mode == "workflow" }

// schedulesOf rebuilds, for every task manager of the case (every call of the top-level runnable — the
// first run and every resumed run — and every nested graph run has its own), the batches of completed
// tasks from the taskManager protocol trace: a "recv" event is one task taken from the done channel by
// waitOne, "empty" ends a waitAll. A task manager belongs to a call of the top-level runnable when the
// first task it names is a top-level node. In eager mode (top level of a Workflow only) wait() returns
// after one task: every task is a batch of its own, including the tasks the waitAll of an interrupt
// exit collects (the model puts those together again).
func schedulesOf(evs []compose.VerifC03Event, eagerTop bool) (all []callRec, top []bool) {
	var cur, curRR [][]string
	var known []bool
	for _, ev := range evs {
		for ev.TM >= len(all) {
			all = append(all, callRec{})
			cur = append(cur, nil)
			curRR = append(curRR, nil)
			top = append(top, false)
			known = append(known, false)
		}
		if !known[ev.TM] && ev.Key != "" {
			id, ok := nodeIndex(ev.Key)
			top[ev.TM], known[ev.TM] = ok && id < subBase, true
		}
		eager := eagerTop && top[ev.TM]
		flush := func(tm int) {
			if len(cur[tm]) > 0 {
				all[tm].sched = append(all[tm].sched, cur[tm])
				all[tm].rr = append(all[tm].rr, curRR[tm])
				cur[tm], curRR[tm] = nil, nil
			}
		}
		switch ev.Kind {
		case "recv":
			cur[ev.TM] = append(cur[ev.TM], ev.Key)
			if ev.Err { // the only errors a run survives: the task interrupted itself
				curRR[ev.TM] = append(curRR[ev.TM], ev.Key)
			}
			if eager {
				flush(ev.TM)
			}
		case "empty":
			flush(ev.TM)
		}
	}
	for tm := range all {
		if len(cur[tm]) > 0 {
			all[tm].sched = append(all[tm].sched, cur[tm])
			all[tm].rr = append(all[tm].rr, curRR[tm])
		}
	}
	return all, top
}

// resumeInput is the input stream handed to the k-th resumed call: like the input of the first call a
// Pipe fed by a producer goroutine. The resumed run continues from its checkpoint and does not read it;
// it has to close it, otherwise the producer stays blocked (F-C19c).
func resumeInput(e *env, k int) *schema.StreamReader[M] {
	c := e.c
	in, sw := schema.Pipe[M](c.InCap)
	e.addPipe(drain(in))
	p := e.newProducer(fmt.Sprintf("input-r%d", k))
	go produce(p, c.InItems, 0, func(i int) bool { return sw.Send(chunkOf[M]("in", i), nil) }, sw.Close)
	return in
}

func callAndRead(e *env, r compose.Runnable[M, M], read int) runOut {
	c := e.c
	ctx := context.Background()
	var opts []compose.Option
	if c.Handlers > 0 {
		var hs []callbacks.Handler
		for i := 0; i < c.Handlers; i++ {
			if i > 0 && c.SameHandler {
				hs = append(hs, hs[0])
			} else {
				hs = append(hs, handlerOf(c.HandlerPrefix))
			}
		}
		opts = append(opts, compose.WithCallbacks(hs...))
	}
	for _, x := range c.HandlerNodes {
		opts = append(opts, compose.WithCallbacks(handlerOf(c.HandlerPrefix)).DesignateNode(nodeName(x)))
	}
	var sr *schema.StreamReader[M]
	var err error
	interruptible := len(c.IntBefore)+len(c.IntAfter) > 0 || extraInterrupts(c)
	if interruptible {
		opts = append(opts, compose.WithCheckPointID("cp"))
	}
	if c.Input == "collect" {
		// Collect: the framework itself drains the output stream (concatenation) and returns a value
		in, sw := schema.Pipe[M](c.InCap)
		e.addPipe(drain(in))
		p := e.newProducer("input")
		go produce(p, c.InItems, 0, func(i int) bool { return sw.Send(chunkOf[M]("in", i), nil) }, sw.Close)
		_, err = r.Collect(ctx, in, opts...)
		for n := 0; err != nil && interruptible && n < 40; n++ {
			if _, ok := compose.ExtractInterruptInfo(err); !ok {
				break
			}
			e.mu.Lock()
			e.resumes++
			k := e.resumes
			e.mu.Unlock()
			_, err = r.Collect(ctx, resumeInput(e, k), opts...)
		}
		if err != nil {
			return runOut{class: "run_err", msg: err.Error()}
		}
		return runOut{class: "ok", eof: true}
	}
	if c.Input == "stream" {
		in, sw := schema.Pipe[M](c.InCap)
		e.addPipe(drain(in))
		p := e.newProducer("input")
		go produce(p, c.InItems, 0, func(i int) bool { return sw.Send(chunkOf[M]("in", i), nil) }, sw.Close)
		sr, err = r.Transform(ctx, in, opts...)
	} else {
		sr, err = r.Stream(ctx, chunkOf[M]("in", 0), opts...)
	}
	// an interrupted run is resumed from its checkpoint until it completes
	for n := 0; err != nil && interruptible && n < 40; n++ {
		if _, ok := compose.ExtractInterruptInfo(err); !ok {
			break
		}
		e.mu.Lock()
		e.resumes++
		k := e.resumes
		e.mu.Unlock()
		if c.Input == "stream" {
			sr, err = r.Transform(ctx, resumeInput(e, k), opts...)
		} else {
			sr, err = r.Stream(ctx, M{}, opts...)
		}
	}
	if err != nil {
		return runOut{class: "run_err", msg: err.Error()}
	}
	out := runOut{class: "ok"}
	for read < 0 || out.chunks < read {
		_, err := sr.Recv()
		if errors.Is(err, io.EOF) {
			out.eof = true
			break
		}
		if err != nil && strings.Contains(err.Error(), errPlannedChunk.Error()) {
			// an error chunk a producer of the case sent on purpose (tails.go): the caller stops reading and
			// closes the output - "closed early by the caller"
			out.errChunk = true
			break
		}
		if err != nil {
			out.class, out.msg = "stream_err", err.Error()
			break
		}
		out.chunks++
	}
	if !out.eof || c.CloseAfterEOF || out.class != "ok" {
		sr.Close()
	}
	return out
}
