// run.go: build the graph of a case through the public compose API, run it in streaming
// mode, let the caller stop reading at the chosen point, and collect what happened.
package main

import (
	"context"
	"errors"
	"fmt"
	"io"
	"runtime"
	"sync"
	"sync/atomic"
	"time"

	"github.com/cloudwego/eino/callbacks"
	"github.com/cloudwego/eino/compose"
	"github.com/cloudwego/eino/schema"

	"verif/harness/lib"
)

type M = map[string]any

// producer is one goroutine of the harness that sends into a Pipe.
type producer struct {
	name  string
	state int32 // 0 still running (possibly blocked on Send), 1 sent everything and closed, 2 Send reported closed
}

type env struct {
	c         *Case
	mu        sync.Mutex
	execs     []int              // node executions in start order
	brLog     map[[2]int][][]int // (node, branch index) -> outcomes in evaluation order
	producers []*producer
	sched     [][]string // batches of completed tasks (node keys) as taskManager.wait returned them (C03 trace hook)
}

func newEnv(c *Case) *env { return &env{c: c, brLog: map[[2]int][][]int{}} }

func (e *env) exec(idx int) {
	e.mu.Lock()
	e.execs = append(e.execs, idx)
	e.mu.Unlock()
}

func (e *env) newProducer(name string) *producer {
	p := &producer{name: name}
	e.mu.Lock()
	e.producers = append(e.producers, p)
	e.mu.Unlock()
	return p
}

// decide returns the outcome of the next evaluation of branch bi of node.
func (e *env) decide(node, bi int, b *BranchSpec) []int {
	e.mu.Lock()
	k := len(e.brLog[[2]int{node, bi}])
	out := b.Table[k%len(b.Table)]
	e.brLog[[2]int{node, bi}] = append(e.brLog[[2]int{node, bi}], out)
	e.mu.Unlock()
	schema.VerifC19Mark(fmt.Sprintf("branch:%s:%d", nodeName(node), bi))
	return out
}

func yieldNow(i, every int) {
	if every > 0 && i%every == every-1 {
		if i%(2*every) == every-1 {
			runtime.Gosched()
		} else {
			time.Sleep(20 * time.Microsecond)
		}
	}
}

// produce is the body of every sending goroutine of the harness.
func produce(p *producer, items, yield int, send func(i int) bool, closeSend func()) {
	defer closeSend()
	for i := 0; i < items; i++ {
		yieldNow(i, yield)
		if send(i) {
			atomic.StoreInt32(&p.state, 2)
			return
		}
	}
	atomic.StoreInt32(&p.state, 1)
}

// forward is the body of an xform node's goroutine.
func forward(p *producer, in *schema.StreamReader[M], sw *schema.StreamWriter[M], yield int) {
	defer sw.Close()
	defer in.Close()
	for i := 0; ; i++ {
		yieldNow(i, yield)
		ch, err := in.Recv()
		if err == io.EOF {
			atomic.StoreInt32(&p.state, 1)
			return
		}
		if sw.Send(ch, err) {
			atomic.StoreInt32(&p.state, 2)
			return
		}
		if err != nil {
			atomic.StoreInt32(&p.state, 1)
			return
		}
	}
}

func chunkOf[O any](name string, i int) O {
	var o O
	switch p := any(&o).(type) {
	case *string:
		*p = fmt.Sprintf("%s.%d,", name, i)
	case *M:
		*p = M{name: fmt.Sprintf("%d,", i)}
	default:
		panic("chunkOf: unsupported type")
	}
	return o
}

func readPrefix[T any](in *schema.StreamReader[T], k int) error {
	defer in.Close()
	for i := 0; i < k; i++ {
		_, err := in.Recv()
		if err == io.EOF {
			return nil
		}
		if err != nil {
			return err
		}
	}
	return nil
}

func keyedLambda[I, O any](e *env, idx int) *compose.Lambda {
	spec := e.c.Nodes[idx]
	name := nodeName(idx)
	switch spec.Kind {
	case "prod":
		return compose.StreamableLambda(func(ctx context.Context, in I) (*schema.StreamReader[O], error) {
			e.exec(idx)
			sr, sw := schema.Pipe[O](spec.Cap)
			p := e.newProducer(name)
			go produce(p, spec.Items, spec.Yield, func(i int) bool { return sw.Send(chunkOf[O](name, i), nil) }, sw.Close)
			return sr, nil
		})
	case "inv":
		return compose.InvokableLambda(func(ctx context.Context, in I) (O, error) {
			e.exec(idx)
			return chunkOf[O](name, 0), nil
		})
	case "coll":
		return compose.CollectableLambda(func(ctx context.Context, in *schema.StreamReader[I]) (O, error) {
			e.exec(idx)
			if err := readPrefix(in, spec.Prefix); err != nil {
				var o O
				return o, err
			}
			return chunkOf[O](name, 0), nil
		})
	}
	panic("keyedLambda: kind " + spec.Kind)
}

var errNodeFailed = errors.New("node failed on purpose")

func lambdaOf(e *env, idx int) *compose.Lambda {
	spec := e.c.Nodes[idx]
	name := nodeName(idx)
	if spec.Fail {
		return compose.TransformableLambda(func(ctx context.Context, in *schema.StreamReader[M]) (*schema.StreamReader[M], error) {
			e.exec(idx)
			in.Close()
			return nil, errNodeFailed
		})
	}
	switch spec.Kind {
	case "xform":
		return compose.TransformableLambda(func(ctx context.Context, in *schema.StreamReader[M]) (*schema.StreamReader[M], error) {
			e.exec(idx)
			sr, sw := schema.Pipe[M](spec.Cap)
			p := e.newProducer(name)
			go forward(p, in, sw, spec.Yield)
			return sr, nil
		})
	case "conv":
		return compose.TransformableLambda(func(ctx context.Context, in *schema.StreamReader[M]) (*schema.StreamReader[M], error) {
			e.exec(idx)
			return schema.StreamReaderWithConvert(in, func(m M) (M, error) { return m, nil }), nil
		})
	case "ident":
		return compose.TransformableLambda(func(ctx context.Context, in *schema.StreamReader[M]) (*schema.StreamReader[M], error) {
			e.exec(idx)
			return in, nil
		})
	}
	switch {
	case spec.InKey != "" && spec.OutKey != "":
		return keyedLambda[string, string](e, idx)
	case spec.InKey != "":
		return keyedLambda[string, M](e, idx)
	case spec.OutKey != "":
		return keyedLambda[M, string](e, idx)
	}
	return keyedLambda[M, M](e, idx)
}

func graphKey(i int) string {
	switch i {
	case START:
		return compose.START
	case END:
		return compose.END
	}
	return nodeName(i)
}

func branchOf(e *env, node, bi int, b *BranchSpec) *compose.GraphBranch {
	ends := map[string]bool{}
	for _, t := range b.Ends {
		ends[graphKey(t)] = true
	}
	multi := func(out []int) map[string]bool {
		m := map[string]bool{}
		for _, t := range out {
			m[graphKey(t)] = true
		}
		return m
	}
	switch {
	case b.Stream && b.Multi:
		return compose.NewStreamGraphMultiBranch(func(ctx context.Context, in *schema.StreamReader[M]) (map[string]bool, error) {
			if err := readPrefix(in, b.Prefix); err != nil {
				return nil, err
			}
			return multi(e.decide(node, bi, b)), nil
		}, ends)
	case b.Stream:
		return compose.NewStreamGraphBranch(func(ctx context.Context, in *schema.StreamReader[M]) (string, error) {
			if err := readPrefix(in, b.Prefix); err != nil {
				return "", err
			}
			return graphKey(e.decide(node, bi, b)[0]), nil
		}, ends)
	case b.Multi:
		return compose.NewGraphMultiBranch(func(ctx context.Context, in M) (map[string]bool, error) {
			return multi(e.decide(node, bi, b)), nil
		}, ends)
	}
	return compose.NewGraphBranch(func(ctx context.Context, in M) (string, error) {
		return graphKey(e.decide(node, bi, b)[0]), nil
	}, ends)
}

func buildWorkflow(e *env) (compose.Runnable[M, M], error) {
	c := e.c
	wf := compose.NewWorkflow[M, M]()
	nodes := make([]*compose.WorkflowNode, len(c.Nodes))
	for i := range c.Nodes {
		nodes[i] = wf.AddLambdaNode(nodeName(i), lambdaOf(e, i))
	}
	wire := func(n *compose.WorkflowNode, ins []InputSpec) {
		for _, in := range ins {
			var maps []*compose.FieldMapping
			if in.Map == "to" {
				maps = append(maps, compose.ToField(nodeName(in.From)))
			}
			switch in.Kind {
			case "in":
				n.AddInput(graphKey(in.From), maps...)
			case "dep":
				n.AddDependency(graphKey(in.From))
			case "data":
				n.AddInputWithOptions(graphKey(in.From), maps, compose.WithNoDirectDependency())
			}
		}
	}
	for i := range c.Nodes {
		wire(nodes[i], c.Nodes[i].Inputs)
	}
	wire(wf.End(), c.EndInputs)
	for bi := range c.StartBranches {
		wf.AddBranch(compose.START, branchOf(e, START, bi, &c.StartBranches[bi]))
	}
	for i := range c.Nodes {
		for bi := range c.Nodes[i].Branches {
			wf.AddBranch(nodeName(i), branchOf(e, i, bi, &c.Nodes[i].Branches[bi]))
		}
	}
	return wf.Compile(context.Background())
}

func build(e *env) (compose.Runnable[M, M], error) {
	c := e.c
	if c.Mode == "workflow" {
		return buildWorkflow(e)
	}
	g := compose.NewGraph[M, M]()
	for i, n := range c.Nodes {
		var opts []compose.GraphAddNodeOpt
		if n.InKey != "" {
			opts = append(opts, compose.WithInputKey(n.InKey))
		}
		if n.OutKey != "" {
			opts = append(opts, compose.WithOutputKey(n.OutKey))
		}
		if err := g.AddLambdaNode(nodeName(i), lambdaOf(e, i), opts...); err != nil {
			return nil, err
		}
	}
	wire := func(from int, succ []int, brs []BranchSpec) error {
		for _, t := range succ {
			if err := g.AddEdge(graphKey(from), graphKey(t)); err != nil {
				return err
			}
		}
		for bi := range brs {
			if err := g.AddBranch(graphKey(from), branchOf(e, from, bi, &brs[bi])); err != nil {
				return err
			}
		}
		return nil
	}
	if err := wire(START, c.StartSucc, c.StartBranches); err != nil {
		return nil, err
	}
	for i := range c.Nodes {
		if err := wire(i, c.Nodes[i].Succ, c.Nodes[i].Branches); err != nil {
			return nil, err
		}
	}
	if c.Mode == "dag" {
		return g.Compile(context.Background(), compose.WithNodeTriggerMode(compose.AllPredecessor))
	}
	return g.Compile(context.Background(), compose.WithNodeTriggerMode(compose.AnyPredecessor), compose.WithMaxRunSteps(300))
}

func handlerOf(prefix int) callbacks.Handler {
	return callbacks.NewHandlerBuilder().
		OnStartWithStreamInputFn(func(ctx context.Context, info *callbacks.RunInfo, in *schema.StreamReader[callbacks.CallbackInput]) context.Context {
			_ = readPrefix(in, prefix)
			return ctx
		}).
		OnEndWithStreamOutputFn(func(ctx context.Context, info *callbacks.RunInfo, out *schema.StreamReader[callbacks.CallbackOutput]) context.Context {
			_ = readPrefix(out, prefix)
			return ctx
		}).Build()
}

// outcome of the caller's side of a run
type runOut struct {
	class  string // ok | compile_err | run_err | stream_err | panic | hang
	msg    string
	chunks int  // chunks the caller read
	eof    bool // the caller saw io.EOF
}

func runCase(e *env) runOut {
	var r compose.Runnable[M, M]
	var err error
	if p := lib.Recover(func() { r, err = build(e) }); p != nil {
		return runOut{class: "panic", msg: fmt.Sprint("build: ", p)}
	}
	if err != nil {
		return runOut{class: "compile_err", msg: err.Error()}
	}
	done := make(chan runOut, 1)
	compose.VerifC03Begin(0, true)
	defer compose.VerifC03End()
	go func() {
		var out runOut
		if p := lib.Recover(func() { out = callAndRead(e, r) }); p != nil {
			out = runOut{class: "panic", msg: fmt.Sprint(p)}
		}
		done <- out
	}()
	select {
	case out := <-done:
		e.sched = scheduleOf(compose.VerifC03Events(), c19Eager(e.c))
		return out
	case <-time.After(15 * time.Second):
		return runOut{class: "hang", msg: "run or read did not return within 15s"}
	}
}

func c19Eager(c *Case) bool { return c.Mode == "workflow" }

// scheduleOf rebuilds the batches of completed tasks from the taskManager protocol trace of the
// top-level run (task manager 0): a "recv" event is one task taken from the done channel by
// waitOne, "empty" ends a waitAll. In eager mode wait() returns after one task.
func scheduleOf(evs []compose.VerifC03Event, eager bool) [][]string {
	var out [][]string
	var cur []string
	for _, ev := range evs {
		if ev.TM != 0 {
			continue
		}
		switch ev.Kind {
		case "recv":
			if eager {
				out = append(out, []string{ev.Key})
			} else {
				cur = append(cur, ev.Key)
			}
		case "empty":
			if !eager && len(cur) > 0 {
				out = append(out, cur)
				cur = nil
			}
		}
	}
	if len(cur) > 0 {
		out = append(out, cur)
	}
	return out
}

func callAndRead(e *env, r compose.Runnable[M, M]) runOut {
	c := e.c
	ctx := context.Background()
	var opts []compose.Option
	if c.Handlers > 0 {
		var hs []callbacks.Handler
		for i := 0; i < c.Handlers; i++ {
			hs = append(hs, handlerOf(c.HandlerPrefix))
		}
		opts = append(opts, compose.WithCallbacks(hs...))
	}
	var sr *schema.StreamReader[M]
	var err error
	if c.Input == "stream" {
		in, sw := schema.Pipe[M](c.InCap)
		p := e.newProducer("input")
		go produce(p, c.InItems, 0, func(i int) bool { return sw.Send(chunkOf[M]("in", i), nil) }, sw.Close)
		sr, err = r.Transform(ctx, in, opts...)
	} else {
		sr, err = r.Stream(ctx, chunkOf[M]("in", 0), opts...)
	}
	if err != nil {
		return runOut{class: "run_err", msg: err.Error()}
	}
	out := runOut{class: "ok"}
	for c.Read < 0 || out.chunks < c.Read {
		_, err := sr.Recv()
		if errors.Is(err, io.EOF) {
			out.eof = true
			break
		}
		if err != nil {
			out.class, out.msg = "stream_err", err.Error()
			break
		}
		out.chunks++
	}
	if !out.eof || c.CloseAfterEOF || out.class != "ok" {
		sr.Close()
	}
	return out
}
