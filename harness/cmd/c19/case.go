// Engine C19 — a finished streaming run leaves no blocked producer or goroutine behind.
// case.go: the case type and its generator.
package main

import (
	"fmt"
	"sort"

	"verif/harness/lib"
)

// Node references inside a case: index into Nodes, or START / END.
const (
	START = -1
	END   = -2
)

// BranchSpec is one AddBranch call on a node.
type BranchSpec struct {
	Ends   []int   `json:"ends"`   // declared end nodes (>= 2, distinct)
	Multi  bool    `json:"multi"`  // New(Stream)GraphMultiBranch, else New(Stream)GraphBranch
	Stream bool    `json:"stream"` // stream condition: reads Prefix chunks then closes its input; else the framework concatenates
	Prefix int     `json:"prefix"` // chunks read by a stream condition before it closes its input
	Table  [][]int `json:"table"`  // outcome of the k-th evaluation = Table[k mod len]; subset of Ends (singleton unless Multi)
}

// InputSpec is one AddInput / AddDependency / AddInputWithOptions(WithNoDirectDependency) call of a
// Workflow node (Mode "workflow" only).
type InputSpec struct {
	From int    `json:"from"`
	Kind string `json:"kind"` // in: control + data ; dep: control only ; data: data only (no direct dependency)
	Map  string `json:"map"`  // whole: the entire output ; to: ToField(<from name>) ; (ignored for dep)
}

// SubSpec is the graph of a nested graph node (kind "sub"): a small Graph[M, M] in dag or pregel
// mode whose nodes are lambdas (no further nesting). Inner node j of outer node i has the id
// subBase*(i+1)+j and the key "n<i>s<j>".
type SubSpec struct {
	Mode          string       `json:"mode"`
	Nodes         []NodeSpec   `json:"nodes"`
	StartSucc     []int        `json:"start_succ"`
	StartBranches []BranchSpec `json:"start_branches,omitempty"`
	IntBefore     []int        `json:"int_before,omitempty"` // interrupt points inside the nested graph (oracle only)
	IntAfter      []int        `json:"int_after,omitempty"`
}

const subBase = 1000

// NodeSpec is one node.
//
//	prod  StreamableLambda: the framework concatenates the input; the node starts a goroutine that sends Items chunks into a Pipe(Cap)
//	xform TransformableLambda: a goroutine forwards the input chunk by chunk into a Pipe(Cap); closes the input when its output is closed
//	conv  TransformableLambda: StreamReaderWithConvert around the input (no goroutine)
//	ident TransformableLambda returning its input
//	inv   InvokableLambda (concatenated input, one-chunk array output)
//	coll  CollectableLambda: reads Prefix chunks of its input, closes it, returns one value
//	sub   a nested Graph[M, M] (Sub), compiled in its own trigger mode
//	tools StreamableLambda around compose.ToolsNode.Stream with Tools streaming tool calls (each tool a producer goroutine)
//	pass  AddPassthroughNode (Graph modes only): the framework hands the input stream on as the output
//	anyx  TransformableLambda[any, any] returning its input (Graph modes, a node with one predecessor only):
//	      the edges out of it and the branches on it need a run-time type check (edge / branch pre handlers)
type NodeSpec struct {
	Kind     string       `json:"kind"`
	Cap      int          `json:"cap,omitempty"`
	Items    int          `json:"items,omitempty"`
	Prefix   int          `json:"prefix,omitempty"`
	Yield    int          `json:"yield,omitempty"` // producer yields (Gosched / short sleep) every Yield items; 0 = never
	InKey    string       `json:"in_key,omitempty"`
	OutKey   string       `json:"out_key,omitempty"`
	Succ     []int        `json:"succ"`
	Branches []BranchSpec `json:"branches,omitempty"`
	Inputs   []InputSpec  `json:"inputs,omitempty"` // workflow only (then Succ is unused)
	Fail     bool         `json:"fail,omitempty"`   // the node returns an error instead of running (abort exits; outside the property)
	Sub      *SubSpec     `json:"sub,omitempty"`    // kind "sub": AddGraphNode of this graph
	Tools    int          `json:"tools,omitempty"`  // kind "tools": number of streaming tool calls of the ToolsNode
	Pre      string       `json:"pre,omitempty"`    // state pre handler (Case.State only): value | stream | wrap
	Post     string       `json:"post,omitempty"`   // state post handler: value | stream | wrap
	Static   bool         `json:"static,omitempty"` // workflow only: SetStaticValue — the framework merges a one-chunk stream of its own into the node's input
	Rerun    int          `json:"rerun,omitempty"`  // stream-input kinds: the first Rerun executions close the input and return compose.InterruptAndRerun (oracle only)
	Tail     string       `json:"tail,omitempty"`   // tails.go — prod: empty = the producer sends nothing and closes ; err = the last of its items is an error chunk ; conv: drop = the converter answers schema.ErrNoValue to every chunk (its output is an empty stream)
}

// Case is one streaming run.
type Case struct {
	Mode          string       `json:"mode"`                 // dag (AllPredecessor) | pregel (AnyPredecessor) | workflow (Workflow: all-predecessor, eager)
	EndInputs     []InputSpec  `json:"end_inputs,omitempty"` // workflow only
	MaxSteps      int          `json:"max_steps,omitempty"`  // pregel: WithMaxRunSteps (step-limit exit), 0 = 300
	Free          bool         `json:"free,omitempty"`       // pregel: free-form graph (genPregelFree)
	State         bool         `json:"state,omitempty"`      // WithGenLocalState; nodes may carry state pre / post handlers
	IntBefore     []int        `json:"int_before,omitempty"` // WithInterruptBeforeNodes + checkpoint store: the run is resumed until it completes
	IntAfter      []int        `json:"int_after,omitempty"`  // WithInterruptAfterNodes
	Nodes         []NodeSpec   `json:"nodes"`
	StartSucc     []int        `json:"start_succ"`
	StartBranches []BranchSpec `json:"start_branches,omitempty"`
	Input         string       `json:"input"` // value: r.Stream(value) ; stream: r.Transform(Pipe fed by a producer goroutine) ; collect: r.Collect(same Pipe), the framework drains the output
	InCap         int          `json:"in_cap,omitempty"`
	InItems       int          `json:"in_items,omitempty"`
	Handlers      int          `json:"handlers"`                // callback handlers passed with compose.WithCallbacks
	HandlerPrefix int          `json:"handler_prefix"`          // chunks each handler reads from its copy before closing it
	SameHandler   bool         `json:"same_handler,omitempty"`  // Handlers == 2: the same handler value is passed twice
	HandlerNodes  []int        `json:"handler_nodes,omitempty"` // one more handler each, designated to this top-level lambda node (WithCallbacks(h).DesignateNode)
	Read          int          `json:"read"`                    // -1: read the output to EOF ; k >= 0: read k chunks, then Close
	CloseAfterEOF bool         `json:"close_after_eof,omitempty"`
	Storm         *StormSpec   `json:"storm,omitempty"`   // a concurrent close storm on the copies of one stream precedes the run (storm.go)
	Prelude       string       `json:"prelude,omitempty"` // calls made on the compiled runnable BEFORE the run that is sent to the model (prelude.go): seq = one call ; conc = two calls at the same moment, the first calls on the fresh compile
}

func nodeName(i int) string {
	switch i {
	case START:
		return "start"
	case END:
		return "end"
	}
	if i >= subBase {
		return fmt.Sprintf("n%ds%d", i/subBase-1, i%subBase)
	}
	return fmt.Sprintf("n%d", i)
}

// spec returns the NodeSpec of an outer or inner node id.
func (c *Case) spec(id int) *NodeSpec {
	if id >= subBase {
		return &c.Nodes[id/subBase-1].Sub.Nodes[id%subBase]
	}
	return &c.Nodes[id]
}

// Coq key of a node reference: START 0, END 1, node i -> i+2.
func coqKey(i int) uint64 {
	switch i {
	case START:
		return 0
	case END:
		return 1
	}
	return uint64(i + 2)
}

func coqKeys(xs []int) string {
	ns := make([]uint64, len(xs))
	for i, x := range xs {
		ns[i] = coqKey(x)
	}
	return lib.CoqNList(ns)
}

// ---------------------------------------------------------------- generator

type genCtx struct {
	r    *lib.Rng
	tier string
}

func (g *genCtx) table(ends []int, multi bool, loopBack int) [][]int {
	n := g.r.Range(1, 3)
	var t [][]int
	for i := 0; i < n; i++ {
		if !multi {
			t = append(t, []int{ends[g.r.Intn(len(ends))]})
			continue
		}
		switch g.r.Intn(6) {
		case 0: // nothing
			t = append(t, []int{})
		case 1: // everything
			t = append(t, append([]int(nil), ends...))
		default:
			var s []int
			for _, e := range ends {
				if g.r.Chance(1, 2) {
					s = append(s, e)
				}
			}
			if s == nil {
				s = []int{}
			}
			t = append(t, s)
		}
	}
	return t
}

func (g *genCtx) branch(ends []int) BranchSpec {
	b := BranchSpec{Ends: ends, Multi: g.r.Chance(3, 5), Stream: g.r.Chance(3, 5), Prefix: g.r.Intn(4)}
	b.Table = g.table(ends, b.Multi, -1)
	return b
}

// carve turns the successor list of one node into edges and branches.
// later = candidates for extra (possibly overlapping) branch ends.
func (g *genCtx) carve(succ []int, later []int) ([]int, []BranchSpec) {
	succ = uniqInts(succ)
	var brs []BranchSpec
	edges := succ
	if len(succ) >= 2 && g.r.Chance(1, 2) {
		// a subset of >= 2 successors becomes a branch
		p := g.r.Perm(len(succ))
		k := g.r.Range(2, len(succ))
		var ends, rest []int
		for i, pi := range p {
			if i < k {
				ends = append(ends, succ[pi])
			} else {
				rest = append(rest, succ[pi])
			}
		}
		sort.Ints(ends)
		sort.Ints(rest)
		brs = append(brs, g.branch(ends))
		edges = rest
		if len(ends) >= 2 && g.r.Chance(1, 3) { // a second branch over (part of) the same end nodes
			brs = append(brs, g.branch(append([]int(nil), ends[:2]...)))
		}
	}
	if len(later) >= 2 && len(edges) >= 1 && g.r.Chance(1, 8) {
		// a branch one of whose end nodes is also a direct successor
		other := later[g.r.Intn(len(later))]
		if other != edges[0] {
			ends := []int{edges[0], other}
			sort.Ints(ends)
			brs = append(brs, g.branch(ends))
		}
	}
	if edges == nil {
		edges = []int{}
	}
	return edges, brs
}

func uniqInts(xs []int) []int {
	seen := map[int]bool{}
	var out []int
	for _, x := range xs {
		if !seen[x] {
			seen[x] = true
			out = append(out, x)
		}
	}
	sort.Ints(out)
	return out
}

func (g *genCtx) nodeKind(n *NodeSpec) {
	kinds := []string{"prod", "prod", "prod", "xform", "xform", "conv", "ident", "inv", "coll", "tools", "pass"}
	n.Kind = kinds[g.r.Intn(len(kinds))]
	if n.Kind == "tools" {
		n.Tools = g.r.Range(1, 3)
	}
	n.Cap = g.r.Intn(3)
	switch g.r.Intn(4) {
	case 0:
		n.Items = 1
	case 1:
		n.Items = g.r.Range(2, 5)
	default:
		n.Items = g.r.Range(6, 50)
	}
	n.Prefix = g.r.Intn(4)
	if g.r.Chance(1, 3) {
		n.Yield = g.r.Range(1, 4)
	}
}

func genCase(r *lib.Rng, tier string) *Case {
	g := &genCtx{r: r, tier: tier}
	c := &Case{}
	maxN := 6
	if tier == "thorough" {
		maxN = 9
	}
	switch x := r.Intn(10); {
	case x < 4 && r.Chance(1, 10):
		// wide fan-in: 6-8 streaming nodes side by side between START and END, so that END's merged reader has
		// more sources than schema's static select handles (maxSelectNum = 5: the reflect.Select path of
		// multiStreamReader) and START's output is copied 6-8 times
		c.Mode = []string{"dag", "pregel"}[r.Intn(2)]
		g.genWide(c, r.Range(6, 8))
	case x < 4:
		c.Mode = "dag"
		g.genDag(c, r.Range(1, maxN))
	case x < 7:
		c.Mode = "pregel"
		if r.Chance(1, 3) {
			g.genPregelFree(c, r.Range(1, maxN))
		} else {
			g.genPregel(c, maxN)
		}
	default:
		c.Mode = "workflow"
		g.genWorkflow(c, r.Range(1, maxN))
	}
	g.subs(c)
	if c.Mode != "workflow" {
		g.anyNodes(c.Nodes, c.StartSucc, c.StartBranches)
		for i := range c.Nodes {
			if sub := c.Nodes[i].Sub; sub != nil {
				g.anyNodes(sub.Nodes, sub.StartSucc, sub.StartBranches)
			}
		}
		g.keys(c)
	}
	// state handlers: value handlers concatenate the stream, stream handlers pass it on (as it is or wrapped)
	if r.Chance(1, 6) {
		c.State = true
		hk := []string{"value", "stream", "wrap"}
		for i := range c.Nodes {
			n := &c.Nodes[i]
			if n.Kind == "sub" || n.Kind == "pass" || n.Kind == "anyx" || n.InKey != "" || n.OutKey != "" {
				continue
			}
			if r.Chance(1, 3) {
				n.Pre = hk[r.Intn(3)]
			}
			if r.Chance(1, 3) {
				n.Post = hk[r.Intn(3)]
			}
		}
	}
	// abort exits (outside the property; what they leave behind goes to the distribution)
	if len(c.Nodes) > 0 && r.Chance(1, 14) {
		if n := &c.Nodes[r.Intn(len(c.Nodes))]; n.Kind != "pass" {
			n.Fail = true
		}
	}
	if c.Mode == "pregel" && r.Chance(1, 14) {
		c.MaxSteps = r.Range(1, 3)
	}
	// interrupt + resume: the streams held by channels and pending tasks go through the checkpoint
	// (not on free-form Pregel graphs, whose "END alone" test needs the schedule of the last run)
	if len(c.Nodes) > 0 && !c.Free && r.Chance(1, 8) {
		for n := r.Range(1, 2); n > 0; n-- {
			x := r.Intn(len(c.Nodes))
			if r.Chance(1, 2) {
				c.IntBefore = append(c.IntBefore, x)
			} else {
				c.IntAfter = append(c.IntAfter, x)
			}
		}
		c.IntBefore, c.IntAfter = uniqInts(c.IntBefore), uniqInts(c.IntAfter)
	}
	// interrupts raised by a node (InterruptAndRerun) or inside a nested graph: the run is resumed until it
	// completes; these exits are not in the model, the oracle judges the completed run
	if len(c.Nodes) > 0 && !c.Free && r.Chance(1, 12) {
		rerunnable := func(k string) bool { return k == "xform" || k == "conv" || k == "ident" || k == "coll" }
		x := r.Intn(len(c.Nodes))
		switch n := &c.Nodes[x]; {
		case n.Sub != nil && len(n.Sub.Nodes) > 0:
			y := r.Intn(len(n.Sub.Nodes))
			if r.Chance(1, 2) {
				n.Sub.IntBefore = []int{y}
			} else {
				n.Sub.IntAfter = []int{y}
			}
			if sn := &n.Sub.Nodes[y]; rerunnable(sn.Kind) && r.Chance(1, 3) {
				sn.Rerun = 1
			}
		case rerunnable(n.Kind) && !n.Fail:
			n.Rerun = r.Range(1, 2)
		}
	}
	switch x := r.Intn(8); {
	case x < 3:
		c.Input = "stream"
		c.InCap = r.Intn(3)
		c.InItems = r.Range(1, 12)
	case x < 4:
		c.Input = "collect"
		c.InCap = r.Intn(3)
		c.InItems = r.Range(1, 12)
	default:
		c.Input = "value"
	}
	switch r.Intn(4) {
	case 0:
		c.Handlers = 1
	case 1:
		c.Handlers = 2
	}
	c.HandlerPrefix = r.Intn(3)
	if c.Handlers == 2 && r.Chance(1, 3) {
		c.SameHandler = true
	}
	if len(c.Nodes) > 0 && r.Chance(1, 5) {
		for n := r.Range(1, 2); n > 0; n-- {
			if x := r.Intn(len(c.Nodes)); c.Nodes[x].Kind != "sub" && c.Nodes[x].Kind != "pass" {
				c.HandlerNodes = append(c.HandlerNodes, x)
			}
		}
	}
	switch r.Intn(5) {
	case 0:
		c.Read = -1
		c.CloseAfterEOF = r.Chance(1, 2)
	case 1:
		c.Read = 0
	default:
		c.Read = r.Range(1, 8)
	}
	return c
}

// genWide: START -> n0 .. n(k-1) -> END, every node a real stream (no array-backed output, which a merge
// would fold into one source).
func (g *genCtx) genWide(c *Case, k int) {
	r := g.r
	c.Nodes = make([]NodeSpec, k)
	c.StartSucc = make([]int, k)
	for j := 0; j < k; j++ {
		g.nodeKind(&c.Nodes[j])
		c.Nodes[j].Kind = []string{"prod", "prod", "xform", "conv"}[r.Intn(4)]
		c.Nodes[j].Tools = 0
		c.Nodes[j].Succ = []int{END}
		c.StartSucc[j] = j
	}
}

// genDag: nodes in topological order; every node has a predecessor and a successor.
func (g *genCtx) genDag(c *Case, k int) {
	r := g.r
	succ := make(map[int][]int) // START = -1
	for j := 0; j < k; j++ {
		p := r.Range(-1, j-1)
		succ[p] = append(succ[p], j)
		if r.Chance(1, 3) && j > 0 {
			q := r.Range(-1, j-1)
			succ[q] = append(succ[q], j)
		}
	}
	for j := 0; j < k; j++ {
		if len(succ[j]) == 0 || r.Chance(1, 4) {
			t := r.Range(j+1, k)
			if t == k {
				t = END
			}
			succ[j] = append(succ[j], t)
		}
		if r.Chance(1, 3) {
			succ[j] = append(succ[j], END)
		}
	}
	c.Nodes = make([]NodeSpec, k)
	for j := -1; j < k; j++ {
		var later []int
		for t := j + 1; t < k; t++ {
			later = append(later, t)
		}
		later = append(later, END)
		edges, brs := g.carve(succ[j], later)
		if j == START {
			c.StartSucc, c.StartBranches = edges, brs
		} else {
			g.nodeKind(&c.Nodes[j])
			c.Nodes[j].Succ, c.Nodes[j].Branches = edges, brs
		}
	}
}

// genPregel: layered graph (edges only to the next layer, END after the last one), so that at
// every superstep all scheduled nodes sit in one layer and END is reached with no other node
// scheduled. A layer with a single node may carry a single-choice loop branch back to an
// earlier node.
func (g *genCtx) genPregel(c *Case, maxN int) {
	r := g.r
	nl := r.Range(1, 4)
	var layers [][]int
	n := 0
	for l := 0; l < nl && n < maxN; l++ {
		w := r.Range(1, 3)
		var lay []int
		for i := 0; i < w && n < maxN; i++ {
			lay = append(lay, n)
			n++
		}
		layers = append(layers, lay)
	}
	c.Nodes = make([]NodeSpec, n)
	succ := make(map[int][]int)
	layerOf := func(l int) []int {
		if l == len(layers) {
			return []int{END}
		}
		return layers[l]
	}
	for l := -1; l < len(layers); l++ {
		var cur []int
		if l == -1 {
			cur = []int{START}
		} else {
			cur = layers[l]
		}
		next := layerOf(l + 1)
		for _, t := range next { // every next-layer node has a predecessor
			p := cur[r.Intn(len(cur))]
			succ[p] = append(succ[p], t)
		}
		for _, p := range cur { // every node has a successor
			if len(succ[p]) == 0 || r.Chance(1, 3) {
				succ[p] = append(succ[p], next[r.Intn(len(next))])
			}
		}
	}
	for j := -1; j < n; j++ {
		l := -1
		for li, lay := range layers {
			for _, x := range lay {
				if x == j {
					l = li
				}
			}
		}
		next := layerOf(l + 1)
		if j >= 0 {
			g.nodeKind(&c.Nodes[j])
		}
		if j >= 0 && len(layers[l]) == 1 && r.Chance(1, 3) {
			// loop node: its only way out is a single-choice branch {back, forward...}
			back := r.Range(0, j)
			ends := uniqInts(append([]int{back}, succ[j]...))
			if len(ends) >= 2 {
				fwd := succ[j][r.Intn(len(succ[j]))]
				var tab [][]int
				for i := r.Range(1, 2); i > 0; i-- {
					tab = append(tab, []int{back})
				}
				tab = append(tab, []int{fwd})
				c.Nodes[j].Succ = []int{}
				c.Nodes[j].Branches = []BranchSpec{{Ends: ends, Multi: false, Stream: r.Chance(1, 2), Prefix: r.Intn(3), Table: tab}}
				continue
			}
		}
		edges, brs := g.carve(succ[j], next)
		if j == START {
			c.StartSucc, c.StartBranches = edges, brs
		} else {
			c.Nodes[j].Succ, c.Nodes[j].Branches = edges, brs
		}
	}
}

// anyNodes turns some lambda nodes that have exactly one predecessor into any-typed ones (a stream of
// any cannot be merged with another stream, so such a node takes its input from one place only).
func (g *genCtx) anyNodes(nodes []NodeSpec, startSucc []int, startBranches []BranchSpec) {
	preds := map[int]int{}
	add := func(succ []int, brs []BranchSpec) {
		for _, t := range succ {
			preds[t]++
		}
		for _, b := range brs {
			for _, t := range b.Ends {
				preds[t]++
			}
		}
	}
	add(startSucc, startBranches)
	for _, n := range nodes {
		add(n.Succ, n.Branches)
	}
	// A passthrough node takes its type from the first typed neighbour it is connected to: behind an
	// any-typed node it is any-typed itself, and as a fan-in target it then asks eino to merge a stream of
	// any with the other streams, which eino refuses at run time ("unsupported chunk type: interface {}" /
	// "chunk type mismatch" — a documented limit of stream fan-in, Invoke merges the same values). Such a
	// graph never completes in stream mode, so no any-typed node is placed where a chain of passthrough
	// nodes leads from it to a passthrough node with several predecessors.
	var feedsFanInPass func(i int, seen map[int]bool) bool
	feedsFanInPass = func(i int, seen map[int]bool) bool {
		if seen[i] {
			return false
		}
		seen[i] = true
		var outs []int
		outs = append(outs, nodes[i].Succ...)
		for _, b := range nodes[i].Branches {
			outs = append(outs, b.Ends...)
		}
		for _, t := range outs {
			if t < 0 || t >= len(nodes) || nodes[t].Kind != "pass" {
				continue
			}
			if preds[t] > 1 || feedsFanInPass(t, seen) {
				return true
			}
		}
		return false
	}
	for i := range nodes {
		switch nodes[i].Kind {
		case "xform", "conv", "ident", "pass":
			if preds[i] == 1 && g.r.Chance(1, 5) && !feedsFanInPass(i, map[int]bool{}) {
				nodes[i].Kind = "anyx"
			}
		}
	}
}

// keys: output keys on some nodes (prod/inv/coll: the value under the key is a string; xform/conv/ident/sub:
// it is the node's M output); an input key on a node all of whose data predecessors carry that same
// output key with a value of the type the node takes (prod/inv/coll: string; xform/conv/ident/sub: M).
func (g *genCtx) keys(c *Case) {
	r := g.r
	class := func(k string) string {
		switch k {
		case "prod", "inv", "coll":
			return "s"
		case "xform", "conv", "ident", "sub":
			return "m"
		}
		return ""
	}
	for i := range c.Nodes {
		switch class(c.Nodes[i].Kind) {
		case "s":
			if r.Chance(1, 4) {
				c.Nodes[i].OutKey = []string{"ka", "kb"}[r.Intn(2)]
			}
		case "m": // other key names: a successor without input key merges the chunks of all its predecessors
			if r.Chance(1, 6) {
				c.Nodes[i].OutKey = []string{"ma", "mb"}[r.Intn(2)]
			}
		}
	}
	preds := map[int][]int{}
	add := func(from int, succ []int, brs []BranchSpec) {
		for _, t := range succ {
			preds[t] = append(preds[t], from)
		}
		for _, b := range brs {
			for _, t := range b.Ends {
				preds[t] = append(preds[t], from)
			}
		}
	}
	add(START, c.StartSucc, c.StartBranches)
	for i, n := range c.Nodes {
		add(i, n.Succ, n.Branches)
	}
	for i := range c.Nodes {
		cl := class(c.Nodes[i].Kind)
		if cl == "" || len(preds[i]) == 0 {
			continue
		}
		k := ""
		ok := true
		for _, p := range preds[i] {
			if p == START || c.Nodes[p].OutKey == "" || class(c.Nodes[p].Kind) != cl || (k != "" && c.Nodes[p].OutKey != k) {
				ok = false
				break
			}
			k = c.Nodes[p].OutKey
		}
		if ok && r.Chance(2, 3) {
			c.Nodes[i].InKey = k
		}
	}
}

// genWorkflow: nodes in topological order. Every node gets its control from a parent (an input
// with or without data, or a branch of the parent — a Workflow branch carries no data) and its
// data from inputs with / without direct dependency; data-only inputs come from any earlier node
// (the cross-branch shape of the Workflow documentation). Every node without a successor feeds END.
func (g *genCtx) genWorkflow(c *Case, k int) {
	r := g.r
	c.Nodes = make([]NodeSpec, k)
	c.StartSucc = []int{}
	children := map[int][]int{}
	for j := 0; j < k; j++ {
		g.nodeKind(&c.Nodes[j])
		if c.Nodes[j].Kind == "pass" {
			c.Nodes[j].Kind = "ident" // a Workflow node takes its input through field mappings
		}
		c.Nodes[j].Succ = []int{}
		p := r.Range(-1, j-1)
		children[p] = append(children[p], j)
	}
	has := func(ins []InputSpec, from int) bool {
		for _, in := range ins {
			if in.From == from {
				return true
			}
		}
		return false
	}
	inputsOf := func(t int) *[]InputSpec {
		if t == END {
			return &c.EndInputs
		}
		return &c.Nodes[t].Inputs
	}
	add := func(t, from int, kind string) {
		ins := inputsOf(t)
		if !has(*ins, from) {
			*ins = append(*ins, InputSpec{From: from, Kind: kind})
		}
	}
	branchEnd := map[int]bool{}
	for p := -1; p < k; p++ {
		ch := children[p]
		cand := append([]int(nil), ch...)
		if r.Chance(1, 2) {
			cand = append(cand, END)
		}
		if len(cand) >= 2 && r.Chance(1, 2) {
			pm := r.Perm(len(cand))
			n := r.Range(2, len(cand))
			var ends []int
			for i := 0; i < n; i++ {
				ends = append(ends, cand[pm[i]])
			}
			sort.Ints(ends)
			b := g.branch(ends)
			if p == START {
				c.StartBranches = append(c.StartBranches, b)
			} else {
				c.Nodes[p].Branches = append(c.Nodes[p].Branches, b)
			}
			for _, e := range ends {
				branchEnd[e] = true
				// the data of a branch end: from the branching node without direct dependency, from an
				// earlier node, both, or nothing at all (the node then runs on an empty stream)
				switch r.Intn(5) {
				case 0:
				case 1:
					add(e, p, "in") // also a direct successor of the branching node
				default:
					add(e, p, "data")
				}
			}
			if r.Chance(1, 3) && len(ends) >= 2 {
				b2 := g.branch(append([]int(nil), ends[:2]...))
				if p == START {
					c.StartBranches = append(c.StartBranches, b2)
				} else {
					c.Nodes[p].Branches = append(c.Nodes[p].Branches, b2)
				}
			}
		}
		for _, j := range ch {
			if !branchEnd[j] || r.Chance(1, 8) {
				if r.Chance(1, 5) {
					add(j, p, "dep")
				} else {
					add(j, p, "in")
				}
			}
		}
	}
	// extra inputs from earlier nodes
	for j := 0; j < k; j++ {
		for n := r.Intn(3); n > 0; n-- {
			q := r.Range(-1, j-1)
			switch r.Intn(4) {
			case 0:
				add(j, q, "dep")
			case 1:
				add(j, q, "in")
			default:
				add(j, q, "data")
			}
		}
	}
	// every node without a successor feeds END; a few more END inputs
	// (a control successor: END waits, directly or not, for every node that runs, so that when END
	// is reached every node ran or was skipped)
	hasSucc := map[int]bool{}
	for j := 0; j < k; j++ {
		for _, in := range c.Nodes[j].Inputs {
			if in.Kind != "data" {
				hasSucc[in.From] = true
			}
		}
		if len(c.Nodes[j].Branches) > 0 {
			hasSucc[j] = true
		}
	}
	for j := 0; j < k; j++ {
		if !hasSucc[j] || r.Chance(1, 4) {
			if r.Chance(1, 6) && hasSucc[j] {
				add(END, j, "data")
			} else {
				add(END, j, "in")
			}
		}
	}
	if len(c.EndInputs) == 0 {
		add(END, START, "in")
	}
	// START needs a direct successor ("start node not set" otherwise)
	startDirect := false
	for j := 0; j < k; j++ {
		for _, in := range c.Nodes[j].Inputs {
			if in.From == START && in.Kind != "data" {
				startDirect = true
			}
		}
	}
	for _, in := range c.EndInputs {
		if in.From == START && in.Kind != "data" {
			startDirect = true
		}
	}
	if !startDirect {
		switch {
		case k > 0 && !has(c.Nodes[0].Inputs, START):
			add(0, START, "dep")
		case !has(c.EndInputs, START):
			add(END, START, "in")
		default: // both have a data-only input from START: give the first one a direct dependency
			for i := range c.Nodes[0].Inputs {
				if c.Nodes[0].Inputs[i].From == START {
					c.Nodes[0].Inputs[i].Kind = "in"
				}
			}
		}
	}
	// mappings: the entire output when it is the only data input, otherwise one field per predecessor
	fix := func(ins []InputSpec) {
		nd := 0
		for _, in := range ins {
			if in.Kind != "dep" {
				nd++
			}
		}
		for i := range ins {
			switch {
			case ins[i].Kind == "dep":
				ins[i].Map = ""
			case nd == 1 && r.Chance(2, 3):
				ins[i].Map = "whole"
			default:
				ins[i].Map = "to"
			}
		}
	}
	for j := range c.Nodes {
		fix(c.Nodes[j].Inputs)
	}
	fix(c.EndInputs)
	// static values: a node all of whose data inputs are mapped to fields may get one more field from a
	// static value (the framework merges a stream of its own into the node's input)
	for j := range c.Nodes {
		ok := true
		for _, in := range c.Nodes[j].Inputs {
			if in.Kind != "dep" && in.Map != "to" {
				ok = false
			}
		}
		if ok && r.Chance(1, 4) {
			c.Nodes[j].Static = true
		}
	}
}

// calls of the compiled graph as the model wants them: for START and every node the data
// successors (chanCall.writeTo) and the control successors (chanCall.controls).
func (c *Case) callsOf() (writeTo, controls map[int][]int) {
	writeTo, controls = map[int][]int{}, map[int][]int{}
	if c.Mode != "workflow" {
		writeTo[START], controls[START] = c.StartSucc, c.StartSucc
		for i, n := range c.Nodes {
			writeTo[i], controls[i] = n.Succ, n.Succ
		}
		return
	}
	addIn := func(t int, ins []InputSpec) {
		for _, in := range ins {
			if in.Kind == "in" || in.Kind == "data" {
				writeTo[in.From] = append(writeTo[in.From], t)
			}
			if in.Kind == "in" || in.Kind == "dep" {
				controls[in.From] = append(controls[in.From], t)
			}
		}
	}
	for i, n := range c.Nodes {
		addIn(i, n.Inputs)
	}
	addIn(END, c.EndInputs)
	return
}

// subs turns some nodes into nested graphs (1-3 inner nodes, own trigger mode).
func (g *genCtx) subs(c *Case) {
	r := g.r
	for i := range c.Nodes {
		if !r.Chance(1, 10) {
			continue
		}
		inner := &Case{}
		if r.Chance(1, 2) {
			inner.Mode = "dag"
			g.genDag(inner, r.Range(1, 3))
		} else {
			inner.Mode = "pregel"
			g.genPregel(inner, 3)
		}
		if c.Free {
			for j := range inner.Nodes {
				if inner.Nodes[j].Items > 4 {
					inner.Nodes[j].Items = 1 + inner.Nodes[j].Items%4
				}
			}
		}
		c.Nodes[i].Kind = "sub"
		c.Nodes[i].Sub = &SubSpec{Mode: inner.Mode, Nodes: inner.Nodes, StartSucc: inner.StartSucc, StartBranches: inner.StartBranches}
	}
}

// genPregelFree: an arbitrary directed graph in any-predecessor mode (edges and branches in every
// direction, cycles included, step limit 8). Whether END is reached with no other node scheduled
// is decided after the run (see unfinished): the other runs are outside the property.
func (g *genCtx) genPregelFree(c *Case, k int) {
	r := g.r
	c.Nodes = make([]NodeSpec, k)
	c.MaxSteps = 8 // the data volume can double with every pass of a cycle: few passes, short streams
	c.Free = true
	any := func() int { // a node or END
		t := r.Range(0, k)
		if t == k {
			return END
		}
		return t
	}
	succ := map[int][]int{}
	succ[START] = []int{r.Intn(k)}
	if r.Chance(1, 3) {
		succ[START] = append(succ[START], any())
	}
	for j := 0; j < k; j++ {
		for n := r.Range(1, 2); n > 0; n-- {
			if r.Chance(1, 3) {
				succ[j] = append(succ[j], END)
			} else {
				succ[j] = append(succ[j], any())
			}
		}
	}
	all := []int{END}
	for j := 0; j < k; j++ {
		all = append(all, j)
	}
	for j := -1; j < k; j++ {
		edges, brs := g.carve(succ[j], all)
		if j == START {
			c.StartSucc, c.StartBranches = edges, brs
		} else {
			g.nodeKind(&c.Nodes[j])
			if c.Nodes[j].Items > 4 {
				c.Nodes[j].Items = 1 + c.Nodes[j].Items%4
			}
			c.Nodes[j].Succ, c.Nodes[j].Branches = edges, brs
		}
	}
}
