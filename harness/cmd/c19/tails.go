// tails.go: engine C19 — streams that end in an unusual way (round 6): an empty stream (a producer that closes
// without sending, a converter that drops every chunk) and a stream whose last item is an error chunk.
//
// Until round 6 every producer of a case sent 1-50 ordinary chunks. An empty stream is a legal stream (a copy
// parent whose every child meets io.EOF on its first read, a merge source that ends before anything was selected,
// a forwarder goroutine with nothing to forward), and so is a stream that carries an error as an item: the
// consumer that meets it stops reading and closes. Both only survive along consumers that read streams as
// streams - whoever concatenates (value nodes, value conditions, state handlers, checkpoints, Collect) turns them
// into a failed run, which is outside the property - so the tails are put only on producers / converters all of
// whose consumers, transitively up to END, are stream consumers (tolerant), in graph modes, in cases without
// interrupts, state handlers, planned failures and Collect entry. Chosen by a hash of the case as generated
// (1 eligible case in 4): the generated graphs stay what they were; the model never sees item counts.
package main

import (
	"encoding/json"
	"hash/fnv"
)

func tailsOf(c *Case) map[int]string {
	if c.Mode == "workflow" || c.State || c.Input == "collect" || len(c.IntBefore)+len(c.IntAfter) > 0 || extraInterrupts(c) {
		return nil
	}
	for i := range c.Nodes {
		if c.Nodes[i].Fail {
			return nil
		}
	}
	b, _ := json.Marshal(c)
	h := fnv.New64a()
	h.Write([]byte("tails"))
	h.Write(b)
	x := h.Sum64()
	if x%4 != 0 {
		return nil
	}
	withErr := (x/4)%2 == 1
	out := map[int]string{}
	for i := range c.Nodes {
		n := &c.Nodes[i]
		switch {
		case n.Kind == "prod" && !withErr && tolerant(c, i, false, map[int]bool{}):
			out[i] = "empty"
		case n.Kind == "conv" && !withErr && tolerant(c, i, false, map[int]bool{}):
			out[i] = "drop"
		case n.Kind == "prod" && withErr && n.Items >= 1 && tolerant(c, i, true, map[int]bool{}):
			out[i] = "err"
		}
	}
	return out
}

// tolerant: everything that reads the output of node i, transitively up to END, reads it as a stream; with an
// error chunk (withErr) nobody on the way may read a prefix (a condition or a collecting node that meets the
// error fails the run)
func tolerant(c *Case, i int, withErr bool, seen map[int]bool) bool {
	if seen[i] {
		return true
	}
	seen[i] = true
	n := &c.Nodes[i]
	if n.Pre != "" || n.Post != "" {
		return false
	}
	next := append([]int(nil), n.Succ...)
	for _, b := range n.Branches {
		if !b.Stream || withErr {
			return false
		}
		next = append(next, b.Ends...)
	}
	for _, j := range next {
		if j == END {
			continue
		}
		if j < 0 || j >= len(c.Nodes) {
			return false
		}
		switch c.Nodes[j].Kind {
		case "xform", "conv", "ident", "pass", "anyx":
			if !tolerant(c, j, withErr, seen) {
				return false
			}
		case "coll":
			if withErr || c.Nodes[j].Pre != "" {
				return false
			}
		default:
			return false
		}
	}
	return true
}
