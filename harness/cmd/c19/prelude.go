// prelude.go: engine C19 — the run that is judged and sent to the model is not always the FIRST call on its
// compiled runnable (round 6).
//
// The property speaks about every finished streaming run, and a compiled runnable is made to be called many times,
// also from several goroutines at once. Whatever a call leaves behind in the compiled object (a channel that
// remembers it was skipped, a stored stream, a copy count worked out for the first run's branch outcomes, a table
// filled in lazily by whichever call comes first) shows only in a later or in a simultaneous call. Until round 6
// every case compiled its graph and called it exactly once (interrupted runs aside, which continue ONE run).
//
//	seq   one complete call before the run: the run is then the second call on the same compiled object, with branch
//	      outcomes that go on in the tables where the first call stopped (so they differ from the first call's)
//	conc  two calls started at the same moment from two goroutines, the very first calls on the fresh compile; one
//	      caller reads as the case says, the other the opposite way (to the end / closes at once); all-predecessor
//	      modes only (what "finished" means for a call is judged per case, not per call: see unfinished)
//
// The prelude is judged by the direct oracle alone (producers released, no framework goroutine left, every internal
// stream and every single copy drained or closed), like a run; when it did not complete or ended early it gets no
// verdict. Afterwards the per-call records of the environment are reset, the harness waits until the goroutines of
// the prelude are gone, and the run proper goes through oracle and model as ever.
package main

import (
	"encoding/json"
	"fmt"
	"hash/fnv"
	"os"
	"strings"
	"sync/atomic"
	"time"

	"github.com/cloudwego/eino/compose"

	"verif/harness/lib"
)

var (
	timeQuiesce time.Duration
	timePre     int
)

// preludeOf derives the prelude of a generated case from the case itself (no draw from the generator's random
// stream: the generated graphs stay what they were): 1 case in 6 of those that are not interruptible (a checkpoint
// id belongs to one run) and plan no failure
func preludeOf(c *Case) string {
	if len(c.IntBefore)+len(c.IntAfter) > 0 || extraInterrupts(c) {
		return ""
	}
	for i := range c.Nodes {
		if c.Nodes[i].Fail {
			return ""
		}
	}
	b, _ := json.Marshal(c)
	h := fnv.New64a()
	h.Write([]byte("prelude"))
	h.Write(b)
	x := h.Sum64()
	if x%6 != 0 {
		return ""
	}
	if (x/6)%2 == 0 && c.Mode != "pregel" {
		return "conc"
	}
	return "seq"
}

// resetCalls forgets the records of the calls made so far (the compiled runnable and its node functions keep
// pointing at this environment); the branch tables go on where they were
func (e *env) resetCalls() {
	e.mu.Lock()
	defer e.mu.Unlock()
	for k, log := range e.brLog {
		e.brOff[k] += len(log)
	}
	e.brLog = map[[2]int][][]int{}
	e.execs, e.execRerun, e.producers, e.pipes = nil, nil, nil, nil
	e.sched, e.scheds, e.segs, e.subCalls, e.collected = nil, nil, nil, nil, nil
	e.resumes = 0
}

// prelude makes the calls, judges them and leaves the environment ready for the run proper. A non-nil result is
// the verdict of the case (the direct oracle failed on the prelude).
func prelude(c *Case, e *env, r compose.Runnable[M, M], base map[int]bool, baseN int) (*lib.Result, []string) {
	reads := []int{c.Read}
	if c.Prelude == "conc" {
		other := -1
		if c.Read < 0 {
			other = 0
		}
		reads = append(reads, other)
	}
	out := runCalls(e, r, reads)
	st := settle(c, e, base, baseN, out)
	tags := []string{"prelude:" + c.Prelude}
	class := out.class
	if class == "ok" {
		why := st.earlyWhy
		if why == "" {
			why = unfinished(c, e)
		}
		if why != "" {
			class = "early_end"
		}
	}
	tags = append(tags, "prelude-class:"+class)
	if class == "ok" || class == "panic" || class == "hang" {
		var fails []string
		sig := ""
		if class != "ok" {
			fails, sig = append(fails, "streaming run "+class+": "+out.msg), class
		}
		if len(st.blocked) > 0 && class == "ok" {
			fails, sig = append(fails, fmt.Sprintf("producer(s) still blocked after the caller finished and the run went quiet: %v", st.blocked)), "blocked-producer"
		}
		if len(st.leaked) > 0 && class == "ok" {
			fails = append(fails, fmt.Sprintf("goroutine(s) left behind: %v", st.leaked))
			if sig == "" {
				sig = "leaked-goroutine"
			}
		}
		if len(st.sum.Undrained) > 0 && class == "ok" {
			fails = append(fails, fmt.Sprintf("internal stream(s) neither drained nor closed: %v", st.sum.Undrained))
			if sig == "" {
				sig = "undrained-stream"
			}
		}
		if len(fails) > 0 {
			what := map[string]string{"seq": "an earlier call on the same compiled runnable", "conc": "two simultaneous first calls on the freshly compiled runnable"}[c.Prelude]
			obs := Obs{Class: "prelude-" + class, Msg: out.msg, Chunks: out.chunks, EOF: out.eof, Blocked: st.blocked, Leaked: st.leaked, Hook: st.sum,
				Execs: []string{}, Producers: []string{}, Sched: e.sched, Events: st.events}
			if len(obs.Events) > 600 {
				obs.Events = obs.Events[:600]
			}
			e.mu.Lock()
			for _, x := range e.execs {
				obs.Execs = append(obs.Execs, nodeName(x))
			}
			for _, p := range e.producers {
				obs.Producers = append(obs.Producers, fmt.Sprintf("%s:%d", p.name, atomic.LoadInt32(&p.state)))
			}
			e.mu.Unlock()
			res := lib.Result{Obs: &obs, Oracle: what + ": " + strings.Join(fails, "; "), Sig: sig}
			res.Tags = append(tagsOf(c, e, &obs), tags...)
			e.releaseAll()
			quiesce(base)
			return &res, tags
		}
	} else {
		e.releaseAll() // no verdict: aborted or ended early; its producers must not pile up
	}
	tq := time.Now()
	quiesce(base)
	if timing {
		timeQuiesce += time.Since(tq)
		timePre++
		if timePre%50 == 0 {
			fmt.Fprintf(os.Stderr, "c19 timing: %d preludes, quiesce after them %v\n", timePre, timeQuiesce)
		}
	}
	e.resetCalls()
	return nil, tags
}
