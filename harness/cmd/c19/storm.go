// storm.go: engine C19 — a concurrent close storm on the copies of one stream (round 5).
//
// "Closing the last copy closes the source" (schema/stream.go, parentStreamReader.close) is a statement about
// closes that arrive from different goroutines: the parallel successors of a streaming node and the callback
// handlers each close their own copy. In a graph run these closes rarely overlap (and while the accounting log
// is on, its mutex spaces them out), so a lost update in the close bookkeeping passes every generated run.
// Here the copies of one producer-fed stream are handed to one goroutine each; every goroutine reads a short
// prefix, waits at a spinning barrier and closes its copy at the same moment as its siblings, with the
// accounting log switched off. After that the source must have been closed: the producer, which has far more
// items than anybody read, must come back from Send with "closed". Repeated for a number of rounds.
package main

import (
	"encoding/json"
	"fmt"
	"hash/fnv"
	"runtime"
	"sync"
	"sync/atomic"
	"time"

	"github.com/cloudwego/eino/schema"
)

// StormSpec: the storm that precedes the run of a case
type StormSpec struct {
	Copies int  `json:"copies"`           // 2-8 sibling copies
	Rounds int  `json:"rounds"`           // repetitions
	Prefix int  `json:"prefix"`           // chunks every copy reads before it closes (0-2)
	Conv   bool `json:"conv,omitempty"`   // the copied stream is a converted one (StreamReaderWithConvert over the pipe)
	Nested bool `json:"nested,omitempty"` // the last copy is copied once more (a callback copy of a fan-out copy)
}

// stormOf derives the storm of a generated case from the case itself (no draw from the case generator's
// random stream: the generated graphs stay what they were): 1 case in 12
func stormOf(c *Case, tier string) *StormSpec {
	b, _ := json.Marshal(c)
	h := fnv.New64a()
	h.Write(b)
	x := h.Sum64()
	if x%12 != 0 {
		return nil
	}
	x /= 12
	s := &StormSpec{Copies: 2 + int(x%7), Rounds: 120, Prefix: int((x / 7) % 3), Conv: (x/21)%2 == 0, Nested: (x/42)%3 == 0}
	if tier == "thorough" {
		s.Rounds = 400
	}
	return s
}

var stormFailed int32

// closeStorm returns "" when the source was closed in every round, else what happened
func closeStorm(s *StormSpec) string {
	if atomic.LoadInt32(&stormFailed) != 0 {
		return "" // one failing storm per process is reported; every failure costs the wait for the producer
	}
	for round := 0; round < s.Rounds; round++ {
		if why := stormRound(s); why != "" {
			atomic.StoreInt32(&stormFailed, 1)
			return fmt.Sprintf("round %d of a close storm: %s", round, why)
		}
	}
	return ""
}

func stormRound(s *StormSpec) string {
	sr, sw := schema.Pipe[int](round2(s.Copies))
	released := make(chan bool, 1)
	go func() {
		closed := false
		for i := 0; i < 100000 && !closed; i++ {
			closed = sw.Send(i, nil)
		}
		sw.Close()
		released <- closed
	}()
	src := sr
	if s.Conv {
		src = schema.StreamReaderWithConvert(sr, func(i int) (int, error) { return i, nil })
	}
	copies := src.Copy(s.Copies)
	if s.Nested {
		last := copies[len(copies)-1]
		copies = append(copies[:len(copies)-1], last.Copy(2)...)
	}
	n := len(copies)
	var ready, start int32
	var wg sync.WaitGroup
	for _, c := range copies {
		wg.Add(1)
		go func(c *schema.StreamReader[int]) {
			defer wg.Done()
			for k := 0; k < s.Prefix; k++ {
				if _, err := c.Recv(); err != nil {
					break
				}
			}
			atomic.AddInt32(&ready, 1)
			for spins := 0; atomic.LoadInt32(&start) == 0; spins++ {
				if spins > 200 {
					runtime.Gosched() // fewer processors than copies: let the others reach the barrier
				}
			}
			c.Close()
		}(c)
	}
	t0 := time.Now()
	for atomic.LoadInt32(&ready) < int32(n) {
		runtime.Gosched()
		if time.Since(t0) > 20*time.Second {
			atomic.StoreInt32(&start, 1)
			return "" // the machine is too slow for a storm: no verdict
		}
	}
	atomic.StoreInt32(&start, 1)
	wg.Wait()
	// every copy has been closed: the source is closed, the producer's next Send reports it
	select {
	case closed := <-released:
		if !closed {
			return fmt.Sprintf("the producer ran out of items although %d copies read at most %d chunks each", n, s.Prefix)
		}
		return ""
	case <-time.After(6 * time.Second): // (a closed source wakes the producer at once; the wait only has to outlast a loaded scheduler)
		// the producer is still blocked in Send: release it through the source so that it does not pile up
		sr.Close()
		return fmt.Sprintf("all %d copies of the stream were closed (concurrently, by %d goroutines) and the source was not closed: the producer is still blocked in Send 6 s later", n, n)
	}
}

func round2(n int) int { return n % 3 }
