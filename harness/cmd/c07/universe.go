package main

// The Go type universe of engine C07 and its image in the model.
//
// Concrete (non-interface) types            model            method set (by reflection)
//   T1  struct, value receivers M1 M2        TConc 0          {M1, M2}
//   T2  struct, value receiver M2            TConc 1          {M2}
//   T3  struct, POINTER receiver M2          TConc 2          {}          (only *T3 has M2)
//   M   map[string]any (unnamed)             TConc 3          {}
//   NM  type NM map[string]any, method M2    TConc 4          {M2}        same underlying type as M:
//                                                                          Go-assignable both ways, distinct types
//   P1  *T1                                  TConc 5          {M1, M2}    (promoted from T1)
//   P3  *T3                                  TConc 6          {M2}
//   BI  Box[int] (generic struct)            TConc 7          {Get() int}
// Interface types
//   I1  interface{ I2; M1() }                TIface 0         {M1, M2}
//   I2  interface{ M2() }                    TIface 1         {M2}
//   I2b interface{ M2() } (another name)     TIface 2         {M2}        distinct type, same method set as I2
//   GI  G[int]    = interface{ Get() int }   TIface 3         {Get() int}
//   GS  G[string] = interface{ Get() string} TIface 4         {Get() string}   (nothing implements it)
//   any                                      TAny             {}
//
// The method sets sent to the model (UNIV in the header of every cases file) are read off the
// Go types with reflect (name + signature -> method id); init() checks that inclusion of these
// sets is exactly reflect's Implements on every pair, and that type identity is identity of names.
//
// Dynamic values: one non-nil value per concrete type, the nil interface value, and typed nil
// values of the pointer types ("P1z" = (*T1)(nil) ...: a non-nil interface value whose
// dynamic type is P1; the model does not distinguish it from "P1").

import (
	"fmt"
	"reflect"
	"sort"
	"strings"

	"verif/harness/cmd/c07/u"
)

type tyInfo struct {
	name  string
	rt    reflect.Type
	iface bool
	val   func() any // a non-nil value (concrete types)
	zval  func() any // a second value of the type: the typed nil pointer / the zero struct (an "empty" value), or nil
}

func ifaceType[T any]() reflect.Type { return reflect.TypeOf((*T)(nil)).Elem() }

// order matters: the position among the concrete types / among the named interfaces is the
// id in the model
var universe = []tyInfo{
	{name: "T1", rt: reflect.TypeOf(u.T1{}), val: func() any { return u.T1{X: 1} }, zval: func() any { return u.T1{} }},
	{name: "T2", rt: reflect.TypeOf(u.T2{}), val: func() any { return u.T2{Y: 2} }, zval: func() any { return u.T2{} }},
	{name: "T3", rt: reflect.TypeOf(u.T3{}), val: func() any { return u.T3{Z: 3} }, zval: func() any { return u.T3{} }},
	// the "empty" map values (round 5): "Mz" = the empty map, "NMz" = the typed nil map.  Two of them meeting at a
	// fan-in merge successfully (the non-nil values collide on their key), and the model does not predict what
	// happens behind a merge (RMerge); a node with an input key does not find its key in them.  So they are used
	// only in the runs of graphs without a fan-in and without keyed nodes (mapZOK), see optionsForCase.
	{name: "M", rt: reflect.TypeOf(map[string]any{}), val: func() any { return map[string]any{"k": 1} }, zval: func() any { return map[string]any{} }},
	{name: "NM", rt: reflect.TypeOf(u.NM{}), val: func() any { return u.NM{"k": 1} }, zval: func() any { return u.NM(nil) }},
	{name: "P1", rt: reflect.TypeOf(&u.T1{}), val: func() any { return &u.T1{X: 1} }, zval: func() any { return (*u.T1)(nil) }},
	{name: "P3", rt: reflect.TypeOf(&u.T3{}), val: func() any { return &u.T3{Z: 3} }, zval: func() any { return (*u.T3)(nil) }},
	{name: "BI", rt: reflect.TypeOf(u.Box[int]{}), val: func() any { return u.Box[int]{V: 7} }, zval: func() any { return u.Box[int]{} }},
	{name: "I1", rt: ifaceType[u.I1](), iface: true},
	{name: "I2", rt: ifaceType[u.I2](), iface: true},
	{name: "I2b", rt: ifaceType[u.I2b](), iface: true},
	{name: "GI", rt: ifaceType[u.G[int]](), iface: true},
	{name: "GS", rt: ifaceType[u.G[string]](), iface: true},
	{name: "any", rt: ifaceType[any](), iface: true},
}

var (
	allTypes   []string
	concTypes  []string
	rtypes     = map[string]reflect.Type{}
	tyByName   = map[string]*tyInfo{}
	coqTyMap   = map[string]string{}
	coqDynMap  = map[string]string{"nil": "DNil"}
	dynNames   []string              // every dynamic value name ("T1", ..., "P1z", "nil")
	dynType    = map[string]string{} // dynamic value name -> name of its dynamic type ("" for nil)
	methodsOf  = map[string][]int{}  // type name -> sorted method ids
	coqUnivDef string
)

// name + signature (without receiver) of every method of t
func methodSigs(t reflect.Type) []string {
	var out []string
	for i := 0; i < t.NumMethod(); i++ {
		m := t.Method(i)
		ft := m.Type
		skip := 1
		if t.Kind() == reflect.Interface {
			skip = 0
		}
		var in, res []string
		for j := skip; j < ft.NumIn(); j++ {
			in = append(in, ft.In(j).String())
		}
		for j := 0; j < ft.NumOut(); j++ {
			res = append(res, ft.Out(j).String())
		}
		out = append(out, m.Name+"("+strings.Join(in, ",")+")("+strings.Join(res, ",")+")")
	}
	return out
}

func init() {
	sigID := map[string]int{}
	var sigs []string
	for i := range universe {
		for _, s := range methodSigs(universe[i].rt) {
			if _, ok := sigID[s]; !ok {
				sigID[s] = 0
				sigs = append(sigs, s)
			}
		}
	}
	sort.Strings(sigs)
	for i, s := range sigs {
		sigID[s] = i + 1
	}
	nc, ni := 0, 0
	var concU, ifaceU []string
	for i := range universe {
		t := &universe[i]
		allTypes = append(allTypes, t.name)
		rtypes[t.name] = t.rt
		tyByName[t.name] = t
		var ms []int
		for _, s := range methodSigs(t.rt) {
			ms = append(ms, sigID[s])
		}
		sort.Ints(ms)
		methodsOf[t.name] = ms
		mstr := make([]string, len(ms))
		for j, m := range ms {
			mstr[j] = fmt.Sprint(m)
		}
		entry := func(id int) string { return fmt.Sprintf("(%d, [%s])", id, strings.Join(mstr, "; ")) }
		switch {
		case t.name == "any":
			if len(ms) != 0 {
				panic("harness: any has methods")
			}
			coqTyMap[t.name] = "TAny"
		case t.iface:
			coqTyMap[t.name] = fmt.Sprintf("(TIface %d)", ni)
			ifaceU = append(ifaceU, entry(ni))
			ni++
		default:
			concTypes = append(concTypes, t.name)
			coqTyMap[t.name] = fmt.Sprintf("(TConc %d)", nc)
			coqDynMap[t.name] = fmt.Sprintf("(DVal %d)", nc)
			dynNames = append(dynNames, t.name)
			dynType[t.name] = t.name
			if t.zval != nil {
				coqDynMap[t.name+"z"] = coqDynMap[t.name]
				dynNames = append(dynNames, t.name+"z")
				dynType[t.name+"z"] = t.name
			}
			concU = append(concU, entry(nc))
			nc++
		}
		if (t.rt.Kind() == reflect.Interface) != t.iface {
			panic("harness: universe table: iface flag of " + t.name)
		}
	}
	dynNames = append(dynNames, "nil")
	dynType["nil"] = ""
	if strings.Join(allTypes, " ") != strings.Join(dispatchNames, " ") {
		panic("harness: dispatch_gen.go is out of date (python3 gen_dispatch.py)")
	}
	coqUnivDef = "Definition UNIV : univ := {| u_conc := [" + strings.Join(concU, "; ") + "]%N; u_iface := [" +
		strings.Join(ifaceU, "; ") + "]%N |}.\n"
	// the model's reading of reflect: identity = identity of names, Implements = inclusion of method sets
	for _, a := range universe {
		for _, b := range universe {
			if (a.rt == b.rt) != (a.name == b.name) {
				panic("harness: universe: type identity of " + a.name + " and " + b.name)
			}
			if b.iface && a.rt.Implements(b.rt) != subsetInts(methodsOf[b.name], methodsOf[a.name]) {
				panic("harness: universe: Implements(" + a.name + ", " + b.name + ") is not inclusion of the method sets")
			}
		}
	}
}

func subsetInts(a, b []int) bool {
	for _, x := range a {
		found := false
		for _, y := range b {
			if x == y {
				found = true
			}
		}
		if !found {
			return false
		}
	}
	return true
}

func isIface(t string) bool {
	ti := tyByName[t]
	return ti != nil && ti.iface
}

func nameOfType(t reflect.Type) string {
	if t == nil {
		return ""
	}
	for i := range universe {
		if universe[i].rt == t {
			return universe[i].name
		}
	}
	return "?" + t.String()
}

func valueOf(d string) any {
	if d == "nil" {
		return nil
	}
	if ti := tyByName[d]; ti != nil && ti.val != nil {
		return ti.val()
	}
	if strings.HasSuffix(d, "z") {
		if ti := tyByName[strings.TrimSuffix(d, "z")]; ti != nil && ti.zval != nil {
			return ti.zval()
		}
	}
	panic("harness: bad dyn " + d)
}

// name of the dynamic type of v ("nil" for the nil interface value)
func dynOf(v any) string {
	if v == nil {
		return "nil"
	}
	n := nameOfType(reflect.TypeOf(v))
	if tyByName[n] != nil && !tyByName[n].iface {
		return n
	}
	return fmt.Sprintf("?%T", v)
}

// Can the dynamic value d be held by a variable of static type t without conversion: the nil
// interface value by every interface type, any other value by its own dynamic type and by
// every interface type its dynamic type implements.  (Identity, not reflect.AssignableTo: a
// map[string]any inside an interface is not an NM.)
func dynAssignable(d, t string) bool {
	dt := dynType[d]
	if dt == "" {
		return isIface(t)
	}
	if !isIface(t) {
		return dt == t
	}
	return rtypes[dt].Implements(rtypes[t])
}

// name of the dynamic type of the dynamic value d ("nil" for nil)
func dynTypeName(d string) string {
	if t := dynType[d]; t != "" {
		return t
	}
	return "nil"
}

// the empty map values
func isMapZ(d string) bool { return d == "Mz" || d == "NMz" }

// values a producer of static type t can emit, without the empty map values
func optionsNoMapZ(t string) []string {
	var out []string
	for _, d := range optionsFor(t) {
		if !isMapZ(d) {
			out = append(out, d)
		}
	}
	return out
}

// values a producer of static type t can emit
func optionsFor(t string) []string {
	var out []string
	for _, d := range dynNames {
		if dynAssignable(d, t) {
			out = append(out, d)
		}
	}
	return out
}
