//go:build verif_c07wb

package main

import (
	"reflect"

	"github.com/cloudwego/eino/compose"
)

// The white-box group of engine C07: the hook compose/verif_c07.go (build tags verif && verif_c07wb) re-exports
// checkAssignable and assertType[T].  props/C07.json asks for the group with "extra_tags"; when it does not compile
// against the tree under test (a rename the hook does not follow), ./check builds the harness without the tag and
// whitebox_off.go takes over: the lattice case is skipped, everything else goes through the public API.
const whiteBox = true

func hookCheckAssignable(input, arg reflect.Type) int {
	return compose.VerifC07CheckAssignable(input, arg)
}
