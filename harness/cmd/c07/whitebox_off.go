//go:build !verif_c07wb

package main

import "reflect"

// built without the white-box group of C07 (see whitebox_on.go): the tables of checkAssignable / assertType are
// not read; the lattice case carries no table and is reported as whitebox:unavailable
const whiteBox = false

func hookCheckAssignable(input, arg reflect.Type) int {
	panic("harness: built without the white-box group")
}
