// Package u: the Go types of engine C07's universe and the generic glue that is instantiated
// once per type (pair) by the generated dispatch packages d0..d3 (kept apart from package
// main so that the ~400 instantiations of the generic eino API are compiled in parallel and
// cached across changes of the engine).
package u

import (
	"context"
	"fmt"
	"io"

	"github.com/cloudwego/eino/compose"
	"github.com/cloudwego/eino/schema"
)

type T1 struct{ X int }
type T2 struct{ Y int }
type T3 struct{ Z int }
type I2 interface{ M2() }
type I2b interface{ M2() }
type I1 interface {
	I2
	M1()
}

func (T1) M1()  {}
func (T1) M2()  {}
func (T2) M2()  {}
func (*T3) M2() {}

type NM map[string]any

func (NM) M2() {}

type Box[T any] struct{ V T }

func (b Box[T]) Get() T { return b.V }

type G[T any] interface{ Get() T }

type St1 struct{ N int }
type St2 struct{ N int }

// Invoker runs the compiled graph on one input; stream = through Runnable.Stream (the
// output stream is read to its end and must hold exactly one chunk) instead of Invoke; an input
// of type Multi is sent chunk by chunk through Runnable.Transform
type Invoker func(ctx context.Context, input any, stream bool) (any, error)

type GraphH interface {
	AddLambdaNode(key string, node *compose.Lambda, opts ...compose.GraphAddNodeOpt) error
	AddPassthroughNode(key string, opts ...compose.GraphAddNodeOpt) error
	AddEdge(s, e string) error
	AddBranch(s string, b *compose.GraphBranch) error
	// AddSubGraph adds a graph built by MkGraph as a node (AddGraphNode)
	AddSubGraph(key string, sub GraphH, opts ...compose.GraphAddNodeOpt) error
	anyGraph() compose.AnyGraph
	Compile(ctx context.Context, opts ...compose.GraphCompileOption) (Invoker, error)
}

type gh[I, O any] struct{ *compose.Graph[I, O] }

func (g gh[I, O]) Compile(ctx context.Context, opts ...compose.GraphCompileOption) (Invoker, error) {
	r, err := g.Graph.Compile(ctx, opts...)
	if err != nil {
		return nil, err
	}
	return func(ctx context.Context, input any, stream bool) (any, error) {
		// a run under a checkpoint id (WithCheckPointID on the context): the first run of an interrupted one, or its resume
		var ropts []compose.Option
		if id, ok := ctx.Value(cpKey{}).(string); ok {
			ropts = append(ropts, compose.WithCheckPointID(id))
		}
		drainOut := func(sr *schema.StreamReader[O]) (any, error) {
			defer sr.Close()
			var out any
			n := 0
			for {
				v, err := sr.Recv()
				if err == io.EOF {
					break
				}
				if err != nil {
					return nil, err
				}
				out = v
				n++
			}
			if n != 1 {
				return nil, fmt.Errorf("harness: stream delivered %d chunks", n)
			}
			return out, nil
		}
		if m, ok := input.(Multi); ok {
			// several input chunks: through Runnable.Transform
			var ins []I
			for _, x := range m.Vals {
				var in I
				if x != nil {
					in = x.(I)
				}
				ins = append(ins, in)
			}
			sr, err := r.Transform(ctx, schema.StreamReaderFromArray(ins), ropts...)
			if err != nil {
				return nil, err
			}
			return drainOut(sr)
		}
		if ci, ok := input.(CollectIn); ok {
			// the input as a stream of one chunk, the output as a value: through Runnable.Collect
			var in I
			if ci.Val != nil {
				in = ci.Val.(I)
			}
			out, err := r.Collect(ctx, schema.StreamReaderFromArray([]I{in}), ropts...)
			if err != nil {
				return nil, err
			}
			return out, nil
		}
		var in I
		if input != nil {
			in = input.(I)
		}
		if !stream {
			out, err := r.Invoke(ctx, in, ropts...)
			if err != nil {
				return nil, err
			}
			return out, nil
		}
		sr, err := r.Stream(ctx, in, ropts...)
		if err != nil {
			return nil, err
		}
		return drainOut(sr)
	}, nil
}

func (g gh[I, O]) AddSubGraph(key string, sub GraphH, opts ...compose.GraphAddNodeOpt) error {
	return g.Graph.AddGraphNode(key, sub.anyGraph(), opts...)
}

func (g gh[I, O]) anyGraph() compose.AnyGraph { return g.Graph }

func MkGraph[I, O any](opts ...compose.NewGraphOption) GraphH {
	return gh[I, O]{compose.NewGraph[I, O](opts...)}
}

type cpKey struct{}

// WithCheckPointID: the runs of an Invoker under this context are made with compose.WithCheckPointID(id)
func WithCheckPointID(ctx context.Context, id string) context.Context {
	return context.WithValue(ctx, cpKey{}, id)
}

// Interrupt is what emit returns when the lambda is to ask for compose.InterruptAndRerun instead of answering
type Interrupt struct{}

// CollectIn as the input of an Invoker: the value is sent as a one-chunk stream through Runnable.Collect
type CollectIn struct{ Val any }

// Multi is what emit returns when a stream-producing lambda (kind 1 or 3) is to send several chunks
// (of possibly different dynamic types) instead of one
type Multi struct{ Vals []any }

// MkLambda: a lambda of declared types I -> O that reports every value it receives to seen and
// returns what emit says; kind selects the
// paradigm it is written in: 0 Invoke | 1 Stream | 2 Collect | 3 Transform (the stream-reading
// kinds read their input to its end first, so that a lazily converted chunk is checked)
func MkLambda[I, O any](emit func() any, seen func(any), kind int) *compose.Lambda {
	conv := func(v any) O {
		var o O
		if v != nil {
			o = v.(O)
		}
		return o
	}
	out := func() (O, error) {
		v := emit()
		if _, ok := v.(Interrupt); ok {
			var o O
			return o, compose.InterruptAndRerun
		}
		return conv(v), nil
	}
	outs := func() (*schema.StreamReader[O], error) {
		v := emit()
		if _, ok := v.(Interrupt); ok {
			return nil, compose.InterruptAndRerun
		}
		if m, ok := v.(Multi); ok {
			var l []O
			for _, x := range m.Vals {
				l = append(l, conv(x))
			}
			return schema.StreamReaderFromArray(l), nil
		}
		return schema.StreamReaderFromArray([]O{conv(v)}), nil
	}
	drain := func(sr *schema.StreamReader[I]) error {
		defer sr.Close()
		for {
			v, err := sr.Recv()
			if err == io.EOF {
				return nil
			}
			if err != nil {
				return err
			}
			seen(v)
		}
	}
	switch kind {
	case 1:
		return compose.StreamableLambda(func(ctx context.Context, in I) (*schema.StreamReader[O], error) {
			seen(in)
			return outs()
		})
	case 2:
		return compose.CollectableLambda(func(ctx context.Context, in *schema.StreamReader[I]) (O, error) {
			if err := drain(in); err != nil {
				var o O
				return o, err
			}
			return out()
		})
	case 3:
		return compose.TransformableLambda(func(ctx context.Context, in *schema.StreamReader[I]) (*schema.StreamReader[O], error) {
			if err := drain(in); err != nil {
				return nil, err
			}
			return outs()
		})
	}
	return compose.InvokableLambda(func(ctx context.Context, in I) (O, error) {
		seen(in)
		return out()
	})
}

// MkBranch: kind 0 = NewGraphMultiBranch, 1 = NewStreamGraphMultiBranch (reads its input to the end)
func MkBranch[T any](choice []string, ends map[string]bool, kind int) *compose.GraphBranch {
	pick := func() map[string]bool {
		m := map[string]bool{}
		for _, c := range choice {
			m[c] = true
		}
		return m
	}
	if kind == 1 {
		return compose.NewStreamGraphMultiBranch(func(ctx context.Context, in *schema.StreamReader[T]) (map[string]bool, error) {
			defer in.Close()
			for {
				_, err := in.Recv()
				if err == io.EOF {
					return pick(), nil
				}
				if err != nil {
					return nil, err
				}
			}
		}, ends)
	}
	return compose.NewGraphMultiBranch(func(ctx context.Context, in T) (map[string]bool, error) {
		return pick(), nil
	}, ends)
}

// state handlers: identity, or (ret says so) always the same value, which the generator
// picks among the values of the handler's declared type (any value for an any handler)
func MkPre[I, S any](ret func() (any, bool), stream bool) compose.GraphAddNodeOpt {
	fixed := func() (I, bool) {
		var out I
		v, ok := ret()
		if ok && v != nil {
			out = v.(I)
		}
		return out, ok
	}
	if stream {
		return compose.WithStreamStatePreHandler(func(ctx context.Context, in *schema.StreamReader[I], s S) (*schema.StreamReader[I], error) {
			if v, ok := fixed(); ok {
				in.Close()
				return schema.StreamReaderFromArray([]I{v}), nil
			}
			return in, nil
		})
	}
	return compose.WithStatePreHandler(func(ctx context.Context, in I, s S) (I, error) {
		if v, ok := fixed(); ok {
			return v, nil
		}
		return in, nil
	})
}
func MkPost[O, S any](ret func() (any, bool), stream bool) compose.GraphAddNodeOpt {
	fixed := func() (O, bool) {
		var out O
		v, ok := ret()
		if ok && v != nil {
			out = v.(O)
		}
		return out, ok
	}
	if stream {
		return compose.WithStreamStatePostHandler(func(ctx context.Context, out *schema.StreamReader[O], s S) (*schema.StreamReader[O], error) {
			if v, ok := fixed(); ok {
				out.Close()
				return schema.StreamReaderFromArray([]O{v}), nil
			}
			return out, nil
		})
	}
	return compose.WithStatePostHandler(func(ctx context.Context, out O, s S) (O, error) {
		if v, ok := fixed(); ok {
			return v, nil
		}
		return out, nil
	})
}
