package main

import (
	"flag"
	"strconv"

	"verif/harness/lib"
)

// Generator.
//
// Case i of a run belongs to one of two streams:
//   - exhaustive blocks: a base graph (node additions first, then k <= 5/6 connection calls)
//     is derived from (seed, block number) alone; the block's cases are ALL k! orders of
//     the connection calls (nodes first, final Compile last).  Half of the blocks use a
//     concrete-only universe (order independence is checked on those), half the full one.
//   - random stream: a base graph with up to 7/9 connection calls, everything shuffled
//     (node additions included, so node-before-edge is violated now and then), plus
//     malformed input: repeated calls, unknown nodes, reserved keys, a Compile in the
//     middle, calls after Compile.

func runSeed() uint64 {
	if f := flag.Lookup("seed"); f != nil {
		if v, err := strconv.ParseUint(f.Value.String(), 10, 64); err == nil {
			return v
		}
	}
	return 1
}

type base struct {
	in, out string
	state   int
	nodes   []Op
	conns   []Op
}

func pickTy(r *lib.Rng, concrete bool) string {
	if concrete {
		// few distinct types so that agreement is frequent
		return []string{"T1", "T1", "T1", "T2", "T3", "M", "M", "NM", "NM", "P1", "P3", "BI"}[r.Intn(12)]
	}
	return []string{"T1", "T1", "T1", "T2", "T3", "M", "M", "NM", "NM", "P1", "P3", "BI",
		"I1", "I2", "I2", "I2", "I2b", "GI", "GI", "GS", "any", "any", "any"}[r.Intn(23)]
}

// types that a careless assignability test confuses with t although they are different types
// with no subtype relation (same underlying type, value vs pointer, the other instance of a
// generic interface): connecting them must be rejected
var nearMiss = map[string][]string{
	"M": {"NM"}, "NM": {"M"}, "T1": {"P1"}, "P1": {"T1"}, "T3": {"P3"}, "P3": {"T3", "P1"},
	"GI": {"GS"}, "GS": {"GI", "BI"}, "BI": {"GS"},
}

// a type a value flowing at static type cur may legitimately be fed into (1 in 40: a near miss)
func compatible(r *lib.Rng, cur string, concrete bool) string {
	if nm := nearMiss[cur]; len(nm) > 0 && r.Chance(1, 40) {
		if t := nm[r.Intn(len(nm))]; !concrete || !isIface(t) {
			return t
		}
	}
	if concrete || r.Chance(1, 2) {
		return cur
	}
	var c []string
	for _, t := range allTypes {
		if t == cur {
			continue
		}
		if isIface(t) && rtypes[cur].Implements(rtypes[t]) { // must
			c = append(c, t)
		} else if isIface(cur) && rtypes[t].Implements(rtypes[cur]) { // may
			c = append(c, t)
		}
	}
	if len(c) == 0 {
		return cur
	}
	return c[r.Intn(len(c))]
}

func genBase(r *lib.Rng, nconn int, concrete bool, clean bool) *base {
	b := &base{}
	badH := func(n, d int) bool { return !clean && r.Chance(n, d) }
	// most types of one graph come from a small palette around one concrete type (the type, the
	// interfaces it implements, any, one unrelated type), so that connections agree often
	// whatever the size of the universe; 1 in 7 comes from the whole universe
	core := pickTy(r, true)
	palette := []string{core, core, core, pickTy(r, true)}
	if !concrete {
		for _, t := range allTypes {
			if isIface(t) && rtypes[core].Implements(rtypes[t]) {
				palette = append(palette, t)
			}
		}
	}
	pickTy := func(r *lib.Rng, conc bool) string {
		if r.Chance(1, 7) {
			return pickTy(r, conc)
		}
		for {
			if t := palette[r.Intn(len(palette))]; !conc || !isIface(t) {
				return t
			}
		}
	}
	b.in = pickTy(r, concrete)
	if !concrete && r.Chance(2, 5) {
		b.state = 1 + r.Intn(2)
	}
	nn := r.Range(2, 5)
	if nconn <= 3 {
		nn = r.Range(1, 3)
	}
	// a chain START -> n2 -> ... -> END carrying a (mostly) consistent flow of types
	cur := b.in
	curKnown := true
	pass := map[int]bool{}
	for k := 2; k < 2+nn; k++ {
		if r.Chance(2, 5) {
			pass[k] = true
			o := Op{K: "pass", Key: k}
			if b.state != 0 && r.Chance(1, 4) {
				o.Pre = &H{State: b.state, Ty: "any"}
				if badH(1, 5) {
					o.Pre.Ty = pickTy(r, false)
				}
			}
			if b.state != 0 && r.Chance(1, 6) {
				o.Post = &H{State: b.state, Ty: "any"}
			}
			b.nodes = append(b.nodes, o)
			continue
		}
		o := Op{K: "node", Key: k}
		if curKnown && r.Chance(5, 6) {
			o.In = compatible(r, cur, concrete)
		} else {
			o.In = pickTy(r, concrete)
		}
		o.Out = pickTy(r, concrete)
		if r.Chance(1, 3) {
			o.Out = o.In // keeps long chains typable
		}
		if (b.state != 0 && r.Chance(1, 3)) || badH(1, 40) {
			st := b.state
			if st == 0 || badH(1, 8) {
				st = 1 + r.Intn(2)
			}
			o.Pre = &H{State: st, Ty: o.In}
			if badH(1, 4) {
				o.Pre.Ty = pickTy(r, false)
			}
		}
		if b.state != 0 && r.Chance(1, 4) {
			o.Post = &H{State: b.state, Ty: o.Out}
			if badH(1, 4) {
				o.Post.Ty = pickTy(r, false)
			}
		}
		// the node kind: a lambda written in one of the four paradigms, or a sub graph (only with a
		// concrete output type: a nil result of a sub graph is the ordinary "no output" failure of
		// that graph's own run, not a value handed on)
		switch x := r.Intn(10); {
		case x < 5:
		case x < 8:
			o.Kind = x - 4 // 1 Stream, 2 Collect, 3 Transform
		default:
			if !isIface(o.Out) {
				o.Kind = 4
			}
		}
		// 1 in 10: a lambda any -> any added WithInputKey and / or WithOutputKey: the side with a key has
		// the declared type map[string]any (no state handlers on such nodes)
		if r.Chance(1, 10) {
			switch kk := r.Intn(3); {
			case kk == 0 && !concrete:
				o.Kind, o.In, o.Out = 5, "M", "any"
			case kk == 1 && !concrete:
				o.Kind, o.In, o.Out = 6, "any", "M"
			default:
				o.Kind, o.In, o.Out = 7, "M", "M"
			}
			o.Pre, o.Post = nil, nil
		}
		b.nodes = append(b.nodes, o)
		cur = o.Out
	}
	// some handlers do not return their argument but a fixed value of their declared type; some
	// are declared in the stream form
	for i := range b.nodes {
		for _, h := range []*H{b.nodes[i].Pre, b.nodes[i].Post} {
			if h != nil && r.Chance(1, 3) {
				opts := optionsNoMapZ(h.Ty)
				h.Ret = opts[r.Intn(len(opts))]
			}
			if h != nil && r.Chance(1, 3) {
				h.Strm = true
			}
		}
	}
	if r.Chance(5, 6) {
		b.out = compatible(r, cur, concrete)
	} else {
		b.out = pickTy(r, concrete)
	}
	// connections: the chain first, then extras
	chain := []int{0}
	for k := 2; k < 2+nn; k++ {
		if r.Chance(5, 6) {
			chain = append(chain, k)
		}
	}
	chain = append(chain, 1)
	typeOfIn := func(k int) string {
		for _, o := range b.nodes {
			if o.Key == k && o.K == "node" {
				return o.In
			}
		}
		if k == 1 {
			return b.out
		}
		return ""
	}
	typeOfOut := func(k int) string {
		for _, o := range b.nodes {
			if o.Key == k && o.K == "node" {
				return o.Out
			}
		}
		if k == 0 {
			return b.in
		}
		return ""
	}
	anyNode := func() int {
		x := r.Intn(nn + 2)
		if x >= 2 {
			return x
		}
		return x // 0 or 1
	}
	mkBranch := func(s int, first int) Op {
		o := Op{K: "branch", S: s}
		ends := map[int]bool{first: true}
		want := r.Range(2, 3)
		if badH(1, 12) {
			want = 1 // rejected: "number of branches is 1"
		}
		for tries := 0; len(ends) < want && tries < 10; tries++ {
			e := anyNode()
			if e == 0 || e == s && r.Chance(1, 2) {
				continue
			}
			ends[e] = true
		}
		if r.Chance(1, 25) {
			ends = map[int]bool{} // a branch without end nodes
		}
		for e := range ends {
			o.Ends = append(o.Ends, e)
		}
		sortInts(o.Ends)
		// the condition's type: what flows out of s (if known), else what the first end expects
		t := typeOfOut(s)
		if t == "" {
			t = typeOfIn(first)
		}
		if t == "" || r.Chance(1, 6) {
			t = pickTy(r, concrete)
		} else {
			t = compatible(r, t, concrete)
		}
		o.Ty = t
		if r.Chance(1, 4) {
			o.Kind = 1 // a stream condition
		}
		// what the condition returns: usually the chain successor
		if len(ends) > 0 {
			if r.Chance(4, 5) && ends[first] {
				o.Choice = []int{first}
			} else {
				for _, e := range o.Ends {
					if r.Chance(1, 2) {
						o.Choice = append(o.Choice, e)
					}
				}
			}
		}
		return o
	}
	for i := 0; i+1 < len(chain) && len(b.conns) < nconn; i++ {
		s, e := chain[i], chain[i+1]
		if r.Chance(1, 4) {
			b.conns = append(b.conns, mkBranch(s, e))
		} else {
			b.conns = append(b.conns, Op{K: "edge", S: s, E: e})
		}
	}
	compat := func(a, t string) bool {
		if a == "" || t == "" || a == t {
			return true
		}
		return (isIface(t) && rtypes[a].Implements(rtypes[t])) || (isIface(a) && rtypes[t].Implements(rtypes[a]))
	}
	dup := func(s, e int) bool {
		for _, o := range b.conns {
			if o.K == "edge" && o.S == s && o.E == e {
				return true
			}
		}
		return false
	}
	for len(b.conns) < nconn {
		var s, e int
		for tries := 0; tries < 8; tries++ {
			s, e = anyNode(), anyNode()
			if s == 1 && r.Chance(9, 10) {
				s = 0
			}
			if e == 0 && r.Chance(9, 10) {
				e = 1
			}
			if clean && (s == 1 || e == 0 || dup(s, e)) {
				continue
			}
			if compat(typeOfOut(s), typeOfIn(e)) || r.Chance(1, 8) {
				break
			}
		}
		if r.Chance(1, 5) {
			b.conns = append(b.conns, mkBranch(s, e))
		} else {
			b.conns = append(b.conns, Op{K: "edge", S: s, E: e})
		}
	}
	return b
}

func sortInts(a []int) {
	for i := 1; i < len(a); i++ {
		for j := i; j > 0 && a[j-1] > a[j]; j-- {
			a[j-1], a[j] = a[j], a[j-1]
		}
	}
}

// k-th permutation of 0..n-1 in the factorial number system
func kthPerm(n, k int) []int {
	items := make([]int, n)
	for i := range items {
		items[i] = i
	}
	fact := 1
	for i := 2; i < n; i++ {
		fact *= i
	}
	out := make([]int, 0, n)
	for i := n - 1; i >= 0; i-- {
		idx := 0
		if fact > 0 {
			idx = k / fact
			k = k % fact
		}
		out = append(out, items[idx])
		items = append(items[:idx], items[idx+1:]...)
		if i > 0 {
			fact /= i
		}
	}
	return out
}

func factorial(n int) int {
	f := 1
	for i := 2; i <= n; i++ {
		f *= i
	}
	return f
}

// repeatBranch adds one of the branches once more, to another start node: the harness hands the SAME
// *GraphBranch value to both AddBranch calls (one builder value used twice)
func (b *base) repeatBranch(r *lib.Rng) {
	var brs []Op
	for _, o := range b.conns {
		if o.K == "branch" {
			brs = append(brs, o)
		}
	}
	if len(brs) == 0 {
		return
	}
	o := brs[r.Intn(len(brs))]
	keys := []int{0}
	for _, n := range b.nodes {
		keys = append(keys, n.Key)
	}
	o.S = keys[r.Intn(len(keys))]
	o.Ends = append([]int(nil), o.Ends...)
	o.Choice = append([]int(nil), o.Choice...)
	b.conns = append(b.conns, o)
}

func (b *base) withIDs() (nodes, conns []Op) {
	id := 0
	for _, o := range b.nodes {
		o.ID = id
		id++
		nodes = append(nodes, o)
	}
	for _, o := range b.conns {
		o.ID = id
		id++
		conns = append(conns, o)
	}
	return
}

func (engine) Generate(r *lib.Rng, tier string, i int) any {
	seed := runSeed()
	exhaustive, kmax, rmax := 2400, 5, 7 // blocks: sizes cycle 3,4,5 -> 6+24+120 = 150 per triple
	npairs := len(allTypes) * len(allTypes) * pairShapes
	if tier == "thorough" {
		exhaustive, kmax, rmax = 10*(6+24+120+720), 6, 9
	}
	if i == 0 {
		return &Case{In: "any", Out: "any", Src: "lattice"}
	}
	i--
	if i < npairs {
		return genPair(i)
	}
	i -= npairs
	if i < exhaustive {
		// locate the block
		sizes := []int{3, 4, 5}
		if kmax == 6 {
			sizes = []int{3, 4, 5, 6}
		}
		blk, off := 0, i
		for {
			k := sizes[blk%len(sizes)]
			if off < factorial(k) {
				break
			}
			off -= factorial(k)
			blk++
		}
		k := sizes[blk%len(sizes)]
		br := lib.NewRng(seed*1000003 + 17).Fork(uint64(blk))
		concrete := (blk/len(sizes))%2 == 0
		b := genBase(br, k, concrete, true)
		nodes, conns := b.withIDs()
		c := &Case{In: b.in, Out: b.out, State: b.state, Salt: blk, Src: "perm"}
		c.Ops = append(c.Ops, nodes...)
		for _, j := range kthPerm(len(conns), off) {
			c.Ops = append(c.Ops, conns[j])
		}
		c.Ops = append(c.Ops, Op{K: "compile", ID: len(nodes) + len(conns)})
		return c
	}
	// random stream
	if r.Chance(1, 10) {
		return genPendingCluster(r)
	}
	concrete := r.Chance(1, 4)
	b := genBase(r, r.Range(2, rmax), concrete, r.Chance(1, 2))
	if r.Chance(1, 5) {
		b.repeatBranch(r)
	}
	nodes, conns := b.withIDs()
	c := &Case{In: b.in, Out: b.out, State: b.state, Salt: r.Intn(7), Src: "rand"}
	all := append(append([]Op(nil), nodes...), conns...)
	nextID := len(all)
	switch r.Intn(10) {
	case 0, 1, 2: // nodes first, connections shuffled
		c.Ops = append(c.Ops, nodes...)
		for _, j := range r.Perm(len(conns)) {
			c.Ops = append(c.Ops, conns[j])
		}
	case 3, 4, 5, 6: // everything shuffled, then repaired so that nodes precede their uses
		for _, j := range r.Perm(len(all)) {
			c.Ops = append(c.Ops, all[j])
		}
		c.Ops = repairOrder(c.Ops)
	default: // everything shuffled, not repaired
		for _, j := range r.Perm(len(all)) {
			c.Ops = append(c.Ops, all[j])
		}
		c.Src = "rand-unordered"
	}
	// malformed input
	if r.Chance(1, 5) && len(c.Ops) > 0 {
		o := c.Ops[r.Intn(len(c.Ops))] // a repeated call
		o.ID = nextID
		nextID++
		at := r.Intn(len(c.Ops) + 1)
		c.Ops = append(c.Ops[:at], append([]Op{o}, c.Ops[at:]...)...)
		c.Src = "rand-malformed"
	}
	if r.Chance(1, 12) {
		bad := []Op{{K: "edge", S: 0, E: 9}, {K: "edge", S: 1, E: 2}, {K: "edge", S: 2, E: 0}, {K: "pass", Key: 0},
			{K: "node", Key: 1, In: "T1", Out: "T1"}, {K: "branch", S: 1, Ty: "T1", Ends: []int{2, 3}},
			{K: "branch", S: 0, Ty: b.in, Ends: []int{2, 9}, Choice: []int{2}}}[r.Intn(7)]
		bad.ID = nextID
		nextID++
		at := r.Intn(len(c.Ops) + 1)
		c.Ops = append(c.Ops[:at], append([]Op{bad}, c.Ops[at:]...)...)
		c.Src = "rand-malformed"
	}
	if r.Chance(1, 8) && len(c.Ops) > 1 {
		at := r.Intn(len(c.Ops))
		c.Ops = append(c.Ops[:at], append([]Op{{K: "compile", ID: nextID}}, c.Ops[at:]...)...)
		nextID++
		c.Src = "rand-midcompile"
	}
	c.Ops = append(c.Ops, Op{K: "compile", ID: nextID})
	return c
}

// move every node addition in front of its first use
func repairOrder(ops []Op) []Op {
	have := map[int]bool{0: true, 1: true}
	var out []Op
	pendingNodes := map[int]Op{}
	for _, o := range ops {
		if o.K == "node" || o.K == "pass" {
			pendingNodes[o.Key] = o
		}
	}
	need := func(k int) {
		if !have[k] {
			if n, ok := pendingNodes[k]; ok {
				out = append(out, n)
				have[k] = true
			}
		}
	}
	for _, o := range ops {
		switch o.K {
		case "node", "pass":
			if !have[o.Key] {
				out = append(out, o)
				have[o.Key] = true
			}
			continue
		case "edge":
			need(o.S)
			need(o.E)
		case "branch":
			need(o.S)
			for _, e := range o.Ends {
				need(e)
			}
		}
		out = append(out, o)
	}
	return out
}

// A cluster of untyped passthrough nodes joined by pending edges, one of them typed by a
// branch (usually one without end nodes), another one by an edge from a typed producer,
// consumers behind it.  The two types are related by Implements more often than not, so
// that the inferred types (and acceptance) would depend on the order in which the types
// spread through the cluster if they ever met in one update (defect F-C07d).
func genPendingCluster(r *lib.Rng) *Case {
	rel := [][2]string{{"I2", "T1"}, {"T1", "I2"}, {"any", "T1"}, {"T1", "any"}, {"I2", "I1"}, {"I1", "I2"},
		{"any", "I2"}, {"I2", "T2"}, {"T2", "I2"}, {"T1", "T1"}, {"T1", "T2"}, {"any", "M"},
		{"I2", "I2b"}, {"I2b", "NM"}, {"NM", "M"}, {"M", "NM"}, {"P3", "I2"}, {"I1", "P1"}, {"GI", "BI"}, {"GS", "GI"}, {"T1", "P1"}}
	pr := rel[r.Intn(len(rel))]
	bt, et := pr[0], pr[1] // branch condition type, type of the producer feeding the cluster
	np := r.Range(2, 4)
	c := &Case{In: et, Out: "T1", Salt: r.Intn(7), Src: "cluster"}
	id := 0
	add := func(o Op) {
		o.ID = id
		id++
		c.Ops = append(c.Ops, o)
	}
	first, last := 2, 2+np-1
	for k := first; k <= last; k++ {
		add(Op{K: "pass", Key: k})
	}
	cons := last + 1 // consumer behind the cluster
	consIn := []string{"T1", "T2", "I2", "any", et, bt, et, bt}[r.Intn(8)]
	add(Op{K: "node", Key: cons, In: consIn, Out: "T1"})
	side := cons + 1
	add(Op{K: "node", Key: side, In: et, Out: "T1"})
	if r.Chance(1, 2) {
		add(Op{K: "edge", S: 0, E: side}) // the key START enters toValidateMap before the cluster's keys
	}
	// pending edges inside the cluster: a path in a random direction per edge, plus maybe a chord
	perm := r.Perm(np)
	for i := 0; i+1 < np; i++ {
		a, b := first+perm[i], first+perm[i+1]
		if r.Chance(1, 2) {
			a, b = b, a
		}
		add(Op{K: "edge", S: a, E: b})
	}
	if np > 2 && r.Chance(1, 3) {
		add(Op{K: "edge", S: first + perm[0], E: first + perm[np-1]})
	}
	bn, en := first+r.Intn(np), first+r.Intn(np)
	br := Op{K: "branch", S: bn, Ty: bt}
	if r.Chance(1, 4) {
		br.Ends = []int{cons, 1}
		br.Choice = []int{cons}
	}
	feed := Op{K: "edge", S: 0, E: en}
	if r.Chance(3, 4) {
		add(br)
		add(feed)
	} else {
		add(feed)
		add(br)
	}
	out := first + r.Intn(np)
	add(Op{K: "edge", S: out, E: cons})
	add(Op{K: "edge", S: cons, E: 1})
	if r.Chance(1, 2) {
		add(Op{K: "edge", S: side, E: 1})
	}
	add(Op{K: "compile"})
	return c
}

// The pair stream: for EVERY ordered pair (a, b) of types of the universe, every place where
// the builder compares an upstream type a with a downstream type b (checkAssignable at an
// edge between START/END, between two lambdas, through a passthrough node, at a branch
// condition, at a branch typing its passthrough start node; type identity at a state
// handler; the converter behind the any-typed state handler of a passthrough node), as the smallest graph that has it.
const pairShapes = 10

func genPair(i int) *Case {
	n := len(allTypes)
	shape := i % pairShapes
	a, b := allTypes[(i/pairShapes)/n], allTypes[(i/pairShapes)%n]
	c := &Case{In: a, Out: b, Salt: i, Src: "pair"}
	id := 0
	add := func(o Op) {
		o.ID = id
		id++
		c.Ops = append(c.Ops, o)
	}
	switch shape {
	case 0: // START:a -> END:b
		add(Op{K: "edge", S: 0, E: 1})
	case 1: // START:a -> n2:(a->a) -> n3:(b->b) -> END:b
		add(Op{K: "node", Key: 2, In: a, Out: a, Kind: (i / pairShapes) % 4})
		add(Op{K: "node", Key: 3, In: b, Out: b, Kind: (i / pairShapes / 4) % 4})
		add(Op{K: "edge", S: 0, E: 2})
		add(Op{K: "edge", S: 2, E: 3})
		add(Op{K: "edge", S: 3, E: 1})
	case 2: // START:a -> P -> END:b, the passthrough node typed from behind first
		add(Op{K: "pass", Key: 2})
		add(Op{K: "edge", S: 2, E: 1})
		add(Op{K: "edge", S: 0, E: 2})
	case 3: // a branch condition of type b at START:a
		c.Out = a
		add(Op{K: "node", Key: 2, In: a, Out: a})
		add(Op{K: "branch", S: 0, Ty: b, Ends: []int{1, 2}, Choice: []int{1}, Kind: (i / pairShapes) % 2})
		add(Op{K: "edge", S: 2, E: 1})
	case 4: // a branch condition of type b types the passthrough node P; then START:a -> P
		add(Op{K: "pass", Key: 2})
		add(Op{K: "node", Key: 3, In: b, Out: b})
		add(Op{K: "branch", S: 2, Ty: b, Ends: []int{1, 3}, Choice: []int{1}, Kind: (i / pairShapes / 2) % 2})
		add(Op{K: "edge", S: 0, E: 2})
		add(Op{K: "edge", S: 3, E: 1})
	case 5: // state handlers declared for b on a node of type a
		c.Out = a
		c.State = 1
		h := &H{State: 1, Ty: b, Strm: (i/pairShapes)%3 == 0}
		if i%2 == 0 {
			add(Op{K: "node", Key: 2, In: a, Out: a, Pre: h})
		} else {
			add(Op{K: "node", Key: 2, In: a, Out: a, Post: h})
		}
		add(Op{K: "edge", S: 0, E: 2})
		add(Op{K: "edge", S: 2, E: 1})
	case 6: // START:a -> P -> END:a, P with an any-typed state handler that returns a value of type b:
		// the result is checked against the type inferred for P (ordinary error unless it is an a)
		c.Out = a
		c.State = 1
		vals := optionsFor(b)
		h := &H{State: 1, Ty: "any", Ret: vals[(i/pairShapes)%len(vals)], Strm: (i/pairShapes)%3 == 1}
		if i%2 == 0 {
			add(Op{K: "pass", Key: 2, Pre: h})
		} else {
			add(Op{K: "pass", Key: 2, Post: h})
		}
		add(Op{K: "edge", S: 0, E: 2})
		add(Op{K: "edge", S: 2, E: 1})
	case 7: // START:a -> n2 (a lambda any -> any added WithInputKey: its declared input type is map[string]any) -> END:b
		add(Op{K: "node", Key: 2, In: "M", Out: "any", Kind: 5})
		add(Op{K: "edge", S: 0, E: 2})
		add(Op{K: "edge", S: 2, E: 1})
	case 8: // START:a -> n2 (any -> any WithOutputKey: declared output type map[string]any) -> P -> END:b
		add(Op{K: "node", Key: 2, In: "any", Out: "M", Kind: 6})
		add(Op{K: "pass", Key: 3})
		add(Op{K: "edge", S: 0, E: 2})
		add(Op{K: "edge", S: 2, E: 3})
		add(Op{K: "edge", S: 3, E: 1})
	case 9: // a fan-in: START:a -> n2:(a->a), START -> n3:(a->a), both -> n4:(b->b) -> END:b.  The two values reach n4 in
		// the same superstep, each over its own connection of types (a, b): a value that is not assignable on ONE of
		// them must end the run with the type error, whatever arrives over the other (round 5, mutant E)
		add(Op{K: "node", Key: 2, In: a, Out: a, Kind: (i / pairShapes) % 4})
		add(Op{K: "node", Key: 3, In: a, Out: a, Kind: (i / pairShapes / 4) % 4})
		add(Op{K: "node", Key: 4, In: b, Out: b})
		add(Op{K: "edge", S: 0, E: 2})
		add(Op{K: "edge", S: 0, E: 3})
		add(Op{K: "edge", S: 2, E: 4})
		add(Op{K: "edge", S: 3, E: 4})
		add(Op{K: "edge", S: 4, E: 1})
	}
	add(Op{K: "compile"})
	return c
}
