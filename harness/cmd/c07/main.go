// Engine C07 — a graph that compiles cannot hit a type mismatch between concretely
// typed nodes (compose/graph.go addNode/addEdge/addBranch/updateToValidateMap,
// utils.go checkAssignable, runnable.go / branch.go / generic_helper.go assertions).
//
// A case is a construction sequence (AddLambdaNode / AddPassthroughNode / AddEdge /
// AddBranch / Compile calls, through the public API only) over a fixed Go type universe:
// see universe.go (structs, unnamed and named map, pointer types, a generic struct; named
// interfaces incl. two with the same method set and two instances of a generic interface; any).  Every case is built and compiled 5 times from
// scratch; accepted graphs are run with a value of every dynamic type (nil included)
// emitted by every producer whose static output type is an interface.
package main

import (
	"context"
	"encoding/json"
	"flag"
	"fmt"
	"reflect"
	"sort"
	"strconv"
	"strings"
	"sync"
	"time"

	"github.com/cloudwego/eino/compose"

	"verif/harness/cmd/c07/u"
	"verif/harness/lib"
)

const coqUniv = "UNIV"

// ---------------------------------------------------------------- generic glue

type invoker = u.Invoker
type graphH = u.GraphH

func retOf(h *H) func() (any, bool) {
	if h.Ret == "" {
		return func() (any, bool) { return nil, false }
	}
	d := h.Ret
	return func() (any, bool) { return valueOf(d), true }
}

// ---------------------------------------------------------------- case

type H struct {
	State int    `json:"state"` // 1 | 2
	Ty    string `json:"ty"`
	Ret   string `json:"ret,omitempty"`    // "" = returns its argument; else the dynamic value it always returns
	Strm  bool   `json:"stream,omitempty"` // declared with WithStreamStatePre/PostHandler
}

type Op struct {
	K      string `json:"k"`              // node | pass | edge | branch | compile
	Kind   int    `json:"kind,omitempty"` // node: 0 Invoke 1 Stream 2 Collect 3 Transform lambda, 4 a sub graph START -> lambda -> END, 5 / 6 / 7 a lambda any -> any added WithInputKey("k") / WithOutputKey("k") / both (In / Out hold the DECLARED types: map[string]any on a keyed side); branch: 0 multi branch, 1 stream multi branch
	ID     int    `json:"id"`             // position in the reference order (nodes first)
	Key    int    `json:"key,omitempty"`  // node key (>= 2); 0 = START, 1 = END
	In     string `json:"in,omitempty"`
	Out    string `json:"out,omitempty"`
	Pre    *H     `json:"pre,omitempty"`
	Post   *H     `json:"post,omitempty"`
	S      int    `json:"s,omitempty"`
	E      int    `json:"e,omitempty"`
	Ty     string `json:"ty,omitempty"`
	Ends   []int  `json:"ends,omitempty"`
	Choice []int  `json:"choice,omitempty"`
}

type Case struct {
	In    string `json:"in"`
	Out   string `json:"out"`
	State int    `json:"state"` // 0 none | 1 *st1 | 2 *st2
	Salt  int    `json:"salt"`  // rotates the default emitted values
	Ops   []Op   `json:"ops"`   // the final Compile is part of the list
	Src   string `json:"src,omitempty"`
}

func keyName(k int) string {
	switch k {
	case 0:
		return compose.START
	case 1:
		return compose.END
	}
	return "n" + strconv.Itoa(k)
}

type RunObs struct {
	Emit    map[string]string `json:"emit"`
	Input   string            `json:"input"`
	Class   string            `json:"class"` // ok | type_err | panic_rec | panic_esc | other | merge | hang
	Result  string            `json:"result,omitempty"`
	Msg     string            `json:"msg,omitempty"`
	DClass  string            `json:"dclass,omitempty"` // the same run on the graph compiled with AllPredecessor (first build only)
	SClass  string            `json:"sclass,omitempty"` // the same run through Stream
	SResult string            `json:"sresult,omitempty"`
	SMsg    string            `json:"smsg,omitempty"`
	Fab     string            `json:"fab,omitempty"`   // a lambda received a value that nobody produced (any mode)
	Unrep   string            `json:"unrep,omitempty"` // Invoke completed although a node that ran handed a successor a value its input type does not hold
	// the same run through Stream once more, the stream-producing lambdas (Stream / Transform) with an
	// interface output type sending a second chunk of another dynamic type (first build, first plans)
	Emit2  map[string]string `json:"emit2,omitempty"`
	MClass string            `json:"mclass,omitempty"`
	MMsg   string            `json:"mmsg,omitempty"`
	// the same run through the two other entries of the Runnable: Collect (the input as a one-chunk stream, the
	// result as a value) and Transform (one-chunk stream in, stream out); first build, first plans
	CClass  string `json:"cclass,omitempty"`
	CResult string `json:"cresult,omitempty"`
	CMsg    string `json:"cmsg,omitempty"`
	TClass  string `json:"tclass,omitempty"`
	TResult string `json:"tresult,omitempty"`
	TMsg    string `json:"tmsg,omitempty"`
	// the same run interrupted and resumed (round 7; first build, first plans): see IntrObs
	Intr []IntrObs `json:"intr,omitempty"`
	IFab string    `json:"ifab,omitempty"` // a lambda received, in one of them, a value of a type that nobody produced
}

// IntrObs: the run made once more on the same graph compiled with a checkpoint store, one lambda (or the lambda of
// one sub graph node) asking for compose.InterruptAndRerun at its first execution, so that whatever its siblings of
// that step answered -- already past the run-time check of their edges -- is parked in the channels of their
// successors and written to the checkpoint; then resumed under the same checkpoint id through Invoke or Stream.
// The resumed run is a run of a graph that compiled: it may not panic on a value of the wrong type either, and it
// may not report as not assignable a value that the uninterrupted runs hand over.
type IntrObs struct {
	Node    int    `json:"node"`          // the interrupting node
	Dag     bool   `json:"dag,omitempty"` // on the graph compiled with AllPredecessor
	First   string `json:"first"`         // entry of the first run: invoke | stream
	FClass  string `json:"fclass"`        // its class: interrupt, or what it ended in instead (then no resume)
	Resume  string `json:"resume"`        // entry of the resume
	RClass  string `json:"rclass"`        // class of the resumed run
	RResult string `json:"rresult,omitempty"`
	RMsg    string `json:"rmsg,omitempty"`
}

// the checkpoint store of the interrupted runs
type memStore struct {
	mu sync.Mutex
	m  map[string][]byte
}

func (s *memStore) Get(ctx context.Context, id string) ([]byte, bool, error) {
	s.mu.Lock()
	defer s.mu.Unlock()
	v, ok := s.m[id]
	return v, ok, nil
}

func (s *memStore) Set(ctx context.Context, id string, cp []byte) error {
	s.mu.Lock()
	defer s.mu.Unlock()
	s.m[id] = cp
	return nil
}

func init() {
	// the named types of the universe as checkpoint contents (a type that cannot be written only makes the first
	// run of an interrupted one end in an error, which is not judged)
	_ = compose.RegisterSerializableType[u.T1]("verif_c07_T1")
	_ = compose.RegisterSerializableType[u.T2]("verif_c07_T2")
	_ = compose.RegisterSerializableType[u.T3]("verif_c07_T3")
	_ = compose.RegisterSerializableType[u.NM]("verif_c07_NM")
	_ = compose.RegisterSerializableType[u.Box[int]]("verif_c07_BoxInt")
	_ = compose.RegisterSerializableType[u.St1]("verif_c07_St1")
	_ = compose.RegisterSerializableType[u.St2]("verif_c07_St2")
}

type LatObs struct {
	In  string `json:"in"`  // "" = nil reflect.Type
	Arg string `json:"arg"` // "" = nil reflect.Type
	Res int    `json:"res"` // 0 must not | 1 must | 2 may
}

type AsrtObs struct {
	Dyn string `json:"dyn"`
	Ty  string `json:"ty"`
	Ok  bool   `json:"ok"`
}

// ConcObs: the FIRST calls on a freshly compiled graph, made concurrently (one plan, two through Invoke, the
// last one through Stream), before any other run of that compiled object
type ConcObs struct {
	Plan    int      `json:"plan"`
	Classes []string `json:"classes"`
	Results []string `json:"results"`
	Msgs    []string `json:"msgs,omitempty"`
}

type BuildObs struct {
	Lat          []LatObs          `json:"lat,omitempty"`  // lattice case only
	Asrt         []AsrtObs         `json:"asrt,omitempty"` // lattice case only
	Oks          []bool            `json:"oks"`
	Errs         []string          `json:"errs,omitempty"`
	Compiled     bool              `json:"compiled"`
	SharedBranch bool              `json:"shared_branch,omitempty"` // one *GraphBranch value was handed to two AddBranch calls
	Infer        map[string]string `json:"infer,omitempty"`         // passthrough node -> type name ("" = nil)
	Runs         []RunObs          `json:"runs,omitempty"`
	Conc         *ConcObs          `json:"conc,omitempty"`
}

type runPlan struct {
	emit  map[int]string
	input string
}

// May the runs of c use the empty map values ("Mz", "NMz")?  Not with a node that has an input / output key (the
// key is not found in them) and not where two values can meet at one node (two empty maps merge successfully,
// the model does not predict what happens behind a merge): every node, END included, has at most one incoming
// data connection (edge or branch end).
func mapZOK(c *Case) bool {
	indeg := map[int]int{}
	for _, o := range c.Ops {
		switch o.K {
		case "node":
			if o.Kind >= 5 {
				return false
			}
		case "edge":
			indeg[o.E]++
		case "branch":
			for _, e := range o.Ends {
				indeg[e]++
			}
		}
	}
	for _, n := range indeg {
		if n > 1 {
			return false
		}
	}
	return true
}

// values a producer of static type t can emit in the runs of c
func optionsForCase(c *Case, t string) []string {
	if mapZOK(c) {
		return optionsFor(t)
	}
	return optionsNoMapZ(t)
}

// producers: START (if the graph input is an interface) and every lambda with an interface output
func planRuns(c *Case) []runPlan {
	type prod struct {
		key  int
		opts []string
	}
	var ps []prod
	ps = append(ps, prod{0, optionsForCase(c, c.In)})
	seen := map[int]bool{}
	for _, o := range c.Ops {
		if o.K == "node" && !seen[o.Key] {
			seen[o.Key] = true
			ps = append(ps, prod{o.Key, optionsForCase(c, o.Out)})
		}
	}
	def := map[int]string{}
	for i, p := range ps {
		def[p.key] = p.opts[(c.Salt+i)%len(p.opts)]
	}
	mk := func(over int, v string) runPlan {
		em := map[int]string{}
		for k, d := range def {
			if k != 0 {
				em[k] = d
			}
		}
		in := def[0]
		if over == 0 {
			in = v
		} else if over > 0 {
			em[over] = v
		}
		return runPlan{em, in}
	}
	plans := []runPlan{mk(-1, "")}
	for _, p := range ps {
		for _, v := range p.opts {
			if v != def[p.key] && len(plans) < 24 {
				plans = append(plans, mk(p.key, v))
			}
		}
	}
	return plans
}

// what the lambda of a node with an output key returns (the framework wraps it into map[string]any{"k": …})
var keyedInner any = u.T1{X: 1}

type compileCB struct{ info *compose.GraphInfo }

func (c *compileCB) OnFinish(ctx context.Context, info *compose.GraphInfo) { c.info = info }

func classify(p any, err error) (string, string) {
	if p != nil {
		msg := fmt.Sprint(p)
		if strings.Contains(msg, "reflect.Value.Type on zero Value") {
			return "merge", msg // mergeValues on a nil value (fan-in), outside this engine
		}
		return "panic_esc", msg
	}
	if err == nil {
		return "ok", ""
	}
	msg := err.Error()
	if _, ok := compose.ExtractInterruptInfo(err); ok {
		return "interrupt", msg // only the runs of an IntrObs have a node that asks for one
	}
	switch {
	case strings.Contains(msg, "panic error"):
		return "panic_rec", msg
	case strings.Contains(msg, "runtime type check fail"):
		return "type_err", msg
	case strings.Contains(msg, "(mergeValues") || strings.Contains(msg, "(mergeMap") || strings.Contains(msg, "(mergeStream"):
		return "merge", msg
	}
	return "other", msg
}

func short(s string) string {
	if i := strings.Index(s, "\nstack:"); i >= 0 {
		s = s[:i]
	}
	s = strings.ReplaceAll(s, "\n", " ")
	if len(s) > 160 {
		s = s[:160]
	}
	return s
}

// build constructs the graph from scratch, applies every op, and runs the plans on the
// runnable of the last Compile if that one succeeded.
func build(c *Case, plans []runPlan, extra bool, concPlan int) (bo BuildObs) {
	ctx := context.Background()
	var gopts []compose.NewGraphOption
	switch c.State {
	case 1:
		gopts = append(gopts, compose.WithGenLocalState(func(ctx context.Context) *u.St1 { return &u.St1{} }))
	case 2:
		gopts = append(gopts, compose.WithGenLocalState(func(ctx context.Context) *u.St2 { return &u.St2{} }))
	}
	keyed := false
	for _, o := range c.Ops {
		if o.K == "node" && o.Kind >= 5 {
			keyed = true
		}
	}
	cur := map[int]string{}  // emitted value per node for the current run
	cur2 := map[int]string{} // second chunk per stream-producing node (multi-chunk runs only)
	intr := map[int]bool{}   // the node that asks for InterruptAndRerun in the current run (interrupted runs only)
	// every value a lambda receives in the current run (a run abandoned by the watchdog may still write)
	type seenVal struct {
		key int
		v   any
	}
	var seenMu sync.Mutex
	var seenVals []seenVal
	var g graphH
	if p := lib.Recover(func() { g = newGraphH(c.In, c.Out, gopts...) }); p != nil {
		bo.Errs = append(bo.Errs, "PANIC NewGraph: "+short(fmt.Sprint(p)))
		return
	}
	brCache := map[string]*compose.GraphBranch{}
	sharedBranch := false
	var inv invoker
	var cb *compileCB
	lastCompiled := false
	for _, o := range c.Ops {
		o := o
		var err error
		p := lib.Recover(func() {
			switch o.K {
			case "node", "pass":
				var opts []compose.GraphAddNodeOpt
				if o.Pre != nil {
					opts = append(opts, newPreHandler(o.Pre.Ty, o.Pre.State, retOf(o.Pre), o.Pre.Strm))
				}
				if o.Post != nil {
					opts = append(opts, newPostHandler(o.Post.Ty, o.Post.State, retOf(o.Post), o.Post.Strm))
				}
				if o.K == "node" {
					key := o.Key
					emit := func() any {
						if intr[key] {
							return u.Interrupt{}
						}
						if v2, ok := cur2[key]; ok {
							return u.Multi{Vals: []any{valueOf(cur[key]), valueOf(v2)}}
						}
						return valueOf(cur[key])
					}
					seen := func(v any) {
						seenMu.Lock()
						seenVals = append(seenVals, seenVal{key, v})
						seenMu.Unlock()
					}
					if o.Kind >= 5 {
						// the lambda itself is any -> any; a keyed output side wraps what it returns
						want := map[int][2]string{5: {"M", "any"}, 6: {"any", "M"}, 7: {"M", "M"}}[o.Kind]
						if o.In != want[0] || o.Out != want[1] {
							panic("harness: keyed node with other declared types")
						}
						inner := emit
						if o.Kind != 5 {
							inner = func() any { return keyedInner }
						}
						if o.Kind != 6 {
							opts = append(opts, compose.WithInputKey("k"))
						}
						if o.Kind != 5 {
							opts = append(opts, compose.WithOutputKey("k"))
						}
						err = g.AddLambdaNode(keyName(o.Key), newLambda("any", "any", inner, seen, 0), opts...)
					} else if o.Kind == 4 {
						sub := newGraphH(o.In, o.Out)
						if err = sub.AddLambdaNode("x", newLambda(o.In, o.Out, emit, seen, 0)); err == nil {
							if err = sub.AddEdge(compose.START, "x"); err == nil {
								err = sub.AddEdge("x", compose.END)
							}
						}
						if err != nil {
							panic("harness: sub graph: " + err.Error())
						}
						err = g.AddSubGraph(keyName(o.Key), sub, opts...)
					} else {
						err = g.AddLambdaNode(keyName(o.Key), newLambda(o.In, o.Out, emit, seen, o.Kind), opts...)
					}
				} else {
					err = g.AddPassthroughNode(keyName(o.Key), opts...)
				}
			case "edge":
				err = g.AddEdge(keyName(o.S), keyName(o.E))
			case "branch":
				ends := map[string]bool{}
				for _, e := range o.Ends {
					ends[keyName(e)] = true
				}
				var choice []string
				for _, e := range o.Choice {
					choice = append(choice, keyName(e))
				}
				// one *GraphBranch value per (type, end nodes, choice, kind): an identical branch added to
				// another start node (or twice) is the same builder value used again
				bk := fmt.Sprintf("%s|%v|%v|%d", o.Ty, o.Ends, o.Choice, o.Kind)
				br := brCache[bk]
				if br == nil {
					br = newBranch(o.Ty, choice, ends, o.Kind)
					brCache[bk] = br
				} else {
					sharedBranch = true
				}
				err = g.AddBranch(keyName(o.S), br)
			case "compile":
				ncb := &compileCB{}
				var ni invoker
				ni, err = g.Compile(ctx, compose.WithGraphCompileCallbacks(ncb))
				if err == nil {
					inv, cb = ni, ncb
				}
			default:
				panic("harness: bad op " + o.K)
			}
		})
		if p != nil {
			err = fmt.Errorf("PANIC in %s: %v", o.K, p)
		}
		bo.Oks = append(bo.Oks, err == nil)
		if err != nil {
			bo.Errs = append(bo.Errs, short(err.Error()))
		} else {
			bo.Errs = append(bo.Errs, "")
		}
		lastCompiled = o.K == "compile" && err == nil
	}
	bo.Compiled = lastCompiled
	bo.SharedBranch = sharedBranch
	if !lastCompiled || inv == nil {
		return
	}
	// the same graph compiled once more for the all-predecessor (DAG) trigger mode: same types, other scheduling
	var dagInv invoker
	// and, for the interrupted runs, both once more with a checkpoint store
	var cpInv, cpDagInv invoker
	if extra {
		lib.Recover(func() {
			if di, err := g.Compile(ctx, compose.WithNodeTriggerMode(compose.AllPredecessor)); err == nil {
				dagInv = di
			}
		})
		store := &memStore{m: map[string][]byte{}}
		lib.Recover(func() {
			if ci, err := g.Compile(ctx, compose.WithCheckPointStore(store)); err == nil {
				cpInv = ci
			}
		})
		if dagInv != nil {
			lib.Recover(func() {
				if ci, err := g.Compile(ctx, compose.WithNodeTriggerMode(compose.AllPredecessor), compose.WithCheckPointStore(store)); err == nil {
					cpDagInv = ci
				}
			})
		}
	}
	cpSeq, intrDone := 0, map[string]bool{}
	bo.Infer = map[string]string{}
	if cb != nil && cb.info != nil {
		for k, ni := range cb.info.Nodes {
			if ni.Component == compose.ComponentOfPassthrough {
				in, out := nameOfType(ni.InputType), nameOfType(ni.OutputType)
				if in != out {
					in = in + "/" + out
				}
				bo.Infer[k] = in
			}
		}
	}
	// the first calls on this compiled object, made concurrently: whatever the compiled graph sets up at its first
	// use (and whatever its run-time checks share between calls) must not depend on which call comes first
	if concPlan >= 0 && concPlan < len(plans) {
		pl := plans[concPlan]
		for k, v := range pl.emit {
			cur[k] = v
		}
		in := valueOf(pl.input)
		const nconc = 4
		type cres struct{ class, result, msg string }
		outs := make([]chan cres, nconc)
		start := make(chan struct{})
		run := inv
		for j := 0; j < nconc; j++ {
			j := j
			outs[j] = make(chan cres, 1)
			go func() {
				<-start
				var o any
				var err error
				p := lib.Recover(func() { o, err = run(ctx, in, j == nconc-1) })
				cl, msg := classify(p, err)
				r := cres{class: cl, msg: short(msg)}
				if cl == "ok" {
					r.result = dynOf(o)
				}
				outs[j] <- r
			}()
		}
		close(start)
		deadline := time.After(60 * time.Second) // slowness is not an alarm, a deadlock is
		co := &ConcObs{Plan: concPlan}
		for j := 0; j < nconc; j++ {
			r := cres{class: "hang"}
			select {
			case r = <-outs[j]:
			case <-deadline:
			}
			co.Classes = append(co.Classes, r.class)
			co.Results = append(co.Results, r.result)
			co.Msgs = append(co.Msgs, r.msg)
		}
		bo.Conc = co
	}
	for _, pl := range plans {
		for k := range cur {
			delete(cur, k)
		}
		for k, v := range pl.emit {
			cur[k] = v
		}
		ro := RunObs{Emit: map[string]string{}, Input: pl.input}
		for k, v := range pl.emit {
			ro.Emit[strconv.Itoa(k)] = v
		}
		type res struct {
			out any
			err error
			p   any
		}
		legitVals := []any{valueOf(pl.input)}
		for _, v := range pl.emit {
			legitVals = append(legitVals, valueOf(v))
		}
		for _, o := range c.Ops {
			for _, h := range []*H{o.Pre, o.Post} {
				if h != nil && h.Ret != "" {
					legitVals = append(legitVals, valueOf(h.Ret))
				}
			}
		}
		var legit func(v any) bool
		legit = func(v any) bool {
			for _, l := range legitVals {
				if reflect.DeepEqual(v, l) {
					return true
				}
			}
			if keyed {
				// what a node with an output key returns wrapped, and what a node with an input key is handed
				if reflect.DeepEqual(v, keyedInner) || reflect.DeepEqual(v, 1) {
					return true
				}
				if m, ok := v.(map[string]any); ok && len(m) == 1 {
					if x, ok := m["k"]; ok {
						return legit(x)
					}
				}
			}
			return false
		}
		legitType := func(v any) bool {
			t := reflect.TypeOf(v)
			for _, l := range legitVals {
				if reflect.TypeOf(l) == t {
					return true
				}
			}
			if keyed {
				if t == reflect.TypeOf(keyedInner) || t == reflect.TypeOf(1) || t == reflect.TypeOf(map[string]any{}) {
					return true
				}
			}
			return false
		}
		cur_inv := inv
		runCtx, noFab, intrNode := ctx, false, -1
		var inputVal any = valueOf(pl.input)
		once := func(stream bool) (class, result, msg string) {
			ch := make(chan res, 1)
			run := cur_inv
			inputVal := inputVal
			runCtx := runCtx
			go func() {
				var r res
				r.p = lib.Recover(func() { r.out, r.err = run(runCtx, inputVal, stream) })
				ch <- r
			}()
			seenMu.Lock()
			seenVals = nil
			seenMu.Unlock()
			// a run that has not returned after 10 s is given another 50 s before it counts as a hang: on a
			// loaded machine slowness must not raise an alarm, a real deadlock still does
			var r res
			got := false
			select {
			case r = <-ch:
				got = true
			case <-time.After(10 * time.Second):
				select {
				case r = <-ch:
					got = true
				case <-time.After(50 * time.Second):
				}
			}
			if got {
				class, msg = classify(r.p, r.err)
				msg = short(msg)
				if class == "ok" {
					result = dynOf(r.out)
				}
				// no value is made up on the way: whatever a lambda receives is (deeply equal to) the graph
				// input, a value some lambda emits in this run, or a value a state handler returns
				seenMu.Lock()
				for _, sv := range seenVals {
					if noFab {
						// an interrupted run: what a lambda receives may have been through the checkpoint store, so only
						// its dynamic type is judged (a marker type of the framework is a value nobody produced)
						// (the interrupting node itself is run again on the zero value of its input type: not judged)
						if sv.key != intrNode && !legitType(sv.v) && ro.IFab == "" {
							ro.IFab = fmt.Sprintf("node %d received a value of type %T, which nobody produced", sv.key, sv.v)
						}
						continue
					}
					if !legit(sv.v) && ro.Fab == "" {
						mode := "Invoke"
						if stream {
							mode = "Stream"
							if len(cur2) > 0 {
								mode = fmt.Sprintf("Stream with second chunks %v", cur2)
							}
						}
						ro.Fab = fmt.Sprintf("%s: node %d received %#v (%s), which nobody produced", mode, sv.key, sv.v, dynOf(sv.v))
					}
				}
				seenMu.Unlock()
			} else {
				class = "hang"
			}
			return
		}
		ro.Class, ro.Result, ro.Msg = once(false)
		// the lambdas (sub graph nodes included) that ran in it: the candidates for the interrupted runs below
		var ranNodes []int
		{
			seenMu.Lock()
			ranSet := map[int]bool{}
			for _, sv := range seenVals {
				ranSet[sv.key] = true
			}
			seenMu.Unlock()
			okNode := map[int]bool{}
			for i := range c.Ops {
				if o := &c.Ops[i]; o.K == "node" && i < len(bo.Oks) && bo.Oks[i] && !okNode[o.Key] {
					okNode[o.Key] = true
					if o.Kind <= 4 && ranSet[o.Key] {
						ranNodes = append(ranNodes, o.Key)
					}
				}
			}
			sort.Ints(ranNodes)
		}
		unreported := func(mode string) {
			// The run-time check is exact: Invoke completed, so whatever a node that RAN handed to a successor over a
			// data edge was assignable to the successor's input type.  A data edge is taken whenever its start node
			// completes, and its check is made when the start node's output is written, in the superstep the node ran in
			// (before the run can end); sources: START and the plain lambdas that report having received a value and have
			// no post handler; consumers: plain lambdas, sub graph nodes (declared input type) and END.
			seenMu.Lock()
			ran := map[int]bool{0: true}
			for _, sv := range seenVals {
				ran[sv.key] = true
			}
			seenMu.Unlock()
			nodeOp := map[int]*Op{}
			for i := range c.Ops {
				if o := &c.Ops[i]; o.K == "node" && i < len(bo.Oks) && bo.Oks[i] && nodeOp[o.Key] == nil {
					nodeOp[o.Key] = o
				}
			}
			for i := range c.Ops {
				o := &c.Ops[i]
				if o.K != "edge" || i >= len(bo.Oks) || !bo.Oks[i] || !ran[o.S] {
					continue
				}
				val := pl.input
				if o.S != 0 {
					so := nodeOp[o.S]
					if so == nil || so.Kind > 3 || so.Post != nil {
						continue
					}
					val = pl.emit[o.S]
				}
				want := c.Out
				if o.E != 1 {
					eo := nodeOp[o.E]
					if eo == nil || eo.Kind > 4 {
						continue
					}
					want = eo.In
				}
				if val != "" && want != "" && !dynAssignable(val, want) && ro.Unrep == "" {
					ro.Unrep = fmt.Sprintf(mode+"%s ran and handed %s the %s value %s, which a %s does not hold", keyName(o.S), keyName(o.E), dynTypeName(val), val, want)
				}
			}
		}
		if ro.Class == "ok" {
			unreported("")
		}
		ro.SClass, ro.SResult, ro.SMsg = once(true)
		if extra && len(bo.Runs) < 4 {
			inputVal = u.CollectIn{Val: valueOf(pl.input)}
			ro.CClass, ro.CResult, ro.CMsg = once(true)
			inputVal = u.Multi{Vals: []any{valueOf(pl.input)}}
			ro.TClass, ro.TResult, ro.TMsg = once(true)
			inputVal = valueOf(pl.input)
		}
		// multi-chunk streams: every chunk of an interface-typed stream is a value of its own dynamic type
		if extra && len(bo.Runs) < 4 {
			if m2 := secondChunks(c, pl); len(m2) > 0 {
				ro.Emit2 = map[string]string{}
				for k, v := range m2 {
					if k == 0 {
						// a second chunk of the graph input: the run goes through Transform
						inputVal = u.Multi{Vals: []any{valueOf(pl.input), valueOf(v)}}
					} else {
						cur2[k] = v
					}
					ro.Emit2[strconv.Itoa(k)] = v
					legitVals = append(legitVals, valueOf(v))
				}
				ro.MClass, _, ro.MMsg = once(true)
				for k := range cur2 {
					delete(cur2, k)
				}
				inputVal = valueOf(pl.input)
			}
		}
		if dagInv != nil {
			cur_inv = dagInv
			var dmsg string
			ro.DClass, _, dmsg = once(false)
			if ro.DClass == "ok" {
				unreported("compiled with AllPredecessor: ")
			}
			if ro.DClass == "panic_esc" || ro.DClass == "panic_rec" || ro.DClass == "hang" {
				ro.DClass += ": " + dmsg
			}
		}
		// interrupted and resumed: the default plan, the first plan that completes, the first that completes with a nil
		// value under way (a nil has a representation of its own in a checkpoint) and the first that ends in the type error;
		// up to three of the lambdas that ran, each asking for InterruptAndRerun at its first execution, on the graph
		// as compiled and on the one compiled with AllPredecessor; first run / resume through Invoke / Stream in turn
		intrClass := ro.Class
		if intrClass == "ok" && intrDone["ok"] {
			hasNil := pl.input == "nil"
			for _, v := range pl.emit {
				hasNil = hasNil || v == "nil"
			}
			if hasNil {
				intrClass = "ok-nil"
			}
		}
		if cpInv != nil && len(ranNodes) > 0 && (len(bo.Runs) == 0 || ((ro.Class == "ok" || ro.Class == "type_err") && !intrDone[intrClass])) {
			intrDone[intrClass] = true
			noFab = true
			for j := 0; j < len(ranNodes) && j < 3; j++ {
				node := ranNodes[(c.Salt+j)%len(ranNodes)]
				for di, ci := range []invoker{cpInv, cpDagInv} {
					if ci == nil {
						continue
					}
					for k := 0; k < 2; k++ {
						// k = 0: resumed through Stream, k = 1: through Invoke; the entry of the first run alternates
						firstStream, resumeStream := (c.Salt+len(bo.Runs)+j+di+k)%2 == 0, k == 0
						io := IntrObs{Node: node, Dag: di == 1, First: "invoke", Resume: "invoke"}
						if firstStream {
							io.First = "stream"
						}
						if resumeStream {
							io.Resume = "stream"
						}
						cpSeq++
						cur_inv, runCtx = ci, u.WithCheckPointID(ctx, fmt.Sprintf("cp%d", cpSeq))
						intr[node], intrNode = true, node
						io.FClass, _, _ = once(firstStream)
						delete(intr, node)
						if io.FClass == "interrupt" {
							io.RClass, io.RResult, io.RMsg = once(resumeStream)
						}
						ro.Intr = append(ro.Intr, io)
					}
				}
			}
			cur_inv, runCtx, noFab = inv, ctx, false
		}
		bo.Runs = append(bo.Runs, ro)
	}
	return
}

// secondChunks: for the graph input (key 0) and for every lambda written as Stream / Transform whose static
// type admits more than one dynamic value, a second chunk of another dynamic type than the planned one
func secondChunks(c *Case, pl runPlan) map[int]string {
	m := map[int]string{}
	if opts := optionsForCase(c, c.In); len(opts) >= 2 {
		for i, v := range opts {
			if v == pl.input {
				m[0] = opts[(i+1)%len(opts)]
			}
		}
	}
	seen := map[int]bool{}
	for _, o := range c.Ops {
		if o.K != "node" || seen[o.Key] || (o.Kind != 1 && o.Kind != 3) {
			continue
		}
		seen[o.Key] = true
		opts := optionsForCase(c, o.Out)
		if len(opts) < 2 {
			continue
		}
		for i, v := range opts {
			if v == pl.emit[o.Key] {
				m[o.Key] = opts[(i+1)%len(opts)]
			}
		}
	}
	return m
}

// ---------------------------------------------------------------- direct oracle

type conn struct {
	s    int
	to   string // consumer type name (node input / condition type); "" if unknown
	e    int    // consumer node, -1 for a branch condition
	what string
}

// static facts of the accepted graph: resolved output type per producer, consumers per connection
func resolved(c *Case, bo *BuildObs) (outT, inT map[int]string, conns []conn, pass map[int]bool) {
	outT, inT, pass = map[int]string{0: c.In, 1: c.Out}, map[int]string{0: c.In, 1: c.Out}, map[int]bool{}
	added := map[int]bool{}
	for i, o := range c.Ops {
		if !bo.Oks[i] {
			continue
		}
		switch o.K {
		case "node":
			outT[o.Key], inT[o.Key] = o.Out, o.In
			added[o.Key] = true
		case "pass":
			t := bo.Infer[keyName(o.Key)]
			outT[o.Key], inT[o.Key] = t, t
			pass[o.Key] = true
		}
	}
	for i, o := range c.Ops {
		if !bo.Oks[i] {
			continue
		}
		switch o.K {
		case "edge":
			conns = append(conns, conn{o.S, inT[o.E], o.E, fmt.Sprintf("edge %d->%d", o.S, o.E)})
		case "branch":
			conns = append(conns, conn{o.S, o.Ty, -1, fmt.Sprintf("branch condition at %d", o.S)})
			for _, e := range o.Ends {
				conns = append(conns, conn{o.S, inT[e], e, fmt.Sprintf("branch %d->%d", o.S, e)})
			}
		}
	}
	return
}

// compile_sound on the implementation's own outputs
func oracleStatic(c *Case, bo *BuildObs) string {
	outT, _, conns, _ := resolved(c, bo)
	for _, cn := range conns {
		a, b := outT[cn.s], cn.to
		if a == "" || b == "" || strings.ContainsAny(a+b, "?/") {
			return fmt.Sprintf("accepted graph with an unresolved type on %s: %q -> %q", cn.what, a, b)
		}
		if !isIface(a) && !isIface(b) && a != b {
			return fmt.Sprintf("accepted graph connects concrete %s to concrete %s on %s", a, b, cn.what)
		}
		if !isIface(a) && isIface(b) && !rtypes[a].Implements(rtypes[b]) {
			return fmt.Sprintf("accepted graph connects %s to interface %s it does not implement on %s", a, b, cn.what)
		}
	}
	return ""
}

// a type_err outcome must be justified: some producer (START or a lambda) emits, in this run,
// a value that reaches -- directly or through passthrough nodes -- a connection whose
// upstream static type is an interface and whose consumer type the value is not assignable to
func typeErrJustified(c *Case, bo *BuildObs, ro *RunObs) bool {
	outT, _, conns, pass := resolved(c, bo)
	// values that may flow out of a node: the input, what the lambdas emit, and what state
	// handlers return (an over-approximation: a returned value replaces the original one)
	type src struct {
		p int
		d string
	}
	var srcs []src
	for p := range outT {
		if p == 1 || pass[p] {
			continue
		}
		d := ro.Input
		if p != 0 {
			d = ro.Emit[strconv.Itoa(p)]
		}
		srcs = append(srcs, src{p, d})
	}
	for i, o := range c.Ops {
		if !bo.Oks[i] || (o.K != "node" && o.K != "pass") {
			continue
		}
		for _, h := range []*H{o.Pre, o.Post} {
			if h == nil || h.Ret == "" {
				continue
			}
			if o.K == "pass" {
				// the result of a passthrough node's handler is checked against the node's type
				if !dynAssignable(h.Ret, outT[o.Key]) {
					return true
				}
				srcs = append(srcs, src{o.Key, h.Ret})
			} else if h == o.Post {
				srcs = append(srcs, src{o.Key, h.Ret})
			}
		}
	}
	for _, sc := range srcs {
		p, d := sc.p, sc.d
		seen := map[int]bool{p: true}
		work := []int{p}
		for len(work) > 0 {
			s := work[0]
			work = work[1:]
			for _, cn := range conns {
				if cn.s != s {
					continue
				}
				if isIface(outT[s]) && !dynAssignable(d, cn.to) {
					return true
				}
				if cn.e >= 0 && pass[cn.e] && !seen[cn.e] {
					seen[cn.e] = true
					work = append(work, cn.e)
				}
			}
		}
	}
	return false
}

func respectsNodeFirst(ops []Op) bool {
	have := map[int]bool{0: true, 1: true}
	for _, o := range ops {
		switch o.K {
		case "node", "pass":
			have[o.Key] = true
		case "edge":
			if !have[o.S] || !have[o.E] {
				return false
			}
		case "branch":
			if !have[o.S] {
				return false
			}
			for _, e := range o.Ends {
				if !have[e] {
					return false
				}
			}
		}
	}
	return true
}

// order independence is claimed (and checked) for construction sequences over concrete
// types only, without a Compile in the middle and without branches that have no end
// node; see notes/C07.md for why interface-typed inference is order dependent
func orderComparable(c *Case) bool {
	if isIface(c.In) || isIface(c.Out) {
		return false
	}
	ids := map[int]bool{}
	for i, o := range c.Ops {
		if ids[o.ID] {
			return false
		}
		ids[o.ID] = true
		if o.K == "compile" && i != len(c.Ops)-1 {
			return false
		}
		if (o.K == "node") && (isIface(o.In) || isIface(o.Out)) {
			return false
		}
		if o.K == "branch" && (isIface(o.Ty) || len(o.Ends) == 0) {
			return false
		}
		if o.Pre != nil || o.Post != nil {
			return false
		}
	}
	return respectsNodeFirst(c.Ops)
}

func sameBuild(a, b *BuildObs, withOks bool) string {
	if withOks && !reflect.DeepEqual(a.Oks, b.Oks) {
		return fmt.Sprintf("call results differ: %v vs %v", a.Oks, b.Oks)
	}
	if a.Compiled != b.Compiled {
		return fmt.Sprintf("compile accepted=%v vs %v", a.Compiled, b.Compiled)
	}
	if !reflect.DeepEqual(a.Infer, b.Infer) {
		return fmt.Sprintf("inferred passthrough types differ: %v vs %v", a.Infer, b.Infer)
	}
	if len(a.Runs) != len(b.Runs) {
		return "number of runs differs"
	}
	for i := range a.Runs {
		if a.Runs[i].Class != b.Runs[i].Class || a.Runs[i].Result != b.Runs[i].Result {
			return fmt.Sprintf("run %d: %s/%s vs %s/%s", i, a.Runs[i].Class, a.Runs[i].Result, b.Runs[i].Class, b.Runs[i].Result)
		}
	}
	return ""
}

// ---------------------------------------------------------------- engine

type engine struct{}

func (engine) ID() string { return "C07" }
func (engine) CoqHeader() string {
	return "From Eino Require Import Base.Util Model.Types Model.TypeBuilder Corr.C07.\n" +
		coqUnivDef
}
func (engine) CoqCaseType() string { return "ccase" }

func (engine) Decode(raw json.RawMessage) (any, error) {
	var c Case
	if err := json.Unmarshal(raw, &c); err != nil {
		return nil, err
	}
	if rtypes[c.In] == nil || rtypes[c.Out] == nil {
		return nil, fmt.Errorf("bad graph types")
	}
	return &c, nil
}

func coqH(h *H) string {
	if h == nil {
		return "None"
	}
	ret := "None"
	if h.Ret != "" {
		ret = lib.CoqSome(coqDynMap[h.Ret])
	}
	return lib.CoqSome(fmt.Sprintf("{| h_state := %s; h_ty := %s; h_ret := %s |}", lib.CoqN(uint64(h.State)), coqTyMap[h.Ty], ret))
}
func coqKeys(ks []int) string {
	s := make([]string, len(ks))
	for i, k := range ks {
		s[i] = lib.CoqN(uint64(k))
	}
	return lib.CoqList(s)
}
func coqOp(o Op) string {
	switch o.K {
	case "node":
		return lib.CoqApp("OpNode", lib.CoqN(uint64(o.Key)), coqTyMap[o.In], coqTyMap[o.Out], coqH(o.Pre), coqH(o.Post))
	case "pass":
		return lib.CoqApp("OpPass", lib.CoqN(uint64(o.Key)), coqH(o.Pre), coqH(o.Post))
	case "edge":
		return lib.CoqApp("OpEdge", lib.CoqN(uint64(o.S)), lib.CoqN(uint64(o.E)))
	case "branch":
		return lib.CoqApp("OpBranch", lib.CoqN(uint64(o.S)), coqTyMap[o.Ty], coqKeys(o.Ends), coqKeys(o.Choice))
	}
	return "OpCompile"
}
func coqOTy(t string) string {
	if t == "" {
		return "None"
	}
	if s, ok := coqTyMap[t]; ok {
		return lib.CoqSome(s)
	}
	return lib.CoqSome("(TConc 99)") // unknown / inconsistent: a visible mismatch
}
func coqOutcome(r RunObs) string {
	switch r.Class {
	case "ok":
		if d, ok := coqDynMap[r.Result]; ok {
			return lib.CoqApp("ROk", d)
		}
		return "(ROk (DVal 99))"
	case "type_err":
		return "RTypeErr"
	case "panic_rec":
		return "RPanicRec"
	case "panic_esc":
		return "RPanicEsc"
	case "merge":
		return "RMerge"
	}
	return "ROther"
}

func (c *Case) coq(bo *BuildObs) string {
	ops := make([]string, len(c.Ops))
	for i, o := range c.Ops {
		ops[i] = coqOp(o)
	}
	oks := make([]string, len(bo.Oks))
	for i, b := range bo.Oks {
		oks[i] = lib.CoqBool(b)
	}
	var infer []string
	var ks []int
	for _, o := range c.Ops {
		if o.K == "pass" {
			if _, ok := bo.Infer[keyName(o.Key)]; ok {
				ks = append(ks, o.Key)
			}
		}
	}
	sort.Ints(ks)
	for i, k := range ks {
		if i > 0 && ks[i-1] == k {
			continue
		}
		infer = append(infer, lib.CoqPair(lib.CoqN(uint64(k)), coqOTy(bo.Infer[keyName(k)])))
	}
	var runs []string
	for _, r := range bo.Runs {
		var em []string
		var eks []int
		for k := range r.Emit {
			n, _ := strconv.Atoi(k)
			eks = append(eks, n)
		}
		sort.Ints(eks)
		for _, k := range eks {
			em = append(em, lib.CoqPair(lib.CoqN(uint64(k)), coqDynMap[r.Emit[strconv.Itoa(k)]]))
		}
		runs = append(runs, lib.CoqTuple(lib.CoqList(em), coqDynMap[r.Input], coqOutcome(r)))
	}
	st := "None"
	if c.State != 0 {
		st = lib.CoqSome(lib.CoqN(uint64(c.State)))
	}
	var lat, asrt []string
	for _, l := range bo.Lat {
		res := "MustNot"
		switch l.Res {
		case 1:
			res = "Must"
		case 2:
			res = "May"
		}
		lat = append(lat, lib.CoqTuple(coqOTy(l.In), coqOTy(l.Arg), res))
	}
	for _, a := range bo.Asrt {
		asrt = append(asrt, lib.CoqTuple(coqDynMap[a.Dyn], coqTyMap[a.Ty], lib.CoqBool(a.Ok)))
	}
	return lib.CoqApp("MkCase", coqUniv, coqTyMap[c.In], coqTyMap[c.Out], st,
		lib.CoqList(ops), lib.CoqList(oks), lib.CoqList(infer), lib.CoqList(runs), lib.CoqList(lat), lib.CoqList(asrt))
}

const builds = 5

// number of independent constructions of a case: more when a branch without end nodes is
// involved (the one place where types used to wait in toValidateMap across calls, so that
// the result of a later update depended on the map iteration order; an order that Go
// picks with probability 1/8 is seen in 24 builds with probability 0.96)
func buildsFor(c *Case) int {
	for _, o := range c.Ops {
		if o.K == "branch" && len(o.Ends) == 0 {
			return 24
		}
	}
	return builds
}

// The lattice case: the tables of checkAssignable and assertType over the whole universe, read
// through the hook compose/verif_c07.go.  Sent to the model (c_lat, c_asrt) and judged here
// by what the property needs of them, stated on dynamic values alone:
//
//	must     => every value the upstream type admits is held by the downstream type
//	must not => no non-nil value the upstream type admits is held by the downstream type
//	            (so: two distinct concrete types are never connected, a concrete type goes
//	            into an interface exactly when it implements it)
//	may      => the upstream type is an interface (a concrete upstream is decided statically)
//	assertType[T](v) <=> v is held by T without conversion (nil by every interface type)
func runLattice(c *Case) lib.Result {
	bo := &BuildObs{}
	res := lib.Result{Obs: bo, Nontrivial: true, Tags: []string{"src:" + c.Src}}
	fail := func(sig, what string) {
		if res.Oracle == "" {
			res.Oracle, res.Sig = what, sig
		}
	}
	if !whiteBox {
		// no hook in this build: nothing is read, nothing is sent to the model (empty tables agree trivially)
		res.Nontrivial = false
		res.Tags = append(res.Tags, "whitebox:unavailable")
		res.CoqTerm = c.coq(bo)
		return res
	}
	names := append([]string{""}, allTypes...)
	p := lib.Recover(func() {
		for _, a := range names {
			for _, b := range names {
				r := hookCheckAssignable(rtypes[a], rtypes[b])
				bo.Lat = append(bo.Lat, LatObs{a, b, r})
				if a == "" || b == "" {
					if r != 0 {
						fail("lattice-nil", fmt.Sprintf("checkAssignable(%q, %q) = %d with an unknown type", a, b, r))
					}
					continue
				}
				for _, d := range optionsFor(a) {
					held := dynAssignable(d, b)
					switch {
					case r == 1 && !held:
						fail("lattice-must-unsound", fmt.Sprintf("checkAssignable(%s, %s) = must, but the %s value %s is not a %s: the connection is accepted without a run-time check and the consumer's assertion fails", a, b, a, d, b))
					case r == 0 && held && d != "nil":
						fail("lattice-mustnot-overstrict", fmt.Sprintf("checkAssignable(%s, %s) = must not, but the %s value %s is a %s: a legitimate connection is rejected", a, b, a, d, b))
					}
				}
				if r == 2 && !isIface(a) {
					fail("lattice-may-concrete", fmt.Sprintf("checkAssignable(%s, %s) = may with a concrete upstream type", a, b))
				}
			}
		}
		for _, d := range dynNames {
			for _, t := range allTypes {
				ok := hookAssertType(t, valueOf(d))
				bo.Asrt = append(bo.Asrt, AsrtObs{d, t, ok})
				if ok != dynAssignable(d, t) {
					fail("assert-type", fmt.Sprintf("assertType[%s](%s value) = %v", t, d, ok))
				}
			}
		}
	})
	if p != nil {
		fail("lattice-panic", fmt.Sprintf("checkAssignable / assertType panicked: %v", p))
	}
	res.CoqTerm = c.coq(bo)
	return res
}

func (engine) Run(ci any) lib.Result {
	c := ci.(*Case)
	if c.Src == "lattice" {
		return runLattice(c)
	}
	plans := planRuns(c)
	obs := make([]BuildObs, buildsFor(c))
	// every build after the first starts with concurrent first calls on its fresh compile: of the default plan, or
	// (every other build) of the first plan that the first build saw end in the ordinary type error
	for i := range obs {
		cp := -1
		if i >= 1 {
			cp = 0
			if (c.Salt+i)%2 == 0 {
				for k, r := range obs[0].Runs {
					if r.Class == "type_err" {
						cp = k
						break
					}
				}
			}
		}
		obs[i] = build(c, plans, i == 0, cp)
	}
	bo := &obs[0]
	res := lib.Result{Obs: bo}
	fail := func(sig, what string) {
		if res.Oracle == "" {
			res.Oracle, res.Sig = what, sig
		}
	}
	// determinism over map iteration order (5 independent constructions)
	for i := 1; i < len(obs); i++ {
		if d := sameBuild(bo, &obs[i], true); d != "" {
			fail("nondeterministic", fmt.Sprintf("two constructions of the same call sequence differ (build 0 vs %d): %s", i, d))
		}
	}
	compilePanic := false
	for i := range obs {
		b := &obs[i]
		for j, e := range b.Errs {
			if strings.HasPrefix(e, "PANIC") {
				if c.Ops[j].K == "compile" {
					// a panic inside Compile (e.g. a never connected passthrough node) is property C20's
					// business; for C07 the compile simply did not succeed
					compilePanic = true
					continue
				}
				fail("build-panic", fmt.Sprintf("call %d panicked: %s", j, e))
			}
		}
		if !b.Compiled {
			continue
		}
		if s := oracleStatic(c, b); s != "" {
			fail("unsound-accept", s)
		}
		for k := range b.Runs {
			r := &b.Runs[k]
			if r.Unrep != "" {
				fail("unreported-mismatch", fmt.Sprintf("accepted graph: run %d (input %s, emit %v) completed (Invoke result %s) although %s: where the upstream type is an interface the dynamic value is checked and an ordinary error reported when it is not assignable", k, r.Input, r.Emit, r.Result, r.Unrep))
			}
			if r.Fab != "" {
				fail("fabricated-value", fmt.Sprintf("accepted graph: run %d (input %s, emit %v): %s: a value that is not assignable must be reported, not replaced", k, r.Input, r.Emit, r.Fab))
			}
			switch r.Class {
			case "panic_esc":
				fail("panic-escaped", fmt.Sprintf("accepted graph: run %d (input %s, emit %v) panicked on the caller's goroutine: %s", k, r.Input, r.Emit, r.Msg))
			case "panic_rec":
				fail("panic-recovered", fmt.Sprintf("accepted graph: run %d (input %s, emit %v) failed with a recovered type-assertion panic: %s", k, r.Input, r.Emit, r.Msg))
			case "hang":
				fail("hang", fmt.Sprintf("run %d did not return", k))
			}
			// the same run through Stream: the run-time checks are made lazily there (a value nobody
			// reads is not checked), so only panics and differing results are judged
			switch {
			case r.SClass == "panic_esc" || r.SClass == "panic_rec" || r.SClass == "hang":
				if r.Class != r.SClass {
					sig := "stream-panic"
					fail(sig, fmt.Sprintf("accepted graph: run %d (input %s, emit %v) through Stream: %s (%s); Invoke gives %s/%s", k, r.Input, r.Emit, r.SClass, r.SMsg, r.Class, r.Result))
				}
			case r.MClass == "panic_esc" || r.MClass == "panic_rec" || r.MClass == "hang":
				fail("stream-panic", fmt.Sprintf("accepted graph: run %d (input %s, emit %v, second chunks %v) through Stream: %s (%s)", k, r.Input, r.Emit, r.Emit2, r.MClass, r.MMsg))
			case strings.HasPrefix(r.DClass, "panic") || strings.HasPrefix(r.DClass, "hang"):
				fail("dag-panic", fmt.Sprintf("accepted graph compiled with AllPredecessor: run %d (input %s, emit %v): %s", k, r.Input, r.Emit, r.DClass))
			case r.Class == "ok" && r.SClass != "ok":
				// laziness can only remove errors: a run that Invoke completes must complete through Stream
				fail("stream-fails-invoke-ok", fmt.Sprintf("accepted graph: run %d (input %s, emit %v): Invoke returns %s, Stream fails: %s (%s)", k, r.Input, r.Emit, r.Result, r.SClass, r.SMsg))
			case r.SClass == "ok" && r.Class == "ok" && r.SResult != r.Result:
				fail("invoke-stream-result-differ", fmt.Sprintf("accepted graph: run %d (input %s, emit %v): Invoke returns %s, Stream returns %s", k, r.Input, r.Emit, r.Result, r.SResult))
			}
			// the Collect and Transform entries: the same rules as for Stream
			for _, e := range []struct{ name, class, result, msg string }{{"Collect", r.CClass, r.CResult, r.CMsg}, {"Transform", r.TClass, r.TResult, r.TMsg}} {
				switch {
				case e.class == "":
				case e.class == "panic_esc" || e.class == "panic_rec" || e.class == "hang":
					if r.Class != e.class {
						fail("stream-panic", fmt.Sprintf("accepted graph: run %d (input %s, emit %v) through %s: %s (%s); Invoke gives %s/%s", k, r.Input, r.Emit, e.name, e.class, e.msg, r.Class, r.Result))
					}
				case r.Class == "ok" && e.class != "ok":
					fail("stream-fails-invoke-ok", fmt.Sprintf("accepted graph: run %d (input %s, emit %v): Invoke returns %s, %s fails: %s (%s)", k, r.Input, r.Emit, r.Result, e.name, e.class, e.msg))
				case r.Class == "ok" && e.result != r.Result:
					fail("invoke-stream-result-differ", fmt.Sprintf("accepted graph: run %d (input %s, emit %v): Invoke returns %s, %s returns %s", k, r.Input, r.Emit, r.Result, e.name, e.result))
				}
			}
			if r.IFab != "" {
				fail("fabricated-value", fmt.Sprintf("accepted graph: run %d (input %s, emit %v), interrupted (a lambda asks for InterruptAndRerun at its first execution) and resumed from the checkpoint: %s", k, r.Input, r.Emit, r.IFab))
			}
			// interrupted and resumed: the resumed run is a run of a graph that compiled
			for _, io := range r.Intr {
				if io.FClass != "interrupt" {
					continue
				}
				mode := "the graph as compiled"
				alone := fmt.Sprintf("Invoke %s, Stream %s", r.Class, r.SClass)
				if io.Dag {
					mode = "the graph compiled with AllPredecessor"
					alone = "Invoke " + r.DClass
				}
				what := fmt.Sprintf("accepted graph: run %d (input %s, emit %v) on %s with a checkpoint store, node %s asking for InterruptAndRerun at its first execution (first run through %s), resumed through %s", k, r.Input, r.Emit, mode, keyName(io.Node), io.First, io.Resume)
				switch io.RClass {
				case "panic_esc", "panic_rec", "hang":
					same := io.RClass == r.Class || io.RClass == r.SClass
					if io.Dag {
						same = strings.HasPrefix(r.DClass, io.RClass)
					}
					if !same {
						fail("resume-panic", fmt.Sprintf("%s: %s (%s); the uninterrupted run gives %s: a value that passed the run-time check of its edge before the interrupt reaches the node as a value of another type after it", what, io.RClass, io.RMsg, alone))
					}
				case "type_err":
					clean := r.Class == "ok" && r.SClass == "ok"
					if io.Dag {
						clean = r.DClass == "ok"
					}
					if clean {
						fail("resume-spurious-type-error", fmt.Sprintf("%s: run-time type error (%s) although the uninterrupted run completes (%s): every value is assignable to every consumer it reaches", what, io.RMsg, alone))
					}
				}
			}
			switch r.Class {
			case "type_err":
				if !typeErrJustified(c, b, r) {
					fail("spurious-type-error", fmt.Sprintf("run %d (input %s, emit %v) failed with a run-time type error although every emitted value is assignable to every consumer it can reach: %s", k, r.Input, r.Emit, r.Msg))
				}
			}
		}
	}
	// concurrent first calls on a fresh compile (every build after the first) against the same plan run alone (build 0)
	concTag := ""
	for bi := 1; bi < len(obs); bi++ {
		co := obs[bi].Conc
		if co == nil || !bo.Compiled || co.Plan >= len(bo.Runs) {
			continue
		}
		ref := &bo.Runs[co.Plan]
		for j, cl := range co.Classes {
			stream := j == len(co.Classes)-1
			bad := cl == "panic_esc" || cl == "panic_rec" || cl == "hang"
			if stream {
				// lazily checked: only a panic / hang that the run alone does not show is judged
				if bad && cl != ref.SClass {
					fail("concurrent-first-calls", fmt.Sprintf("accepted graph, freshly compiled (build %d), %d concurrent first calls of run %d (input %s, emit %v): the call through Stream ends in %s (%s); alone it gives %s", bi, len(co.Classes), co.Plan, ref.Input, ref.Emit, cl, co.Msgs[j], ref.SClass))
				}
				continue
			}
			if cl != ref.Class || co.Results[j] != ref.Result {
				fail("concurrent-first-calls", fmt.Sprintf("accepted graph, freshly compiled (build %d), %d concurrent first calls of run %d (input %s, emit %v): Invoke call %d gives %s/%s (%s); the same run alone gives %s/%s: whether a value is checked must not depend on which call comes first", bi, len(co.Classes), co.Plan, ref.Input, ref.Emit, j, cl, co.Results[j], co.Msgs[j], ref.Class, ref.Result))
			}
		}
		if concTag == "" || ref.Class == "type_err" {
			concTag = "concfirst:" + ref.Class
		}
	}
	// order independence against the reference order (concrete universes only)
	tags := []string{}
	if orderComparable(c) {
		ref := *c
		ref.Ops = append([]Op(nil), c.Ops...)
		sort.SliceStable(ref.Ops, func(i, j int) bool { return ref.Ops[i].ID < ref.Ops[j].ID })
		if respectsNodeFirst(ref.Ops) {
			rb := build(&ref, plans, false, -1)
			if d := sameBuild(bo, &rb, false); d != "" {
				fail("order-dependent", "same calls in the reference order give a different verdict: "+d)
			}
			tags = append(tags, "ordercheck:yes")
		}
	} else {
		tags = append(tags, "ordercheck:no")
	}
	res.CoqTerm = c.coq(bo)

	nconn, npass, nbranch, niface := 0, 0, 0, 0
	for _, o := range c.Ops {
		switch o.K {
		case "edge":
			nconn++
		case "branch":
			nconn++
			nbranch++
		case "pass":
			npass++
		case "node":
			if isIface(o.In) || isIface(o.Out) {
				niface++
			}
		}
	}
	res.Nontrivial = nconn >= 2 && (npass > 0 || niface > 0 || nbranch > 0)
	tags = append(tags, "src:"+c.Src, fmt.Sprintf("ops:%d", len(c.Ops)), fmt.Sprintf("pass:%d", npass),
		fmt.Sprintf("branches:%d", nbranch), "compiled:"+strconv.FormatBool(bo.Compiled))
	nerr := 0
	for _, ok := range bo.Oks[:max0(len(bo.Oks)-1)] {
		if !ok {
			nerr++
		}
	}
	if nerr > 0 {
		tags = append(tags, "adderr:yes")
	} else {
		tags = append(tags, "adderr:no")
	}
	if len(bo.Infer) > 0 {
		tags = append(tags, "inferred:yes")
	}
	nh, nbadh, zeroEnd := 0, 0, false
	for _, o := range c.Ops {
		if o.K == "branch" && len(o.Ends) == 0 {
			zeroEnd = true
		}
		for _, hp := range []struct {
			h   *H
			exp string
		}{{o.Pre, o.In}, {o.Post, o.Out}} {
			if hp.h == nil {
				continue
			}
			nh++
			exp := hp.exp
			if o.K == "pass" {
				exp = "any"
			}
			if hp.h.Ty != exp || hp.h.State != c.State {
				nbadh++
			}
		}
	}
	if nh > 0 {
		tags = append(tags, "handlers:yes")
	}
	for _, o := range c.Ops {
		if (o.Pre != nil && o.Pre.Strm) || (o.Post != nil && o.Post.Strm) {
			tags = append(tags, "kind:streamhandler")
			break
		}
	}
	if nbadh > 0 {
		tags = append(tags, "badhandler:yes")
	}
	if zeroEnd {
		tags = append(tags, "zeroend:yes")
	}
	if bo.SharedBranch {
		tags = append(tags, "sharedbranch:yes")
	}
	if compilePanic {
		tags = append(tags, "compile:panic")
	}
	if concTag != "" {
		tags = append(tags, concTag)
	}
	// which types of the universe the case mentions (tys) and which of them take part in a graph that compiled (ctys)
	used := map[string]bool{c.In: true, c.Out: true}
	for _, o := range c.Ops {
		for _, t := range []string{o.In, o.Out, o.Ty} {
			if t != "" {
				used[t] = true
			}
		}
		for _, h := range []*H{o.Pre, o.Post} {
			if h != nil {
				used[h.Ty] = true
			}
		}
	}
	kinds := map[string]bool{}
	for _, o := range c.Ops {
		if o.K == "node" {
			kinds[[]string{"invoke", "stream", "collect", "transform", "subgraph", "keyed", "keyed", "keyed"}[o.Kind%8]] = true
		}
		if o.K == "branch" && o.Kind == 1 {
			kinds["streambranch"] = true
		}
	}
	for k := range kinds {
		tags = append(tags, "kind:"+k)
	}
	for t := range used {
		tags = append(tags, "ty:"+t)
		if bo.Compiled {
			tags = append(tags, "cty:"+t)
		}
	}
	cls := map[string]bool{}
	for _, r := range bo.Runs {
		cls[r.Class] = true
	}
	for k := range cls {
		tags = append(tags, "run:"+k)
	}
	scls := map[string]bool{}
	for _, r := range bo.Runs {
		if r.SClass != r.Class {
			scls[r.Class+">"+r.SClass] = true
		}
	}
	for k := range scls {
		tags = append(tags, "stream:"+k)
	}
	// runs made with an empty map value (the empty map, the typed nil map)
	for _, r := range bo.Runs {
		ez := isMapZ(r.Input)
		for _, v := range r.Emit {
			ez = ez || isMapZ(v)
		}
		if ez {
			tags = append(tags, "emptymap:yes")
			break
		}
	}
	ecls := map[string]bool{}
	for _, r := range bo.Runs {
		if r.CClass != "" {
			ecls["collect:"+r.CClass] = true
		}
		if r.TClass != "" {
			ecls["transform:"+r.TClass] = true
		}
	}
	for k := range ecls {
		tags = append(tags, "entry:"+k)
	}
	icls := map[string]bool{}
	for _, r := range bo.Runs {
		for _, io := range r.Intr {
			if io.FClass != "interrupt" {
				icls["first-"+io.FClass] = true
			} else {
				icls[io.Resume+"-"+io.RClass] = true
			}
		}
	}
	for k := range icls {
		tags = append(tags, "intr:"+k)
	}
	mcls := map[string]bool{}
	for _, r := range bo.Runs {
		if r.MClass != "" {
			mcls[r.MClass] = true
		}
	}
	for k := range mcls {
		tags = append(tags, "multichunk:"+k)
	}
	sort.Strings(tags)
	res.Tags = tags
	return res
}

func max0(n int) int {
	if n < 0 {
		return 0
	}
	return n
}

func main() {
	_ = flag.CommandLine
	lib.Main(engine{})
}
