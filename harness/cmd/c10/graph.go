package main

import (
	"context"
	"encoding/json"
	"errors"
	"fmt"
	"io"
	"os"
	"runtime"
	"sort"
	"strings"
	"sync"
	"time"

	"github.com/cloudwego/eino/callbacks"
	"github.com/cloudwego/eino/components"
	"github.com/cloudwego/eino/components/tool"
	"github.com/cloudwego/eino/compose"
	"github.com/cloudwego/eino/schema"

	"verif/harness/lib"
)

type vmap = map[string]any
type lopt struct{}

var errNode = errors.New("node failed (by the case)")

const panicMsg = "unit panics (by the case)"

// ---------------------------------------------------------------- generator

type genState struct {
	r       *lib.Rng
	uid     int
	shared  int
	maxDep  int
	store   bool
	units   [][]int // key paths of every node generated so far (for designations)
	subs    [][]int // key paths of sub graph nodes
	lambdas [][]int
}

func (g *genState) stages(depth int, path []int, sub bool) [][]*GNode {
	r := g.r
	nSt := r.Range(1, 3)
	if depth > 0 {
		nSt = r.Range(1, 2)
	}
	out := make([][]*GNode, nSt)
	key := 0
	var sharedCand *GNode
	for si := range out {
		w := 1
		if r.Chance(3, 5) {
			w = r.Range(2, 3)
			if r.Chance(1, 8) {
				w = 4
			}
		}
		pass := false
		for j := 0; j < w; j++ {
			key++
			g.uid++
			n := &GNode{UID: g.uid, Key: key}
			p := append(append([]int(nil), path...), key)
			x := r.Intn(100)
			last := si == nSt-1
			switch {
			case x < 10 && !pass && !(sub && last):
				n.Kind = "pass"
				pass = true
			case x >= 28 && x < 36 && depth < g.maxDep:
				// a ToolsNode between two conversion lambdas, as a sub graph
				n.Kind, n.Typed = "sub", "tools"
				n.SubDag = r.Chance(1, 4)
				g.subs = append(g.subs, p)
				mk := func(k int) *GNode {
					g.uid++
					q := append(append([]int(nil), p...), k)
					g.units = append(g.units, q)
					return &GNode{UID: g.uid, Key: k}
				}
				a, t, b := mk(1), mk(2), mk(3)
				a.Kind, a.Conv, a.Natives, a.Chunks = "lambda", true, 1, 1
				b.Kind, b.Conv, b.Natives, b.Chunks = "lambda", true, 1, 1
				t.Kind = "tools"
				g.lambdas = append(g.lambdas, append(append([]int(nil), p...), 2)) // also a target for "below a component"
				for i, nc := 0, r.Range(1, 3); i < nc; i++ {
					g.uid++
					t.Calls = append(t.Calls, &GCall{UID: g.uid, Natives: r.Range(1, 3), Fails: r.Chance(1, 12),
						DelayUs: r.Intn(300), Chunks: r.Range(1, 3)})
				}
				// a failing tool call may fail by panicking; the first of several calls too: the ToolsNode runs
				// that one on its own goroutine, the panic passes through the node (which ends with an error)
				// while the other calls are still running: they finish on their own, like the tasks an eager
				// run leaves behind
				for _, cl := range t.Calls {
					if cl.Fails && r.Chance(1, 2) {
						cl.Panics = true
					}
				}
				if len(t.Calls) > 1 && r.Chance(1, 8) {
					t.Calls[0].Fails, t.Calls[0].Panics = true, true
				}
				// a call of a tool the node does not have (answered by the UnknownToolsHandler); the tool
				// list handed over at call time instead of at construction
				if r.Chance(1, 4) {
					t.Calls[r.Intn(len(t.Calls))].Unknown = true
				}
				t.ToolList = r.Chance(1, 4)
				if g.store && r.Chance(1, 3) {
					// a tool call asks for an interrupt: the ToolsNode is executed again as a whole
					t.Calls[r.Intn(len(t.Calls))].Intr = 1
				}
				n.Stages = [][]*GNode{{a}, {t}, {b}}
			case x < 28 && depth < g.maxDep:
				n.Kind = "sub"
				n.SubDag = r.Chance(1, 4)
				g.subs = append(g.subs, p)
				n.Stages = g.stages(depth+1, p, true)
				if g.store && r.Chance(1, 3) {
					n.Stages = g.addStops(n.Stages)
				}
			default:
				n.Kind = "lambda"
				n.Natives = []int{1, 1, 1, 2, 4, 8, 8}[r.Intn(7)]
				if r.Chance(1, 4) {
					n.Natives = r.Range(1, 15)
				}
				n.Fails = r.Chance(1, 18)
				// a third of the failing nodes fail by panicking (eino contains the panic: the node ends with an error)
				n.Panics = n.Fails && r.Chance(1, 3)
				n.SelfCB = r.Chance(1, 8)
				if n.SelfCB {
					n.Panics = false // a component that fires its callbacks itself answers for its own panics
				}
				// the body runs a private component on a context it initialised without handlers
				n.Private = r.Chance(1, 6)
				if g.store && r.Chance(1, 7) {
					// asks for an interrupt (compose.InterruptAndRerun) the first one or two times it executes
					n.Intr = 1
					if r.Chance(1, 4) {
						n.Intr = 2
					}
				}
				n.Chunks = r.Range(1, 3)
				if w > 1 {
					n.DelayUs = r.Intn(400)
				}
				g.lambdas = append(g.lambdas, p)
				// the same *Lambda object under two node keys (different stages of one graph)
				if !n.Fails && !n.SelfCB && n.Intr == 0 {
					if sharedCand == nil {
						if r.Chance(1, 6) {
							sharedCand = n
						}
					} else if r.Chance(1, 2) && sharedCand.UID != n.UID && !sameStage(out[si], sharedCand) {
						if sharedCand.Shared == 0 {
							g.shared++
							sharedCand.Shared = g.shared
						}
						n.Shared = sharedCand.Shared
						n.Natives, n.Chunks, n.DelayUs = sharedCand.Natives, sharedCand.Chunks, sharedCand.DelayUs
					}
				}
			}
			g.units = append(g.units, p)
			out[si] = append(out[si], n)
		}
	}
	return out
}

// isStop: the stage is a configured interrupt point (no node of the graph)
func isStop(st []*GNode) bool { return len(st) == 1 && st[0].Kind == "stop" }

// intrKeys: the node keys a graph level names in WithInterruptBeforeNodes / WithInterruptAfterNodes
func intrKeys(stages [][]*GNode) (before, after []string) {
	for _, st := range stages {
		if isStop(st) {
			for _, k := range st[0].Before {
				before = append(before, nodeKey(k))
			}
			for _, k := range st[0].After {
				after = append(after, nodeKey(k))
			}
		}
	}
	return
}

// intrOpts: the compile options of a graph level with interrupt points
func intrOpts(stages [][]*GNode) []compose.GraphCompileOption {
	var out []compose.GraphCompileOption
	b, a := intrKeys(stages)
	if len(b) > 0 {
		out = append(out, compose.WithInterruptBeforeNodes(b))
	}
	if len(a) > 0 {
		out = append(out, compose.WithInterruptAfterNodes(a))
	}
	return out
}

// quiet: no execution in the stage can ask for an interrupt (what an interrupt point after it needs:
// the interrupt of a node of the stage would absorb the configured one)
func quiet(st []*GNode) bool {
	for _, n := range st {
		if (n.Kind != "lambda" && n.Kind != "pass") || n.Intr > 0 {
			return false
		}
	}
	return true
}

// addStops puts configured interrupt points between the stages of one graph level
func (g *genState) addStops(stages [][]*GNode) [][]*GNode {
	r := g.r
	var out [][]*GNode
	keysOf := func(st []*GNode) []int {
		var ks []int
		for _, n := range st {
			if r.Chance(1, 2) {
				ks = append(ks, n.Key)
			}
		}
		if len(ks) == 0 {
			ks = []int{st[r.Intn(len(st))].Key}
		}
		return ks
	}
	for i, st := range stages {
		if r.Chance(1, 4) {
			g.uid++
			stop := &GNode{UID: g.uid, Kind: "stop", Intr: 1}
			canAfter := i > 0 && quiet(stages[i-1])
			switch {
			case canAfter && r.Chance(1, 3):
				stop.After = keysOf(stages[i-1])
			case canAfter && r.Chance(1, 3):
				stop.After, stop.Before = keysOf(stages[i-1]), keysOf(st)
			default:
				stop.Before = keysOf(st)
			}
			out = append(out, []*GNode{stop})
		}
		out = append(out, st)
	}
	return out
}

func sameStage(st []*GNode, n *GNode) bool {
	for _, m := range st {
		if m == n {
			return true
		}
	}
	return false
}

func genGraph(r *lib.Rng, tier string) *Case {
	nH := r.Range(3, 8)
	c := &Case{Kind: "graph", Handlers: genHandlers(r, nH), Seed: r.U64()}
	if r.Chance(1, 2) {
		c.Globals = pickDistinct(r, nH, r.Range(1, 2))
		c.GlobalsVia = []string{"init", "append"}[r.Intn(2)]
	}
	g := &genState{r: r, maxDep: 1}
	if tier == "thorough" || r.Chance(1, 6) {
		g.maxDep = 2
	}
	// half of the graphs are compiled with a checkpoint store and called with a checkpoint id;
	// in those some lambdas ask for an interrupt, and an interrupted run is resumed until it ends
	c.Store = r.Chance(1, 2)
	g.store = c.Store
	c.Stages = g.stages(0, nil, false)
	// configured interrupt points (WithInterruptBeforeNodes / WithInterruptAfterNodes) at the top level
	if c.Store && r.Chance(1, 3) {
		c.Stages = g.addStops(c.Stages)
	}
	if c.Store && totalIntr(c) == 0 && r.Chance(2, 3) {
		var cands []*GNode
		allNodes(c.Stages, func(n *GNode, _ int) {
			if n.Kind == "lambda" && !n.Conv && n.Shared == 0 {
				cands = append(cands, n)
			}
		}, 0)
		if len(cands) > 0 {
			cands[r.Intn(len(cands))].Intr = 1
		}
	}
	c.Paradigm = []string{"invoke", "stream", "collect", "transform"}[r.Intn(4)]
	c.Dag = r.Chance(1, 3)
	// the same layered shape through the Chain API when it fits (no two parallel stages in a
	// row, no shared *Lambda: a chain node is appended once)
	if chainable(c.Stages) && r.Chance(1, 3) {
		c.Chain, c.Dag = true, false
	}
	// every graph level as a Workflow: eager task collection (a run returns as soon as one task
	// has failed, the other tasks of that step finish on their own)
	if !c.Chain && r.Chance(1, 4) {
		c.Eager, c.Dag = true, false
		// (the output key of a shared lambda depends on the order of its executions, and a
		// Workflow puts a predecessor's output under a key of its own: no shared lambdas here)
		// (and no passthrough nodes: a task the run left behind reads the process-wide handler
		// list when it creates its callback context; a passthrough task touches nothing the harness
		// could synchronise with before it installs the next handler list, and the race detector
		// would blame the harness's own write)
		allNodes(c.Stages, func(n *GNode, _ int) {
			n.Shared = 0
			if n.Kind == "pass" {
				n.Kind, n.Natives, n.Chunks = "lambda", 1, 1
			}
		}, 0)
	}
	c.InChunks = r.Range(1, 3)
	genOpts := func() []GOpt {
		var out []GOpt
		// options for the whole graph: 0-5 separate WithCallbacks (three single ones give len 3 cap 4)
		nU := []int{0, 1, 2, 3, 3, 3, 4, 5}[r.Intn(8)]
		for i := 0; i < nU; i++ {
			hs := pickSome(r, nH, 1, 1)
			if r.Chance(1, 6) {
				hs = pickSome(r, nH, 2, 2)
			}
			if r.Chance(1, 12) {
				hs = []int{} // compose.WithCallbacks() without any handler: a legal option that attaches nothing
			}
			out = append(out, GOpt{Hs: hs})
		}
		// designated options
		nD := r.Intn(5)
		for i := 0; i < nD; i++ {
			o := GOpt{Hs: pickSome(r, nH, 1, 1)}
			if r.Chance(1, 6) {
				o.Hs = pickSome(r, nH, 2, 2)
			}
			if r.Chance(1, 12) {
				o.Hs = []int{} // a designated option without handlers: its paths are still validated
			}
			nP := 1
			if r.Chance(1, 4) {
				nP = 2
			}
			for j := 0; j < nP; j++ {
				var p []int
				switch x := r.Intn(90); {
				case x == 0: // unknown node
					p = []int{99}
				case x == 1 && len(g.lambdas) > 0: // below a component
					p = append(append([]int(nil), g.lambdas[r.Intn(len(g.lambdas))]...), 1)
				case x == 2: // empty path
					p = []int{}
				case x < 25 && len(g.subs) > 0: // a sub graph node as a whole
					p = g.subs[r.Intn(len(g.subs))]
				case x < 50 && len(g.lambdas) > 0:
					p = g.lambdas[r.Intn(len(g.lambdas))]
				default:
					p = g.units[r.Intn(len(g.units))]
				}
				dup := false
				for _, q := range o.Paths {
					if fmt.Sprint(q) == fmt.Sprint(p) {
						dup = true
					}
				}
				if !dup {
					o.Paths = append(o.Paths, append([]int{}, p...))
				}
			}
			out = append(out, o)
		}
		// options arrive in any order
		perm := r.Perm(len(out))
		opts := make([]GOpt, len(out))
		for i, j := range perm {
			opts[i] = out[j]
		}
		return opts
	}
	c.Opts = genOpts()
	// the run that resumes an interrupted run is a call of its own: a third of the sequences give it
	// call options of its own (the handlers of the interrupted call must not be served again)
	if c.Store && totalIntr(c) > 0 && r.Chance(1, 3) {
		c.Opts2 = genOpts()
		c.HasOpts2 = true
	}
	// a fault at a particular point of the sequence: a third of the sequences have a resuming call
	// that fails before anything is restored (the store fails; the graph has been rebuilt with other keys)
	if c.Store && totalIntr(c) > 0 && r.Chance(1, 3) {
		c.ResumeFault = []string{"stale", "stale", "stale-sub", "stale-sub", "store"}[r.Intn(5)]
		c.FaultAt = 1
		if totalIntr(c) > 1 && r.Chance(1, 3) {
			c.FaultAt = 2
		}
	}
	// a second call on the same compiled object (single-run cases whose run leaves nothing behind): a quarter
	// before the observed call, half concurrently with it
	if !c.Store && !c.leavesTasksBehind() {
		c.Neighbour = []string{"before", "during", "during", ""}[(c.Seed>>32)%4]
	}
	return c
}

// leavesTasksBehind: a run of the case may return while some of its units are still executing: the eager
// task collection of a Workflow (a failed task ends the run, the other tasks of the step finish on their
// own), a ToolsNode whose first tool call panics (the panic passes through the node while the other calls
// of the message are still running)
func (c *Case) leavesTasksBehind() bool {
	if c.Eager {
		return true
	}
	found := false
	allNodes(c.Stages, func(n *GNode, _ int) {
		if n.Kind == "tools" && len(n.Calls) > 1 && n.Calls[0].Panics {
			found = true
		}
	}, 0)
	return found
}

// faultStrikes: the k-th call of the sequence fails in the prologue of the run
func (c *Case) faultStrikes(k int) bool { return c.ResumeFault != "" && k > 0 && k == c.FaultAt }

// faultPlan: what the fault of the k-th call amounts to, given where the sequence stands.
//
//	level 0: no fault in this call;
//	level 1: the prologue of the TOP-level run fails (store out of order; a pending top-level node has
//	         another key; or the call options do not fit the newer build any more);
//	level 2: the prologue of the nested graph `sub` fails: the newer build renamed a pending node inside
//	         a nested graph that the run before left interrupted, the top-level graph restores its tasks,
//	         the nested graph - continued from its own checkpoint - cannot.
type faultPlan struct {
	level int
	sub   *GNode // level 2: the nested graph (a node of c)
	stale *Case  // the newer build of the graph, when the call is made by one
}

// faultPlanFor is a function of the case, of where the sequence stands (ps) and of the options of the call.
func (c *Case) faultPlanFor(ps *planSt, k int, opts []GOpt) faultPlan {
	if !c.faultStrikes(k) {
		return faultPlan{}
	}
	switch c.ResumeFault {
	case "store":
		return faultPlan{level: 1}
	case "stale-sub":
		// the nested graphs (not the typed tools sub graphs) the run before left interrupted
		var cands []*GNode
		var paths [][]int
		var walk func(stages [][]*GNode, path []int)
		walk = func(stages [][]*GNode, path []int) {
			for _, st := range stages {
				for _, n := range st {
					if n.Kind != "sub" {
						continue
					}
					q := append(append([]int{}, path...), n.Key)
					if ps.lastIntr[n.UID] && n.Typed == "" {
						cands = append(cands, n)
						paths = append(paths, q)
					}
					walk(n.Stages, q)
				}
			}
		}
		walk(c.Stages, nil)
		if len(cands) > 0 {
			i := int((c.Seed >> 24) % uint64(len(cands)))
			nc := c.staleBuildAt(ps, opts, paths[i])
			if !optsOKDeep(nc.Stages, opts) {
				return faultPlan{level: 1, stale: nc} // the options of the call do not fit the newer build
			}
			return faultPlan{level: 2, sub: cands[i], stale: nc}
		}
	}
	return faultPlan{level: 1, stale: c.staleBuildAt(ps, opts, nil)}
}

// expectRun: the units of the k-th run of the sequence and its outcome. A call that fails in its prologue
// executes the graph unit alone: its start, then its error (the deferred bookkeeping of runner.run); a
// nested graph whose prologue fails is executed that way, and its node has failed.
func (c *Case) expectRun(x *expectation, k int, opts []GOpt) int {
	fp := c.faultPlanFor(x.ps, k, opts)
	switch fp.level {
	case 1:
		x.execs[0]++
		x.failed[0], x.errKind[0], x.badOpts[0] = true, outFail, true
		return outFail
	case 2:
		x.ps.faultNow, x.faultErr = fp.sub.UID, true
		defer func() { x.ps.faultNow = 0 }()
	}
	return x.graph(0, c.Stages, opts, nil)
}

// runOutcome: the outcome of the k-th run of the sequence
func (c *Case) runOutcome(ps *planSt, k int, opts []GOpt) int {
	fp := c.faultPlanFor(ps, k, opts)
	switch fp.level {
	case 1:
		return outFail
	case 2:
		ps.faultNow = fp.sub.UID
		defer func() { ps.faultNow = 0 }()
	}
	return ps.graphOutcome(c.Stages, opts)
}

// staleBuildAt: the case as a newer build of the graph in which one node of the graph level at key path
// [at] (nil = the top level) got another key: a node the checkpoint of that level holds a pending task for
// (ps: where the sequence stands; the nodes still to be executed of the first stage of that level that has
// not completed), if possible one that no call option of the resuming call designates (opts), so that the
// call gets as far as restoring the tasks; the interrupt points of that level follow the renaming
func (c *Case) staleBuildAt(ps *planSt, opts []GOpt, at []int) *Case {
	raw, err := json.Marshal(c)
	if err != nil {
		panic("harness: " + err.Error())
	}
	n := &Case{}
	if err := json.Unmarshal(raw, n); err != nil {
		panic("harness: " + err.Error())
	}
	level := n.Stages
	for _, k := range at {
		var next [][]*GNode
		for _, st := range level {
			for _, m := range st {
				if m.Kind == "sub" && m.Key == k {
					next = m.Stages
				}
			}
		}
		level = next
	}
	var pending, free []*GNode
	for _, st := range level {
		for _, m := range st {
			if m.Kind != "stop" && !ps.done[m.UID] {
				pending = append(pending, m)
			}
		}
		if len(pending) > 0 {
			break
		}
	}
	for _, m := range pending {
		named := false
		for _, o := range opts {
			for _, p := range o.Paths {
				if len(p) > len(at) && isPrefix(at, p) && p[len(at)] == m.Key {
					named = true
				}
			}
		}
		if !named {
			free = append(free, m)
		}
	}
	if len(free) > 0 {
		pending = free
	}
	ren := map[int]int{}
	if len(pending) > 0 {
		m := pending[int((c.Seed>>16)%uint64(len(pending)))]
		ren[m.Key] = m.Key + 1000
		m.Key += 1000
	}
	for _, st := range level {
		for _, m := range st {
			if m.Kind == "stop" {
				for i, k := range m.Before {
					if v, ok := ren[k]; ok {
						m.Before[i] = v
					}
				}
				for i, k := range m.After {
					if v, ok := ren[k]; ok {
						m.After[i] = v
					}
				}
			}
		}
	}
	return n
}

// callerSlice is a handler slice the harness (as the caller) handed to eino, with spare capacity.
type callerSlice struct {
	sl  []callbacks.Handler
	ids []int
}

// changed says what eino did to the caller's array ("" = nothing): an element replaced, or a
// handler written into the spare capacity behind the slice.
func (cs callerSlice) changed() string {
	for i, id := range cs.ids {
		if got := handlerID(cs.sl[i]); got != id {
			return fmt.Sprintf("was overwritten: element %d is handler %d", i, got)
		}
	}
	full := cs.sl[:cap(cs.sl)]
	for i := len(cs.sl); i < len(full); i++ {
		if full[i] != nil {
			return fmt.Sprintf("was appended to in place: handler %d stands in its spare capacity (position %d)", handlerID(full[i]), i)
		}
	}
	return ""
}

// optsFor: the call options of the k-th run of the sequence
func (c *Case) optsFor(k int) []GOpt {
	if k > 0 && c.HasOpts2 {
		return c.Opts2
	}
	return c.Opts
}

func chainable(stages [][]*GNode) bool {
	prevPar := false
	for _, st := range stages {
		if isStop(st) {
			continue
		}
		if len(st) > 1 && prevPar {
			return false
		}
		prevPar = len(st) > 1
		for _, n := range st {
			if n.Shared > 0 {
				return false
			}
		}
	}
	return true
}

// ---------------------------------------------------------------- the graph under test

type bodyRec struct {
	In, Out string
	Failed  bool
	OutV    vmap // the value a lambda produced
}

type runRec struct {
	eager     bool // every graph level is a Workflow
	mu        sync.Mutex
	execs     map[int][]bodyRec // executions in the current run of a run sequence
	shared    map[int]int
	sharedNb  map[int]int             // the same counter for the executions of the neighbour call
	count     map[int]int             // executions of a unit over the whole run sequence (decides interrupts)
	privRuns  map[int]int             // lambda uid -> how often its body ran its private component (observed call, whole sequence)
	toolLists map[int][]tool.BaseTool // ToolsNode uid -> the tool list the case passes as a call option
}

func newRunRec() *runRec {
	return &runRec{execs: map[int][]bodyRec{}, shared: map[int]int{}, sharedNb: map[int]int{}, count: map[int]int{}, privRuns: map[int]int{}, toolLists: map[int][]tool.BaseTool{}}
}

// nextRun forgets the per-run execution records (the counters that decide interrupts stay).
func (rr *runRec) nextRun() {
	rr.mu.Lock()
	rr.execs = map[int][]bodyRec{}
	rr.mu.Unlock()
}

// interrupts says whether this execution of the unit asks for an interrupt (the first intr executions do).
func (rr *runRec) interrupts(uid, intr int) bool {
	rr.mu.Lock()
	defer rr.mu.Unlock()
	k := rr.count[uid]
	rr.count[uid]++
	return k < intr
}

// settle waits (eager mode) until every node body and tool call the run executes has been
// entered: from then on no task of the run creates a callback context any more.
func (rr *runRec) settle(x *expectation) {
	want := 0
	for uid, k := range x.kind {
		if k == "lambda" || k == "call" {
			want += x.execs[uid]
		}
	}
	deadline := time.Now().Add(10 * time.Second)
	for time.Now().Before(deadline) {
		rr.mu.Lock()
		got := 0
		for _, recs := range rr.execs {
			got += len(recs)
		}
		rr.mu.Unlock()
		if got >= want {
			break
		}
		time.Sleep(time.Millisecond)
	}
	time.Sleep(3 * time.Millisecond)
}

// memStore is a compose.CheckPointStore.
type memStore struct {
	mu      sync.Mutex
	m       map[string][]byte
	failGet bool // the store is out of order: Get fails
}

var errStore = errors.New("the checkpoint store is out of order")

func (s *memStore) Get(_ context.Context, id string) ([]byte, bool, error) {
	s.mu.Lock()
	defer s.mu.Unlock()
	if s.failGet {
		return nil, false, errStore
	}
	v, ok := s.m[id]
	return v, ok, nil
}

func (s *memStore) setFail(b bool) {
	s.mu.Lock()
	s.failGet = b
	s.mu.Unlock()
}

func (s *memStore) Set(_ context.Context, id string, cp []byte) error {
	s.mu.Lock()
	defer s.mu.Unlock()
	s.m[id] = cp
	return nil
}

func (rr *runRec) body(ctx context.Context, n *GNode, in vmap) (vmap, error) {
	if n.DelayUs > 0 {
		time.Sleep(time.Duration(n.DelayUs) * time.Microsecond)
	}
	if n.Private {
		rr.private(ctx, n)
	}
	inS := render(in)
	if isNeighbour(ctx) {
		// an execution of the neighbour call (another call on the same compiled graph): the same
		// behaviour, nothing recorded, the counters of the observed call untouched
		rr.mu.Lock()
		outKey := fmt.Sprintf("o%d", n.UID)
		if n.Shared > 0 {
			outKey = fmt.Sprintf("s%d_%d", n.Shared, rr.sharedNb[n.Shared])
			rr.sharedNb[n.Shared]++
		}
		rr.mu.Unlock()
		if n.Fails {
			if n.Panics {
				panic(panicMsg)
			}
			return nil, errNode
		}
		return vmap{outKey: outKey + "[" + inS + "]"}, nil
	}
	rr.mu.Lock()
	id, outKey := n.UID, fmt.Sprintf("o%d", n.UID)
	if n.Shared > 0 {
		id = -n.Shared
		outKey = fmt.Sprintf("s%d_%d", n.Shared, rr.shared[n.Shared])
		rr.shared[n.Shared]++
	}
	rr.mu.Unlock()
	if rr.interrupts(n.UID, n.Intr) {
		rr.mu.Lock()
		rr.execs[id] = append(rr.execs[id], bodyRec{In: inS, Failed: true})
		rr.mu.Unlock()
		if n.UID%2 == 0 {
			return nil, fmt.Errorf("node %d asks for a rerun: %w", n.UID, compose.InterruptAndRerun)
		}
		return nil, compose.InterruptAndRerun
	}
	if n.Fails {
		rr.mu.Lock()
		rr.execs[id] = append(rr.execs[id], bodyRec{In: inS, Failed: true})
		rr.mu.Unlock()
		if n.Panics {
			panic(panicMsg)
		}
		return nil, errNode
	}
	out := vmap{outKey: outKey + "[" + inS + "]"}
	rr.mu.Lock()
	rr.execs[id] = append(rr.execs[id], bodyRec{In: inS, Out: render(out), OutV: vmap{outKey: out[outKey]}})
	rr.mu.Unlock()
	return out, nil
}

// private: the node body runs a component of its own that it does not want reported. The public
// callbacks.InitCallbacks without handlers overwrites the run info and the handlers of the context the body was
// handed: under the result only the process-wide handlers are told (under the private run info); the handlers
// that apply to the node are not invoked again.
func (rr *runRec) private(ctx context.Context, n *GNode) {
	if !isNeighbour(ctx) {
		rr.mu.Lock()
		rr.privRuns[n.UID]++
		rr.mu.Unlock()
	}
	p := callbacks.InitCallbacks(ctx, &callbacks.RunInfo{Name: privateName(n.UID), Type: "Private", Component: components.Component("Private")})
	p = callbacks.OnStart(p, "private-in")
	callbacks.OnEnd(p, "private-out")
}

func privateName(uid int) string { return fmt.Sprintf("%s%d", privatePrefix, uid) }

func drain(sr *schema.StreamReader[vmap]) (vmap, error) {
	defer sr.Close()
	var chunks []any
	for {
		c, err := sr.Recv()
		if err == io.EOF {
			break
		}
		if err != nil {
			return nil, err
		}
		chunks = append(chunks, c)
	}
	m, _ := concatChunks(chunks).(vmap)
	if m == nil {
		m = vmap{}
	}
	return m, nil
}

// chunked splits a single-key (or any) map into k chunks along its string values.
func chunked(m vmap, k int) *schema.StreamReader[vmap] {
	if k < 1 {
		k = 1
	}
	chunks := make([]vmap, 0, k)
	for i := 0; i < k; i++ {
		c := vmap{}
		for key, v := range m {
			s, _ := v.(string)
			lo, hi := len(s)*i/k, len(s)*(i+1)/k
			c[key] = s[lo:hi]
		}
		chunks = append(chunks, c)
	}
	return schema.StreamReaderFromArray(chunks)
}

func (rr *runRec) lambda(n *GNode) *compose.Lambda {
	var i compose.Invoke[vmap, vmap, lopt]
	var s compose.Stream[vmap, vmap, lopt]
	var c compose.Collect[vmap, vmap, lopt]
	var t compose.Transform[vmap, vmap, lopt]
	if n.Natives&1 != 0 {
		i = func(ctx context.Context, in vmap, _ ...lopt) (vmap, error) {
			if n.SelfCB {
				ctx = callbacks.OnStart(ctx, in)
				out, err := rr.body(ctx, n, in)
				if err != nil {
					callbacks.OnError(ctx, err)
					return nil, err
				}
				callbacks.OnEnd(ctx, out)
				return out, nil
			}
			return rr.body(ctx, n, in)
		}
	}
	// a lambda that fires its callbacks itself (WithLambdaCallbackEnable) does so in every paradigm it
	// implements, with the timings of that paradigm; the graph must inject nothing around it
	if n.Natives&2 != 0 {
		s = func(ctx context.Context, in vmap, _ ...lopt) (*schema.StreamReader[vmap], error) {
			if n.SelfCB {
				ctx = callbacks.OnStart(ctx, in)
			}
			out, err := rr.body(ctx, n, in)
			if err != nil {
				if n.SelfCB {
					callbacks.OnError(ctx, err)
				}
				return nil, err
			}
			sr := chunked(out, n.Chunks)
			if n.SelfCB {
				_, sr = callbacks.OnEndWithStreamOutput(ctx, sr)
			}
			return sr, nil
		}
	}
	if n.Natives&4 != 0 {
		c = func(ctx context.Context, in *schema.StreamReader[vmap], _ ...lopt) (vmap, error) {
			if n.SelfCB {
				ctx, in = callbacks.OnStartWithStreamInput(ctx, in)
			}
			m, err := drain(in)
			if err == nil {
				m, err = rr.body(ctx, n, m)
			}
			if err != nil {
				if n.SelfCB {
					callbacks.OnError(ctx, err)
				}
				return nil, err
			}
			if n.SelfCB {
				callbacks.OnEnd(ctx, m)
			}
			return m, nil
		}
	}
	if n.Natives&8 != 0 {
		t = func(ctx context.Context, in *schema.StreamReader[vmap], _ ...lopt) (*schema.StreamReader[vmap], error) {
			if n.SelfCB {
				ctx, in = callbacks.OnStartWithStreamInput(ctx, in)
			}
			m, err := drain(in)
			var out vmap
			if err == nil {
				out, err = rr.body(ctx, n, m)
			}
			if err != nil {
				if n.SelfCB {
					callbacks.OnError(ctx, err)
				}
				return nil, err
			}
			sr := chunked(out, n.Chunks)
			if n.SelfCB {
				_, sr = callbacks.OnEndWithStreamOutput(ctx, sr)
			}
			return sr, nil
		}
	}
	// every lambda has an implementation type of its own: RunInfo.Type is part of the unit's run info
	lo := []compose.LambdaOpt{compose.WithLambdaType(lambdaType(n))}
	if n.SelfCB {
		lo = append(lo, compose.WithLambdaCallbackEnable(true))
	}
	l, err := compose.AnyLambda(i, s, c, t, lo...)
	if err != nil {
		panic(err)
	}
	return l
}

// lambdaType: the implementation type a lambda is given (the same *Lambda under two keys has one)
func lambdaType(n *GNode) string {
	if n.Shared > 0 {
		return fmt.Sprintf("TS%d", n.Shared)
	}
	return fmt.Sprintf("T%d", n.UID)
}

// toolType: the implementation type of the tool behind a tool call (components.Typer)
func toolType(c *GCall) string { return fmt.Sprintf("X%d", c.UID) }

func nodeKey(k int) string    { return fmt.Sprintf("k%d", k) }
func unitName(uid int) string { return fmt.Sprintf("u%d", uid) }

func (rr *runRec) build(stages [][]*GNode, shared map[int]*compose.Lambda) (*compose.Graph[vmap, vmap], error) {
	g := compose.NewGraph[vmap, vmap]()
	prev := []string{compose.START}
	for _, st := range stages {
		if isStop(st) {
			continue
		}
		var cur []string
		for _, n := range st {
			key := nodeKey(n.Key)
			var err error
			switch n.Kind {
			case "lambda":
				var l *compose.Lambda
				if n.Shared > 0 {
					if shared[n.Shared] == nil {
						shared[n.Shared] = rr.lambda(n)
					}
					l = shared[n.Shared]
				} else {
					l = rr.lambda(n)
				}
				err = g.AddLambdaNode(key, l, compose.WithNodeName(unitName(n.UID)))
			case "pass":
				err = g.AddPassthroughNode(key, compose.WithNodeName(unitName(n.UID)))
			case "sub":
				sub, e := rr.subGraph(n, shared)
				if e != nil {
					return nil, e
				}
				o := []compose.GraphAddNodeOpt{compose.WithNodeName(unitName(n.UID))}
				o = append(o, subCompileOpts(n, n.SubDag)...)
				err = g.AddGraphNode(key, sub, o...)
			default:
				err = fmt.Errorf("bad node kind %q", n.Kind)
			}
			if err != nil {
				return nil, err
			}
			for _, p := range prev {
				if err := g.AddEdge(p, key); err != nil {
					return nil, err
				}
			}
			cur = append(cur, key)
		}
		prev = cur
	}
	for _, p := range prev {
		if err := g.AddEdge(p, compose.END); err != nil {
			return nil, err
		}
	}
	return g, nil
}

// subCompileOpts: the compile options of a nested graph node (trigger mode, interrupt points)
func subCompileOpts(n *GNode, dag bool) []compose.GraphAddNodeOpt {
	var co []compose.GraphCompileOption
	if dag {
		co = append(co, compose.WithNodeTriggerMode(compose.AllPredecessor))
	}
	co = append(co, intrOpts(n.Stages)...)
	if len(co) == 0 {
		return nil
	}
	return []compose.GraphAddNodeOpt{compose.WithGraphCompileOptions(co...)}
}

type compilable interface {
	Compile(ctx context.Context, opts ...compose.GraphCompileOption) (compose.Runnable[vmap, vmap], error)
}

// buildTop builds the top level of a case as a Graph or as a Chain.
func (rr *runRec) buildTop(c *Case) (compilable, error) {
	rr.eager = c.Eager
	if c.Eager {
		return rr.buildWF(c.Stages, map[int]*compose.Lambda{})
	}
	if !c.Chain {
		return rr.build(c.Stages, map[int]*compose.Lambda{})
	}
	ch := compose.NewChain[vmap, vmap]()
	shared := map[int]*compose.Lambda{}
	for _, st := range c.Stages {
		if isStop(st) {
			continue
		}
		if len(st) == 1 {
			n := st[0]
			o := []compose.GraphAddNodeOpt{compose.WithNodeKey(nodeKey(n.Key)), compose.WithNodeName(unitName(n.UID))}
			switch n.Kind {
			case "lambda":
				ch.AppendLambda(rr.lambda(n), o...)
			case "pass":
				ch.AppendPassthrough(o...)
			case "sub":
				sub, err := rr.subGraph(n, shared)
				if err != nil {
					return nil, err
				}
				o = append(o, subCompileOpts(n, n.SubDag)...)
				ch.AppendGraph(sub, o...)
			default:
				return nil, fmt.Errorf("bad node kind %q in a chain", n.Kind)
			}
			continue
		}
		p := compose.NewParallel()
		for _, n := range st {
			o := []compose.GraphAddNodeOpt{compose.WithNodeKey(nodeKey(n.Key)), compose.WithNodeName(unitName(n.UID))}
			out := fmt.Sprintf("p%d", n.UID)
			switch n.Kind {
			case "lambda":
				p.AddLambda(out, rr.lambda(n), o...)
			case "pass":
				p.AddPassthrough(out, o...)
			case "sub":
				sub, err := rr.subGraph(n, shared)
				if err != nil {
					return nil, err
				}
				o = append(o, subCompileOpts(n, n.SubDag)...)
				p.AddGraph(out, sub, o...)
			default:
				return nil, fmt.Errorf("bad node kind %q in a chain", n.Kind)
			}
		}
		ch.AppendParallel(p)
	}
	return ch, nil
}

func (rr *runRec) subGraph(n *GNode, shared map[int]*compose.Lambda) (compose.AnyGraph, error) {
	if n.Typed == "tools" {
		return rr.buildToolsSub(n)
	}
	if rr.eager {
		return rr.buildWF(n.Stages, shared)
	}
	return rr.build(n.Stages, shared)
}

// buildWF builds one graph level as a Workflow (eager task collection, all-predecessor
// triggering): every node of a stage takes the whole output of every node of the stage before it
// (under the key p<uid> when there are several), END likewise.
func (rr *runRec) buildWF(stages [][]*GNode, shared map[int]*compose.Lambda) (*compose.Workflow[vmap, vmap], error) {
	wf := compose.NewWorkflow[vmap, vmap]()
	type pred struct {
		key string
		uid int
	}
	prev := []pred{{compose.START, 0}}
	wire := func(wn *compose.WorkflowNode) {
		if len(prev) == 1 {
			wn.AddInput(prev[0].key)
			return
		}
		for _, p := range prev {
			wn.AddInput(p.key, compose.ToField(fmt.Sprintf("p%d", p.uid)))
		}
	}
	for _, st := range stages {
		if isStop(st) {
			continue
		}
		var cur []pred
		for _, n := range st {
			key := nodeKey(n.Key)
			var wn *compose.WorkflowNode
			switch n.Kind {
			case "lambda":
				var l *compose.Lambda
				if n.Shared > 0 {
					if shared[n.Shared] == nil {
						shared[n.Shared] = rr.lambda(n)
					}
					l = shared[n.Shared]
				} else {
					l = rr.lambda(n)
				}
				wn = wf.AddLambdaNode(key, l, compose.WithNodeName(unitName(n.UID)))
			case "pass":
				wn = wf.AddPassthroughNode(key, compose.WithNodeName(unitName(n.UID)))
			case "sub":
				sub, e := rr.subGraph(n, shared)
				if e != nil {
					return nil, e
				}
				o := []compose.GraphAddNodeOpt{compose.WithNodeName(unitName(n.UID))}
				o = append(o, subCompileOpts(n, n.SubDag && n.Typed == "tools")...)
				wn = wf.AddGraphNode(key, sub, o...)
			default:
				return nil, fmt.Errorf("bad node kind %q", n.Kind)
			}
			wire(wn)
			cur = append(cur, pred{key, n.UID})
		}
		prev = cur
	}
	wire(wf.End())
	return wf, nil
}

func inputChunks(k int) []vmap {
	const v = "abcdef"
	if k < 1 {
		k = 1
	}
	out := make([]vmap, k)
	for i := range out {
		out[i] = vmap{"in": v[len(v)*i/k : len(v)*(i+1)/k]}
	}
	return out
}

// call runs the compiled graph in one paradigm and canonicalises the outcome.
// lastCallErr: the message of the error the last call returned (for the distribution tags only)
var lastCallErr string

// faultSite: which statement of the prologue of runner.run rejected the call
func faultSite(msg string) string {
	for _, s := range [][2]string{{"restore tasks fail", "restore-tasks"}, {"restore checkpoint fail", "restore-checkpoint"},
		{"load checkpoint from store fail", "load-checkpoint"}, {"extract option fail", "extract-option"}, {"load channel", "load-channels"}} {
		if strings.Contains(msg, s[0]) {
			return s[1]
		}
	}
	if msg == "" {
		return "no-error"
	}
	return "other"
}

func call(r compose.Runnable[vmap, vmap], paradigm string, inChunks int, opts ...compose.Option) string {
	res, msg := callCtx(context.Background(), r, paradigm, inChunks, opts...)
	lastCallErr = msg
	return res
}

// callCtx: the same on a context of the caller's choice; answers the canonical outcome and the error message
func callCtx(ctx context.Context, r compose.Runnable[vmap, vmap], paradigm string, inChunks int, opts ...compose.Option) (string, string) {
	var out vmap
	var err error
	switch paradigm {
	case "invoke":
		out, err = r.Invoke(ctx, vmap{"in": "abcdef"}, opts...)
	case "stream":
		var sr *schema.StreamReader[vmap]
		sr, err = r.Stream(ctx, vmap{"in": "abcdef"}, opts...)
		if err == nil {
			out, err = drain(sr)
		}
	case "collect":
		out, err = r.Collect(ctx, schema.StreamReaderFromArray(inputChunks(inChunks)), opts...)
	case "transform":
		var sr *schema.StreamReader[vmap]
		sr, err = r.Transform(ctx, schema.StreamReaderFromArray(inputChunks(inChunks)), opts...)
		if err == nil {
			out, err = drain(sr)
		}
	}
	if err != nil {
		if os.Getenv("C10_DEBUG") != "" {
			fmt.Fprintln(os.Stderr, "C10_DEBUG error:", err)
		}
		if _, ok := compose.ExtractInterruptInfo(err); ok {
			return "intr", err.Error()
		}
		return "err", err.Error()
	}
	return "ok:" + render(out), ""
}

// ---------------------------------------------------------------- what the property expects (static)

type expectation struct {
	execs    map[int]int   // uid -> number of executions of the unit
	failed   map[int]bool  // uid -> the unit ends with an error (a failure or an interrupt)
	paths    map[int][]int // uid -> key path from the top graph ([] for the graph itself)
	kind     map[int]string
	node     map[int]*GNode
	calls    map[int]*GCall
	errKind  map[int]int  // uid -> outFail / outIntr for a unit that ends with an error
	badOpts  map[int]bool // uid -> the graph rejected its call options
	opts     []GOpt       // the call options of the run
	ps       *planSt
	faultErr bool // the prologue of a nested graph fails in this run: the enclosing units end with that error
}

func newExpectation(ps *planSt) *expectation {
	return &expectation{execs: map[int]int{}, failed: map[int]bool{}, paths: map[int][]int{0: {}},
		kind: map[int]string{0: "graph"}, node: map[int]*GNode{}, calls: map[int]*GCall{}, errKind: map[int]int{}, badOpts: map[int]bool{}, ps: ps}
}

// planSt is where a run sequence (a run, and the runs that resume it after an interrupt) stands:
// how many more executions of a unit will ask for an interrupt, which nodes completed in an
// earlier run of the sequence (they are not executed again).
type planSt struct {
	left     map[int]int
	done     map[int]bool
	lastIntr map[int]bool // the nested graphs the last interrupted run of the sequence left interrupted
	nIntr    map[int]int  // nested graph -> number of runs that left it interrupted
	faultNow int          // uid of the nested graph whose prologue fails in the run being looked at (0: none)
}

const (
	outOK = iota
	outFail
	outIntr
)

func newPlan(c *Case) *planSt {
	ps := &planSt{left: map[int]int{}, done: map[int]bool{}, lastIntr: map[int]bool{}, nIntr: map[int]int{}}
	allNodes(c.Stages, func(n *GNode, _ int) {
		if n.Intr > 0 {
			ps.left[n.UID] = n.Intr
		}
		for _, cl := range n.Calls {
			if cl.Intr > 0 {
				ps.left[cl.UID] = cl.Intr
			}
		}
	}, 0)
	return ps
}

func totalIntr(c *Case) int {
	t := 0
	for _, k := range newPlan(c).left {
		t += k
	}
	return t
}

// outcome of the execution of a node in the next run: ok, failed, or interrupted
func (ps *planSt) outcome(n *GNode, opts []GOpt) int {
	if ps.done[n.UID] {
		return outOK
	}
	switch n.Kind {
	case "lambda":
		if ps.left[n.UID] > 0 {
			return outIntr
		}
		if n.Fails {
			return outFail
		}
	case "stop":
		// a configured interrupt point the run arrives at: it stops here once
		if ps.left[n.UID] > 0 {
			return outIntr
		}
	case "sub":
		if n.UID == ps.faultNow {
			return outFail // the prologue of the nested run fails
		}
		return ps.graphOutcome(n.Stages, subOpts(n.Key, opts))
	case "tools":
		// ToolsNode reports the error of the first call (in the order of the message) that has one
		for _, cl := range n.Calls {
			if ps.left[cl.UID] > 0 {
				return outIntr
			}
			if cl.Fails {
				return outFail
			}
		}
	}
	return outOK
}

// a stage in which a node fails fails the run; otherwise a stage in which a node (or a nested
// graph) is interrupted interrupts it after the whole stage
func (ps *planSt) graphOutcome(stages [][]*GNode, opts []GOpt) int {
	if !optsOKDeep(stages, opts) {
		return outFail
	}
	for _, st := range stages {
		f, i := false, false
		for _, n := range st {
			switch ps.outcome(n, opts) {
			case outFail:
				f = true
			case outIntr:
				i = true
			}
		}
		if f {
			return outFail
		}
		if i {
			return outIntr
		}
	}
	return outOK
}

// advanceRun: the run (whose outcome is outIntr) has been interrupted; what the resumed run starts from
func (ps *planSt) advanceRun(stages [][]*GNode, opts []GOpt) {
	ps.lastIntr = map[int]bool{}
	ps.advance(stages, opts)
}

func (ps *planSt) advance(stages [][]*GNode, opts []GOpt) {
	for _, st := range stages {
		intr := false
		for _, n := range st {
			if ps.outcome(n, opts) == outIntr {
				intr = true
			}
		}
		if !intr {
			for _, n := range st {
				ps.done[n.UID] = true
			}
			continue
		}
		for _, n := range st {
			if ps.outcome(n, opts) != outIntr {
				ps.done[n.UID] = true
				continue
			}
			switch n.Kind {
			case "lambda", "stop":
				ps.left[n.UID]--
			case "sub":
				ps.lastIntr[n.UID] = true
				ps.nIntr[n.UID]++
				ps.advance(n.Stages, subOpts(n.Key, opts))
			case "tools": // the whole node is executed again: every call once more
				for _, cl := range n.Calls {
					if ps.left[cl.UID] > 0 {
						ps.left[cl.UID]--
					}
				}
			}
		}
		return
	}
}

func optsOK(stages [][]*GNode, opts []GOpt) bool {
	for _, o := range opts {
		for _, p := range o.Paths {
			if len(p) == 0 {
				return false
			}
			var hit *GNode
			for _, st := range stages {
				for _, n := range st {
					if n.Kind != "stop" && n.Key == p[0] {
						hit = n
					}
				}
			}
			if hit == nil || (len(p) > 1 && hit.Kind != "sub") {
				return false
			}
		}
	}
	return true
}

// optsOKDeep: a graph validates at its start what it hands down to its sub graphs, recursively
func optsOKDeep(stages [][]*GNode, opts []GOpt) bool {
	if !optsOK(stages, opts) {
		return false
	}
	for _, st := range stages {
		for _, n := range st {
			if n.Kind == "sub" && !optsOKDeep(n.Stages, subOpts(n.Key, opts)) {
				return false
			}
		}
	}
	return true
}

func subOpts(key int, opts []GOpt) []GOpt {
	var out []GOpt
	for _, o := range opts {
		for _, p := range o.Paths {
			if len(p) > 1 && p[0] == key {
				out = append(out, GOpt{Hs: o.Hs, Paths: [][]int{p[1:]}})
			}
		}
	}
	return out
}

// graph: the units of one run of the graph (the next run of the sequence), returns its outcome
func (x *expectation) graph(uid int, stages [][]*GNode, opts []GOpt, path []int) int {
	x.execs[uid]++
	if !optsOKDeep(stages, opts) {
		x.failed[uid], x.errKind[uid], x.badOpts[uid] = true, outFail, true
		return outFail
	}
	for _, st := range stages {
		f, i := false, false
		note := func(o int) {
			switch o {
			case outFail:
				f = true
			case outIntr:
				i = true
			}
		}
		for _, n := range st {
			if n.Kind == "stop" {
				// no unit: the graph of this level is interrupted here (once)
				note(x.ps.outcome(n, opts))
				continue
			}
			p := append(append([]int{}, path...), n.Key)
			x.paths[n.UID], x.kind[n.UID], x.node[n.UID] = p, n.Kind, n
			if x.ps.done[n.UID] {
				x.kind[n.UID] = "done" // completed in an earlier run of the sequence: not executed
				continue
			}
			switch n.Kind {
			case "lambda":
				x.execs[n.UID]++
				o := x.ps.outcome(n, opts)
				if o != outOK {
					x.failed[n.UID], x.errKind[n.UID] = true, o
				}
				note(o)
			case "sub":
				if n.UID == x.ps.faultNow {
					// the nested run fails in its prologue: the nested graph unit alone, start and error
					x.execs[n.UID]++
					x.failed[n.UID], x.errKind[n.UID], x.badOpts[n.UID] = true, outFail, true
					note(outFail)
					break
				}
				note(x.graph(n.UID, n.Stages, subOpts(n.Key, opts), p))
			case "tools":
				// the ToolsNode and every tool call of the message execute once; the calls are
				// addressed through the ToolsNode (same node path); the first call (in the order of
				// the message) that fails or asks for an interrupt decides how the node ends
				x.execs[n.UID]++
				for _, c := range n.Calls {
					x.execs[c.UID]++
					x.paths[c.UID], x.kind[c.UID], x.calls[c.UID] = p, "call", c
					if x.ps.left[c.UID] > 0 {
						x.failed[c.UID], x.errKind[c.UID] = true, outIntr
					} else if c.Fails {
						x.failed[c.UID], x.errKind[c.UID] = true, outFail
					}
				}
				o := x.ps.outcome(n, opts)
				if o != outOK {
					x.failed[n.UID], x.errKind[n.UID] = true, o
				}
				note(o)
			}
		}
		if f {
			x.failed[uid], x.errKind[uid] = true, outFail
			return outFail
		}
		if i {
			x.failed[uid], x.errKind[uid] = true, outIntr
			return outIntr
		}
	}
	return outOK
}

// anyPanics: some unit of the case fails by panicking
func anyPanics(c *Case) bool {
	found := false
	allNodes(c.Stages, func(n *GNode, _ int) {
		if n.Panics {
			found = true
		}
		for _, cl := range n.Calls {
			if cl.Panics {
				found = true
			}
		}
	}, 0)
	return found
}

func allNodes(stages [][]*GNode, f func(n *GNode, depth int), depth int) {
	for _, st := range stages {
		for _, n := range st {
			f(n, depth)
			if n.Kind == "sub" {
				allNodes(n.Stages, f, depth+1)
			}
		}
	}
}

func isPrefix(p, q []int) bool {
	if len(p) > len(q) {
		return false
	}
	for i := range p {
		if p[i] != q[i] {
			return false
		}
	}
	return true
}

// multiplicity: how many times handler h was attached to the unit at key path [path]
// (global, for the whole graph, or designated to the unit / to a sub graph containing it)
func multiplicity(c *Case, opts []GOpt, h int, path []int) int {
	m := 0
	for _, g := range c.Globals {
		if g == h {
			m++
		}
	}
	for _, o := range opts {
		k := 0
		for _, x := range o.Hs {
			if x == h {
				k++
			}
		}
		if k == 0 {
			continue
		}
		if len(o.Paths) == 0 {
			m += k
			continue
		}
		for _, p := range o.Paths {
			if len(p) > 0 && isPrefix(p, path) {
				m += k
			}
		}
	}
	return m
}

// ---------------------------------------------------------------- runner

const modelHasRuns = true

type runObs struct {
	Result   string   `json:"result"`
	Baseline string   `json:"baseline"`
	Events   [][3]int `json:"events"` // (handler, timing, run info) in the order of invocation
}

type graphObs struct {
	Class  string   `json:"class"` // ok | err | intr (the last run) | panic | hang
	Detail string   `json:"detail,omitempty"`
	Runs   []runObs `json:"runs"` // a run and the runs that resume it after an interrupt
}

// oneRun is what one run of a run sequence left behind.
type oneRun struct {
	result string
	evts   []*evt
	execs  map[int][]bodyRec
}

// pickNative: which native paradigm of a component the graph calls (newRunnablePacker): in
// invoke mode Invoke, else Stream, Collect, Transform; in transform mode Transform, else Stream,
// Collect, Invoke. Bits: 1 Invoke, 2 Stream, 4 Collect, 8 Transform.
func pickNative(isStream bool, natives int) int {
	order := []int{0, 1, 2, 3}
	if isStream {
		order = []int{3, 1, 2, 0}
	}
	for _, p := range order {
		if natives&(1<<p) != 0 {
			return p
		}
	}
	return 0
}

// unitTimings: the timing codes of the start and of the end-or-error callbacks of a unit
func unitTimings(c *Case, x *expectation, uid int) (int, int) {
	isStream := c.Paradigm != "invoke"
	p := 0
	switch x.kind[uid] {
	case "graph", "sub":
		p = 0
		if isStream {
			p = 3
		}
	case "lambda":
		p = pickNative(isStream, x.node[uid].Natives)
	case "tools":
		p = pickNative(isStream, 3)
	case "call":
		p = pickNative(isStream, x.calls[uid].nat())
	}
	st, en := 0, 1
	if p == 2 || p == 3 {
		st = 3
	}
	if p == 1 || p == 3 {
		en = 4
	}
	if x.failed[uid] {
		en = 2
	}
	return st, en
}

// expectedEvents: how many handler invocations the run produces (used to know when the
// goroutines an eager run left behind have finished)
func expectedEvents(c *Case, x *expectation) int {
	total := 0
	for uid := range x.paths {
		if x.kind[uid] == "pass" || x.kind[uid] == "done" {
			continue
		}
		st, en := unitTimings(c, x, uid)
		for _, sp := range c.Handlers {
			m := multiplicity(c, x.opts, sp.ID, x.paths[uid]) * x.execs[uid]
			if needsT(sp, st) {
				total += m
			}
			if needsT(sp, en) {
				total += m
			}
		}
	}
	return total
}

func runGraph(c *Case) lib.Result {
	obs := &graphObs{}
	res := lib.Result{Obs: obs}
	var oracle []string
	sig := ""
	fail := func(sg, f string, a ...any) {
		if sig == "" {
			sig = sg
		}
		if len(oracle) < 6 {
			oracle = append(oracle, fmt.Sprintf(f, a...))
		}
	}
	s := &sink{curU: -1}
	hs := makeHandlers(c.Handlers, s)
	toH := func(ids []int) []callbacks.Handler {
		out := make([]callbacks.Handler, len(ids))
		for i, id := range ids {
			out[i] = hs[id]
		}
		return out
	}
	for _, id := range c.Globals {
		if b := baseOf(hs[id]); b != nil {
			b.global = true
		}
	}
	// the handlers of the neighbour call: objects of their own (same specs), passed to that call only
	shadow := makeHandlers(c.Handlers, s)
	for _, h := range shadow {
		baseOf(h).shadow = true
	}
	toShadow := func(ids []int) []callbacks.Handler {
		out := make([]callbacks.Handler, len(ids))
		for i, id := range ids {
			out[i] = shadow[id]
		}
		return out
	}
	maxRuns := 1
	if c.Store {
		maxRuns = totalIntr(c) + 2
	}
	var runs []oneRun
	faultWhere := "" // where in the prologue the failing call of the sequence failed (distribution only)
	var baseline []string
	var callerSlices []callerSlice
	privCounts := map[int]int{} // lambda uid -> executions of its private component in the observed call(s)
	class, detail := watchdog(60*time.Second, func() {
		// an eager run leaves tasks behind; they are over when the number of goroutines is back
		// to what it was (the process-wide handler list must not be touched before that)
		nG := runtime.NumGoroutine()
		if c.Eager {
			// every task of a run logs the end of its executor under a mutex of the (verif-tagged)
			// hand-off trace of compose/verif_c03_on.go; reading that log afterwards orders the
			// harness after everything a finished task did - also a task the run left behind that never
			// reached a node body (a nested graph stopped by an interrupt point or a rejected option)
			compose.VerifC03Begin(0, true)
			defer compose.VerifC03End()
		}
		quiesce := func() {
			deadline := time.Now().Add(10 * time.Second)
			for runtime.NumGoroutine() > nG && time.Now().Before(deadline) {
				time.Sleep(500 * time.Microsecond)
			}
			if c.Eager {
				_ = compose.VerifC03Events()
			}
		}
		mkOpts := func(store *memStore, stages [][]*GNode) []compose.GraphCompileOption {
			copts := []compose.GraphCompileOption{compose.WithGraphName(unitName(0))}
			if c.Dag && !c.Eager {
				copts = append(copts, compose.WithNodeTriggerMode(compose.AllPredecessor))
			}
			if c.Store {
				copts = append(copts, compose.WithCheckPointStore(store))
			}
			copts = append(copts, intrOpts(stages)...)
			return copts
		}
		// the k-th call of a sequence: on the compiled graph, or - a call that fails in its prologue - with the
		// store out of order resp. on a newer build of the graph (same store) whose pending nodes have other keys
		callRun := func(rec *runRec, run compose.Runnable[vmap, vmap], store *memStore, ps *planSt, k int, gopts []GOpt, opts []compose.Option) string {
			stages := c.Stages
			if fp := c.faultPlanFor(ps, k, gopts); fp.level > 0 {
				if fp.stale == nil {
					store.setFail(true)
					defer store.setFail(false)
				} else {
					nc := fp.stale
					g, err := rec.buildTop(nc)
					if err != nil {
						panic("harness: newer build of the graph does not build: " + err.Error())
					}
					run, err = g.Compile(context.Background(), mkOpts(store, nc.Stages)...)
					if err != nil {
						panic("harness: newer build of the graph does not compile: " + err.Error())
					}
					stages = nc.Stages
				}
			}
			return call(run, c.Paradigm, c.InChunks, append(opts, rec.toolListOpts(stages, nil)...)...)
		}
		// baseline: the same graph, the same sequence of runs, without any handler
		callbacks.InitCallbackHandlers(nil)
		r0 := newRunRec()
		g0, err := r0.buildTop(c)
		if err != nil {
			panic("harness: graph does not build: " + err.Error())
		}
		store0 := &memStore{m: map[string][]byte{}}
		run0, err := g0.Compile(context.Background(), mkOpts(store0, c.Stages)...)
		if err != nil {
			panic("harness: graph does not compile: " + err.Error())
		}
		var cpOpt []compose.Option
		if c.Store {
			cpOpt = append(cpOpt, compose.WithCheckPointID("cp"))
		}
		ps0 := newPlan(c)
		for k := 0; k < maxRuns; k++ {
			r0.nextRun()
			r := callRun(r0, run0, store0, ps0, k, nil, append([]compose.Option{}, cpOpt...))
			baseline = append(baseline, r)
			if c.leavesTasksBehind() {
				// the tasks an eager run left behind must not meet the handlers of the next run
				x0 := newExpectation(ps0)
				c.expectRun(x0, k, nil)
				r0.settle(x0)
				quiesce()
				r0.mu.Lock() // after every node body of the tasks left behind
				r0.mu.Unlock()
			}
			if r != "intr" {
				break
			}
			if c.runOutcome(ps0, k, nil) == outIntr {
				ps0.advanceRun(c.Stages, nil)
			}
		}

		rr := newRunRec()
		g1, err := rr.buildTop(c)
		if err != nil {
			panic("harness: graph does not build: " + err.Error())
		}
		store1 := &memStore{m: map[string][]byte{}}
		run1, err := g1.Compile(context.Background(), mkOpts(store1, c.Stages)...)
		if err != nil {
			panic("harness: graph does not compile: " + err.Error())
		}
		installGlobals(c, hs)
		defer callbacks.InitCallbackHandlers(nil)
		// the handler slice of every option has spare capacity (a caller that collected its handlers
		// with append), and the options of a call are built once and passed to every run of the
		// sequence that uses them: nothing may be written into the caller's arrays
		built := map[int][]compose.Option{}
		mkCallOpts := func(which int, gopts []GOpt) []compose.Option {
			if o, ok := built[which]; ok {
				return append([]compose.Option{}, o...)
			}
			opts := append([]compose.Option{}, cpOpt...)
			for i, o := range gopts {
				spare := int(((c.Seed >> 8) + uint64(i)) % 3)
				hsl := make([]callbacks.Handler, len(o.Hs), len(o.Hs)+spare)
				copy(hsl, toH(o.Hs))
				callerSlices = append(callerSlices, callerSlice{hsl, o.Hs})
				op := compose.WithCallbacks(hsl...)
				if len(o.Paths) > 0 {
					var ps []*compose.NodePath
					allSingle := true
					for _, p := range o.Paths {
						keys := make([]string, len(p))
						for i, k := range p {
							keys[i] = nodeKey(k)
						}
						ps = append(ps, compose.NewNodePath(keys...))
						if len(p) != 1 {
							allSingle = false
						}
					}
					if allSingle && c.Seed%2 == 0 {
						keys := make([]string, len(o.Paths))
						for i, p := range o.Paths {
							keys[i] = nodeKey(p[0])
						}
						op = op.DesignateNode(keys...)
					} else {
						op = op.DesignateNodeWithPath(ps...)
					}
				}
				opts = append(opts, op)
			}
			built[which] = opts
			return append([]compose.Option{}, opts...)
		}
		// the neighbour call: the same compiled object, a context that says so, the options of the case in
		// reverse order plus one for the whole graph - every handler a shadow object passed to this call only
		var nbDone chan struct{}
		neighbour := func() {
			var nopts []compose.Option
			for i := len(c.Opts) - 1; i >= 0; i-- {
				o := c.Opts[i]
				op := compose.WithCallbacks(toShadow(o.Hs)...)
				if len(o.Paths) > 0 {
					var nps []*compose.NodePath
					for _, p := range o.Paths {
						keys := make([]string, len(p))
						for i, k := range p {
							keys[i] = nodeKey(k)
						}
						nps = append(nps, compose.NewNodePath(keys...))
					}
					op = op.DesignateNodeWithPath(nps...)
				}
				nopts = append(nopts, op)
			}
			all := make([]int, 0, len(c.Handlers))
			for _, sp := range c.Handlers {
				all = append(all, sp.ID)
			}
			nopts = append(nopts, compose.WithCallbacks(toShadow(all)...))
			nopts = append(nopts, rr.toolListOpts(c.Stages, nil)...)
			_ = lib.Recover(func() {
				_, _ = callCtx(context.WithValue(context.Background(), neighbourKey, true), run1, c.Paradigm, c.InChunks, nopts...)
			})
		}
		switch c.Neighbour {
		case "before":
			neighbour()
		case "during":
			nbDone = make(chan struct{})
			lead := time.Duration((c.Seed>>36)%3) * 150 * time.Microsecond // 0: together, else the neighbour starts first
			go func() {
				defer close(nbDone)
				neighbour()
			}()
			time.Sleep(lead)
		}
		ps := newPlan(c)
		for k := 0; k < maxRuns; k++ {
			rr.nextRun()
			which := 0
			if k > 0 && c.HasOpts2 {
				which = 1
			}
			result := callRun(rr, run1, store1, ps, k, c.optsFor(k), mkCallOpts(which, c.optsFor(k)))
			if nbDone != nil {
				select {
				case <-nbDone:
				case <-time.After(30 * time.Second):
					fail("graph-hang", "the concurrent call on the same compiled graph did not return")
				}
				nbDone = nil
			}
			if c.faultStrikes(k) {
				faultWhere = faultSite(lastCallErr)
			}
			if !waitPending(s, 10*time.Second) {
				fail("graph-stream", "run %d: a handler's copy of a stream payload never ended", k)
			}
			if c.leavesTasksBehind() {
				// eager task collection returns as soon as one task has failed: the other tasks of
				// that step are still running; give them time to finish
				x := newExpectation(ps)
				x.opts = c.optsFor(k)
				c.expectRun(x, k, c.optsFor(k))
				want := expectedEvents(c, x)
				wantBodies := 0
				for uid, k := range x.kind {
					if k == "lambda" || k == "call" {
						wantBodies += x.execs[uid]
					}
				}
				// until every expected invocation is there; given up after 10 s, or after 2 s without
				// any new invocation once every node body of the run has been entered
				deadline := time.Now().Add(10 * time.Second)
				last, lastChange := -1, time.Now()
				for time.Now().Before(deadline) {
					s.mu.Lock()
					n := len(s.evts)
					s.mu.Unlock()
					rr.mu.Lock()
					bodies := 0
					for _, recs := range rr.execs {
						bodies += len(recs)
					}
					rr.mu.Unlock()
					if n >= want && bodies >= wantBodies {
						break
					}
					if n != last {
						last, lastChange = n, time.Now()
					}
					if bodies >= wantBodies && time.Since(lastChange) > 2*time.Second {
						break
					}
					time.Sleep(2 * time.Millisecond)
				}
				waitPending(s, 10*time.Second)
				quiesce()
				waitPending(s, 10*time.Second)
			}
			s.mu.Lock()
			evts := s.evts
			s.evts = nil
			s.mu.Unlock()
			rr.mu.Lock()
			execs := rr.execs
			rr.mu.Unlock()
			runs = append(runs, oneRun{result: result, evts: evts, execs: execs})
			rr.mu.Lock()
			for uid, n := range rr.privRuns {
				privCounts[uid] = n
			}
			rr.mu.Unlock()
			if result != "intr" {
				break
			}
			if c.runOutcome(ps, k, c.optsFor(k)) == outIntr {
				ps.advanceRun(c.Stages, c.optsFor(k))
			}
		}
	})
	if class != "" {
		obs.Class, obs.Detail = class, detail
		res.Oracle = "graph run " + class + ": " + detail
		res.Sig = "graph-" + class
		res.Tags = []string{"kind:graph", "class:" + class}
		return res
	}
	obs.Class = strings.SplitN(runs[len(runs)-1].result, ":", 2)[0]

	// ---- direct oracle, run by run
	specs := map[int]HSpec{}
	for _, sp := range c.Handlers {
		specs[sp.ID] = sp
	}
	ps := newPlan(c)
	var runTerms []string
	faultLevel, faultSub, faultDelay := 0, 0, 0 // what the fault of the sequence amounted to (0: it did not strike)
	nLabels := map[int]int{}
	nIntrRuns := 0
	for k := 0; ; k++ {
		x := newExpectation(ps)
		x.opts = c.optsFor(k)
		if fp := c.faultPlanFor(ps, k, c.optsFor(k)); fp.level > 0 {
			faultLevel = fp.level
			if fp.level == 2 {
				faultSub, faultDelay = fp.sub.UID, ps.nIntr[fp.sub.UID]
			}
		}
		out := c.expectRun(x, k, c.optsFor(k))
		x0 := newExpectation(ps)
		out0 := c.expectRun(x0, k, nil)
		if k >= len(runs) {
			fail("graph-exec", "the sequence has %d runs, the case says there is a run %d (the run before it was interrupted)", len(runs), k)
			break
		}
		run := runs[k]
		ro := runObs{Result: run.result}
		if k < len(baseline) {
			ro.Baseline = baseline[k]
		}
		pre := ""
		if c.Store {
			pre = fmt.Sprintf("run %d: ", k)
		}
		// a bad designation legitimately fails the run that carries the options; otherwise the
		// handlers (and what they do with their stream copies) must not change the data flow
		if out0 == out && ro.Result != ro.Baseline {
			fail("graph-dataflow", pre+"result with handlers %q differs from the run without handlers %q", ro.Result, ro.Baseline)
		}
		wantClass := []string{"ok", "err", "intr"}[out]
		if gotClass := strings.SplitN(run.result, ":", 2)[0]; gotClass != wantClass {
			fail("graph-exec", pre+"run outcome %q, the case says %s", run.result, wantClass)
		}
		checkRun(c, x, run, k == 0, specs, ro.Result, func(sg, f string, a ...any) { fail(sg, pre+f, a...) })

		// observation for the model: per unit (run info) the sequence of (handler, timing) in
		// the order of invocation; units in ascending order
		for _, e := range run.evts {
			ro.Events = append(ro.Events, [3]int{e.H, e.T, parseInfo(e.Name)})
		}
		sort.SliceStable(ro.Events, func(i, j int) bool { return ro.Events[i][2] < ro.Events[j][2] })
		perUnit := map[int][]string{}
		var infos []int
		for _, e := range ro.Events {
			if _, ok := perUnit[e[2]]; !ok {
				infos = append(infos, e[2])
			}
			perUnit[e[2]] = append(perUnit[e[2]], fmt.Sprintf("(%d, %d)", e[0], e[1]))
		}
		sort.Ints(infos)
		// payload labels, per unit in the order of invocation
		perUnitL := map[int][]string{}
		for _, e := range run.evts {
			i := parseInfo(e.Name)
			perUnitL[i] = append(perUnitL[i], fmt.Sprint(e.L))
			nLabels[e.L]++
		}
		var evs, lbs []string
		for _, i := range infos {
			evs = append(evs, fmt.Sprintf("(%d, [%s])", i, strings.Join(perUnit[i], "; ")))
			lbs = append(lbs, fmt.Sprintf("(%d, [%s])", i, strings.Join(perUnitL[i], "; ")))
		}
		runTerms = append(runTerms, "(["+strings.Join(evs, "; ")+"],\n    ["+strings.Join(lbs, "; ")+"])")
		obs.Runs = append(obs.Runs, ro)

		if out != outIntr {
			if k+1 < len(runs) {
				fail("graph-exec", "the sequence has %d runs, the case says run %d is the last", len(runs), k)
			}
			break
		}
		nIntrRuns++
		ps.advanceRun(c.Stages, c.optsFor(k))
	}
	// the private components node bodies ran on contexts they initialised without handlers: the process-wide handlers
	// are told (once at the start, once at the end of every such execution, subject to their TimingChecker), nobody else
	{
		isGlobal := map[int]bool{}
		for _, id := range c.Globals {
			isGlobal[id] = true
		}
		got := map[[3]int]int{} // (handler, timing, lambda uid) -> invocations
		s.mu.Lock()
		for _, e := range s.priv {
			var uid int
			fmt.Sscanf(strings.TrimPrefix(e.Name, privatePrefix), "%d", &uid)
			if !isGlobal[e.H] {
				fail("graph-private", "handler %d, passed to the call (not a process-wide one), was invoked (timing %d) for the private component that the body of unit u%d runs on a context it initialised with callbacks.InitCallbacks without handlers", e.H, e.T, uid)
				continue
			}
			got[[3]int{e.H, e.T, uid}]++
		}
		s.mu.Unlock()
		for uid, n := range privCounts {
			mult := map[int]int{}
			for _, id := range c.Globals {
				mult[id]++
			}
			for id, m := range mult {
				for t := 0; t < 2; t++ {
					want := 0
					if needsT(specs[id], t) {
						want = n * m
					}
					if g := got[[3]int{id, t, uid}]; g != want {
						fail("graph-private", "process-wide handler %d: %d invocations with timing %d for the private component of unit u%d (run %d times), want %d", id, g, t, uid, n, want)
					}
				}
			}
		}
		for k, g := range got {
			if k[1] > 1 || privCounts[k[2]] == 0 {
				fail("graph-private", "process-wide handler %d: %d invocations with timing %d for a private component of unit u%d, which ran %d times and fires start and end only", k[0], g, k[1], k[2], privCounts[k[2]])
			}
		}
	}
	// no handler crossed from one call on the compiled graph to the other
	s.mu.Lock()
	for _, m := range s.stray {
		fail("graph-other-call", "%s", m)
	}
	s.mu.Unlock()
	// the caller's own handler slices (the arguments of WithCallbacks) after all runs
	for _, cs := range callerSlices {
		if what := cs.changed(); what != "" {
			fail("graph-caller-slice", "the handler slice the caller passed to WithCallbacks(%v...) %s", cs.ids, what)
		}
	}
	if len(oracle) > 0 {
		res.Oracle = strings.Join(oracle, " | ")
		res.Sig = sig
	}

	var optT, optT2 []string
	nDes := 0
	for _, o := range c.Opts {
		optT = append(optT, fmt.Sprintf("(%s, %s)", nlist(o.Hs), nlistlist(o.Paths)))
		if len(o.Paths) > 0 {
			nDes++
		}
	}
	for _, o := range c.optsFor(1) {
		optT2 = append(optT2, fmt.Sprintf("(%s, %s)", nlist(o.Hs), nlistlist(o.Paths)))
	}
	if c.Store && !modelHasRuns {
		res.CoqTerm = "" // stopgap while Corr/C10.v has no CaseRuns
	} else if c.Store {
		// the call that fails in the prologue of the top-level run (with_fault); a nested graph whose
		// prologue fails is part of the plan ([RFault] as the first stage of that graph)
		fault := 0
		if c.ResumeFault != "" && c.FaultAt > 0 && faultLevel != 2 {
			fault = c.FaultAt
		}
		res.CoqTerm = fmt.Sprintf("CaseRunsF %s %s\n  [%s]\n  [%s]\n  %s %s 0 0\n  %s\n  [%s]", nlist(c.Globals), coqNeeds(c.Handlers),
			strings.Join(optT, "; "), strings.Join(optT2, "; "), lib.CoqNat(fault), lib.CoqBool(c.Paradigm != "invoke"), coqRStages(c.Stages, faultSub, faultDelay), strings.Join(runTerms, ";\n   "))
	} else {
		first := "([], [])"
		if len(runTerms) > 0 {
			first = runTerms[0]
		}
		res.CoqTerm = fmt.Sprintf("CaseGraph %s %s\n  [%s]\n  %s 0 0\n  %s\n  %s", nlist(c.Globals), coqNeeds(c.Handlers),
			strings.Join(optT, "; "), lib.CoqBool(c.Paradigm != "invoke"), coqStages(c.Stages), first)
	}

	// ---- distribution
	nNodes, maxPar, depth, nShared, nSub := 0, 0, 0, 0, 0
	nStops := 0
	allNodes(c.Stages, func(n *GNode, d int) {
		if n.Kind == "stop" {
			nStops++
			return
		}
		nNodes++
		if d > depth {
			depth = d
		}
		if n.Shared > 0 {
			nShared++
		}
		if n.Kind == "sub" {
			nSub++
			if d+1 > depth {
				depth = d + 1
			}
		}
	}, 0)
	var widths func(st [][]*GNode)
	widths = func(st [][]*GNode) {
		for _, s := range st {
			if len(s) > maxPar {
				maxPar = len(s)
			}
			for _, n := range s {
				if n.Kind == "sub" {
					widths(n.Stages)
				}
			}
		}
	}
	widths(c.Stages)
	res.Nontrivial = maxPar >= 2 && (nDes > 0 || len(c.Opts)-nDes >= 2)
	bucket := func(n int) string {
		switch {
		case n <= 2:
			return "1-2"
		case n <= 5:
			return "3-5"
		case n <= 9:
			return "6-9"
		}
		return "10+"
	}
	res.Tags = []string{"kind:graph", "paradigm:" + c.Paradigm, "nodes:" + bucket(nNodes), fmt.Sprintf("parallel:%d", maxPar),
		fmt.Sprintf("nesting:%d", depth), fmt.Sprintf("opts-undesignated:%d", len(c.Opts)-nDes), fmt.Sprintf("opts-designated:%d", nDes),
		fmt.Sprintf("globals:%d", len(c.Globals)), "class:" + obs.Class, fmt.Sprintf("dag:%v", c.Dag), fmt.Sprintf("chain:%v", c.Chain),
		fmt.Sprintf("store:%v", c.Store), fmt.Sprintf("eager:%v", c.Eager), fmt.Sprintf("resume-with-other-options:%v", c.HasOpts2), fmt.Sprintf("runs:%d", len(runs)),
		fmt.Sprintf("interrupted-runs:%d", nIntrRuns)}
	if tot := nLabels[lblIn] + nLabels[lblOut] + nLabels[lblErr] + nLabels[lblUnknown] + nLabels[lblOther]; tot > 0 {
		res.Tags = append(res.Tags, fmt.Sprintf("payloads-identified:%d%%", 10*((nLabels[lblIn]+nLabels[lblOut]+nLabels[lblErr])*10/tot)))
	}
	if nShared > 0 {
		res.Tags = append(res.Tags, "shared-lambda")
	}
	nTools, nCalls := 0, 0
	allNodes(c.Stages, func(n *GNode, d int) {
		if n.Kind == "tools" {
			nTools++
			nCalls += len(n.Calls)
		}
	}, 0)
	if nTools > 0 {
		res.Tags = append(res.Tags, "tools-node", fmt.Sprintf("tool-calls:%d", nCalls))
		nUnk, nTL := 0, 0
		allNodes(c.Stages, func(n *GNode, d int) {
			if n.Kind == "tools" {
				if n.ToolList {
					nTL++
				}
				for _, cl := range n.Calls {
					if cl.Unknown {
						nUnk++
					}
				}
			}
		}, 0)
		if nUnk > 0 {
			res.Tags = append(res.Tags, "unknown-tool-call")
		}
		if nTL > 0 {
			res.Tags = append(res.Tags, "tool-list-by-call-option")
		}
	}
	if !optsOKDeep(c.Stages, c.Opts) {
		res.Tags = append(res.Tags, "bad-designation")
	}
	if anyPanics(c) {
		res.Tags = append(res.Tags, "panicking-unit")
	}
	if !c.Eager && c.leavesTasksBehind() {
		res.Tags = append(res.Tags, "first-tool-call-panics-siblings-running")
	}
	if nStops > 0 {
		res.Tags = append(res.Tags, fmt.Sprintf("interrupt-points:%d", nStops))
	}
	if c.Neighbour != "" {
		res.Tags = append(res.Tags, "neighbour-call:"+c.Neighbour)
	}
	if len(privCounts) > 0 {
		res.Tags = append(res.Tags, "private-component-in-node-body")
	}
	for _, sp := range c.Handlers {
		if sp.Builder {
			res.Tags = append(res.Tags, "handler-from-builder")
			break
		}
	}
	for _, o := range append(append([]GOpt{}, c.Opts...), c.Opts2...) {
		if len(o.Hs) == 0 {
			res.Tags = append(res.Tags, "option-without-handlers")
			break
		}
	}
	if c.ResumeFault != "" {
		if faultWhere == "" {
			faultWhere = "not-reached"
		}
		res.Tags = append(res.Tags, "resume-fault:"+c.ResumeFault, "resume-fault-site:"+faultWhere,
			"resume-fault-level:"+[]string{"none", "top", "nested"}[faultLevel])
	}
	return res
}

// ---------------------------------------------------------------- payloads

// valSpec: what every unit of an uninterrupted run consumed and produced, derived from what the
// node bodies recorded and from the shape of the graph (fan-in of a Graph merges the maps of the
// predecessors; a Workflow and a Chain's Parallel put every predecessor under a key of its own).
type valSpec struct {
	in, out map[int]string
}

func copyMap(m vmap) vmap {
	out := vmap{}
	mergeInto(out, m)
	return out
}

// graphIO walks one graph level; cur is what the level was given; returns what it produced
func (v *valSpec) graphIO(c *Case, run oneRun, x *expectation, stages [][]*GNode, cur vmap, keyed bool) (vmap, bool) {
	for _, st := range stages {
		if isStop(st) {
			continue
		}
		var outs []vmap
		okAll := true
		for _, n := range st {
			if cur != nil {
				v.in[n.UID] = render(cur)
			}
			var o vmap
			switch n.Kind {
			case "pass":
				o = cur
			case "lambda":
				if recs := run.execs[n.UID]; n.Shared == 0 && len(recs) == 1 && !recs[0].Failed {
					o = recs[0].OutV
				}
			case "sub":
				if n.Typed == "tools" {
					last := n.Stages[2][0]
					if recs := run.execs[last.UID]; len(recs) == 1 && !recs[0].Failed {
						o = recs[0].OutV
					}
				} else {
					o, _ = v.graphIO(c, run, x, n.Stages, cur, c.Eager)
				}
			}
			if o == nil || x.failed[n.UID] {
				okAll = false
				continue
			}
			if n.Kind != "pass" {
				v.out[n.UID] = render(o)
			}
			outs = append(outs, o)
		}
		if !okAll || len(outs) != len(st) {
			return nil, false
		}
		next := vmap{}
		switch {
		case len(st) == 1 && keyed:
			next = copyMap(outs[0])
		case keyed:
			for i, n := range st {
				next[fmt.Sprintf("p%d", n.UID)] = copyMap(outs[i])
			}
		default:
			for _, o := range outs {
				mergeInto(next, copyMap(o))
			}
		}
		cur = next
	}
	return cur, cur != nil
}

func newValSpec(c *Case, run oneRun, x *expectation) *valSpec {
	v := &valSpec{in: map[int]string{}, out: map[int]string{}}
	v.in[0] = "in=abcdef"
	if out, ok := v.graphIO(c, run, x, c.Stages, vmap{"in": "abcdef"}, c.Eager || c.Chain); ok {
		v.out[0] = render(out)
	}
	// tool calls and ToolsNodes
	for uid, k := range x.kind {
		switch k {
		case "call":
			if recs := run.execs[uid]; len(recs) == 1 {
				v.in[uid] = recs[0].In
				if !recs[0].Failed {
					v.out[uid] = recs[0].Out
				}
			}
		case "tools":
			v.in[uid], v.out[uid] = "<*schema.Message>", "<[]*schema.Message>"
		case "lambda":
			if n := x.node[uid]; n != nil && n.Shared == 0 {
				if recs := run.execs[uid]; len(recs) == 1 {
					v.in[uid] = recs[0].In
					if !recs[0].Failed {
						v.out[uid] = recs[0].Out
					}
				}
			}
		}
	}
	return v
}

// payload labels of an event (what the model's event carries): 0 = the payload the unit consumed,
// 1 = the payload it produced, 2 = the error it ended with, 8 = not determined (a stream copy the
// handler did not read to the end, a unit whose value the harness cannot derive), 9 = something else
const (
	lblIn      = 0
	lblOut     = 1
	lblErr     = 2
	lblUnknown = 8
	lblOther   = 9
)

// checkRun: the property on the events of one run (x = the units the run executes)
func checkRun(c *Case, x *expectation, run oneRun, first bool, specs map[int]HSpec, result string, fail func(sg, f string, a ...any)) {
	type hk struct {
		h    int
		name string
	}
	cnt := map[hk][5]int{}
	known := map[string]int{}
	for uid := range x.paths {
		known[unitName(uid)] = uid
	}
	// what every unit consumed / produced: derived for the first run of a sequence (a resumed run
	// starts from values kept in the checkpoint: there only what the node bodies recorded is used)
	vals := newValSpec(c, run, x)
	if !first {
		sub := &valSpec{in: map[int]string{}, out: map[int]string{}}
		// the graph unit itself is handed what the call was made with, in every run of the sequence (the run
		// that resumes ignores its input, its start handlers are given it all the same)
		sub.in[0] = vals.in[0]
		for uid, k := range x.kind {
			if k == "lambda" || k == "call" || k == "tools" {
				if v, ok := vals.in[uid]; ok {
					sub.in[uid] = v
				}
				if v, ok := vals.out[uid]; ok {
					sub.out[uid] = v
				}
			}
		}
		// a lambda's own record of what it consumed holds in every run
		for uid, k := range x.kind {
			if n := x.node[uid]; k == "lambda" && n != nil && n.Shared == 0 {
				if recs := run.execs[uid]; len(recs) == 1 {
					sub.in[uid] = recs[0].In
				}
			}
		}
		vals = sub
	}
	sawEnd := map[string]bool{}
	for _, e := range run.evts {
		// pairing in time: every start invocation of a unit precedes its end / error invocations
		if e.T == 0 || e.T == 3 {
			if sawEnd[e.Name] {
				fail("graph-pairing", "handler %d: start of unit %s after the unit's end was reported", e.H, e.Name)
			}
		} else {
			sawEnd[e.Name] = true
		}
		k := hk{e.H, e.Name}
		a := cnt[k]
		a[e.T]++
		cnt[k] = a
		uid, ok := known[e.Name]
		if !ok {
			fail("graph-wrongnode", "handler %d invoked (timing %d) with run info name %q which is no unit of this run", e.H, e.T, e.Name)
			continue
		}
		if !needsT(specs[e.H], e.T) {
			fail("graph-timing", "handler %d invoked with timing %d it does not ask for", e.H, e.T)
		}
		wantComp := "Lambda"
		switch x.kind[uid] {
		case "graph", "sub":
			wantComp = "Graph"
			if uid == 0 && c.Chain {
				wantComp = "Chain"
			}
			if c.Eager && !(x.node[uid] != nil && x.node[uid].Typed == "tools") {
				wantComp = "Workflow"
			}
		case "tools":
			wantComp = "ToolsNode"
		case "call":
			wantComp = "Tool"
		}
		if e.Comp != wantComp {
			fail("graph-wrongnode", "handler %d unit %s: component %q, want %q", e.H, e.Name, e.Comp, wantComp)
		}
		// the implementation type in the run info is the unit's own where the component declares one: the
		// lambda's (WithLambdaType), the tool's (components.Typer; "UnknownTool" for a call answered by the
		// UnknownToolsHandler). (For graphs eino infers a name from the Go type, "no guarantee": not compared.)
		wantType, declared := "", false
		switch x.kind[uid] {
		case "lambda":
			wantType, declared = lambdaType(x.node[uid]), true
		case "call":
			wantType, declared = toolType(x.calls[uid]), true
			if x.calls[uid].Unknown {
				wantType = "UnknownTool"
			}
		}
		if declared && e.Type != wantType {
			fail("graph-wrongnode", "handler %d unit %s: run info type %q, the unit's component has type %q", e.H, e.Name, e.Type, wantType)
		}
		// payload: what the unit itself consumed / produced / ended with
		e.L = lblUnknown
		switch {
		case e.T == 2:
			want := "failure"
			switch x.errKind[uid] {
			case outIntr:
				want = "interrupt"
			case outFail:
				if x.badOpts[uid] {
					want = "error"
				}
			}
			// a unit that fails by panicking ends with the error eino makes of the panic; an enclosing
			// unit reports the error of one of its failing parts (which one depends on the schedule)
			if want == "failure" {
				switch {
				case x.node[uid] != nil && x.node[uid].Kind == "lambda" && x.node[uid].Panics,
					x.calls[uid] != nil && x.calls[uid].Panics:
					want = "panic"
				case x.node[uid] != nil && x.node[uid].Kind == "lambda", x.calls[uid] != nil:
				default:
					if e.Payload == "panic" && anyPanics(c) {
						want = "panic"
					}
					if e.Payload == "error" && x.faultErr {
						want = "error" // the error of the nested graph whose prologue failed
					}
				}
			}
			e.L = lblErr
			if e.Payload != want {
				e.L = lblOther
				fail("graph-payload", "handler %d unit %s: OnError with an error of class %q, the unit ends with %q", e.H, e.Name, e.Payload, want)
			}
		case !e.Full || vals == nil:
		case e.T == 0 || e.T == 3:
			if want, ok := vals.in[uid]; ok {
				e.L = lblIn
				if e.Payload != want {
					e.L = lblOther
					fail("graph-payload", "handler %d unit %s start payload %q, the unit consumed %q", e.H, e.Name, e.Payload, want)
				}
			}
		default:
			if want, ok := vals.out[uid]; ok {
				e.L = lblOut
				if e.Payload != want {
					e.L = lblOther
					fail("graph-payload", "handler %d unit %s end payload %q, the unit produced %q", e.H, e.Name, e.Payload, want)
				}
			}
		}
		if uid == 0 && e.Full && (e.T == 1 || e.T == 4) && "ok:"+e.Payload != result {
			fail("graph-payload", "handler %d graph end payload %q, result %q", e.H, e.Payload, result)
		}
	}
	uids := make([]int, 0, len(x.paths))
	for uid := range x.paths {
		uids = append(uids, uid)
	}
	sort.Ints(uids)
	for _, uid := range uids {
		if x.kind[uid] == "pass" || x.kind[uid] == "done" {
			for _, sp := range c.Handlers {
				if a := cnt[hk{sp.ID, unitName(uid)}]; a != [5]int{} {
					what := "passthrough node"
					if x.kind[uid] == "done" {
						what = "node (completed before the interrupt, not executed in this run)"
					}
					fail("graph-wrongnode", "handler %d invoked for %s %s", sp.ID, what, unitName(uid))
				}
			}
			if x.kind[uid] == "done" {
				if got := len(run.execs[uid]); got != 0 {
					fail("graph-exec", "node %s executed %d times in this run, it had completed before the interrupt", unitName(uid), got)
				}
			}
			continue
		}
		if n := x.node[uid]; n != nil && n.Kind == "lambda" && n.Shared == 0 {
			if got := len(run.execs[uid]); got != x.execs[uid] {
				fail("graph-exec", "node %s executed %d times, the case says %d", unitName(uid), got, x.execs[uid])
			}
		}
		if x.kind[uid] == "call" {
			if got := len(run.execs[uid]); got != x.execs[uid] {
				fail("graph-exec", "tool call %s executed %d times, the case says %d", unitName(uid), got, x.execs[uid])
			}
		}
		for _, sp := range c.Handlers {
			a := cnt[hk{sp.ID, unitName(uid)}]
			starts, ends, errs := a[0]+a[3], a[1]+a[4], a[2]
			want := multiplicity(c, x.opts, sp.ID, x.paths[uid]) * x.execs[uid]
			// the timings of the unit's start and end-or-error callbacks follow from the paradigm the
			// graph calls the component in; a handler with a TimingChecker is invoked for the ones it asks for
			stT, enT := unitTimings(c, x, uid)
			wantS, wantE := 0, 0
			if needsT(sp, stT) {
				wantS = want
			}
			if needsT(sp, enT) {
				wantE = want
			}
			bad := starts != wantS || ends+errs != wantE || a[stT] != wantS || a[enT] != wantE
			if x.failed[uid] && ends > 0 || !x.failed[uid] && errs > 0 {
				bad = true
			}
			if bad {
				sg := "graph-pairing"
				if want == 0 {
					sg = "graph-wrongnode"
				}
				fail(sg, "handler %d unit %s: %d start / %d end / %d error events (by timing %v), want %d with timing %d at the start and %d with timing %d at the end (attached x%d, unit executed %dx, ends with error=%v)",
					sp.ID, unitName(uid), starts, ends, errs, a, wantS, stT, wantE, enT, multiplicity(c, x.opts, sp.ID, x.paths[uid]), x.execs[uid], x.failed[uid])
			}
		}
	}
}

func coqStages(stages [][]*GNode) string {
	var sts []string
	for _, st := range stages {
		var ns []string
		for _, n := range st {
			switch n.Kind {
			case "lambda":
				ns = append(ns, fmt.Sprintf("GLambda %d %d %d %d %s", n.UID, n.Key, n.UID, n.Natives, lib.CoqBool(n.Fails)))
			case "pass":
				ns = append(ns, fmt.Sprintf("GPass %d %d", n.UID, n.Key))
			case "sub":
				ns = append(ns, fmt.Sprintf("GSub %d %d %d %s", n.UID, n.Key, n.UID, coqStages(n.Stages)))
			case "tools":
				var cs []string
				for _, c := range n.Calls {
					cs = append(cs, fmt.Sprintf("(%d, %d, %d, %s)", c.UID, c.UID, c.nat(), lib.CoqBool(c.Fails)))
				}
				ns = append(ns, fmt.Sprintf("GTools %d %d %d [%s]", n.UID, n.Key, n.UID, strings.Join(cs, "; ")))
			}
		}
		sts = append(sts, "["+strings.Join(ns, "; ")+"]")
	}
	return "[" + strings.Join(sts, "; ") + "]"
}

// coqRStages: the run plan (Model/CallbacksResume.v): lambdas carry the number of executions that
// ask for an interrupt before the node behaves as the case says
// coqRStages: the run plan; the nested graph faultUID (0: none) gets a first stage [RFault delay]: its
// prologue fails in the execution that follows `delay` interrupted executions of it
func coqRStages(stages [][]*GNode, faultUID, delay int) string {
	var sts []string
	for _, st := range stages {
		var ns []string
		for _, n := range st {
			switch n.Kind {
			case "lambda":
				ns = append(ns, fmt.Sprintf("RLambda %d %d %d %d %s %d%%nat", n.UID, n.Key, n.UID, n.Natives, lib.CoqBool(n.Fails), n.Intr))
			case "pass":
				ns = append(ns, fmt.Sprintf("RPass %d %d", n.UID, n.Key))
			case "stop":
				ns = append(ns, fmt.Sprintf("RStop %d%%nat", n.Intr))
			case "sub":
				inner := coqRStages(n.Stages, faultUID, delay)
				if n.UID == faultUID && faultUID != 0 {
					inner = fmt.Sprintf("([RFault %d%%nat] :: %s)", delay, inner)
				}
				ns = append(ns, fmt.Sprintf("RSub %d %d %d %s", n.UID, n.Key, n.UID, inner))
			case "tools":
				var cs []string
				for _, c := range n.Calls {
					cs = append(cs, fmt.Sprintf("(%d, %d, %d, %s, %d%%nat)", c.UID, c.UID, c.nat(), lib.CoqBool(c.Fails), c.Intr))
				}
				ns = append(ns, fmt.Sprintf("RTools %d %d %d [%s]", n.UID, n.Key, n.UID, strings.Join(cs, "; ")))
			}
		}
		sts = append(sts, "["+strings.Join(ns, "; ")+"]")
	}
	return "[" + strings.Join(sts, "; ") + "]"
}
