//go:build verif_c10wb

package main

// The white-box group of C10 (sub-tag verif_c10wb, asked for by "extra_tags" in props/C10.json): the hooks
// /repo/compose/verif_c10.go and /repo/internal/callbacks/verif_c10.go name unexported identifiers of eino
// (initNodeCallbacks, initGraphCallbacks, nodeInfo, manager, ctxWithManager, managerFromCtx). When a tree
// renames one of them the hooks stop compiling; ./check then builds this harness with -tags verif alone
// (nowb.go instead of this file): the script cases are skipped (tag whitebox:unavailable), the graph and
// stream cases - the public API - and the translator ties go on.

import (
	"context"

	"github.com/cloudwego/eino/callbacks"
	"github.com/cloudwego/eino/compose"
)

const whiteboxAvailable = true

func wbAppendHandlers(ctx context.Context, info *callbacks.RunInfo, hs ...callbacks.Handler) context.Context {
	return compose.VerifC10AppendHandlers(ctx, info, hs...)
}

func wbInitGraphCallbacks(ctx context.Context, name string, opts ...compose.Option) context.Context {
	return compose.VerifC10InitGraphCallbacks(ctx, name, opts...)
}

func wbInitNodeCallbacks(ctx context.Context, key, name string, opts ...compose.Option) context.Context {
	return compose.VerifC10InitNodeCallbacks(ctx, key, name, opts...)
}

func wbPeek(ctx context.Context) ([]callbacks.Handler, []callbacks.Handler, *callbacks.RunInfo, bool) {
	return compose.VerifC10Peek(ctx)
}
