//go:build !verif_c10wb

package main

// Built without the white-box group of C10 (see wb.go): the script cases are not run.

import (
	"context"

	"github.com/cloudwego/eino/callbacks"
	"github.com/cloudwego/eino/compose"
)

const whiteboxAvailable = false

func wbAppendHandlers(ctx context.Context, _ *callbacks.RunInfo, _ ...callbacks.Handler) context.Context {
	panic("harness: white-box group not built")
}

func wbInitGraphCallbacks(ctx context.Context, _ string, _ ...compose.Option) context.Context {
	panic("harness: white-box group not built")
}

func wbInitNodeCallbacks(ctx context.Context, _, _ string, _ ...compose.Option) context.Context {
	panic("harness: white-box group not built")
}

func wbPeek(context.Context) ([]callbacks.Handler, []callbacks.Handler, *callbacks.RunInfo, bool) {
	panic("harness: white-box group not built")
}
