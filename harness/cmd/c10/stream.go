package main

import (
	"context"
	"fmt"
	"io"
	"strings"
	"time"

	"github.com/cloudwego/eino/callbacks"
	"github.com/cloudwego/eino/schema"

	"verif/harness/lib"
)

// ---------------------------------------------------------------- stream payload cases
//
// One stream payload is handed to NH handlers and to the flow through the public
// callbacks.OnStartWithStreamInput / OnEndWithStreamOutput (internal OnWithStreamHandle:
// cpy(NH+1)). The handlers only keep the reader they are given; afterwards the harness runs
// a script of recv / close actions over the NH+1 readers in one goroutine, in the given
// global order, so the implementation side is deterministic and comparable action by action
// with the model (Model/CallbacksStream.v: received_all). Reader k is the k-th invoked
// handler's copy, reader NH is the flow's.

type SAct struct {
	R  int    `json:"r"`
	Op string `json:"op"` // recv | close
}

type streamObs struct {
	Class    string  `json:"class"`
	Detail   string  `json:"detail,omitempty"`
	Received [][]int `json:"received"`
	Closed   *bool   `json:"closed,omitempty"` // pipe source: was the source closed by the parent at the end
	Order    []int   `json:"order"`            // handler ids in invocation order
}

// stashH keeps the reader it is handed.
type stashH struct {
	id    int
	stash *[]func() (int, error)
	close *[]func()
	order *[]int
}

func (h *stashH) OnStart(ctx context.Context, _ *callbacks.RunInfo, _ callbacks.CallbackInput) context.Context {
	return ctx
}
func (h *stashH) OnEnd(ctx context.Context, _ *callbacks.RunInfo, _ callbacks.CallbackOutput) context.Context {
	return ctx
}
func (h *stashH) OnError(ctx context.Context, _ *callbacks.RunInfo, _ error) context.Context {
	return ctx
}
func (h *stashH) keep(recv func() (any, error), cl func()) {
	*h.stash = append(*h.stash, func() (int, error) {
		x, err := recv()
		if err != nil {
			return 0, err
		}
		n, ok := x.(int)
		if !ok {
			return -1, nil
		}
		return n, nil
	})
	*h.close = append(*h.close, cl)
	*h.order = append(*h.order, h.id)
}
func (h *stashH) OnStartWithStreamInput(ctx context.Context, _ *callbacks.RunInfo, in *schema.StreamReader[callbacks.CallbackInput]) context.Context {
	h.keep(func() (any, error) { return in.Recv() }, in.Close)
	return ctx
}
func (h *stashH) OnEndWithStreamOutput(ctx context.Context, _ *callbacks.RunInfo, out *schema.StreamReader[callbacks.CallbackOutput]) context.Context {
	h.keep(func() (any, error) { return out.Recv() }, out.Close)
	return ctx
}

func genStream(r *lib.Rng, tier string) *Case {
	c := &Case{Kind: "stream"}
	c.NH = []int{0, 1, 1, 2, 2, 2, 3, 4}[r.Intn(8)]
	c.Src = r.Intn(6)
	c.Pipe = r.Chance(2, 3)
	c.T = 3 + r.Intn(2)
	if r.Chance(1, 5) {
		c.Globals = []int{1}
		c.GlobalsVia = "init"
	}
	n := c.NH + len(c.Globals) + 1
	closed := make([]bool, n)
	maxA := 14
	if tier == "thorough" {
		maxA = 30
	}
	nA := r.Range(n, maxA)
	for i := 0; i < nA; i++ {
		k := r.Intn(n)
		if closed[k] {
			// closing a copy twice is allowed (parentStreamReader.close); without handlers the
			// flow keeps the caller's own reader, whose double close is the caller's business
			if n >= 2 && r.Chance(1, 6) {
				c.Acts = append(c.Acts, SAct{R: k, Op: "close"})
			}
			continue
		}
		if r.Chance(1, 5) {
			c.Acts = append(c.Acts, SAct{R: k, Op: "close"})
			closed[k] = true
		} else {
			c.Acts = append(c.Acts, SAct{R: k, Op: "recv"})
		}
	}
	// most cases end with everybody closed (the parent then closes the source)
	if r.Chance(3, 4) {
		for _, k := range r.Perm(n) {
			if !closed[k] {
				c.Acts = append(c.Acts, SAct{R: k, Op: "close"})
			}
		}
	}
	return c
}

func runStream(c *Case) lib.Result {
	obs := &streamObs{Class: "ok"}
	res := lib.Result{Obs: obs}
	var oracle []string
	fail := func(f string, a ...any) {
		if len(oracle) < 6 {
			oracle = append(oracle, fmt.Sprintf(f, a...))
		}
	}
	var recvs []func() (int, error)
	var closes []func()
	var order []int
	n := c.NH + len(c.Globals) + 1
	class, detail := watchdog(20*time.Second, func() {
		hs := map[int]callbacks.Handler{}
		var local []callbacks.Handler
		for i := 1; i <= c.NH+len(c.Globals); i++ {
			hs[i] = &stashH{id: i, stash: &recvs, close: &closes, order: &order}
		}
		callbacks.InitCallbackHandlers(nil)
		if len(c.Globals) > 0 {
			// handler 1 is the global one, the others are passed to InitCallbacks
			callbacks.InitCallbackHandlers([]callbacks.Handler{hs[1]})
		}
		defer callbacks.InitCallbackHandlers(nil)
		for i := 1 + len(c.Globals); i <= c.NH+len(c.Globals); i++ {
			local = append(local, hs[i])
		}
		ctx := callbacks.InitCallbacks(context.Background(), &callbacks.RunInfo{Name: "u1"}, local...)
		items := make([]int, c.Src)
		for i := range items {
			items[i] = i + 1
		}
		var src *schema.StreamReader[int]
		var sw *schema.StreamWriter[int]
		if c.Pipe {
			src, sw = schema.Pipe[int](c.Src + 1)
			for _, x := range items {
				sw.Send(x, nil)
			}
			sw.Close()
		} else {
			src = schema.StreamReaderFromArray(items)
		}
		var flow *schema.StreamReader[int]
		if c.T == 3 {
			_, flow = callbacks.OnStartWithStreamInput(ctx, src)
		} else {
			_, flow = callbacks.OnEndWithStreamOutput(ctx, src)
		}
		if len(recvs) != n-1 {
			fail("%d handlers were handed a stream copy, want %d", len(recvs), n-1)
			for len(recvs) < n-1 {
				recvs = append(recvs, func() (int, error) { return 0, io.EOF })
				closes = append(closes, func() {})
			}
		}
		recvs = append(recvs, func() (int, error) { return flow.Recv() })
		closes = append(closes, flow.Close)
		obs.Received = make([][]int, n)
		for i := range obs.Received {
			obs.Received[i] = []int{}
		}
		for _, a := range c.Acts {
			if a.R < 0 || a.R >= n {
				continue
			}
			if a.Op == "close" {
				closes[a.R]()
				continue
			}
			x, err := recvs[a.R]()
			if err == nil {
				obs.Received[a.R] = append(obs.Received[a.R], x)
			} else if err != io.EOF {
				fail("reader %d: recv error %v", a.R, err)
			}
		}
		if c.Pipe {
			// closed source: Send reports it; open source with closed send side: Send panics
			cl := false
			if p := lib.Recover(func() { cl = sw.Send(0, nil) }); p != nil {
				cl = false
			}
			obs.Closed = &cl
		}
	})
	obs.Order = order
	if class != "" {
		obs.Class, obs.Detail = class, detail
		res.Oracle = "stream case " + class + ": " + detail
		res.Sig = "stream-" + class
		res.Tags = []string{"kind:stream", "class:" + class}
		return res
	}

	// ---- direct oracle: every reader sees a prefix of the source determined by its own actions only
	wantOrder := []int{}
	for i := 1; i <= c.NH+len(c.Globals); i++ {
		wantOrder = append(wantOrder, i)
	}
	if c.T == 3 { // start timings: reverse order (locals ++ globals, reversed)
		rev := []int{}
		for i := 1 + len(c.Globals); i <= c.NH+len(c.Globals); i++ {
			rev = append(rev, i)
		}
		for i := 1; i <= len(c.Globals); i++ {
			rev = append(rev, i)
		}
		for i, j := 0, len(rev)-1; i < j; i, j = i+1, j-1 {
			rev[i], rev[j] = rev[j], rev[i]
		}
		wantOrder = rev
	} else {
		o := []int{}
		for i := 1 + len(c.Globals); i <= c.NH+len(c.Globals); i++ {
			o = append(o, i)
		}
		for i := 1; i <= len(c.Globals); i++ {
			o = append(o, i)
		}
		wantOrder = o
	}
	if fmt.Sprint(order) != fmt.Sprint(wantOrder) {
		fail("handlers invoked in order %v, want %v", order, wantOrder)
	}
	allClosed := true
	for k := 0; k < n; k++ {
		cnt, cl := 0, false
		for _, a := range c.Acts {
			if a.R != k {
				continue
			}
			if a.Op == "close" {
				cl = true
			} else if !cl && cnt < c.Src {
				cnt++
			}
		}
		if !cl {
			allClosed = false
		}
		want := []int{}
		for i := 1; i <= cnt; i++ {
			want = append(want, i)
		}
		if fmt.Sprint(obs.Received[k]) != fmt.Sprint(want) {
			fail("reader %d received %v, its own actions ask for %v (whatever the other readers did)", k, obs.Received[k], want)
		}
	}
	if obs.Closed != nil && *obs.Closed != allClosed {
		fail("source closed = %v, all readers closed = %v", *obs.Closed, allClosed)
	}
	if len(oracle) > 0 {
		res.Oracle = strings.Join(oracle, " | ")
		res.Sig = "stream-copies"
	}

	// ---- Gallina term
	var acts []string
	nClose, nRecv := 0, 0
	for _, a := range c.Acts {
		if a.Op == "close" {
			acts = append(acts, fmt.Sprintf("CClose %d", a.R))
			nClose++
		} else {
			acts = append(acts, fmt.Sprintf("CRecv %d", a.R))
			nRecv++
		}
	}
	src := make([]int, c.Src)
	for i := range src {
		src[i] = i + 1
	}
	closed := "None"
	if obs.Closed != nil {
		closed = fmt.Sprintf("(Some %s)", lib.CoqBool(*obs.Closed))
	}
	var locals []int
	for i := 1 + len(c.Globals); i <= c.NH+len(c.Globals); i++ {
		locals = append(locals, i)
	}
	res.CoqTerm = fmt.Sprintf("CaseStream %s %s %s %s\n  %s [%s]%%nat\n  %s %s", nlist(c.Globals), nlist(locals),
		timingName[c.T], nlist(order), nlist(src), strings.Join(acts, "; "), nlistlist(obs.Received), closed)
	res.Nontrivial = n >= 2 && c.Src >= 1 && nRecv >= 2
	src0 := "array"
	if c.Pipe {
		src0 = "pipe"
	}
	res.Tags = []string{"kind:stream", fmt.Sprintf("stream-readers:%d", n), "stream-src:" + src0,
		fmt.Sprintf("stream-timing:%d", c.T), fmt.Sprintf("stream-allclosed:%v", allClosed), "class:ok"}
	return res
}
