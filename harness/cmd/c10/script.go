package main

import (
	"context"
	"errors"
	"fmt"
	"io"
	"strings"
	"time"

	"github.com/cloudwego/eino/callbacks"
	"github.com/cloudwego/eino/compose"
	"github.com/cloudwego/eino/schema"

	"verif/harness/lib"
)

// ---------------------------------------------------------------- generator

func genHandlers(r *lib.Rng, n int) []HSpec {
	hs := make([]HSpec, n)
	for i := range hs {
		h := HSpec{ID: i + 1}
		switch r.Intn(10) {
		case 0, 1: // a TimingChecker that wants a random subset
			h.Checker = true
			for t := 0; t < 5; t++ {
				if r.Chance(1, 2) {
					h.Needs = append(h.Needs, t)
				}
			}
			h.Builder = r.Chance(1, 2)
		case 2: // a TimingChecker that wants everything
			h.Checker = true
			h.Needs = []int{0, 1, 2, 3, 4}
			h.Builder = r.Chance(1, 3)
		}
		switch r.Intn(8) {
		case 0:
			h.Stream = 1
		case 1:
			h.Stream = 2
		}
		hs[i] = h
	}
	return hs
}

func pickSome(r *lib.Rng, n, lo, hi int) []int {
	k := r.Range(lo, hi)
	out := make([]int, 0, k)
	for i := 0; i < k; i++ {
		out = append(out, 1+r.Intn(n))
	}
	return out
}

func genScript(r *lib.Rng, tier string) *Case {
	nH := r.Range(3, 8)
	c := &Case{Kind: "script", Handlers: genHandlers(r, nH)}
	if r.Chance(1, 2) {
		c.Globals = pickDistinct(r, nH, r.Range(1, 2))
		c.GlobalsVia = []string{"init", "append"}[r.Intn(2)]
	}
	maxOps := 14
	if tier == "thorough" {
		maxOps = 30
	}
	nOps := r.Range(5, maxOps)
	c.OptSpare = []int{0, 1, 1, 2, 3}[r.Intn(5)]
	// root: a manager with chosen offset / len / cap (len <= 5, cap <= 8)
	l := r.Range(0, 5)
	root := SOp{Op: "raw", New: 0, Inf: 100, Off: r.Intn(3), Hs: pickSome(r, nH, l, l), Spare: r.Intn(9 - l)}
	if r.Chance(1, 8) { // or what a graph call builds from its options
		p := (*int)(nil)
		root = SOp{Op: "append", Parent: p, New: 0, Inf: 100, Opts: genOptLists(r, nH, r.Range(0, 5)), Via: "graph"}
	}
	c.Ops = append(c.Ops, root)
	units := []int{0}
	next := 1
	pool := append([][]int{}, root.Opts...) // option handler lists in use
	// units whose manager holds a slice of the caller (raw units and their aliases): unit -> len
	rawLen := map[int]int{}
	var rawUnits []int
	if root.Op == "raw" {
		rawLen[0] = len(root.Hs)
		rawUnits = append(rawUnits, 0)
	}
	for len(c.Ops) < nOps {
		switch x := r.Intn(10); {
		case x < 4 && len(units) < 9: // a new unit derived from an existing one
			p := units[r.Intn(len(units))]
			if r.Chance(1, 2) {
				p = 0 // siblings of one parent are what aliasing needs
			}
			op := SOp{Op: "append", Parent: &p, New: next, Inf: 100 + next,
				Opts: genOptLists(r, nH, r.Intn(3)), Via: []string{"node", "node", "direct", "graph"}[r.Intn(4)]}
			if r.Chance(1, 5) {
				// on a context without manager (a node of a graph called without graph-wide handlers, a
				// top-level call): InitCallbacks keeps the list it is handed
				op.Parent = nil
				op.Opts = genOptLists(r, nH, r.Range(1, 3))
			}
			if len(op.Opts) > 0 && len(pool) > 0 && r.Chance(1, 2) {
				// the option another unit has already been given (one call option serves several nodes)
				op.Opts[0] = pool[r.Intn(len(pool))]
			}
			pool = append(pool, op.Opts...)
			c.Ops = append(c.Ops, op)
			units = append(units, next)
			next++
		case x == 4 && len(units) < 9:
			p := units[r.Intn(len(units))]
			c.Ops = append(c.Ops, SOp{Op: "reuse", Parent: &p, New: next, Inf: 100 + next})
			units = append(units, next)
			next++
		case x == 5 && len(units) < 9 && r.Chance(2, 3):
			l := r.Range(0, 4)
			op := SOp{Op: "raw", New: next, Inf: 100 + next, Off: r.Intn(3)}
			if r.Chance(1, 2) {
				// user code (a node body, a tool) calls the public InitCallbacks on the context it was handed,
				// i.e. on one that already carries handlers and a run info: both are overwritten - with an
				// empty list and no global handlers the result carries nothing at all (a component run
				// under it is reported to nobody)
				p := units[r.Intn(len(units))]
				op.Over = &p
				if r.Chance(2, 3) {
					l = 0
				}
			}
			op.Hs, op.Spare = pickSome(r, nH, l, l), r.Intn(5)
			c.Ops = append(c.Ops, op)
			rawLen[next] = l
			rawUnits = append(rawUnits, next)
			units = append(units, next)
			next++
		case x == 6 && len(units) < 9 && len(rawUnits) > 0:
			// the caller passes an overlapping part of a slice it already passed: both managers
			// share one backing array, the new one's spare capacity covers elements of the old
			src := rawUnits[r.Intn(len(rawUnits))]
			l := rawLen[src]
			if l+len(c.Globals) == 0 {
				continue
			}
			hi := r.Range(0, l)
			if l > 0 && r.Chance(1, 2) {
				hi = l - 1
			}
			lo := 0
			if hi > 0 && r.Chance(1, 3) {
				lo = r.Range(0, hi)
			}
			op := SOp{Op: "alias", Parent: &src, New: next, Inf: 100 + next, Lo: lo, Hi: hi}
			if r.Chance(1, 3) {
				p := units[r.Intn(len(units))]
				op.Over = &p
			}
			c.Ops = append(c.Ops, op)
			rawLen[next] = hi - lo
			rawUnits = append(rawUnits, next)
			units = append(units, next)
			next++
		default:
			t := r.Intn(5)
			if r.Chance(1, 2) {
				t = r.Intn(2) // start / end dominate
			}
			c.Ops = append(c.Ops, SOp{Op: "on", U: units[r.Intn(len(units))], T: t})
		}
	}
	// every unit is observed once more at the end ("at any later time")
	for _, u := range units {
		c.Ops = append(c.Ops, SOp{Op: "on", U: u, T: 1})
	}
	return c
}

func genOptLists(r *lib.Rng, nH, n int) [][]int {
	out := make([][]int, n)
	for i := range out {
		out[i] = pickSome(r, nH, 1, 1)
		if r.Chance(1, 5) {
			out[i] = pickSome(r, nH, 2, 3)
		}
	}
	return out
}

func pickDistinct(r *lib.Rng, n, k int) []int {
	p := r.Perm(n)
	if k > n {
		k = n
	}
	out := make([]int, k)
	for i := range out {
		out[i] = p[i] + 1
	}
	return out
}

// ---------------------------------------------------------------- runner

type scriptObs struct {
	Class  string         `json:"class"` // ok | panic | hang
	Detail string         `json:"detail,omitempty"`
	Events []*evt         `json:"events"`
	Final  map[int][]int  `json:"final"`
	Spec   map[int][]int  `json:"-"`
	Caps   map[int][2]int `json:"caps,omitempty"` // len, cap of every unit's slice at the end (not compared)
}

func runScript(c *Case) lib.Result {
	if !whiteboxAvailable {
		// built without the white-box group (the hooks do not compile against this tree): not run,
		// not sent to the model
		return lib.Result{Obs: &scriptObs{Class: "skipped"}, Tags: []string{"kind:script", "whitebox:unavailable"}}
	}
	s := &sink{}
	hs := makeHandlers(c.Handlers, s)
	specs := map[int]HSpec{}
	for _, sp := range c.Handlers {
		specs[sp.ID] = sp
	}
	obs := &scriptObs{Class: "ok", Final: map[int][]int{}, Caps: map[int][2]int{}}
	var oracle []string
	fail := func(f string, a ...any) { oracle = append(oracle, fmt.Sprintf(f, a...)) }

	type rawSlice struct {
		back     []callbacks.Handler
		off, len int
	}
	raws := map[int]rawSlice{} // the caller's slice behind a raw / alias unit
	ctxs := map[int]context.Context{}
	spec := map[int][]int{}  // the property's reading: inherited ++ designated, fixed at creation
	hasMgr := map[int]bool{} // a manager exists (some handler or some global)
	infOf := map[int]int{}   // run info id of the unit
	var order []int
	toH := func(ids []int) []callbacks.Handler {
		out := make([]callbacks.Handler, len(ids))
		for i, id := range ids {
			out[i] = hs[id]
		}
		return out
	}
	info := func(i int) *callbacks.RunInfo { return &callbacks.RunInfo{Name: fmt.Sprintf("u%d", i)} }

	// the context a raw / alias unit is initialised on: a fresh one, or the context of an earlier unit (InitCallbacks
	// overwrites whatever run info and handlers that one carries: the model's ORaw / OAlias do not depend on it)
	nOver, nDetached := 0, 0
	baseCtx := func(op SOp) context.Context {
		if op.Over == nil {
			return context.Background()
		}
		nOver++
		if hasMgr[*op.Over] && len(op.Hs)+len(c.Globals) == 0 && op.Op == "raw" {
			nDetached++
		}
		return ctxs[*op.Over]
	}
	optPool := map[string]callerSlice{}
	class, detail := watchdog(20*time.Second, func() {
		installGlobals(c, hs)
		defer callbacks.InitCallbackHandlers(nil)
		// the handler slice behind WithCallbacks(list...): one slice per distinct list, with spare
		// capacity (a caller that built it with append and passes the same option to several nodes)
		optSlice := func(ids []int) []callbacks.Handler {
			k := fmt.Sprint(ids)
			if cs, ok := optPool[k]; ok {
				return cs.sl
			}
			sl := make([]callbacks.Handler, len(ids), len(ids)+c.OptSpare)
			copy(sl, toH(ids))
			optPool[k] = callerSlice{sl, append([]int(nil), ids...)}
			return sl
		}
		for opIdx, op := range c.Ops {
			pay := fmt.Sprintf("p%d|", opIdx+1) // the payload of this operation (On): identifies the call
			switch op.Op {
			case "raw":
				back := make([]callbacks.Handler, op.Off+len(op.Hs)+op.Spare)
				copy(back[op.Off:], toH(op.Hs))
				sl := back[op.Off : op.Off+len(op.Hs) : op.Off+len(op.Hs)+op.Spare]
				ctxs[op.New] = callbacks.InitCallbacks(baseCtx(op), info(op.Inf), sl...)
				raws[op.New] = rawSlice{back, op.Off, len(op.Hs)}
				spec[op.New] = append([]int(nil), op.Hs...)
				hasMgr[op.New] = len(op.Hs)+len(c.Globals) > 0
				infOf[op.New] = op.Inf
				order = append(order, op.New)
			case "alias":
				rs, ok := raws[*op.Parent]
				if !ok || op.Lo > op.Hi || op.Hi > rs.len {
					panic("harness: bad alias op")
				}
				sl := rs.back[rs.off+op.Lo : rs.off+op.Hi] // capacity reaches to the end of the caller's array
				ctxs[op.New] = callbacks.InitCallbacks(baseCtx(op), info(op.Inf), sl...)
				raws[op.New] = rawSlice{rs.back, rs.off + op.Lo, op.Hi - op.Lo}
				spec[op.New] = append([]int(nil), spec[*op.Parent][op.Lo:op.Hi]...)
				hasMgr[op.New] = len(spec[op.New])+len(c.Globals) > 0
				infOf[op.New] = op.Inf
				order = append(order, op.New)
			case "append":
				pctx := context.Background()
				var inherited []int
				if op.Parent != nil {
					pctx = ctxs[*op.Parent]
					inherited = spec[*op.Parent]
				}
				var flat []int
				for _, o := range op.Opts {
					flat = append(flat, o...)
				}
				name := fmt.Sprintf("u%d", op.Inf)
				switch op.Via {
				case "direct":
					ctxs[op.New] = wbAppendHandlers(pctx, info(op.Inf), toH(flat)...)
				case "graph":
					var opts []compose.Option
					for _, o := range op.Opts {
						opts = append(opts, compose.WithCallbacks(optSlice(o)...))
					}
					// an option designated elsewhere must be ignored by initGraphCallbacks
					opts = append(opts, compose.WithCallbacks(toH([]int{1})...).DesignateNode("elsewhere"))
					ctxs[op.New] = wbInitGraphCallbacks(pctx, name, opts...)
				default:
					key := fmt.Sprintf("k%d", op.New)
					var opts []compose.Option
					for i, o := range op.Opts {
						// the node's key stands alone, among the keys of other nodes, behind / before a path
						// into a sub graph: the option is for this node in every case
						wc := compose.WithCallbacks(optSlice(o)...)
						deeper := compose.NewNodePath("elsewhere", "deeper")
						switch (opIdx + i) % 5 {
						case 0:
							wc = wc.DesignateNode(key)
						case 1:
							wc = wc.DesignateNodeWithPath(deeper, compose.NewNodePath(key))
						case 2:
							wc = wc.DesignateNode("elsewhere", key, "other")
						case 3:
							wc = wc.DesignateNodeWithPath(compose.NewNodePath(key), deeper)
						default:
							wc = wc.DesignateNodeWithPath(compose.NewNodePath(key, "deeper"), compose.NewNodePath("elsewhere"), compose.NewNodePath(key))
						}
						opts = append(opts, wc)
					}
					// undesignated options and options for other nodes must be ignored by initNodeCallbacks
					opts = append(opts, compose.WithCallbacks(toH([]int{1})...),
						compose.WithCallbacks(toH([]int{1})...).DesignateNode("elsewhere"),
						compose.WithCallbacks(toH([]int{1})...).DesignateNodeWithPath(compose.NewNodePath(key, "deeper")))
					ctxs[op.New] = wbInitNodeCallbacks(pctx, key, name, opts...)
				}
				spec[op.New] = append(append([]int(nil), inherited...), flat...)
				hasMgr[op.New] = len(spec[op.New])+len(c.Globals) > 0
				infOf[op.New] = op.Inf
				order = append(order, op.New)
			case "reuse":
				ctxs[op.New] = callbacks.ReuseHandlers(ctxs[*op.Parent], info(op.Inf))
				spec[op.New] = append([]int(nil), spec[*op.Parent]...)
				hasMgr[op.New] = hasMgr[*op.Parent]
				infOf[op.New] = op.Inf
				order = append(order, op.New)
			case "on":
				s.mu.Lock()
				s.curU = op.U
				before := len(s.evts)
				s.mu.Unlock()
				ctx := ctxs[op.U]
				switch op.T {
				case 0:
					callbacks.OnStart(ctx, pay)
				case 1:
					callbacks.OnEnd(ctx, pay)
				case 2:
					callbacks.OnError(ctx, errors.New("payload:"+pay))
				case 3, 4:
					sr := schema.StreamReaderFromArray([]string{pay, "b", "c"})
					var nsr *schema.StreamReader[string]
					if op.T == 3 {
						_, nsr = callbacks.OnStartWithStreamInput(ctx, sr)
					} else {
						_, nsr = callbacks.OnEndWithStreamOutput(ctx, sr)
					}
					var b strings.Builder
					for {
						x, err := nsr.Recv()
						if err != nil {
							if err != io.EOF {
								b.WriteString("<err>")
							}
							break
						}
						b.WriteString(x)
					}
					nsr.Close()
					if b.String() != pay+"bc" {
						fail("stream payload: the flow's copy reads %q after the handlers got theirs, want %q", b.String(), pay+"bc")
					}
					if !waitPending(s, 5*time.Second) {
						fail("a handler's copy of the stream never ended")
					}
				}
				// direct oracle for this invocation: exactly the unit's own list (fixed at its
				// creation) followed by the global handlers, filtered by timing, start reversed
				var want []int
				if hasMgr[op.U] {
					for _, id := range append(append([]int(nil), spec[op.U]...), c.Globals...) {
						if needsT(specs[id], op.T) {
							want = append(want, id)
						}
					}
					if op.T == 0 || op.T == 3 {
						for i, j := 0, len(want)-1; i < j; i, j = i+1, j-1 {
							want[i], want[j] = want[j], want[i]
						}
					}
				}
				s.mu.Lock()
				got := s.evts[before:]
				var gotIDs []int
				for _, e := range got {
					gotIDs = append(gotIDs, e.H)
					if e.T != op.T {
						fail("unit %d: handler %d invoked with timing %d during On(timing %d)", op.U, e.H, e.T, op.T)
					}
					if e.Name != fmt.Sprintf("u%d", infOf[op.U]) {
						fail("unit %d: handler %d got run info %q, want u%d", op.U, e.H, e.Name, infOf[op.U])
					}
					if (op.T == 3 || op.T == 4) && e.Full && e.Payload != pay+"bc" {
						fail("unit %d: handler %d read %q from its copy, want %q", op.U, e.H, e.Payload, pay+"bc")
					}
					if op.T <= 2 && strings.TrimPrefix(e.Payload, "payload:") != pay {
						fail("unit %d: handler %d was handed the payload %q, On was called with %q", op.U, e.H, e.Payload, pay)
					}
				}
				s.mu.Unlock()
				if fmt.Sprint(gotIDs) != fmt.Sprint(want) {
					fail("unit %d timing %d: handlers invoked %v, want %v (its list at creation %v ++ globals %v)",
						op.U, op.T, gotIDs, want, spec[op.U], c.Globals)
				}
			}
		}
		for _, u := range order {
			hl, _, _, ok := wbPeek(ctxs[u])
			ids := []int{}
			if ok {
				for _, h := range hl {
					ids = append(ids, handlerID(h))
				}
				obs.Caps[u] = [2]int{len(hl), cap(hl)}
			}
			obs.Final[u] = ids
			if ok != hasMgr[u] {
				fail("unit %d: manager present = %v, want %v", u, ok, hasMgr[u])
			}
			if fmt.Sprint(ids) != fmt.Sprint(append([]int{}, spec[u]...)) {
				fail("unit %d: handler list at the end of the script %v differs from inherited ++ designated at its creation %v",
					u, ids, spec[u])
			}
		}
	})
	s.mu.Lock()
	obs.Events = append([]*evt(nil), s.evts...)
	s.mu.Unlock()
	res := lib.Result{Obs: obs}
	if class != "" {
		obs.Class, obs.Detail = class, detail
		res.Oracle = "script " + class + ": " + detail
		res.Sig = "script-" + class
		res.Tags = []string{"kind:script", "class:" + class}
		return res
	}
	if len(oracle) > 0 {
		res.Oracle = strings.Join(oracle, " | ")
		res.Sig = "script-list"
		if strings.Contains(res.Oracle, "stream") {
			res.Sig = "script-stream"
		}
	}

	// Gallina term
	var ops []string
	nAppend, nAlias, spare, sib := 0, 0, false, map[int]int{}
	for _, op := range c.Ops {
		switch op.Op {
		case "raw":
			ops = append(ops, fmt.Sprintf("ORaw %d %d %d%%nat %s %d%%nat", op.New, op.Inf, op.Off, nlist(op.Hs), op.Spare))
			if op.Spare > 0 {
				spare = true
			}
		case "append":
			p := "None"
			if op.Parent != nil {
				p = fmt.Sprintf("(Some %d)", *op.Parent)
				sib[*op.Parent]++
			}
			ops = append(ops, fmt.Sprintf("OAppend %s %d %d %s", p, op.New, op.Inf, nlistlist(op.Opts)))
			nAppend++
			if len(op.Opts) >= 3 {
				spare = true
			}
		case "reuse":
			ops = append(ops, fmt.Sprintf("OReuse %d %d %d", *op.Parent, op.New, op.Inf))
		case "alias":
			ops = append(ops, fmt.Sprintf("OAlias %d %d %d %d%%nat %d%%nat", *op.Parent, op.New, op.Inf, op.Lo, op.Hi))
			nAlias++
		case "on":
			ops = append(ops, fmt.Sprintf("OOn %d %s", op.U, timingName[op.T]))
		}
	}
	var evs, pays []string
	for _, e := range obs.Events {
		evs = append(evs, fmt.Sprintf("(%d, %d, %d, %d)", e.U, e.H, e.T, parseInfo(e.Name)))
		// which On call's payload the handler was handed (0: a stream copy it did not read to the end)
		id := 0
		if e.Full || e.T <= 2 {
			var k int
			if _, err := fmt.Sscanf(strings.TrimPrefix(e.Payload, "payload:"), "p%d|", &k); err == nil {
				id = k
			} else {
				id = 999999
			}
		}
		pays = append(pays, fmt.Sprint(id))
	}
	var fin []string
	for _, u := range order {
		fin = append(fin, fmt.Sprintf("(%d, %s)", u, nlist(obs.Final[u])))
	}
	res.CoqTerm = fmt.Sprintf("CaseScript %s %s\n  [%s]\n  [%s]\n  [%s]\n  [%s]", nlist(c.Globals), coqNeeds(c.Handlers),
		strings.Join(ops, "; "), strings.Join(evs, "; "), strings.Join(pays, "; "), strings.Join(fin, "; "))
	maxSib := 0
	for _, n := range sib {
		if n > maxSib {
			maxSib = n
		}
	}
	// the caller's arrays are inspected too: nothing may be written behind the caller's back
	for _, u := range order {
		rs, ok := raws[u]
		if !ok {
			continue
		}
		for i := 0; i < rs.len; i++ {
			if got := handlerID(rs.back[rs.off+i]); got != spec[u][i] {
				res.Oracle = strings.TrimPrefix(res.Oracle+" | ", " | ") + fmt.Sprintf("unit %d: element %d of the slice the caller passed was overwritten: handler %d, want %d", u, i, got, spec[u][i])
				res.Sig = "script-list"
			}
		}
	}
	for _, cs := range optPool {
		if what := cs.changed(); what != "" {
			res.Oracle = strings.TrimPrefix(res.Oracle+" | ", " | ") + fmt.Sprintf("the handler slice the caller passed to WithCallbacks(%v...) %s", cs.ids, what)
			res.Sig = "script-list"
		}
	}
	res.Nontrivial = (maxSib >= 2 && spare) || nAlias > 0
	res.Tags = []string{"kind:script", fmt.Sprintf("script-appends:%d", nAppend), fmt.Sprintf("script-globals:%d", len(c.Globals)),
		fmt.Sprintf("script-siblings:%d", maxSib), fmt.Sprintf("script-spare:%v", spare), fmt.Sprintf("script-alias:%d", nAlias),
		fmt.Sprintf("script-init-over:%d", nOver), fmt.Sprintf("script-detached:%v", nDetached > 0), "class:ok"}
	return res
}

// parseInfo maps the run-info name "u<n>" back to the model's info id; anything else is a
// visible mismatch.
func parseInfo(name string) int {
	var n int
	if _, err := fmt.Sscanf(name, "u%d", &n); err != nil || fmt.Sprintf("u%d", n) != name {
		return 999999
	}
	return n
}
