// Engine C10 — callback handlers fire exactly once per execution unit, paired, for the
// right node (internal/callbacks, compose/utils.go, graph_run.go, runnable.go).
//
// Two kinds of cases:
//
//	script (white box, this file + script.go): a manager with chosen offset/len/cap of its
//	  handler slice, then a random sequence of AppendHandlers (through initNodeCallbacks /
//	  initGraphCallbacks with real compose options, or directly), ReuseHandlers and On
//	  (through the public callbacks.OnStart .. OnEndWithStreamOutput) by 2-4 simulated
//	  units; observed: every handler invocation in order and every unit's handler list at
//	  the end.
//	stream (stream.go): one stream payload handed to 0-4 handlers and the flow through the
//	  public OnStartWithStreamInput / OnEndWithStreamOutput, then a script of recv / close
//	  actions over all readers; observed: what every reader received, whether the source
//	  was closed.
//	graph (black box, graph.go): layered graphs (chains, parallel fan-out/fan-in, nested
//	  graphs) run through the public API in all four paradigms with recording handlers
//	  supplied globally, in 1-5 WithCallbacks options, designated to nodes and node paths;
//	  observed: multiset of (handler, timing, run-info name).
package main

import (
	"context"
	"encoding/json"
	"errors"
	"fmt"
	"io"
	"os"
	"sort"
	"strconv"
	"strings"
	"sync"
	"syscall"
	"time"

	"github.com/cloudwego/eino/callbacks"
	"github.com/cloudwego/eino/compose"
	"github.com/cloudwego/eino/schema"

	"verif/harness/lib"
)

// ---------------------------------------------------------------- case types

// HSpec describes one recording handler.
type HSpec struct {
	ID      int   `json:"id"`
	Checker bool  `json:"checker,omitempty"` // implements callbacks.TimingChecker
	Needs   []int `json:"needs,omitempty"`   // timing codes it asks for (when Checker)
	Stream  int   `json:"stream,omitempty"`  // stream payloads: 0 read all, 1 close at once, 2 read one chunk then close
	Builder bool  `json:"builder,omitempty"` // (with Checker) made with callbacks.NewHandlerBuilder(): a function for exactly the timings in Needs
}

// SOp is one operation of a white-box script.
type SOp struct {
	Op     string  `json:"op"`               // raw | append | reuse | on | alias
	Parent *int    `json:"parent,omitempty"` // append: nil = a context without manager
	Over   *int    `json:"over,omitempty"`   // raw / alias: InitCallbacks is called on the context of that unit (nil = a fresh context)
	New    int     `json:"new,omitempty"`
	Inf    int     `json:"inf,omitempty"`
	Off    int     `json:"off,omitempty"`   // raw: offset of the slice in its backing array
	Hs     []int   `json:"hs,omitempty"`    // raw: handlers
	Spare  int     `json:"spare,omitempty"` // raw: cap - len
	Opts   [][]int `json:"opts,omitempty"`  // append: handler lists of the matching options
	Via    string  `json:"via,omitempty"`   // append: node | graph | direct
	Lo     int     `json:"lo,omitempty"`    // alias: the new unit is made from s[lo:hi] of the slice the caller passed for Parent
	Hi     int     `json:"hi,omitempty"`
	U      int     `json:"u,omitempty"` // on: unit
	T      int     `json:"t,omitempty"` // on: timing code
}

// GOpt is one compose.WithCallbacks(hs...) option, possibly designated.
type GOpt struct {
	Hs    []int   `json:"hs"`
	Paths [][]int `json:"paths,omitempty"`
}

// GNode is one node of a layered graph.
type GNode struct {
	UID      int        `json:"uid"`
	Key      int        `json:"key"`
	Kind     string     `json:"kind"`             // lambda | pass | sub | tools | stop (a configured interrupt point: a stage of its own, no node)
	Before   []int      `json:"before,omitempty"` // stop: keys of nodes of the next stage named in WithInterruptBeforeNodes of this graph level
	After    []int      `json:"after,omitempty"`  // stop: keys of nodes of the stage before named in WithInterruptAfterNodes
	Natives  int        `json:"natives,omitempty"`
	Fails    bool       `json:"fails,omitempty"`
	Panics   bool       `json:"panics,omitempty"`  // lambda (with Fails): the node fails by panicking; eino contains the panic and reports it as the node\'s error
	Intr     int        `json:"intr,omitempty"`    // lambda: the first Intr executions return compose.InterruptAndRerun
	SelfCB   bool       `json:"selfcb,omitempty"`  // the lambda fires its callbacks itself (WithLambdaCallbackEnable)
	Private  bool       `json:"private,omitempty"` // the lambda's body runs a component of its own that nobody is to be told about: on callbacks.InitCallbacks(ctx, info) without handlers it fires start and end
	DelayUs  int        `json:"delay,omitempty"`
	Chunks   int        `json:"chunks,omitempty"`
	Shared   int        `json:"shared,omitempty"` // >0: nodes with the same value are the same *Lambda object
	SubDag   bool       `json:"subdag,omitempty"`
	Stages   [][]*GNode `json:"stages,omitempty"`
	Typed    string     `json:"typed,omitempty"`    // sub: "tools" = conversion lambda, ToolsNode, conversion lambda
	Conv     bool       `json:"conv,omitempty"`     // lambda: a conversion lambda of a tools sub graph
	Calls    []*GCall   `json:"calls,omitempty"`    // tools: the tool calls of the message
	ToolList bool       `json:"toollist,omitempty"` // tools: configured with a placeholder, the real tool list is a call option (compose.WithToolList)
}

type Case struct {
	Kind       string  `json:"kind"` // script | graph
	Globals    []int   `json:"globals,omitempty"`
	GlobalsVia string  `json:"globals_via,omitempty"` // init | append
	Handlers   []HSpec `json:"handlers"`
	// script
	Ops      []SOp `json:"ops,omitempty"`
	OptSpare int   `json:"opt_spare,omitempty"` // spare capacity of the handler slices the caller passes to WithCallbacks; equal lists are one slice
	// graph
	Opts     []GOpt     `json:"opts,omitempty"`
	Opts2    []GOpt     `json:"opts2,omitempty"`     // the call options of the runs that resume an interrupted run (when HasOpts2)
	HasOpts2 bool       `json:"has_opts2,omitempty"` // false: every run of the sequence is called with Opts
	Paradigm string     `json:"paradigm,omitempty"`  // invoke | stream | collect | transform
	Dag      bool       `json:"dag,omitempty"`
	Chain    bool       `json:"chain,omitempty"` // the top level is built with compose.NewChain (AppendLambda / AppendParallel / AppendGraph / AppendPassthrough)
	Stages   [][]*GNode `json:"stages,omitempty"`
	InChunks int        `json:"in_chunks,omitempty"`
	Store    bool       `json:"store,omitempty"` // compiled with a checkpoint store, called with a checkpoint id; an interrupted run is resumed until it ends
	Eager    bool       `json:"eager,omitempty"` // every graph level is built with compose.NewWorkflow (eager task collection)
	// a call that resumes an interrupted run fails in the prologue of the run, before anything is restored:
	// "store" = the checkpoint store fails when the checkpoint is read; "stale" = the call is made by a newer
	// build of the graph (same store, same checkpoint id) in which every node that has not completed yet has
	// another key, so the pending tasks of the checkpoint belong to no node; "stale-sub" = the newer build renamed
	// a pending node INSIDE a nested graph that the run before left interrupted: the top-level run restores its
	// tasks, the nested graph - continued from its own checkpoint - cannot (when the sequence has no such nested
	// graph at that point: like "stale"). The FaultAt-th call of the
	// sequence (counted from 0, > 0) is the one; a sequence that does not get that far has no such call.
	ResumeFault string `json:"resume_fault,omitempty"`
	FaultAt     int    `json:"fault_at,omitempty"`
	Seed        uint64 `json:"seed,omitempty"`
	// another call on the SAME compiled object, with handlers of its own (the options of the case in reverse order
	// plus one more for the whole graph, all with handler objects that are passed to that call only): "before" =
	// it is made and has ended before the observed call starts; "during" = the two calls run concurrently (which
	// of them starts first is seeded). No handler of either call may be invoked for a unit of the other.
	Neighbour string `json:"neighbour,omitempty"`
	// stream
	NH   int    `json:"nh,omitempty"`   // number of handlers passed to InitCallbacks
	Src  int    `json:"src,omitempty"`  // number of chunks of the source
	Pipe bool   `json:"pipe,omitempty"` // source is a pipe (copy through a parent reader) / an array
	T    int    `json:"t,omitempty"`    // 3 = OnStartWithStreamInput, 4 = OnEndWithStreamOutput
	Acts []SAct `json:"acts,omitempty"`
}

// ---------------------------------------------------------------- recording handlers

type evt struct {
	U       int    `json:"u"` // script: the unit whose On is running; graph: -1
	H       int    `json:"h"`
	T       int    `json:"t"`
	Name    string `json:"name"`
	Comp    string `json:"comp,omitempty"`
	Type    string `json:"type,omitempty"` // RunInfo.Type: the implementation type of the unit's component
	Payload string `json:"payload,omitempty"`
	Full    bool   `json:"-"` // the payload was read completely
	L       int    `json:"-"` // payload label (graph cases): see lblIn .. lblOther
}

type sink struct {
	mu   sync.Mutex
	evts []*evt
	pend int // handler goroutines still reading their copy of a stream payload
	curU int
	// invocations that crossed from one call to another call on the same compiled graph (see neighbourKey)
	stray []string
	// invocations for a private component a node body runs on a context of its own (see privatePrefix): no unit
	// of the run, not part of the observation; only the process-wide handlers may ever be told about it
	priv []*evt
}

// A node body may run a component of its own behind the scenes: it calls the public
// callbacks.InitCallbacks(ctx, info) WITHOUT handlers on the context it was handed ("any previously set RunInfo and
// Handlers for this ctx will be overwritten") and fires start and end under the result. The handlers that apply to
// the node are not told (they have had / will have the node's own start and end, once each); the run info of the
// private component has a name with this prefix.
const privatePrefix = "private-"

// A graph case may make a second call on the SAME compiled object (before or while the observed call
// runs), with handlers of its own: the "neighbour" call. Its context carries neighbourKey, and eino derives
// every context it hands to node bodies and handlers from the caller's: a handler and a node body can tell
// which of the two calls they are serving. A handler that was passed to one call only must never be
// invoked on a context of the other.
type callTag struct{}

var neighbourKey callTag

func isNeighbour(ctx context.Context) bool { return ctx != nil && ctx.Value(neighbourKey) != nil }

// foreign: the invocation does not belong to the observed call (it is not recorded); counts the ones that
// must not exist at all.
func (r *recH) foreign(ctx context.Context, t int, info *callbacks.RunInfo) bool {
	nb := isNeighbour(ctx)
	if nb == r.shadow {
		return r.shadow // a shadow handler serving the neighbour call: fine, not recorded
	}
	if !r.shadow && r.global {
		return true // a global handler applies to every call of the process
	}
	name := "<nil info>"
	if info != nil {
		name = info.Name
	}
	r.s.mu.Lock()
	if len(r.s.stray) < 4 {
		if r.shadow {
			r.s.stray = append(r.s.stray, fmt.Sprintf("handler %d, passed only to ANOTHER call on the same compiled graph, was invoked (timing %d) for unit %s of this call", r.spec.ID, t, name))
		} else {
			r.s.stray = append(r.s.stray, fmt.Sprintf("handler %d, passed only to this call, was invoked (timing %d) for unit %s of ANOTHER call on the same compiled graph", r.spec.ID, t, name))
		}
	}
	r.s.mu.Unlock()
	return true
}

func (s *sink) add(h, t int, info *callbacks.RunInfo, payload string, full bool) *evt {
	e := &evt{U: s.curU, H: h, T: t, Payload: payload, Full: full}
	if info != nil {
		e.Name, e.Comp, e.Type = info.Name, string(info.Component), info.Type
	} else {
		e.Name = "<nil info>"
	}
	s.mu.Lock()
	if strings.HasPrefix(e.Name, privatePrefix) {
		s.priv = append(s.priv, e)
	} else {
		s.evts = append(s.evts, e)
	}
	s.mu.Unlock()
	return e
}

type recH struct {
	spec   HSpec
	s      *sink
	shadow bool // a handler of the neighbour call (nothing it sees is recorded)
	global bool // installed process-wide
}

func (r *recH) OnStart(ctx context.Context, info *callbacks.RunInfo, in callbacks.CallbackInput) context.Context {
	if r.foreign(ctx, 0, info) {
		return ctx
	}
	r.s.add(r.spec.ID, 0, info, render(in), true)
	return ctx
}
func (r *recH) OnEnd(ctx context.Context, info *callbacks.RunInfo, out callbacks.CallbackOutput) context.Context {
	if r.foreign(ctx, 1, info) {
		return ctx
	}
	r.s.add(r.spec.ID, 1, info, render(out), true)
	return ctx
}
func (r *recH) OnError(ctx context.Context, info *callbacks.RunInfo, err error) context.Context {
	if r.foreign(ctx, 2, info) {
		return ctx
	}
	r.s.add(r.spec.ID, 2, info, errClass(err), true)
	return ctx
}

// errClass: what kind of error a unit ended with
func errClass(err error) string {
	switch {
	case err == nil:
		return "nil"
	case errors.Is(err, compose.InterruptAndRerun) || strings.Contains(err.Error(), "interrupt happened"):
		return "interrupt"
	case errors.Is(err, errNode):
		return "failure"
	case strings.Contains(err.Error(), panicMsg):
		return "panic"
	case strings.HasPrefix(err.Error(), "payload:"):
		return err.Error()
	}
	return "error"
}
func (r *recH) OnStartWithStreamInput(ctx context.Context, info *callbacks.RunInfo, in *schema.StreamReader[callbacks.CallbackInput]) context.Context {
	if r.foreign(ctx, 3, info) {
		in.Close()
		return ctx
	}
	e := r.s.add(r.spec.ID, 3, info, "", false)
	r.consume(e, func() (any, error) { return in.Recv() }, in.Close)
	return ctx
}
func (r *recH) OnEndWithStreamOutput(ctx context.Context, info *callbacks.RunInfo, out *schema.StreamReader[callbacks.CallbackOutput]) context.Context {
	if r.foreign(ctx, 4, info) {
		out.Close()
		return ctx
	}
	e := r.s.add(r.spec.ID, 4, info, "", false)
	r.consume(e, func() (any, error) { return out.Recv() }, out.Close)
	return ctx
}

// consume reads the handler's own copy of a stream payload the way the handler spec says.
func (r *recH) consume(e *evt, recv func() (any, error), closeFn func()) {
	switch r.spec.Stream {
	case 1:
		closeFn()
		return
	}
	r.s.mu.Lock()
	r.s.pend++
	r.s.mu.Unlock()
	go func() {
		defer func() {
			r.s.mu.Lock()
			r.s.pend--
			r.s.mu.Unlock()
		}()
		defer closeFn()
		var chunks []any
		for {
			c, err := recv()
			if err != nil {
				if err == io.EOF {
					p := render(concatChunks(chunks))
					r.s.mu.Lock()
					e.Payload, e.Full = p, true
					r.s.mu.Unlock()
				}
				return
			}
			chunks = append(chunks, c)
			if r.spec.Stream == 2 {
				return
			}
		}
	}()
}

type recHTC struct{ *recH }

func (r recHTC) Needed(_ context.Context, _ *callbacks.RunInfo, timing callbacks.CallbackTiming) bool {
	for _, t := range r.spec.Needs {
		if t == int(timing) {
			return true
		}
	}
	return false
}

// builtBases: handler made by the public builder -> the recording handler behind it
var builtBases sync.Map

func makeHandlers(specs []HSpec, s *sink) map[int]callbacks.Handler {
	m := map[int]callbacks.Handler{}
	for _, sp := range specs {
		base := &recH{spec: sp, s: s}
		if sp.Checker && sp.Builder {
			// the public builder: its handler asks (TimingChecker) for exactly the timings it was given a function for
			hb := callbacks.NewHandlerBuilder()
			if needsT(sp, 0) {
				hb.OnStartFn(base.OnStart)
			}
			if needsT(sp, 1) {
				hb.OnEndFn(base.OnEnd)
			}
			if needsT(sp, 2) {
				hb.OnErrorFn(base.OnError)
			}
			if needsT(sp, 3) {
				hb.OnStartWithStreamInputFn(base.OnStartWithStreamInput)
			}
			if needsT(sp, 4) {
				hb.OnEndWithStreamOutputFn(base.OnEndWithStreamOutput)
			}
			h := hb.Build()
			builtBases.Store(h, base)
			m[sp.ID] = h
		} else if sp.Checker {
			m[sp.ID] = recHTC{base}
		} else {
			m[sp.ID] = base
		}
	}
	return m
}

// baseOf: the recording handler behind a handler value made by makeHandlers
func baseOf(h callbacks.Handler) *recH {
	switch t := h.(type) {
	case *recH:
		return t
	case recHTC:
		return t.recH
	case nil:
		return nil
	}
	if b, ok := builtBases.Load(h); ok {
		return b.(*recH)
	}
	return nil
}

func handlerID(h callbacks.Handler) int {
	switch t := h.(type) {
	case *recH:
		return t.spec.ID
	case recHTC:
		return t.spec.ID
	case nil:
		return 0
	}
	if b := baseOf(h); b != nil {
		return b.spec.ID
	}
	return -1
}

func needsAll(sp HSpec) bool {
	if !sp.Checker {
		return true
	}
	seen := map[int]bool{}
	for _, t := range sp.Needs {
		seen[t] = true
	}
	return len(seen) == 5
}

func needsT(sp HSpec, t int) bool {
	if !sp.Checker {
		return true
	}
	for _, x := range sp.Needs {
		if x == t {
			return true
		}
	}
	return false
}

// installGlobals sets the process-wide handler list through the public API. Cases run one
// after the other and every run is quiescent before the next starts.
func installGlobals(c *Case, hs map[int]callbacks.Handler) {
	callbacks.InitCallbackHandlers(nil)
	if len(c.Globals) == 0 {
		return
	}
	gl := make([]callbacks.Handler, len(c.Globals))
	for i, id := range c.Globals {
		gl[i] = hs[id]
	}
	if c.GlobalsVia == "append" {
		callbacks.AppendGlobalHandlers(gl[0])
		callbacks.AppendGlobalHandlers(gl[1:]...)
	} else {
		callbacks.InitCallbackHandlers(gl)
	}
}

// ---------------------------------------------------------------- values

// render gives a canonical string of the payload values used by the harness graphs.
func render(x any) string {
	switch t := x.(type) {
	case nil:
		return "<nil>"
	case string:
		return t
	case map[string]any:
		keys := make([]string, 0, len(t))
		for k := range t {
			keys = append(keys, k)
		}
		sort.Strings(keys)
		var b strings.Builder
		for i, k := range keys {
			if i > 0 {
				b.WriteByte(',')
			}
			b.WriteString(k)
			b.WriteByte('=')
			b.WriteString(render(t[k]))
		}
		return b.String()
	case error:
		return "error"
	}
	return fmt.Sprintf("<%T>", x)
}

// concatChunks merges stream chunks: strings are concatenated, maps merged key-wise with
// string values concatenated in order (what the framework's own concatenation does).
func concatChunks(chunks []any) any {
	if len(chunks) == 0 {
		return nil
	}
	if _, ok := chunks[0].(string); ok {
		var b strings.Builder
		for _, c := range chunks {
			s, _ := c.(string)
			b.WriteString(s)
		}
		return b.String()
	}
	out := map[string]any{}
	for _, c := range chunks {
		m, ok := c.(map[string]any)
		if !ok {
			return fmt.Sprintf("<%T>", c)
		}
		mergeInto(out, m)
	}
	return out
}

// mergeInto merges one chunk into the accumulated map: strings are concatenated in order,
// nested maps (the outputs of a Chain's parallel nodes) merged recursively.
func mergeInto(out, m map[string]any) {
	for k, v := range m {
		switch t := v.(type) {
		case map[string]any:
			prev, _ := out[k].(map[string]any)
			if prev == nil {
				prev = map[string]any{}
			}
			mergeInto(prev, t)
			out[k] = prev
		default:
			prev, _ := out[k].(string)
			vs, _ := v.(string)
			out[k] = prev + vs
		}
	}
}

// ---------------------------------------------------------------- engine plumbing

type engine struct{}

func (engine) ID() string { return "C10" }
func (engine) CoqHeader() string {
	return "From Eino Require Import Base.Util Base.GoSlice Model.Callbacks Model.CallbacksStream Model.CallbacksSched Model.CallbacksResume Model.CallbacksPayload Corr.C10.\nLocal Open Scope N_scope.\n"
}
func (engine) CoqCaseType() string { return "ccase" }

func (engine) Decode(raw json.RawMessage) (any, error) {
	var c Case
	if err := json.Unmarshal(raw, &c); err != nil {
		return nil, err
	}
	if c.Kind != "script" && c.Kind != "graph" && c.Kind != "stream" {
		return nil, fmt.Errorf("unknown case kind %q", c.Kind)
	}
	return &c, nil
}

func (engine) Generate(r *lib.Rng, tier string, i int) any {
	// of six cases: three graphs (the slower and the richer ones), two scripts, one stream payload
	switch i % 6 {
	case 0, 3:
		return genScript(r, tier)
	case 5:
		return genStream(r, tier)
	}
	return genGraph(r, tier)
}

func (engine) Run(c any) lib.Result {
	cs := c.(*Case)
	switch cs.Kind {
	case "script":
		return runScript(cs)
	case "stream":
		return runStream(cs)
	}
	return runGraph(cs)
}

// watchdog runs f; a hang or an escaped panic is an observation, not a harness crash.
func watchdog(d time.Duration, f func()) (class string, detail string) {
	done := make(chan any, 1)
	go func() {
		done <- lib.Recover(f)
	}()
	select {
	case p := <-done:
		if p != nil {
			return "panic", fmt.Sprint(p)
		}
		return "", ""
	case <-time.After(d):
		return "hang", "no result after " + d.String()
	}
}

// waitPending waits until no handler goroutine is reading a stream copy any more (handlers may
// still be invoked while this waits: an eager run leaves running tasks behind).
func waitPending(s *sink, d time.Duration) bool {
	deadline := time.Now().Add(d)
	for {
		s.mu.Lock()
		n := s.pend
		s.mu.Unlock()
		if n == 0 {
			return true
		}
		if time.Now().After(deadline) {
			return false
		}
		time.Sleep(200 * time.Microsecond)
	}
}

func nlist(xs []int) string {
	s := make([]string, len(xs))
	for i, x := range xs {
		s[i] = strconv.Itoa(x)
	}
	return "[" + strings.Join(s, "; ") + "]"
}

func nlistlist(xs [][]int) string {
	s := make([]string, len(xs))
	for i, x := range xs {
		s[i] = nlist(x)
	}
	return "[" + strings.Join(s, "; ") + "]"
}

func coqNeeds(hs []HSpec) string {
	var items []string
	for _, h := range hs {
		if h.Checker {
			items = append(items, fmt.Sprintf("(%d, %s)", h.ID, nlist(h.Needs)))
		}
	}
	return "[" + strings.Join(items, "; ") + "]"
}

var timingName = []string{"TStart", "TEnd", "TError", "TStartStream", "TEndStream"}

func main() {
	// With -race the runtime exits with status 66 when it has reported a race, which the
	// check driver would take for a crashed harness. The reports themselves (GORACE
	// log_path) are what the driver turns into a violation, so run with exitcode=0.
	if g := os.Getenv("GORACE"); g != "" && !strings.Contains(g, "exitcode=") {
		os.Setenv("GORACE", g+" exitcode=0")
		if exe, err := os.Executable(); err == nil {
			_ = syscall.Exec(exe, os.Args, os.Environ())
		}
	}
	lib.Main(engine{})
}
