package main

import (
	"context"
	"fmt"
	"strings"
	"sync"
	"time"

	"github.com/cloudwego/eino/components/tool"
	"github.com/cloudwego/eino/compose"
	"github.com/cloudwego/eino/schema"
)

// A "tools" sub graph: vmap -> [conversion lambda] -> *schema.Message with one tool call per
// GCall -> [ToolsNode] -> []*schema.Message -> [conversion lambda] -> vmap. Every tool call
// is an execution unit of its own (compose/tool_node.go: ReuseHandlers with the tool's run
// info on the ToolsNode's context); the calls of one message run in parallel.

type GCall struct {
	UID     int  `json:"uid"`
	Natives int  `json:"natives"` // bit 0 InvokableRun, bit 1 StreamableRun
	Fails   bool `json:"fails,omitempty"`
	Panics  bool `json:"panics,omitempty"`  // (with Fails) the tool fails by panicking
	Intr    int  `json:"intr,omitempty"`    // the first Intr executions return compose.InterruptAndRerun
	Unknown bool `json:"unknown,omitempty"` // no such tool in the ToolsNode: the call is answered by its UnknownToolsHandler
	DelayUs int  `json:"delay,omitempty"`
	Chunks  int  `json:"chunks,omitempty"`
}

// toolsState keeps the message a ToolsNode works on across an interrupt.
type toolsState struct {
	Msg *schema.Message
}

var regToolsState sync.Once

type callTool struct {
	c  *GCall
	rr *runRec
}

func (t *callTool) Info(context.Context) (*schema.ToolInfo, error) {
	return &schema.ToolInfo{Name: unitName(t.c.UID), Desc: "harness tool"}, nil
}

func (t *callTool) run(ctx context.Context, arg string) (string, error) {
	if t.c.DelayUs > 0 {
		time.Sleep(time.Duration(t.c.DelayUs) * time.Microsecond)
	}
	if isNeighbour(ctx) {
		// a tool call of the neighbour call (another call on the same compiled graph): nothing recorded
		if t.c.Fails {
			if t.c.Panics {
				panic(panicMsg)
			}
			return "", errNode
		}
		return fmt.Sprintf("t%d[%s]", t.c.UID, arg), nil
	}
	if t.rr.interrupts(t.c.UID, t.c.Intr) {
		t.rr.mu.Lock()
		t.rr.execs[t.c.UID] = append(t.rr.execs[t.c.UID], bodyRec{In: arg, Failed: true})
		t.rr.mu.Unlock()
		if t.c.UID%2 == 0 {
			return "", fmt.Errorf("tool call %d asks for a rerun: %w", t.c.UID, compose.InterruptAndRerun)
		}
		return "", compose.InterruptAndRerun
	}
	res := fmt.Sprintf("t%d[%s]", t.c.UID, arg)
	t.rr.mu.Lock()
	t.rr.execs[t.c.UID] = append(t.rr.execs[t.c.UID], bodyRec{In: arg, Out: res, Failed: t.c.Fails})
	t.rr.mu.Unlock()
	if t.c.Fails {
		if t.c.Panics {
			panic(panicMsg)
		}
		return "", errNode
	}
	return res, nil
}

type invTool struct{ *callTool }

func (t invTool) InvokableRun(ctx context.Context, arg string, _ ...tool.Option) (string, error) {
	return t.run(ctx, arg)
}

type strTool struct{ *callTool }

func (t strTool) StreamableRun(ctx context.Context, arg string, _ ...tool.Option) (*schema.StreamReader[string], error) {
	out, err := t.run(ctx, arg)
	if err != nil {
		return nil, err
	}
	k := t.c.Chunks
	if k < 1 {
		k = 1
	}
	chunks := make([]string, 0, k)
	for i := 0; i < k; i++ {
		chunks = append(chunks, out[len(out)*i/k:len(out)*(i+1)/k])
	}
	return schema.StreamReaderFromArray(chunks), nil
}

type bothTool struct {
	invTool
	strTool
}

func (t bothTool) Info(ctx context.Context) (*schema.ToolInfo, error) { return t.invTool.Info(ctx) }

// GetType (components.Typer): every tool has an implementation type of its own
func (t *callTool) GetType() string { return toolType(t.c) }
func (t bothTool) GetType() string  { return t.invTool.GetType() }

// nat: the paradigms the unit of a tool call implements (the unknown-tool handler is a plain function: invoke only)
func (c *GCall) nat() int {
	if c.Unknown {
		return 1
	}
	return c.Natives & 3
}

// placeholderTool is what a ToolsNode is configured with when the case passes the real tool list as a call option.
type placeholderTool struct{}

func (placeholderTool) Info(context.Context) (*schema.ToolInfo, error) {
	return &schema.ToolInfo{Name: "placeholder", Desc: "replaced by the call option"}, nil
}
func (placeholderTool) InvokableRun(context.Context, string, ...tool.Option) (string, error) {
	return "", fmt.Errorf("the placeholder tool was called")
}

// toolListOpts: the call options that hand the ToolsNodes configured with a placeholder their real tool list
func (rr *runRec) toolListOpts(stages [][]*GNode, path []string) []compose.Option {
	var out []compose.Option
	for _, st := range stages {
		for _, n := range st {
			p := append(append([]string{}, path...), nodeKey(n.Key))
			switch {
			case n.Kind == "tools" && n.ToolList:
				rr.mu.Lock()
				tl := rr.toolLists[n.UID]
				rr.mu.Unlock()
				out = append(out, compose.WithToolsNodeOption(compose.WithToolList(tl...)).DesignateNodeWithPath(compose.NewNodePath(p...)))
			case n.Kind == "sub":
				out = append(out, rr.toolListOpts(n.Stages, p)...)
			}
		}
	}
	return out
}

func mkTool(c *GCall, rr *runRec) tool.BaseTool {
	base := &callTool{c: c, rr: rr}
	switch c.Natives & 3 {
	case 1:
		return invTool{base}
	case 2:
		return strTool{base}
	}
	return bothTool{invTool{base}, strTool{base}}
}

// buildToolsSub builds the typed inner graph of a tools sub graph node.
func (rr *runRec) buildToolsSub(n *GNode) (*compose.Graph[vmap, vmap], error) {
	if len(n.Stages) != 3 || len(n.Stages[0]) != 1 || len(n.Stages[1]) != 1 || len(n.Stages[2]) != 1 {
		return nil, fmt.Errorf("bad tools sub graph shape")
	}
	in, tn, out := n.Stages[0][0], n.Stages[1][0], n.Stages[2][0]
	// a ToolsNode that is executed again after an interrupt is handed the zero value of its input:
	// the message has to come from the graph's state (the way an agent keeps its history)
	rerun := false
	for _, c := range tn.Calls {
		if c.Intr > 0 {
			rerun = true
		}
	}
	var gopts []compose.NewGraphOption
	if rerun {
		regToolsState.Do(func() { _ = compose.RegisterSerializableType[toolsState]("c10_tools_state") })
		gopts = append(gopts, compose.WithGenLocalState(func(context.Context) *toolsState { return &toolsState{} }))
	}
	g := compose.NewGraph[vmap, vmap](gopts...)
	convIn := compose.InvokableLambda(func(ctx context.Context, v vmap) (*schema.Message, error) {
		arg := render(v)
		if !isNeighbour(ctx) {
			rr.mu.Lock()
			rr.execs[in.UID] = append(rr.execs[in.UID], bodyRec{In: arg, Out: "<*schema.Message>"})
			rr.mu.Unlock()
		}
		m := &schema.Message{Role: schema.Assistant}
		for _, c := range tn.Calls {
			m.ToolCalls = append(m.ToolCalls, schema.ToolCall{ID: fmt.Sprintf("c%d", c.UID),
				Function: schema.FunctionCall{Name: unitName(c.UID), Arguments: arg}})
		}
		return m, nil
	}, compose.WithLambdaType(lambdaType(in)))
	var tools []tool.BaseTool
	unknown := map[string]*GCall{}
	for _, c := range tn.Calls {
		if c.Unknown {
			unknown[unitName(c.UID)] = c
			continue
		}
		tools = append(tools, mkTool(c, rr))
	}
	cfg := &compose.ToolsNodeConfig{Tools: tools}
	if tn.ToolList && len(tools) > 0 {
		// the node is configured with another tool; the real list arrives as a call option of every run
		rr.mu.Lock()
		rr.toolLists[tn.UID] = tools
		rr.mu.Unlock()
		cfg.Tools = []tool.BaseTool{placeholderTool{}}
	}
	if len(unknown) > 0 {
		cfg.UnknownToolsHandler = func(ctx context.Context, name, input string) (string, error) {
			c := unknown[name]
			if c == nil {
				return "", fmt.Errorf("harness: no call for the unknown tool %q", name)
			}
			return (&callTool{c: c, rr: rr}).run(ctx, input)
		}
	}
	node, err := compose.NewToolNode(context.Background(), cfg)
	if err != nil {
		return nil, err
	}
	convOut := compose.InvokableLambda(func(ctx context.Context, ms []*schema.Message) (vmap, error) {
		var parts []string
		for _, m := range ms {
			if m != nil {
				parts = append(parts, m.Content)
			}
		}
		o := vmap{fmt.Sprintf("o%d", out.UID): strings.Join(parts, "+")}
		if !isNeighbour(ctx) {
			rr.mu.Lock()
			rr.execs[out.UID] = append(rr.execs[out.UID], bodyRec{In: "<[]*schema.Message>", Out: render(o), OutV: o})
			rr.mu.Unlock()
		}
		return o, nil
	}, compose.WithLambdaType(lambdaType(out)))
	if err := g.AddLambdaNode(nodeKey(in.Key), convIn, compose.WithNodeName(unitName(in.UID))); err != nil {
		return nil, err
	}
	tnOpts := []compose.GraphAddNodeOpt{compose.WithNodeName(unitName(tn.UID))}
	if rerun {
		tnOpts = append(tnOpts, compose.WithStatePreHandler(func(_ context.Context, m *schema.Message, st *toolsState) (*schema.Message, error) {
			if m != nil && len(m.ToolCalls) > 0 {
				st.Msg = m
				return m, nil
			}
			return st.Msg, nil
		}))
	}
	if err := g.AddToolsNode(nodeKey(tn.Key), node, tnOpts...); err != nil {
		return nil, err
	}
	if err := g.AddLambdaNode(nodeKey(out.Key), convOut, compose.WithNodeName(unitName(out.UID))); err != nil {
		return nil, err
	}
	for _, e := range [][2]string{{compose.START, nodeKey(in.Key)}, {nodeKey(in.Key), nodeKey(tn.Key)},
		{nodeKey(tn.Key), nodeKey(out.Key)}, {nodeKey(out.Key), compose.END}} {
		if err := g.AddEdge(e[0], e[1]); err != nil {
			return nil, err
		}
	}
	return g, nil
}
