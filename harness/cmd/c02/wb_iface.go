package main

// what the channel traces need of the hook's VerifDagChannel
type dagChan interface {
	ReportValues(ins map[string]any) error
	ReportDependencies(deps []string)
	ReportSkip(keys []string) bool
	Get() (any, bool, error)
	State() (map[string]uint8, map[string]bool, bool, map[string]any)
}
