// specDAG: an independent evaluator of the property text for the root graph, applicable when every node's
// output is a known function of its input and the outcome does not depend on timing: all nodes are lambdas or
// pass-through nodes, no failing node, all edges lead forward (acyclic), and no fan-in merge fails.
//
// Rule (in topological = key order): a node without any predecessor is skipped; otherwise it runs iff some
// control predecessor ran and routed control to it, on the merge of the outputs of the data predecessors that
// ran and routed data to it; otherwise it is skipped. A Workflow node without control predecessor but with
// data-only inputs (outside the documented domain of WithNoDirectDependency) runs iff all its data
// predecessors ran. END: routed => the run is done with END's input as the result, and every node END
// (transitively) waited for has executed; not routed => the run fails with "END skipped" (class 5). In both
// cases only nodes the rule says run may have executed.
package main

import (
	"fmt"
	"sort"

	gg "verif/harness/graphgen"
)

type specResult struct {
	judged bool
	// nilMerge: some fan-in of two or more values contains a nil value (typed.go: with interface-typed nodes that
	// nil is untyped and mergeValues cannot take its type)
	nilMerge bool
	// zeroMapped: a node (or END) with field mappings is triggered without data: the mapping converter is handed the zero
	// value of the consumer's input type, which it can only read when that type is map[string]any (typed.go)
	zeroMapped bool
	ran        map[uint64]bool
	in         map[uint64]*gg.Val
	endRan     bool
	endIn      *gg.Val
}

func specDAG(c *gg.Case) specResult {
	g := &c.Forest[0]
	res := specResult{ran: map[uint64]bool{}, in: map[uint64]*gg.Val{}}
	if g.Front == "chain" || g.Mode != "dag" || len(c.Fails) > 0 {
		return res
	}
	for i := range g.Nodes {
		n := &g.Nodes[i]
		if n.Key != gg.START && n.Kind != "lambda" && n.Kind != "pass" {
			return res
		}
		fwd := func(t uint64) bool { return t == gg.END || (t > n.Key && t != gg.START) }
		for _, t := range n.DSucc {
			if !fwd(t) {
				return res
			}
		}
		for _, t := range n.CSucc {
			if !fwd(t) {
				return res
			}
		}
		for j := range n.Branches {
			for _, t := range n.Branches[j].Ends {
				if !fwd(t) {
					return res
				}
			}
		}
	}
	keys := []uint64{}
	for i := range g.Nodes {
		if g.Nodes[i].Key != gg.START {
			keys = append(keys, g.Nodes[i].Key)
		}
	}
	sort.Slice(keys, func(i, j int) bool { return keys[i] < keys[j] })
	keys = append(keys, gg.END)
	out := map[uint64]*gg.Val{gg.START: c.Input}
	res.ran[gg.START] = true
	for _, t := range keys {
		hasCtrl, hasData, routed := false, false, false
		var vals []*gg.Val
		for i := range g.Nodes {
			p := &g.Nodes[i]
			cp, dp := isCtrlPred(p, t), isDataPred(p, t)
			hasCtrl = hasCtrl || cp
			hasData = hasData || dp
			if !res.ran[p.Key] {
				continue
			}
			sel := selected(p, out[p.Key])
			if cp && (hasKey(p.CSucc, t) || hasKey(sel, t)) {
				routed = true
			}
			if dp && (hasKey(p.DSucc, t) || hasKey(sel, t)) {
				v := out[p.Key]
				for _, kn := range p.DMap {
					if kn.Key == t {
						v = gg.MapOf(gg.KV{Key: kn.Field, V: out[p.Key]})
					}
				}
				vals = append(vals, v)
			}
		}
		if !hasCtrl && t == gg.END {
			return res
		}
		if !hasCtrl && hasData {
			// a Workflow node declared with data-only inputs exclusively (outside the documented domain of
			// WithNoDirectDependency: no control path leads to it). The engine uses its data predecessors as
			// triggers: it runs when every one of them ran, and is skipped as soon as one of them is skipped.
			routed = true
			for i := range g.Nodes {
				if p := &g.Nodes[i]; isDataPred(p, t) && !res.ran[p.Key] {
					routed = false
				}
			}
		}
		if !routed {
			continue
		}
		var in *gg.Val
		switch len(vals) {
		case 0:
			in = gg.NilMap()
		case 1:
			in = vals[0]
		default:
			for _, v := range vals {
				if v.Kind == "nil" {
					res.nilMerge = true
				}
			}
			m, ok := mergeVals(vals)
			if !ok {
				return res
			}
			in = m
		}
		if hasMapping(g, t) && in.Kind == "nil" {
			if len(vals) == 0 {
				res.zeroMapped = true
			}
			in = gg.MapOf()
		}
		if t == gg.END {
			res.endRan, res.endIn = true, in
			continue
		}
		res.ran[t] = true
		res.in[t] = in
		out[t] = gg.MapOf(gg.KV{Key: t, V: in})
		if n := g.NodeAt(t); n != nil && n.Kind == "pass" {
			out[t] = in // a pass-through node hands its input on (its execution is not logged)
		}
		if n := g.NodeAt(t); n != nil && n.OutKey != 0 {
			out[t] = gg.MapOf(gg.KV{Key: n.OutKey, V: out[t]})
		}
	}
	res.judged = true
	return res
}

// oracleSpec compares the observation with specDAG.
func oracleSpec(c *gg.Case, o *gg.Obs) (string, string, bool) {
	sp := specDAG(c)
	if !sp.judged {
		return "", "", false
	}
	g := &c.Forest[0]
	exec := map[uint64]*gg.Val{}
	for _, e := range o.Log {
		if len(e.Path) == 1 {
			exec[e.Path[0]] = e.In
		}
	}
	for k, in := range exec {
		if !sp.ran[k] {
			return fmt.Sprintf("node %d executed; by the trigger rule it is skipped", k), "dag-spec-extra", true
		}
		if !sp.in[k].Equal(in) {
			return fmt.Sprintf("node %d got input %s, the rule gives %s", k, in, sp.in[k]), "dag-spec-input", true
		}
	}
	if !sp.endRan {
		if !(o.Class == "fail" && o.ErrClass == 5) {
			return fmt.Sprintf("END is skipped by the trigger rule; the run ended with class %s/%d", o.Class, o.ErrClass), "dag-spec-class", true
		}
		return "", "", true
	}
	if o.Class != "done" {
		return fmt.Sprintf("END is triggered by the rule (result %s); the run ended with class %s/%d: %s", sp.endIn, o.Class, o.ErrClass, o.ErrMsg), "dag-spec-class", true
	}
	if !sp.endIn.Equal(o.Result) {
		return fmt.Sprintf("result %s, the rule gives %s", o.Result, sp.endIn), "dag-spec-result", true
	}
	// everything END waited for has executed
	need := map[uint64]bool{gg.END: true}
	// (a node that runs waits for all its predecessors; a skipped node is decided as soon as its control
	// predecessors are decided: the data predecessors of a skipped node are not waited for)
	for changed := true; changed; {
		changed = false
		for i := range g.Nodes {
			p := &g.Nodes[i]
			if need[p.Key] || p.Key == gg.START {
				continue
			}
			for t := range need {
				if isCtrlPred(p, t) || (isDataPred(p, t) && (t == gg.END || sp.ran[t])) {
					need[p.Key] = true
					changed = true
					break
				}
			}
		}
	}
	for k := range need {
		if n := g.NodeAt(k); k != gg.END && sp.ran[k] && n != nil && n.Kind == "lambda" {
			if _, ok := exec[k]; !ok {
				return fmt.Sprintf("node %d is triggered and END waits for it, but it did not execute", k), "dag-spec-missing", true
			}
		}
	}
	return "", "", true
}
