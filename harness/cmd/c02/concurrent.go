// Concurrent first runs (round 6): "every node executes at most once PER RUN". A runnable is compiled once and
// invoked for the first time from several goroutines AT THE SAME MOMENT, on inputs of different size (the branch
// tables are indexed by the size of a node's output, so the runs take different arms). Nothing one run does — channel
// state, skip marks, anything the runner builds lazily on its first use — may reach another: every run is judged by
// the oracles and compared with the model like a run of a freshly compiled graph (CFamily in Corr/C02.v).
// The shape is built by typed.go (its recorder keeps one execution log per run: the run's number travels in the
// context), in one of its type regimes or over graphgen's own types ("mm").
package main

import (
	"fmt"

	gg "verif/harness/graphgen"
	"verif/harness/lib"
)

var concurrentRegimes = []string{"mm", "mm", "am", "aa", "ma", "io"}

// concurrentApplicable: every member is a case typed.go builds and the rule evaluator judges.
func concurrentApplicable(g *gg.Case, regime string, more []*gg.Val) bool {
	for _, in := range append([]*gg.Val{g.Input}, more...) {
		member := *g
		member.Input = in
		if !typedApplicable(&member, regime) {
			return false
		}
	}
	return true
}

func runConcurrent(g *gg.Case, regime string, more []*gg.Val) lib.Result {
	inputs := append([]*gg.Val{g.Input}, more...)
	res := lib.Result{Tags: []string{"kind:concurrent", fmt.Sprintf("concurrent:%d", len(inputs)), "typed:" + regime}}
	obsAll := runTypedAll(g, regime, more)
	res.Obs = map[string]any{"typed": regime, "runs": obsAll}
	var terms []string
	inModel := true
	execs := 0
	for i, in := range inputs {
		obs := obsAll[i]
		if obs.Class == "compile" || obs.Class == "budget" {
			inModel = false
			continue
		}
		member := *g
		member.Input = in
		execs += len(obs.Log)
		terms = append(terms, member.CoqCase(obs))
		note := fmt.Sprintf("run %d of %d started at the same time on one freshly compiled runnable (%s; input %s): ", i+1, len(inputs), typedName(regime), in.String())
		if res.Oracle == "" && (obs.Class == "hang" || obs.Class == "panic") {
			res.Oracle, res.Sig = note+"Invoke ended with "+obs.Class+": "+obs.ErrMsg, "dag-"+obs.Class
		}
		if res.Oracle == "" {
			if msg, sig := oracleDAG(&member, obs); msg != "" {
				res.Oracle, res.Sig = note+msg, sig
			}
		}
		if msg, sig, judged := oracleSpec(&member, obs); judged && res.Oracle == "" && msg != "" {
			res.Oracle, res.Sig = note+msg, sig
		}
	}
	res.Nontrivial = len(inputs) >= 2 && execs >= 3
	if inModel {
		res.CoqTerm = "(CFamily " + lib.CoqList(terms) + ")"
	} else {
		res.Tags = append(res.Tags, "not-in-model:concurrent")
	}
	return res
}
