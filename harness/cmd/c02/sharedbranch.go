package main

import (
	"context"
	"fmt"

	"github.com/cloudwego/eino/compose"

	gg "verif/harness/graphgen"
	"verif/harness/lib"
)

// Shared branch values (round 4, F-C02c): every GraphBranch value of a flat Graph case is FIRST added to a Workflow
// (same node keys; compiled, successfully or not) and THEN to the Graph that is compiled in all-predecessor mode
// and run. Adding one GraphBranch value to several graphs is ordinary use of the builder API: what the compiled
// Graph does must not depend on what else was built from the same value. The run is compared with the model and
// judged by the oracles like any run of that Graph (a Graph branch hands the node's output to the selected nodes).
// harness/graphgen (shared, read-only for this engine) builds a fresh branch value per construction, hence the
// small builder of flat lambda / pass-through Graphs below.

func sharedApplicable(c *gg.Case) bool {
	if c == nil || len(c.Forest) != 1 {
		return false
	}
	g := &c.Forest[0]
	if g.Front != "graph" || g.Mode != "dag" {
		return false
	}
	for _, n := range g.Nodes {
		if n.Kind != "start" && n.Kind != "lambda" && n.Kind != "pass" {
			return false
		}
	}
	return true
}

func nameOf(k uint64) string {
	switch k {
	case gg.START:
		return compose.START
	case gg.END:
		return compose.END
	}
	return gg.KeyStr(k)
}

func endsOf(ends []uint64) map[string]bool {
	m := make(map[string]bool, len(ends))
	for _, e := range ends {
		m[nameOf(e)] = true
	}
	return m
}

func branchValue(br *gg.Branch) *compose.GraphBranch {
	table := br.Table
	if br.Single {
		return compose.NewGraphBranch(func(ctx context.Context, in gg.M) (string, error) {
			row := table[gg.SizeOfGo(in)%uint64(len(table))]
			return nameOf(row[0]), nil
		}, endsOf(br.Ends))
	}
	return compose.NewGraphMultiBranch(func(ctx context.Context, in gg.M) (map[string]bool, error) {
		if len(table) == 0 {
			return map[string]bool{}, nil
		}
		return endsOf(table[gg.SizeOfGo(in)%uint64(len(table))]), nil
	}, endsOf(br.Ends))
}

func buildSharedBranchGraph(ctx context.Context, c *gg.Case) (*gg.Built, error) {
	g := &c.Forest[0]
	rec := &gg.Recorder{}
	// the branch values, one per branch of the case
	vals := map[[2]int]*compose.GraphBranch{}
	for i := range g.Nodes {
		for j := range g.Nodes[i].Branches {
			vals[[2]int{i, j}] = branchValue(&g.Nodes[i].Branches[j])
		}
	}
	// 1. a Workflow over the same node keys takes the values first
	wf := compose.NewWorkflow[gg.M, gg.M]()
	ident := compose.InvokableLambda(func(ctx context.Context, in gg.M) (gg.M, error) { return in, nil })
	for i := range g.Nodes {
		if n := &g.Nodes[i]; n.Key != gg.START {
			wf.AddLambdaNode(gg.KeyStr(n.Key), ident).AddInput(compose.START)
		}
	}
	for i := range g.Nodes {
		for j := range g.Nodes[i].Branches {
			wf.AddBranch(nameOf(g.Nodes[i].Key), vals[[2]int{i, j}])
		}
	}
	wf.End().AddInput(compose.START)
	_ = lib.Recover(func() { _, _ = wf.Compile(ctx) })
	// 2. the Graph of the case, from the same values
	cg := compose.NewGraph[gg.M, gg.M]()
	for i := range g.Nodes {
		n := &g.Nodes[i]
		if n.Key == gg.START {
			continue
		}
		var opts []compose.GraphAddNodeOpt
		if n.OutKey != 0 {
			opts = append(opts, compose.WithOutputKey(gg.KeyStr(n.OutKey)))
		}
		var err error
		if n.Kind == "pass" {
			err = cg.AddPassthroughNode(gg.KeyStr(n.Key), opts...)
		} else {
			path := []uint64{n.Key}
			key := gg.KeyStr(n.Key)
			var fails []gg.FailEntry
			for _, f := range c.Fails {
				if len(f.Path) == 1 && f.Path[0] == n.Key {
					fails = append(fails, f)
				}
			}
			err = cg.AddLambdaNode(key, compose.InvokableLambda(func(ctx context.Context, in gg.M) (gg.M, error) {
				rec.Rec(path, in)
				sz := gg.SizeOfGo(in)
				for _, f := range fails {
					m := f.Mod
					if m < 1 {
						m = 1
					}
					if sz%m == f.Res {
						return nil, &gg.NodeErr{Code: f.Code}
					}
				}
				return gg.M{key: in}, nil
			}), opts...)
		}
		if err != nil {
			return nil, err
		}
	}
	for i := range g.Nodes {
		n := &g.Nodes[i]
		for _, t := range n.DSucc {
			if err := cg.AddEdge(nameOf(n.Key), nameOf(t)); err != nil {
				return nil, err
			}
		}
	}
	for i := range g.Nodes {
		for j := range g.Nodes[i].Branches {
			if err := cg.AddBranch(nameOf(g.Nodes[i].Key), vals[[2]int{i, j}]); err != nil {
				return nil, err
			}
		}
	}
	opts := []compose.GraphCompileOption{compose.WithNodeTriggerMode(compose.AllPredecessor)}
	if g.Max > 0 {
		opts = append(opts, compose.WithMaxRunSteps(g.Max))
	}
	r, err := cg.Compile(ctx, opts...)
	if err != nil {
		return nil, err
	}
	return &gg.Built{R: r, Rec: rec}, nil
}

// runShared: the observation of the Graph built from branch values a Workflow has used before
func runShared(c *gg.Case) *gg.Obs {
	ctx := context.Background()
	var bt *gg.Built
	var berr error
	if p := lib.Recover(func() { bt, berr = buildSharedBranchGraph(ctx, c) }); p != nil {
		return &gg.Obs{Class: "panic", ErrMsg: "build: " + fmt.Sprint(p)}
	}
	if berr != nil {
		return &gg.Obs{Class: "compile", ErrMsg: berr.Error()}
	}
	return invokeResampled(ctx, bt, c.Input)
}
