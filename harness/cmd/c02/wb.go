//go:build verif_c02wb

package main

// White-box group of C02 (build tag verif_c02wb, props/C02.json "extra_tags"): the real dagChannel behind the hook
// /repo/compose/verif_c02.go (build tags verif && verif_c02wb).  Without the tag (wb_off.go) the harness still builds and
// runs the black-box tie only.

import "github.com/cloudwego/eino/compose"

const whiteboxAvailable = true

func newDagChan(ctrl, data []string) dagChan { return compose.VerifNewDagChannel(ctrl, data) }
