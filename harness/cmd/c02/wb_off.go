//go:build !verif_c02wb

package main

const whiteboxAvailable = false

func newDagChan(ctrl, data []string) dagChan { return nil }
