// Engine C02 — all-predecessor (DAG) graphs and Workflows: every node runs at most once, exactly when
// triggered; skip propagation; input = merge of routed data predecessors.
// Thin engine over verif/harness/graphgen plus a white-box driver of the real dagChannel.
package main

import (
	"encoding/json"
	"fmt"
	"sort"
	"strings"

	gg "verif/harness/graphgen"
	"verif/harness/lib"
)

type engine struct{}

func (engine) ID() string { return "C02" }
func (engine) CoqHeader() string {
	return "From Eino Require Import Base.Util Model.Graph Model.Chain Model.GraphCmp Corr.C02.\nOpen Scope N_scope.\n"
}
func (engine) CoqCaseType() string { return "ccase" }

// Case is either a graph case or a channel trace.
type Case struct {
	Graph  *gg.Case   `json:"graph,omitempty"`
	Chan   *ChanCase  `json:"chan,omitempty"`
	Family []*gg.Case `json:"family,omitempty"` // one graph under every combination of branch outcomes
	Rerun  []*gg.Val  `json:"rerun,omitempty"`  // further inputs on which the SAME compiled runnable of Graph is invoked again
	Shared bool       `json:"shared,omitempty"` // the GraphBranch values of Graph were added to a Workflow before (sharedbranch.go)
	Typed  string     `json:"typed,omitempty"`  // Graph is also built and run over other Go types (typed.go): aa | ma | am
	// NilInput: Graph is run on the NIL value of the input type (a nil map; the untyped nil in the interface regimes of
	// typed.go) instead of Graph.Input: START hands it on like any other value. (A flag, because the JSON form of a
	// case cannot hold a nil map as the top-level input.)
	NilInput bool `json:"nil_input,omitempty"`
	// Concurrent: further inputs; the runnable compiled from Graph (by typed.go, regime Typed) is invoked on Graph.Input
	// and on these at the same moment (concurrent.go)
	Concurrent []*gg.Val `json:"concurrent,omitempty"`
}

type ChanOp struct {
	Op   string             `json:"op"` // values | deps | skip | get
	Keys []uint64           `json:"keys,omitempty"`
	Ins  map[uint64]*gg.Val `json:"ins,omitempty"`
}

type ChanCase struct {
	Ctrl []uint64 `json:"ctrl"`
	Data []uint64 `json:"data"`
	Ops  []ChanOp `json:"ops"`
}

func subset(r *lib.Rng, universe []uint64, p int) []uint64 {
	out := []uint64{}
	for _, k := range universe {
		if r.Intn(100) < p {
			out = append(out, k)
		}
	}
	return out
}

// untypedNil: the untyped nil among the values of a channel trace (graphgen renders it as a "bad" value: an atom no
// generator uses, on both sides of the comparison).
func untypedNil() *gg.Val { return &gg.Val{Kind: "bad", Bad: "untyped-nil"} }

func chanValToGo(v *gg.Val) any {
	if v.Kind == "bad" {
		return nil
	}
	return v.ToGo()
}

func genChan(r *lib.Rng, tier string) *ChanCase {
	universe := []uint64{0, 2, 3, 4, 5, 6}
	c := &ChanCase{Ctrl: subset(r, universe, 45), Data: subset(r, universe, 45)}
	nops := r.Range(4, 14)
	if tier == "thorough" {
		nops = r.Range(4, 30)
	}
	for i := 0; i < nops; i++ {
		switch x := r.Intn(10); {
		case x < 3:
			ins := map[uint64]*gg.Val{}
			for _, k := range subset(r, universe, 35) {
				switch y := r.Intn(10); {
				case y < 1:
					ins[k] = gg.NilMap()
				case y < 2 && len(c.Data) <= 1:
					// the untyped nil: a legal value of an interface-typed output; it is a delivered value like any other
					// (only with at most one data predecessor: mergeValues cannot take the type of an untyped nil)
					ins[k] = untypedNil()
				case y < 3: // a key shared between sources: mergeMap must report it
					ins[k] = gg.MapOf(gg.KV{Key: 77, V: gg.Atom(k)})
				default:
					ins[k] = gg.MapOf(gg.KV{Key: k, V: gg.Atom(uint64(r.Intn(4)))})
				}
			}
			c.Ops = append(c.Ops, ChanOp{Op: "values", Ins: ins})
		case x < 5:
			c.Ops = append(c.Ops, ChanOp{Op: "deps", Keys: subset(r, universe, 40)})
		case x < 7:
			c.Ops = append(c.Ops, ChanOp{Op: "skip", Keys: subset(r, universe, 30)})
		default:
			c.Ops = append(c.Ops, ChanOp{Op: "get"})
		}
	}
	return c
}

// Until /repo 665541a a node that is both a direct control successor and a branch end of the same source was
// skipped or not depending on goroutine timing in eager mode (Workflow); since then the edge wins (the node is
// not reported as skipped), the shape is deterministic and is generated in Workflows too.
func (engine) Generate(r *lib.Rng, tier string, i int) any {
	return generate(r, tier, i)
}

// generate: one in three single graph cases also gets a typed twin (typed.go; every zeroify case has one); one in ten
// runs on the nil input, half of these with the all-interface twin. Both are drawn after the case.
func generate(r *lib.Rng, tier string, i int) *Case {
	c := generateCase(r, tier, i)
	if c.Graph != nil && len(c.Rerun) == 0 && len(c.Concurrent) == 0 && !c.Shared {
		if c.Typed == "" && r.Chance(1, 3) {
			c.Typed = typedRegimes[r.Intn(len(typedRegimes))]
		}
		c.NilInput = r.Chance(1, 10)
		if c.NilInput && r.Chance(1, 2) {
			c.Typed = "aa"
		}
	}
	return c
}

func generateCase(r *lib.Rng, tier string, i int) *Case {
	o := gg.Quick()
	if tier == "thorough" {
		o = gg.Thorough()
	}
	o.FailProb = 4
	famLimit := 8
	if tier == "thorough" {
		famLimit = 16
	}
	switch x := r.Intn(30); {
	case x < 4:
		return &Case{Chan: genChan(r, tier)}
	case x == 9 || x == 17 || x == 26:
		// one compiled runnable, several runs
		var c *gg.Case
		switch x {
		case 9:
			c = gg.GenDAG(r, o)
		case 17:
			c = gg.GenWorkflow(r, o)
		default:
			c = genX(r, r.Chance(1, 2), o.MaxNodes)
		}
		return &Case{Graph: c, Rerun: genRerunInputs(r, c.Input)}
	case x >= 27:
		return &Case{Family: genFamily(r, o, true, famLimit)}
	case x == 24:
		// a flat Graph whose branch values a Workflow has used before
		c := genX(r, false, o.MaxNodes)
		return &Case{Graph: c, Shared: sharedApplicable(c)}
	case x == 8 || x == 15:
		// concurrent first runs of one compiled runnable (concurrent.go)
		c := genX(r, x == 15, o.MaxNodes)
		if x == 15 && r.Chance(1, 3) {
			zeroify(r, c)
		}
		return &Case{Graph: c, Concurrent: genRerunInputs(r, c.Input), Typed: concurrentRegimes[r.Intn(len(concurrentRegimes))]}
	case x >= 24:
		return &Case{Graph: genX(r, x > 24, o.MaxNodes)}
	case x >= 22:
		return &Case{Family: genFamily(r, o, false, famLimit)}
	case x >= 20:
		// a control cycle (or, one time in four, a cycle closed by a data-only edge, which validateDAG does not see)
		var c *gg.Case
		if r.Chance(1, 2) {
			c = gg.GenDAG(r, o)
		} else {
			c = gg.GenWorkflow(r, o)
		}
		addCycle(r, c)
		return &Case{Graph: c}
	case x < 10:
		return &Case{Graph: gg.GenDAG(r, o)}
	case x < 12:
		o.Clean = true
		return &Case{Graph: gg.GenDAG(r, o)}
	case x < 14:
		return &Case{Graph: gg.GenWorkflow(r, o)}
	case x < 18: // 14 and 16 (15 = concurrent runs, 17 = re-runs)
		// a Workflow in which a node or END is triggered without data (xgen.go zeroify)
		c := genX(r, true, o.MaxNodes)
		zeroify(r, c)
		return &Case{Graph: c, Typed: typedRegimes[r.Intn(len(typedRegimes))]}
	default:
		o.Clean = true
		return &Case{Graph: gg.GenWorkflow(r, o)}
	}
}

func (engine) Decode(raw json.RawMessage) (any, error) {
	var c Case
	if err := json.Unmarshal(raw, &c); err != nil {
		return nil, err
	}
	if c.Graph == nil && c.Chan == nil && len(c.Family) == 0 {
		return nil, fmt.Errorf("case needs graph, chan or family")
	}
	if c.Graph != nil && (len(c.Graph.Forest) == 0 || c.Graph.Input == nil) {
		return nil, fmt.Errorf("graph case needs forest and input")
	}
	return &c, nil
}

// ---------------------------------------------------------------- white box

type chanObs struct {
	Ctrl    map[uint64]uint8   `json:"ctrl"`
	Data    map[uint64]bool    `json:"data"`
	Skipped bool               `json:"skipped"`
	Vals    map[uint64]*gg.Val `json:"vals"`
	Ret     string             `json:"ret"` // none | skip:true | skip:false | get:none | get:<val> | get:err
	retCoq  string
}

func names(ks []uint64) []string {
	out := make([]string, len(ks))
	for i, k := range ks {
		out[i] = gg.KeyStr(k)
	}
	return out
}

func sortedKeys[T any](m map[uint64]T) []uint64 {
	ks := make([]uint64, 0, len(m))
	for k := range m {
		ks = append(ks, k)
	}
	sort.Slice(ks, func(i, j int) bool { return ks[i] < ks[j] })
	return ks
}

func runChan(c *ChanCase) (obs []chanObs, panicked any) {
	panicked = lib.Recover(func() {
		ch := newDagChan(names(c.Ctrl), names(c.Data))
		for _, op := range c.Ops {
			o := chanObs{Ret: "none", retCoq: "RNone"}
			switch op.Op {
			case "values":
				ins := map[string]any{}
				for k, v := range op.Ins {
					ins[gg.KeyStr(k)] = chanValToGo(v)
				}
				_ = ch.ReportValues(ins)
			case "deps":
				ch.ReportDependencies(names(op.Keys))
			case "skip":
				b := ch.ReportSkip(names(op.Keys))
				o.Ret, o.retCoq = fmt.Sprintf("skip:%v", b), "(RSkip "+lib.CoqBool(b)+")"
			case "get":
				v, ready, err := ch.Get()
				switch {
				case err != nil:
					o.Ret, o.retCoq = "get:err", "RGetErr"
				case !ready:
					o.Ret, o.retCoq = "get:none", "(RGet None)"
				default:
					val := gg.FromGo(v)
					o.Ret, o.retCoq = "get:"+val.String(), "(RGet (Some "+val.Coq()+"))"
				}
			}
			ctrl, data, skipped, vals := ch.State()
			o.Ctrl, o.Data, o.Skipped, o.Vals = map[uint64]uint8{}, map[uint64]bool{}, skipped, map[uint64]*gg.Val{}
			for k, s := range ctrl {
				n, _ := gg.ParseKey(k)
				o.Ctrl[n] = s
			}
			for k, b := range data {
				n, _ := gg.ParseKey(k)
				o.Data[n] = b
			}
			for k, v := range vals {
				n, _ := gg.ParseKey(k)
				o.Vals[n] = gg.FromGo(v)
			}
			obs = append(obs, o)
		}
	})
	return
}

func (o *chanObs) coq() string {
	var ctrl, data, vals []string
	for _, k := range sortedKeys(o.Ctrl) {
		ctrl = append(ctrl, lib.CoqPair(lib.CoqN(k), lib.CoqN(uint64(o.Ctrl[k]))))
	}
	for _, k := range sortedKeys(o.Data) {
		data = append(data, lib.CoqPair(lib.CoqN(k), lib.CoqBool(o.Data[k])))
	}
	for _, k := range sortedKeys(o.Vals) {
		vals = append(vals, lib.CoqPair(lib.CoqN(k), o.Vals[k].Coq()))
	}
	return lib.CoqApp("Build_chan_obs", lib.CoqList(ctrl), lib.CoqList(data), lib.CoqBool(o.Skipped), lib.CoqList(vals), o.retCoq)
}

func (op *ChanOp) coq() string {
	switch op.Op {
	case "values":
		var ins []string
		for _, k := range sortedKeys(op.Ins) {
			ins = append(ins, lib.CoqPair(lib.CoqN(k), op.Ins[k].Coq()))
		}
		return "(OpValues " + lib.CoqList(ins) + ")"
	case "deps":
		return "(OpDeps " + lib.CoqNList(op.Keys) + ")"
	case "skip":
		return "(OpSkip " + lib.CoqNList(op.Keys) + ")"
	}
	return "OpGet"
}

// chanOracle: channel-level statements of the property evaluated on the real channel alone.
func chanOracle(c *ChanCase, obs []chanObs) (string, string) {
	for i, o := range obs {
		op := c.Ops[i]
		if op.Op == "get" && len(o.Ret) > 4 && o.Ret != "get:none" {
			// a successful or failed read resets the channel: nothing may be ready again without new reports
			for k, s := range o.Ctrl {
				if s != 0 {
					return fmt.Sprintf("op %d: control predecessor %d not reset to waiting after get", i, k), "chan-get-no-reset"
				}
			}
			for k, b := range o.Data {
				if b {
					return fmt.Sprintf("op %d: data predecessor %d still flagged after get", i, k), "chan-get-no-reset"
				}
			}
			if len(o.Vals) != 0 {
				return fmt.Sprintf("op %d: values kept after get", i), "chan-get-no-reset"
			}
		}
		if op.Op == "get" && o.Ret != "get:none" && i > 0 {
			prev := obs[i-1]
			if prev.Skipped {
				return fmt.Sprintf("op %d: a skipped channel was ready", i), "chan-skipped-ready"
			}
			for k, s := range prev.Ctrl {
				if s == 0 {
					return fmt.Sprintf("op %d: ready while control predecessor %d is waiting", i, k), "chan-ready-while-waiting"
				}
			}
		}
		if i > 0 && obs[i-1].Skipped {
			// a skipped channel stays skipped, and reports of values / dependencies do not change it
			prev := obs[i-1]
			if !o.Skipped {
				return fmt.Sprintf("op %d (%s): a skipped channel is no longer skipped", i, op.Op), "chan-unskipped"
			}
			if op.Op == "values" || op.Op == "deps" {
				same := len(prev.Ctrl) == len(o.Ctrl) && len(prev.Data) == len(o.Data) && len(prev.Vals) == len(o.Vals)
				for k, s := range prev.Ctrl {
					same = same && o.Ctrl[k] == s
				}
				for k, b := range prev.Data {
					same = same && o.Data[k] == b
				}
				if !same {
					return fmt.Sprintf("op %d (%s): a report changed a skipped channel", i, op.Op), "chan-skipped-changed"
				}
			}
		}
		if op.Op == "values" && (i == 0 || !obs[i-1].Skipped) {
			// every value reported by a declared data predecessor is a delivered value (also a nil one)
			for k := range op.Ins {
				if flag, declared := o.Data[k]; declared && !flag {
					return fmt.Sprintf("op %d: data predecessor %d reported a value but is not marked as delivered", i, k), "chan-values-not-marked"
				}
				if _, declared := o.Data[k]; declared {
					if _, kept := o.Vals[k]; !kept {
						return fmt.Sprintf("op %d: the value reported by data predecessor %d is not kept", i, k), "chan-values-not-marked"
					}
				}
			}
		}
		if op.Op == "skip" {
			all := true
			for _, s := range o.Ctrl {
				if s != 2 {
					all = false
				}
			}
			if (o.Ret == "skip:true") != all || o.Skipped != all {
				return fmt.Sprintf("op %d: reportSkip = %s but all-control-predecessors-skipped = %v", i, o.Ret, all), "chan-skip-iff"
			}
		}
	}
	return "", ""
}

func (engine) Run(c any) lib.Result {
	cs := c.(*Case)
	if cs.Chan != nil {
		if !whiteboxAvailable {
			// built without the white-box group (tag verif_c02wb): the hook compose/verif_c02.go is not there (e.g. it no
			// longer compiles after a rename in dag.go); the black-box tie runs alone
			return lib.Result{Obs: map[string]any{"whitebox": "unavailable"}, Tags: []string{"kind:chan", "whitebox:unavailable"}}
		}
		obs, p := runChan(cs.Chan)
		res := lib.Result{Obs: map[string]any{"ops": obs, "panic": fmt.Sprint(p)}, Tags: []string{"kind:chan", fmt.Sprintf("ops:%d", len(cs.Chan.Ops)/5*5)}}
		if p != nil {
			res.Oracle, res.Sig = fmt.Sprint("dagChannel panicked: ", p), "chan-panic"
			return res
		}
		pairs := make([]string, len(obs))
		for i := range obs {
			pairs[i] = lib.CoqPair(cs.Chan.Ops[i].coq(), obs[i].coq())
		}
		res.CoqTerm = lib.CoqApp("CChan", lib.CoqNList(cs.Chan.Ctrl), lib.CoqNList(cs.Chan.Data), lib.CoqList(pairs))
		res.Oracle, res.Sig = chanOracle(cs.Chan, obs)
		res.Nontrivial = len(cs.Chan.Ops) >= 4 && len(cs.Chan.Ctrl)+len(cs.Chan.Data) > 0
		return res
	}
	if len(cs.Family) > 0 {
		return runFamily(cs.Family)
	}
	g := cs.Graph
	if cs.NilInput {
		withNil := *g
		withNil.Input = gg.NilMap()
		g = &withNil
	}
	if len(cs.Rerun) > 0 {
		return runRerun(g, cs.Rerun)
	}
	if len(cs.Concurrent) > 0 && cs.Typed != "" && concurrentApplicable(g, cs.Typed, cs.Concurrent) {
		return runConcurrent(g, cs.Typed, cs.Concurrent)
	}
	var obs *gg.Obs
	if cs.Shared && sharedApplicable(g) {
		obs = runShared(g)
	} else {
		obs = runResampled(g)
	}
	res := lib.Result{Obs: obs, Tags: append(gg.Tags(g, obs), "kind:graph")}
	if cs.Shared {
		res.Tags = append(res.Tags, "shape:shared-branch-value")
	}
	if obs.Class == "compile" && strings.Contains(obs.ErrMsg, "DAG invalid") && strings.Contains(obs.ErrMsg, "has loop") {
		// validateDAG rejected the graph: the model's validate_dag must reject it too
		res.Tags = append(res.Tags, "compile:loop")
		res.CoqTerm = "(CLoop " + g.CoqForest() + ")"
		res.Nontrivial = true
		if !hasControlCycle(g) {
			res.Oracle, res.Sig = "Compile reported a loop in a graph without control cycle: "+obs.ErrMsg, "dag-false-loop"
		}
		return res
	}
	if obs.Class == "compile" || obs.Class == "budget" {
		res.Tags = append(res.Tags, "not-in-model:"+obs.Class)
		return res
	}
	if hasControlCycle(g) {
		res.Oracle, res.Sig = "a graph with a control cycle compiled in all-predecessor mode (class "+obs.Class+")", "dag-cycle-accepted"
	}
	res.CoqTerm = "(CGraph " + g.CoqCase(obs) + ")"
	if res.Oracle == "" && (obs.Class == "hang" || obs.Class == "panic") {
		// a compiled graph must finish: END is assembled, or the run fails with an error
		res.Oracle, res.Sig = "Invoke of a compiled all-predecessor graph ended with "+obs.Class+": "+obs.ErrMsg, "dag-"+obs.Class
	}
	if res.Oracle == "" {
		res.Oracle, res.Sig = oracleDAG(g, obs)
	}
	if msg, sig, judged := oracleSpec(g, obs); judged {
		res.Tags = append(res.Tags, "spec:judged")
		if res.Oracle == "" {
			res.Oracle, res.Sig = msg, sig
		}
	}
	res.Nontrivial = gg.Nontrivial(g, obs)
	res.Tags = append(res.Tags, zeroTags(g, cs.NilInput)...)
	if cs.Typed != "" && !cs.Shared && res.Oracle == "" && typedApplicable(g, cs.Typed) {
		typedTwin(g, cs.Typed, obs, &res)
	}
	return res
}

// zeroTags: how often the clause "(the zero value when there are none)" is exercised, by the rule evaluator's account.
func zeroTags(g *gg.Case, nilInput bool) []string {
	var tags []string
	if nilInput {
		tags = append(tags, "input:nil")
	}
	sp := specDAG(g)
	if !sp.judged || nilInput {
		return tags
	}
	for _, in := range sp.in {
		if in.Kind == "nil" {
			tags = append(tags, "zero-value:node")
			break
		}
	}
	if sp.endRan && sp.endIn.Kind == "nil" {
		tags = append(tags, "zero-value:end")
	}
	return tags
}

// typedTwin: the same shape over other Go types (typed.go), judged by the same oracles and sent to the model
// beside the M-typed run.
func typedTwin(g *gg.Case, regime string, obs *gg.Obs, res *lib.Result) {
	obsT := runTyped(g, regime)
	res.Obs = map[string]any{"run": obs, "typed": regime, "typed_run": obsT}
	res.Tags = append(res.Tags, "typed:"+regime)
	if obsT.Class == "compile" || obsT.Class == "budget" {
		// which types may be connected is property C07's; the twin is not judged
		res.Tags = append(res.Tags, "typed:not-judged-"+obsT.Class)
		return
	}
	note := "the same shape built as " + typedName(regime) + ": "
	if res.Oracle == "" && (obsT.Class == "hang" || obsT.Class == "panic") {
		res.Oracle, res.Sig = note+"Invoke ended with "+obsT.Class+": "+obsT.ErrMsg, "dag-"+obsT.Class
	}
	if res.Oracle == "" {
		if msg, sig := oracleDAG(g, obsT); msg != "" {
			res.Oracle, res.Sig = note+msg, sig
		}
	}
	if msg, sig, judged := oracleSpec(g, obsT); judged && res.Oracle == "" && msg != "" {
		res.Oracle, res.Sig = note+msg, sig
	}
	res.CoqTerm = "(CFamily " + lib.CoqList([]string{g.CoqCase(obs), g.CoqCase(obsT)}) + ")"
}

// runFamily runs every member; the record is in the model only if every member is.
func runFamily(fam []*gg.Case) lib.Result {
	res := lib.Result{Tags: []string{"kind:family", fmt.Sprintf("family:%d", len(fam))}, Nontrivial: len(fam) >= 2}
	var obsAll []*gg.Obs
	var terms []string
	inModel := true
	for _, g := range fam {
		obs := runResampled(g)
		obsAll = append(obsAll, obs)
		if obs.Class == "compile" || obs.Class == "budget" {
			inModel = false
			continue
		}
		terms = append(terms, g.CoqCase(obs))
		if res.Oracle == "" && (obs.Class == "hang" || obs.Class == "panic") {
			res.Oracle, res.Sig = "Invoke of a compiled all-predecessor graph ended with "+obs.Class+": "+obs.ErrMsg, "dag-"+obs.Class
		}
		if res.Oracle == "" && hasControlCycle(g) {
			res.Oracle, res.Sig = "a graph with a control cycle compiled in all-predecessor mode", "dag-cycle-accepted"
		}
		if res.Oracle == "" {
			res.Oracle, res.Sig = oracleDAG(g, obs)
		}
		if msg, sig, judged := oracleSpec(g, obs); judged && res.Oracle == "" {
			res.Oracle, res.Sig = msg, sig
		}
	}
	res.Obs = map[string]any{"members": obsAll}
	if inModel {
		res.CoqTerm = "(CFamily " + lib.CoqList(terms) + ")"
	} else {
		res.Tags = append(res.Tags, "not-in-model:family")
	}
	return res
}

func main() { lib.Main(engine{}) }
