// Typed twins (round 6): the type dimension of the quantifier "every graph / workflow".
//
// harness/graphgen builds every graph as Graph[M, M] / Workflow[M, M] over lambdas func(M) (M, error) with
// M = map[string]any: the run's input type, its output type and every node's input type are one and the same
// concrete map type, so the zero value "of the consumer's input type", "of the run's output type" and "of the run's
// input type" cannot be told apart, and the untyped nil (a legal value of an interface-typed output) never flows.
// A typed twin builds the SAME flat shape (same keys, edges, dependencies, mappings, branch tables) over other Go
// types and runs it; the trigger rule and the merge rule of the property do not mention types, so the twin must show
// the same executions, inputs and result once values are read modulo the regime:
//
//	"aa"  Graph/Workflow[any, any], nodes and branch conditions over any; nil maps of the input are untyped nils;
//	      the zero value handed to a node (and to END) without data is the untyped nil
//	"ma"  Graph/Workflow[M, any], nodes over any: input type and output type differ (zero M(nil) vs untyped nil)
//	"am"  Graph/Workflow[any, M], nodes over M: differ the other way round (exactly the M regime otherwise)
//	"io"  Graph/Workflow[M, any], nodes func(any) (M, error): a NODE's input type and output type differ (the zero
//	      value handed to a node without data is the untyped nil, that of its output type a nil map)
//
// Reading values: in "aa"/"ma" the model's VNil is the untyped nil and a typed nil map is a value nobody sent
// (rendered "bad"); in "am" it is the other way round (graphgen.FromGo). A twin is built only for cases the rule
// evaluator specDAG judges (flat, lambdas / pass-through, forward edges, no failing node) in which no fan-in of two or
// more values contains a nil (mergeValues cannot take the type of an untyped nil: outside the property), and, when the
// nodes are interface typed, no node with field mappings is triggered without data (the mapping converter can only
// read the zero value of a map-typed consumer: property C15's ground).
// The twin's observation is judged by the same oracles (oracleDAG, oracleSpec) and sent to the model beside the
// M-typed run (CFamily).
package main

import (
	"context"
	"errors"
	"fmt"
	"runtime"
	"strings"
	"sync"
	"time"

	"github.com/cloudwego/eino/compose"

	gg "verif/harness/graphgen"
	"verif/harness/lib"
)

type M = gg.M

var typedRegimes = []string{"aa", "ma", "am", "io"}

// typedRec records the executions of the lambdas per RUN: the run's number travels in the context handed to Invoke.
type typedRec struct {
	mu     sync.Mutex
	events map[int][]gg.Event
	over   bool
}

type typedRunKey struct{}
type typedConcurrentKey struct{}

func typedRunID(ctx context.Context) int {
	id, _ := ctx.Value(typedRunKey{}).(int)
	return id
}

func (rec *typedRec) snapshot(id int) []gg.Event {
	rec.mu.Lock()
	defer rec.mu.Unlock()
	return append([]gg.Event{}, rec.events[id]...)
}

// containsNil: a nil map somewhere in the value.
func containsNil(v *gg.Val) bool {
	if v.Kind == "nil" {
		return true
	}
	for _, kv := range v.KVs {
		if containsNil(kv.V) {
			return true
		}
	}
	return false
}

// toGoIface: the Go value of v in the interface regimes: nil maps are untyped nils.
func toGoIface(v *gg.Val) any {
	switch v.Kind {
	case "atom":
		return int(v.N)
	case "nil":
		return nil
	}
	m := make(M, len(v.KVs))
	for _, kv := range v.KVs {
		m[gg.KeyStr(kv.Key)] = toGoIface(kv.V)
	}
	return m
}

// fromGoIface reads a value of the interface regimes: untyped nil = VNil; a typed nil map was sent by nobody.
func fromGoIface(x any) *gg.Val {
	if gg.Unbounded(x) {
		return gg.FromGo(x)
	}
	switch t := x.(type) {
	case nil:
		return gg.NilMap()
	case M:
		if t == nil {
			return &gg.Val{Kind: "bad", Bad: "typed-nil-map (zero value of another type than the consumer's)"}
		}
		kvs := make([]gg.KV, 0, len(t))
		for k, e := range t {
			n, ok := gg.ParseKey(k)
			if !ok {
				return &gg.Val{Kind: "bad", Bad: "key:" + k}
			}
			kvs = append(kvs, gg.KV{Key: n, V: fromGoIface(e)})
		}
		return gg.MapOf(kvs...)
	}
	return gg.FromGo(x)
}

// typedApplicable: the case is flat, judged by the rule evaluator, and the regime reads it without ambiguity.
func typedApplicable(c *gg.Case, regime string) bool {
	if len(c.Forest) != 1 || len(c.Fails) > 0 {
		return false
	}
	g := &c.Forest[0]
	if g.Front == "chain" || g.Mode != "dag" {
		return false
	}
	sp := specDAG(c)
	if !sp.judged || sp.nilMerge {
		return false
	}
	if regime == "am" || regime == "mm" {
		return true
	}
	if sp.zeroMapped {
		return false
	}
	if (regime == "ma" || regime == "io") && c.Input.Kind == "nil" {
		return false
	}
	return true
}

func asType[T any](x any) T {
	var z T
	if x == nil {
		return z
	}
	return x.(T)
}

// typedBuild constructs and compiles the flat root of c over the input type I and the output type O of the run, the
// input type NI and the output type NO of the lambdas, and the input type B of the branch conditions.
func typedBuild[I, O, NI, NO, B any](ctx context.Context, c *gg.Case, rec *typedRec, read func(any) *gg.Val) (compose.Runnable[I, O], error) {
	g := &c.Forest[0]
	lambda := func(key uint64) *compose.Lambda {
		return compose.InvokableLambda(func(ctx context.Context, in NI) (NO, error) {
			var z NO
			if gg.SizeOfGo(any(in)) > gg.SizeBudget {
				rec.mu.Lock()
				rec.over = true
				rec.mu.Unlock()
				return z, errors.New("verif-size-budget")
			}
			v := read(any(in))
			id := typedRunID(ctx)
			if ctx.Value(typedConcurrentKey{}) != nil {
				// several runs at the same time: let the others move between two steps of this one
				time.Sleep(time.Duration(20*(1+(int(key)+id)%4)) * time.Microsecond)
			}
			rec.mu.Lock()
			rec.events[id] = append(rec.events[id], gg.Event{Path: []uint64{key}, In: v})
			rec.mu.Unlock()
			return asType[NO](M{gg.KeyStr(key): any(in)}), nil
		})
	}
	name := func(k uint64) string {
		switch k {
		case gg.START:
			return compose.START
		case gg.END:
			return compose.END
		}
		return gg.KeyStr(k)
	}
	ends := func(ks []uint64) map[string]bool {
		m := make(map[string]bool, len(ks))
		for _, e := range ks {
			m[name(e)] = true
		}
		return m
	}
	branch := func(br *gg.Branch) *compose.GraphBranch {
		table := br.Table
		if br.Single {
			return compose.NewGraphBranch(func(ctx context.Context, in B) (string, error) {
				return name(table[gg.SizeOfGo(any(in))%uint64(len(table))][0]), nil
			}, ends(br.Ends))
		}
		return compose.NewGraphMultiBranch(func(ctx context.Context, in B) (map[string]bool, error) {
			if len(table) == 0 {
				return map[string]bool{}, nil
			}
			return ends(table[gg.SizeOfGo(any(in))%uint64(len(table))]), nil
		}, ends(br.Ends))
	}
	opts := func(n *gg.Node) []compose.GraphAddNodeOpt {
		if n.OutKey != 0 {
			return []compose.GraphAddNodeOpt{compose.WithOutputKey(gg.KeyStr(n.OutKey))}
		}
		return nil
	}
	if g.Front == "graph" {
		cg := compose.NewGraph[I, O]()
		for i := range g.Nodes {
			n := &g.Nodes[i]
			var err error
			switch {
			case n.Key == gg.START:
			case n.Kind == "lambda":
				err = cg.AddLambdaNode(name(n.Key), lambda(n.Key), opts(n)...)
			case n.Kind == "pass":
				err = cg.AddPassthroughNode(name(n.Key), opts(n)...)
			default:
				err = fmt.Errorf("typed twin: node kind %q", n.Kind)
			}
			if err != nil {
				return nil, err
			}
		}
		for i := range g.Nodes {
			n := &g.Nodes[i]
			for _, t := range n.DSucc {
				if err := cg.AddEdge(name(n.Key), name(t)); err != nil {
					return nil, err
				}
			}
		}
		for i := range g.Nodes {
			n := &g.Nodes[i]
			for j := range n.Branches {
				if err := cg.AddBranch(name(n.Key), branch(&n.Branches[j])); err != nil {
					return nil, err
				}
			}
		}
		return cg.Compile(ctx, compose.WithNodeTriggerMode(compose.AllPredecessor))
	}
	wf := compose.NewWorkflow[I, O]()
	wn := map[uint64]*compose.WorkflowNode{}
	for i := range g.Nodes {
		n := &g.Nodes[i]
		switch {
		case n.Key == gg.START:
		case n.Kind == "lambda":
			wn[n.Key] = wf.AddLambdaNode(name(n.Key), lambda(n.Key), opts(n)...)
		case n.Kind == "pass":
			wn[n.Key] = wf.AddPassthroughNode(name(n.Key), opts(n)...)
		default:
			return nil, fmt.Errorf("typed twin: node kind %q", n.Kind)
		}
	}
	wn[gg.END] = wf.End()
	for i := range g.Nodes {
		n := &g.Nodes[i]
		field := map[uint64]uint64{}
		for _, kn := range n.DMap {
			field[kn.Key] = kn.Field
		}
		mapping := func(t uint64) []*compose.FieldMapping {
			if f, ok := field[t]; ok {
				return []*compose.FieldMapping{compose.ToField(gg.KeyStr(f))}
			}
			return nil
		}
		for _, t := range n.DSucc {
			tn := wn[t]
			if tn == nil {
				return nil, fmt.Errorf("typed twin: workflow edge to unknown node %d", t)
			}
			if hasU(n.CSucc, t) {
				tn.AddInput(name(n.Key), mapping(t)...)
			} else {
				tn.AddInputWithOptions(name(n.Key), mapping(t), compose.WithNoDirectDependency())
			}
		}
		for _, t := range n.CSucc {
			if !hasU(n.DSucc, t) {
				tn := wn[t]
				if tn == nil {
					return nil, fmt.Errorf("typed twin: workflow dependency to unknown node %d", t)
				}
				tn.AddDependency(name(n.Key))
			}
		}
		for j := range n.Branches {
			wf.AddBranch(name(n.Key), branch(&n.Branches[j]))
		}
	}
	return wf.Compile(ctx)
}

// typedInvoke runs the twin under Recover and a watchdog (as graphgen.Invoke does for the M-typed run). settle: wait
// for the goroutines of the run to end (not when other runs are going on at the same time).
func typedInvoke[I, O any](ctx context.Context, r compose.Runnable[I, O], in any, rec *typedRec, id int, read func(any) *gg.Val, timeout time.Duration, settle bool, start <-chan struct{}) *gg.Obs {
	ctx = context.WithValue(ctx, typedRunKey{}, id)
	base := runtime.NumGoroutine()
	type result struct {
		out any
		err error
		p   any
	}
	done := make(chan result, 1)
	go func() {
		var res result
		if start != nil {
			<-start
		}
		res.p = lib.Recover(func() {
			out, err := r.Invoke(ctx, asType[I](in))
			res.out, res.err = any(out), err
		})
		done <- res
	}()
	snapshot := func() []gg.Event { return rec.snapshot(id) }
	var res result
	select {
	case res = <-done:
	case <-time.After(timeout):
		return &gg.Obs{Class: "hang", Log: snapshot()}
	}
	for i := 0; settle && i < 2000 && runtime.NumGoroutine() > base; i++ {
		if i < 50 {
			runtime.Gosched()
		} else {
			time.Sleep(100 * time.Microsecond)
		}
	}
	obs := &gg.Obs{Log: snapshot()}
	rec.mu.Lock()
	over := rec.over
	rec.mu.Unlock()
	switch {
	case over:
		obs.Class = "budget"
	case res.p != nil:
		obs.Class = "panic"
		obs.ErrMsg = fmt.Sprint(res.p)
	case res.err != nil:
		obs.Class = "fail"
		obs.ErrClass = gg.ClassifyErr(res.err)
		obs.ErrMsg = strings.ReplaceAll(res.err.Error(), "\n", " | ")
		if len(obs.ErrMsg) > 300 {
			obs.ErrMsg = obs.ErrMsg[:300]
		}
	default:
		obs.Class = "done"
		obs.Result = read(res.out)
	}
	return obs
}

// typedRun compiles the shape ONCE and invokes the runnable on every input: one input = the typed twin of a single
// case; several inputs = several runs started AT THE SAME TIME on the freshly compiled runnable (concurrent.go), each
// with its own execution log.
func typedRun[I, O, NI, NO, B any](c *gg.Case, ins []any, read func(any) *gg.Val, timeout time.Duration) []*gg.Obs {
	ctx := context.Background()
	rec := &typedRec{events: map[int][]gg.Event{}}
	var r compose.Runnable[I, O]
	var berr error
	all := func(o *gg.Obs) []*gg.Obs {
		out := make([]*gg.Obs, len(ins))
		for i := range out {
			out[i] = o
		}
		return out
	}
	if p := lib.Recover(func() { r, berr = typedBuild[I, O, NI, NO, B](ctx, c, rec, read) }); p != nil {
		return all(&gg.Obs{Class: "panic", ErrMsg: "build: " + fmt.Sprint(p)})
	}
	if berr != nil {
		return all(&gg.Obs{Class: "compile", ErrMsg: berr.Error()})
	}
	if len(ins) == 1 {
		return []*gg.Obs{typedInvoke[I, O](ctx, r, ins[0], rec, 0, read, timeout, true, nil)}
	}
	ctx = context.WithValue(ctx, typedConcurrentKey{}, true)
	base := runtime.NumGoroutine()
	out := make([]*gg.Obs, len(ins))
	start := make(chan struct{})
	var wg sync.WaitGroup
	for i := range ins {
		wg.Add(1)
		go func(i int) {
			defer wg.Done()
			out[i] = typedInvoke[I, O](ctx, r, ins[i], rec, i, read, timeout, false, start)
		}(i)
	}
	close(start)
	wg.Wait()
	for i := 0; i < 2000 && runtime.NumGoroutine() > base; i++ {
		time.Sleep(100 * time.Microsecond)
	}
	for i := range out {
		// executions that ended after their run had returned (eager mode) belong to the log too
		if out[i].Class != "hang" {
			out[i].Log = rec.snapshot(i)
		}
	}
	return out
}

// runTypedOnce builds the twin of c in the given regime and runs it on c.Input and on the further inputs.
func runTypedOnce(c *gg.Case, regime string, more []*gg.Val, timeout time.Duration) []*gg.Obs {
	inputs := append([]*gg.Val{c.Input}, more...)
	ins := make([]any, len(inputs))
	for i, v := range inputs {
		if regime == "aa" || regime == "ma" || regime == "io" {
			ins[i] = toGoIface(v)
		} else {
			ins[i] = v.ToGo()
		}
	}
	switch regime {
	case "aa":
		return typedRun[any, any, any, any, any](c, ins, fromGoIface, timeout)
	case "ma":
		return typedRun[M, any, any, any, any](c, ins, fromGoIface, timeout)
	case "io":
		return typedRun[M, any, any, M, any](c, ins, fromGoIface, timeout)
	case "mm":
		return typedRun[M, M, M, M, M](c, ins, gg.FromGo, timeout)
	}
	return typedRun[any, M, M, M, M](c, ins, gg.FromGo, timeout)
}

// runTypedAll: as runResampled, a watchdog that fires on a loaded machine is not a hang.
func runTypedAll(c *gg.Case, regime string, more []*gg.Val) []*gg.Obs {
	hung := func(obs []*gg.Obs) bool {
		for _, o := range obs {
			if o.Class == "hang" {
				return true
			}
		}
		return false
	}
	obs := runTypedOnce(c, regime, more, 10*time.Second)
	if hung(obs) && hangRetries > 0 {
		hangRetries--
		obs = runTypedOnce(c, regime, more, 60*time.Second)
	}
	return obs
}

func runTyped(c *gg.Case, regime string) *gg.Obs { return runTypedAll(c, regime, nil)[0] }

func typedName(regime string) string {
	switch regime {
	case "aa":
		return "[any, any] over interface-typed nodes"
	case "ma":
		return "[map, any] over interface-typed nodes"
	case "io":
		return "[map, any] over nodes func(any) map"
	case "mm":
		return "[map, map] over map-typed nodes"
	}
	return "[any, map] over map-typed nodes"
}
