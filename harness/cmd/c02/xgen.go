// genX: a generator written around the quantifier of the property ("control-only, data-only and combined
// dependencies, single and multi-way branches, several branches converging on one node, nested skips, every
// combination of branch outcomes"). The shared generators of harness/graphgen pick branch sources and ends
// independently of everything else, so the shapes on which the skip bookkeeping matters are rare there:
//
//   - several branches of ONE node that share end nodes (the "selected by another branch" rule),
//   - nodes whose only control predecessors are branches (pure branch ends), and chains behind them (nested skips),
//   - joins whose control predecessors lie on different arms (partly skipped, partly finished),
//   - Workflow inputs WithNoDirectDependency that cross arms: the data predecessor is skipped while the consumer
//     is triggered through another path (the skip has to set the consumer's data flag),
//   - Workflow dependencies without data.
//
// genX builds flat all-lambda (a few pass-through) graphs with forward edges only, so that the rule evaluator
// specDAG judges (nearly) every one of them, and is used for single cases and as the base of families.
package main

import (
	"sort"

	gg "verif/harness/graphgen"
	"verif/harness/lib"
)

func hasU(ks []uint64, k uint64) bool {
	for _, x := range ks {
		if x == k {
			return true
		}
	}
	return false
}

func uniqU(xs []uint64) []uint64 {
	sort.Slice(xs, func(i, j int) bool { return xs[i] < xs[j] })
	out := xs[:0]
	for i, x := range xs {
		if i == 0 || x != xs[i-1] {
			out = append(out, x)
		}
	}
	return out
}

func xTable(r *lib.Rng, ends []uint64, single bool) [][]uint64 {
	rows := r.Range(1, 4)
	if !single && r.Chance(1, 14) {
		return [][]uint64{}
	}
	t := make([][]uint64, rows)
	for i := range t {
		if single {
			t[i] = []uint64{ends[r.Intn(len(ends))]}
			continue
		}
		row := []uint64{}
		for _, e := range ends {
			if r.Chance(1, 2) {
				row = append(row, e)
			}
		}
		t[i] = row
	}
	return t
}

// pick k distinct elements of cands (sorted).
func xPick(r *lib.Rng, cands []uint64, k int) []uint64 {
	if k > len(cands) {
		k = len(cands)
	}
	p := r.Perm(len(cands))
	out := make([]uint64, k)
	for i := 0; i < k; i++ {
		out[i] = cands[p[i]]
	}
	return uniqU(out)
}

func genX(r *lib.Rng, wf bool, maxNodes int) *gg.Case {
	if maxNodes < 4 {
		maxNodes = 4
	}
	n := r.Range(3, maxNodes)
	nodes := make([]gg.Node, n+1)
	nodes[0] = gg.Node{Key: gg.START, Kind: "start"}
	keys := make([]uint64, n)
	for i := 0; i < n; i++ {
		keys[i] = uint64(i + 2)
		nodes[i+1] = gg.Node{Key: keys[i], Kind: "lambda"}
	}
	at := func(k uint64) *gg.Node {
		if k == gg.START {
			return &nodes[0]
		}
		return &nodes[k-1]
	}
	later := func(k uint64, withEnd bool) []uint64 {
		var out []uint64
		for _, x := range keys {
			if k == gg.START || x > k {
				out = append(out, x)
			}
		}
		if withEnd {
			out = append(out, gg.END)
		}
		return out
	}
	ctrlIn := map[uint64]int{}
	isEnd := map[uint64]bool{} // end of some branch

	// 1. branch sources: START or a node of the first two thirds; a source gets one or two (rarely three) branches
	nsrc := 1
	if r.Chance(1, 3) {
		nsrc = 2
	}
	for s := 0; s < nsrc; s++ {
		src := gg.START
		if lim := (2*n + 2) / 3; r.Chance(2, 3) && lim >= 1 {
			src = keys[r.Intn(lim)]
		}
		cands := later(src, r.Chance(1, 4))
		if len(cands) < 2 {
			continue
		}
		nb := 1
		switch x := r.Intn(10); {
		case x < 4:
			nb = 2
		case x < 5:
			nb = 3
		}
		var prev []uint64
		for b := 0; b < nb; b++ {
			k := 2
			if len(cands) > 2 && r.Chance(1, 3) {
				k = 3
			}
			ends := xPick(r, cands, k)
			if len(prev) > 0 && r.Chance(3, 4) {
				// share an end with the previous branch of the same source
				sh := prev[r.Intn(len(prev))]
				if !hasU(ends, sh) {
					ends[r.Intn(len(ends))] = sh
					ends = uniqU(ends)
				}
			}
			if len(ends) < 2 {
				continue
			}
			single := r.Chance(1, 2)
			at(src).Branches = append(at(src).Branches, gg.Branch{Ends: ends, NoData: wf, Single: single, Table: xTable(r, ends, single)})
			for _, e := range ends {
				ctrlIn[e]++
				isEnd[e] = true
			}
			prev = ends
		}
	}
	edge := func(from, to uint64, data, ctrl bool) {
		s := at(from)
		if data && !hasU(s.DSucc, to) {
			s.DSucc = append(s.DSucc, to)
		}
		if ctrl && !hasU(s.CSucc, to) {
			s.CSucc = append(s.CSucc, to)
			ctrlIn[to]++
		}
	}
	earlier := func(i int) uint64 { // START or a node before keys[i]
		if i == 0 || r.Chance(1, i+2) {
			return gg.START
		}
		return keys[r.Intn(i)]
	}
	// 2. every node gets a control predecessor; branch ends keep the branch as their only one half of the time
	for i := 0; i < n; i++ {
		t := keys[i]
		if isEnd[t] && r.Chance(1, 2) {
			continue
		}
		np := 1
		if i > 0 && r.Chance(1, 3) {
			np = 2
		}
		for j := 0; j < np; j++ {
			from := earlier(i)
			if wf && r.Chance(1, 5) {
				edge(from, t, false, true) // dependency without data
			} else {
				edge(from, t, true, true)
			}
		}
	}
	// 3. joins: a node behind two ends of a branch (partly skipped, partly finished predecessors)
	for i := range nodes {
		for _, b := range nodes[i].Branches {
			if !r.Chance(1, 2) {
				continue
			}
			var es []uint64
			for _, e := range b.Ends {
				if e != gg.END {
					es = append(es, e)
				}
			}
			if len(es) < 2 {
				continue
			}
			mx := es[len(es)-1]
			cands := later(mx, true)
			j := cands[r.Intn(len(cands))]
			for _, e := range es {
				if r.Chance(4, 5) {
					edge(e, j, !(wf && r.Chance(1, 6)), true)
				}
			}
		}
	}
	// 4. Workflow: data for the pure branch ends, and data-only inputs across the arms
	if wf {
		for i := 0; i < n; i++ {
			t := keys[i]
			hasData := false
			for j := range nodes {
				if hasU(nodes[j].DSucc, t) {
					hasData = true
				}
			}
			if !hasData && r.Chance(4, 5) {
				edge(earlier(i), t, true, false)
			}
			if r.Chance(2, 5) {
				edge(earlier(i), t, true, false) // no-op if that edge exists already
			}
		}
	}
	// 5. END: every sink leads to it (so that the whole graph is needed), sometimes one more node
	var sinks []uint64
	for i := 0; i < n; i++ {
		nd := &nodes[i+1]
		if len(nd.CSucc) == 0 && len(nd.DSucc) == 0 && len(nd.Branches) == 0 {
			sinks = append(sinks, keys[i])
		}
	}
	if len(sinks) == 0 || ctrlIn[gg.END] == 0 && len(sinks) == 0 {
		sinks = []uint64{keys[n-1]}
	}
	if r.Chance(1, 4) {
		sinks = uniqU(append(sinks, keys[r.Intn(n)]))
	}
	for _, sk := range sinks {
		if wf && len(sinks) > 1 && r.Chance(1, 7) {
			edge(sk, gg.END, false, true)
		} else {
			edge(sk, gg.END, true, true)
		}
	}
	if wf && r.Chance(1, 5) {
		edge(keys[r.Intn(n)], gg.END, true, false) // a data-only input of END
	}
	// plain Graph: an edge is data + control
	if !wf {
		for i := range nodes {
			nodes[i].DSucc = uniqU(append(nodes[i].DSucc, nodes[i].CSucc...))
			nodes[i].CSucc = append([]uint64{}, nodes[i].DSucc...)
		}
	}
	// START needs an outgoing control edge or branch
	if len(nodes[0].CSucc) == 0 && len(nodes[0].Branches) == 0 {
		edge(gg.START, keys[0], true, true)
		if !wf {
			nodes[0].DSucc, nodes[0].CSucc = uniqU(nodes[0].DSucc), uniqU(nodes[0].CSucc)
		}
	}
	// Workflow: whole-output inputs are legal only as the single data input of the target
	if wf {
		dataIn := map[uint64]int{}
		for i := range nodes {
			for _, t := range nodes[i].DSucc {
				dataIn[t]++
			}
		}
		field := uint64(1000)
		for i := range nodes {
			for _, t := range nodes[i].DSucc {
				if dataIn[t] > 1 || r.Chance(1, 4) {
					nodes[i].DMap = append(nodes[i].DMap, gg.KN{Key: t, Field: field})
					field++
				}
			}
		}
	}
	// a few pass-through nodes where the type can be inferred (a data input exists)
	for i := 1; i <= n; i++ {
		if !r.Chance(1, 10) {
			continue
		}
		for j := range nodes {
			if hasU(nodes[j].DSucc, nodes[i].Key) {
				nodes[i].Kind = "pass"
			}
		}
	}
	for i := range nodes {
		nodes[i].DSucc = uniqU(nodes[i].DSucc)
		nodes[i].CSucc = uniqU(nodes[i].CSucc)
		sort.Slice(nodes[i].DMap, func(a, b int) bool { return nodes[i].DMap[a].Key < nodes[i].DMap[b].Key })
	}
	g := gg.Graph{Front: "graph", Mode: "dag", Nodes: nodes}
	if wf {
		g.Front = "workflow"
	}
	kvs := []gg.KV{{Key: 900 + uint64(r.Intn(3)), V: gg.Atom(uint64(r.Intn(5)))}}
	if r.Chance(1, 3) {
		kvs = append(kvs, gg.KV{Key: 905, V: gg.Atom(1)})
	}
	if r.Chance(1, 6) {
		kvs = append(kvs, gg.KV{Key: 906, V: gg.Atom(2)})
	}
	return &gg.Case{Forest: []gg.Graph{g}, Input: gg.MapOf(kvs...)}
}

// zeroify (round 6) turns a genX Workflow case into one in which a node or END is triggered WITHOUT DATA — the clause
// "(the zero value when there are none)", which only a Workflow can reach (in a Graph every control edge carries data):
//
//	strip-end / strip-node  every data input of END / of one node becomes a dependency without data (AddDependency);
//	                        data-only inputs of it are dropped: the target is triggered with the zero value whenever it runs
//	end-by-branch           END becomes an end of one of the (data-less) Workflow branches and some rows of its table select
//	                        it: END is routed by the branch while its data predecessors may lie on an arm that is skipped
//
// One to two of them are applied. All edges stay forward edges, so the rule evaluator judges the case.
func zeroify(r *lib.Rng, c *gg.Case) {
	g := &c.Forest[0]
	del := func(ks []uint64, k uint64) []uint64 {
		out := []uint64{}
		for _, x := range ks {
			if x != k {
				out = append(out, x)
			}
		}
		return out
	}
	hasCtrl := func(t uint64) bool {
		for i := range g.Nodes {
			if isCtrlPred(&g.Nodes[i], t) {
				return true
			}
		}
		return false
	}
	strip := func(t uint64) {
		if !hasCtrl(t) {
			return
		}
		for i := range g.Nodes {
			n := &g.Nodes[i]
			n.DSucc = del(n.DSucc, t)
			dm := []gg.KN{}
			for _, kn := range n.DMap {
				if kn.Key != t {
					dm = append(dm, kn)
				}
			}
			n.DMap = dm
			if len(n.DMap) == 0 {
				n.DMap = nil
			}
		}
		if n := g.NodeAt(t); n != nil && n.Kind == "pass" {
			n.Kind = "lambda" // the type of a pass-through node is inferred from a data input
		}
	}
	endByBranch := func() {
		var srcs []int
		for i := range g.Nodes {
			if len(g.Nodes[i].Branches) > 0 {
				srcs = append(srcs, i)
			}
		}
		if len(srcs) == 0 {
			return
		}
		n := &g.Nodes[srcs[r.Intn(len(srcs))]]
		b := &n.Branches[r.Intn(len(n.Branches))]
		if !hasU(b.Ends, gg.END) {
			b.Ends = append(b.Ends, gg.END)
		}
		if len(b.Table) == 0 {
			b.Table = [][]uint64{{gg.END}}
			return
		}
		hit := false
		for i := range b.Table {
			if r.Chance(1, 2) || (i == len(b.Table)-1 && !hit) {
				hit = true
				if b.Single {
					b.Table[i] = []uint64{gg.END}
				} else if !hasU(b.Table[i], gg.END) {
					b.Table[i] = append(append([]uint64{}, b.Table[i]...), gg.END)
				}
			}
		}
	}
	node := func() uint64 {
		return g.Nodes[1+r.Intn(len(g.Nodes)-1)].Key
	}
	switch r.Intn(6) {
	case 0:
		strip(gg.END)
	case 1:
		strip(node())
	case 2:
		endByBranch()
	case 3:
		endByBranch()
		strip(node())
	case 4:
		strip(gg.END)
		strip(node())
	default:
		endByBranch()
		if r.Chance(1, 2) {
			strip(gg.END)
		}
	}
}
