package main

import (
	gg "verif/harness/graphgen"
	"verif/harness/lib"
)

// addCycle closes a cycle in one all-predecessor graph of the forest: a forward control path a -> b is made sure
// of and a back edge (or a branch) b -> a is added. One time in four the back edge is data-only (Workflow
// WithNoDirectDependency): validateDAG looks at control dependencies only, so that graph compiles.
func addCycle(r *lib.Rng, c *gg.Case) {
	var cands []int
	for _, i := range reachable(c) {
		g := &c.Forest[i]
		if g.Front != "chain" && g.Mode == "dag" && len(g.Nodes) >= 3 {
			cands = append(cands, i)
		}
	}
	if len(cands) == 0 {
		return
	}
	g := &c.Forest[cands[r.Intn(len(cands))]]
	n := len(g.Nodes) - 1
	ai := 1 + r.Intn(n-1)
	bi := ai + 1 + r.Intn(n-ai)
	a, b := &g.Nodes[ai], &g.Nodes[bi]
	addTo := func(ks []uint64, k uint64) []uint64 {
		for _, x := range ks {
			if x == k {
				return ks
			}
		}
		return append(ks, k)
	}
	wf := g.Front == "workflow"
	// forward a -> b
	a.CSucc = addTo(a.CSucc, b.Key)
	if !wf {
		a.DSucc = addTo(a.DSucc, b.Key)
	}
	// back b -> a
	switch x := r.Intn(4); {
	case x == 0 && wf:
		b.DSucc = addTo(b.DSucc, a.Key) // data-only: not a control cycle
		b.DMap = append(b.DMap, gg.KN{Key: a.Key, Field: 1900})
		for i := range g.Nodes { // "whole output" inputs are only legal alone: map every other data input of a
			p := &g.Nodes[i]
			if p.Key == b.Key {
				continue
			}
			for _, t := range p.DSucc {
				if t == a.Key {
					mapped := false
					for _, kn := range p.DMap {
						mapped = mapped || kn.Key == a.Key
					}
					if !mapped {
						p.DMap = append(p.DMap, gg.KN{Key: a.Key, Field: 1901 + uint64(i)})
					}
				}
			}
		}
	case x == 1:
		ends := []uint64{a.Key, gg.END}
		b.Branches = append(b.Branches, gg.Branch{Ends: ends, NoData: wf, Table: [][]uint64{{gg.END}, {a.Key}}, Single: true})
	default:
		b.CSucc = addTo(b.CSucc, a.Key)
		if !wf {
			b.DSucc = addTo(b.DSucc, a.Key)
		}
	}
}

// reachable lists the forest entries the root refers to, transitively (the others are never built).
func reachable(c *gg.Case) []int {
	seen := map[int]bool{}
	var out []int
	var walk func(idx, depth int)
	walk = func(idx, depth int) {
		if idx < 0 || idx >= len(c.Forest) || depth > len(c.Forest) || seen[idx] {
			return
		}
		seen[idx] = true
		out = append(out, idx)
		g := &c.Forest[idx]
		if g.Front == "chain" {
			for _, st := range g.Stages {
				for _, sn := range st.Nodes {
					if sn.Kind == "sub" {
						walk(sn.Sub, depth+1)
					}
				}
			}
			return
		}
		for i := range g.Nodes {
			if g.Nodes[i].Kind == "sub" {
				walk(g.Nodes[i].Sub, depth+1)
			}
		}
	}
	walk(0, 0)
	return out
}

// hasControlCycle: some all-predecessor graph the root refers to has a cycle of control dependencies (control
// edges and branch end nodes) among its real nodes. Written from the property text ("acyclic"), not Kahn.
func hasControlCycle(c *gg.Case) bool {
	for _, i := range reachable(c) {
		g := &c.Forest[i]
		if g.Front == "chain" || g.Mode != "dag" {
			continue
		}
		succ := map[uint64][]uint64{}
		for j := range g.Nodes {
			n := &g.Nodes[j]
			if n.Key == gg.START {
				continue
			}
			for _, t := range n.CSucc {
				if t != gg.END {
					succ[n.Key] = append(succ[n.Key], t)
				}
			}
			for _, b := range n.Branches {
				for _, t := range b.Ends {
					if t != gg.END {
						succ[n.Key] = append(succ[n.Key], t)
					}
				}
			}
		}
		state := map[uint64]int{}
		var dfs func(k uint64) bool
		dfs = func(k uint64) bool {
			state[k] = 1
			for _, t := range succ[k] {
				if state[t] == 1 || (state[t] == 0 && dfs(t)) {
					return true
				}
			}
			state[k] = 2
			return false
		}
		for j := range g.Nodes {
			if k := g.Nodes[j].Key; k != gg.START && state[k] == 0 && dfs(k) {
				return true
			}
		}
	}
	return false
}
