package main

import (
	"encoding/json"

	gg "verif/harness/graphgen"
	"verif/harness/lib"
)

// genFamily: a flat all-predecessor graph or Workflow with up to three two-way branches, replicated for EVERY
// combination of constant branch outcomes (a single branch selects one of its two ends, a multi branch any of
// the four subsets), at most `limit` members (quick 8, thorough 16). The sub-space "all branch outcomes of this graph" is covered
// exhaustively.
func genFamily(r *lib.Rng, o gg.GenOpts, x bool, limit int) []*gg.Case {
	o.MaxDepth = 0
	o.FailProb = 0
	var base *gg.Case
	switch {
	case x: // the converging-branches generator of xgen.go, two Workflows for one Graph
		base = genX(r, !r.Chance(1, 3), o.MaxNodes)
	case r.Chance(1, 2):
		base = gg.GenDAG(r, o)
	default:
		base = gg.GenWorkflow(r, o)
	}
	g := &base.Forest[0]
	wf := g.Front == "workflow"
	// normalise the existing branches to two ends, add branches up to three
	type slot struct{ ni, bi int }
	var slots []slot
	for ni := range g.Nodes {
		for bi := range g.Nodes[ni].Branches {
			b := &g.Nodes[ni].Branches[bi]
			if len(b.Ends) > 2 {
				b.Ends = b.Ends[:2]
			}
			slots = append(slots, slot{ni, bi})
		}
	}
	for tries := 0; len(slots) < 3 && tries < 6; tries++ {
		ni := r.Intn(len(g.Nodes))
		n := &g.Nodes[ni]
		var cands []uint64
		for _, m := range g.Nodes {
			if m.Key != gg.START && (n.Key == gg.START || m.Key > n.Key) {
				cands = append(cands, m.Key)
			}
		}
		cands = append(cands, gg.END)
		if len(cands) < 2 {
			continue
		}
		p := r.Perm(len(cands))
		ends := []uint64{cands[p[0]], cands[p[1]]}
		if ends[0] > ends[1] {
			ends[0], ends[1] = ends[1], ends[0]
		}
		n.Branches = append(n.Branches, gg.Branch{Ends: ends, NoData: wf, Single: r.Chance(1, 2), Table: [][]uint64{{ends[0]}}})
		slots = append(slots, slot{ni, len(n.Branches) - 1})
	}
	// outcomes per branch
	outcomes := make([][][]uint64, len(slots))
	total := 1
	for i, s := range slots {
		b := &g.Nodes[s.ni].Branches[s.bi]
		if total*4 > limit {
			b.Single = true
		}
		switch {
		case total*2 > limit: // the family is full: this branch keeps its generated table in every member
			if b.Single {
				if len(b.Table) == 0 { // a multi branch that selects nothing, made single above: a single branch selects one end
					b.Table = [][]uint64{{b.Ends[0]}}
				}
				for ri := range b.Table { // (rows refer to the two remaining ends)
					if len(b.Table[ri]) != 1 || !hasU(b.Ends, b.Table[ri][0]) {
						b.Table[ri] = []uint64{b.Ends[0]}
					}
				}
			} else {
				for ri := range b.Table {
					row := []uint64{}
					for _, e := range b.Table[ri] {
						if hasU(b.Ends, e) {
							row = append(row, e)
						}
					}
					b.Table[ri] = row
				}
			}
			outcomes[i] = nil
			continue
		case b.Single:
			outcomes[i] = [][]uint64{{b.Ends[0]}, {b.Ends[1]}}
		default:
			outcomes[i] = [][]uint64{{}, {b.Ends[0]}, {b.Ends[1]}, {b.Ends[0], b.Ends[1]}}
		}
		total *= len(outcomes[i])
	}
	raw, _ := json.Marshal(base)
	var fam []*gg.Case
	for combo := 0; combo < total; combo++ {
		var c gg.Case
		_ = json.Unmarshal(raw, &c)
		x := combo
		for i, s := range slots {
			if outcomes[i] == nil {
				continue
			}
			k := x % len(outcomes[i])
			x /= len(outcomes[i])
			c.Forest[0].Nodes[s.ni].Branches[s.bi].Table = [][]uint64{outcomes[i][k]}
		}
		fam = append(fam, &c)
	}
	return fam
}
