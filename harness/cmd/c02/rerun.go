package main

import (
	"context"
	"fmt"
	"time"

	gg "verif/harness/graphgen"
	"verif/harness/lib"
)

// Re-runs (round 4): ONE compiled runnable is invoked several times, on inputs of different size (the branch
// tables are indexed by the size of a node's output, so the runs take different arms: a node that is skipped in
// one run is triggered in the next). "per run" in the property text: whatever a run leaves behind in the
// runnable (channel state, skip flags, queued work) must not reach the next one. Each run is compared with
// the model and judged by the oracles like a run of a freshly compiled graph (CFamily in Corr/C02.v).

func genRerunInputs(r *lib.Rng, first *gg.Val) []*gg.Val {
	k := 900 + uint64(r.Intn(3))
	cands := []*gg.Val{
		gg.MapOf(gg.KV{Key: k, V: gg.Atom(uint64(r.Intn(5)))}, gg.KV{Key: 905, V: gg.MapOf(gg.KV{Key: 906, V: gg.Atom(1)})}),
		gg.MapOf(gg.KV{Key: k, V: gg.Atom(uint64(r.Intn(5)))}),
		gg.MapOf(),
		gg.MapOf(gg.KV{Key: k, V: gg.MapOf(gg.KV{Key: 907, V: gg.Atom(2)}, gg.KV{Key: 908, V: gg.Atom(3)})}),
	}
	p := r.Perm(len(cands))
	out := []*gg.Val{}
	for _, i := range p {
		if cands[i].String() != first.String() && len(out) < 2 {
			out = append(out, cands[i])
		}
	}
	return out
}

// hang re-sampling: a watchdog that fires on a loaded machine is not a hang. The first time(s) a run is
// classified "hang" it is repeated with a six times longer watchdog; only a repeated hang is reported.
var hangRetries = 3

func invokeResampled(ctx context.Context, bt *gg.Built, in *gg.Val) *gg.Obs {
	obs := gg.Invoke(ctx, bt, in, gg.RunOpts{})
	if obs.Class == "hang" && hangRetries > 0 {
		hangRetries--
		bt.Rec.Events = nil
		obs = gg.Invoke(ctx, bt, in, gg.RunOpts{Timeout: 60 * time.Second})
	}
	return obs
}

func runResampled(g *gg.Case) *gg.Obs {
	obs := gg.Run(g, gg.RunOpts{})
	if obs.Class == "hang" && hangRetries > 0 {
		hangRetries--
		obs = gg.Run(g, gg.RunOpts{Timeout: 60 * time.Second})
	}
	return obs
}

func runRerun(g *gg.Case, more []*gg.Val) lib.Result {
	res := lib.Result{Tags: []string{"kind:rerun", fmt.Sprintf("rerun:%d", 1+len(more))}}
	ctx := context.Background()
	var bt *gg.Built
	var berr error
	if p := lib.Recover(func() { bt, berr = gg.Build(ctx, g, gg.BuildOpts{}) }); p != nil {
		res.Obs = map[string]any{"panic": fmt.Sprint(p)}
		res.Oracle, res.Sig = "Compile panicked: "+fmt.Sprint(p), "dag-panic"
		return res
	}
	if berr != nil {
		res.Obs = map[string]any{"compile": berr.Error()}
		res.Tags = append(res.Tags, "not-in-model:compile")
		return res
	}
	inputs := append([]*gg.Val{g.Input}, more...)
	var obsAll []*gg.Obs
	var terms []string
	inModel := true
	execs := 0
	for i, in := range inputs {
		member := *g
		member.Input = in
		bt.Rec.Events = nil
		obs := invokeResampled(ctx, bt, in)
		obsAll = append(obsAll, obs)
		if obs.Class == "budget" {
			inModel = false
			continue
		}
		execs += len(obs.Log)
		terms = append(terms, member.CoqCase(obs))
		note := fmt.Sprintf("run %d of one compiled runnable (input %s): ", i+1, in.String())
		if res.Oracle == "" && (obs.Class == "hang" || obs.Class == "panic") {
			res.Oracle, res.Sig = note+"Invoke ended with "+obs.Class+": "+obs.ErrMsg, "dag-"+obs.Class
		}
		if res.Oracle == "" {
			if msg, sig := oracleDAG(&member, obs); msg != "" {
				res.Oracle, res.Sig = note+msg, sig
			}
		}
		if msg, sig, judged := oracleSpec(&member, obs); judged && res.Oracle == "" && msg != "" {
			res.Oracle, res.Sig = note+msg, sig
		}
	}
	res.Obs = map[string]any{"runs": obsAll}
	res.Nontrivial = len(inputs) >= 2 && execs >= 3
	if inModel {
		res.CoqTerm = "(CFamily " + lib.CoqList(terms) + ")"
	} else {
		res.Tags = append(res.Tags, "not-in-model:rerun")
	}
	return res
}
