// Shrinker of the C02 engine: greedy minimisation of a case on which the direct oracle fails (same signature).
// Every candidate is structurally smaller; candidates that no longer compile or no longer fail the same way
// are rejected by stillFails.
package main

import (
	"encoding/json"

	gg "verif/harness/graphgen"
)

func cloneC02(c *Case) *Case {
	b, _ := json.Marshal(c)
	var d Case
	_ = json.Unmarshal(b, &d)
	return &d
}

func withoutKey(ks []uint64, k uint64) []uint64 {
	out := ks[:0:0]
	for _, x := range ks {
		if x != k {
			out = append(out, x)
		}
	}
	return out
}

// dropNode deletes node k of a graph and every reference to it; degenerate branches are dropped.
func dropNode(g *gg.Graph, k uint64) {
	var ns []gg.Node
	for _, n := range g.Nodes {
		if n.Key == k {
			continue
		}
		n.DSucc = withoutKey(n.DSucc, k)
		n.CSucc = withoutKey(n.CSucc, k)
		var dm []gg.KN
		for _, kn := range n.DMap {
			if kn.Key != k {
				dm = append(dm, kn)
			}
		}
		n.DMap = dm
		var bs []gg.Branch
		for _, b := range n.Branches {
			b.Ends = withoutKey(b.Ends, k)
			ok := len(b.Ends) >= 1
			var tb [][]uint64
			for _, row := range b.Table {
				row = withoutKey(row, k)
				if b.Single && len(row) == 0 {
					ok = false
				}
				if row == nil {
					row = []uint64{}
				}
				tb = append(tb, row)
			}
			b.Table = tb
			if ok {
				bs = append(bs, b)
			}
		}
		n.Branches = bs
		ns = append(ns, n)
	}
	g.Nodes = ns
}

func graphCandidates(c *gg.Case) []*gg.Case {
	var out []*gg.Case
	clone := func() *gg.Case {
		b, _ := json.Marshal(c)
		var d gg.Case
		_ = json.Unmarshal(b, &d)
		return &d
	}
	add := func(f func(d *gg.Case) bool) {
		d := clone()
		if f(d) {
			out = append(out, d)
		}
	}
	if len(c.Fails) > 0 {
		add(func(d *gg.Case) bool { d.Fails = nil; return true })
	}
	root := &c.Forest[0]
	// replace sub-graph nodes of the root by lambdas (then the unreferenced forest entries are harmless)
	for i := range root.Nodes {
		i := i
		if root.Nodes[i].Kind == "sub" || root.Nodes[i].Kind == "pass" {
			add(func(d *gg.Case) bool { d.Forest[0].Nodes[i].Kind, d.Forest[0].Nodes[i].Sub = "lambda", 0; return true })
		}
	}
	if len(c.Forest) > 1 {
		add(func(d *gg.Case) bool {
			for _, n := range d.Forest[0].Nodes {
				if n.Kind == "sub" {
					return false
				}
			}
			d.Forest = d.Forest[:1]
			return true
		})
	}
	for i := len(root.Nodes) - 1; i >= 1; i-- {
		k := root.Nodes[i].Key
		add(func(d *gg.Case) bool { dropNode(&d.Forest[0], k); return len(d.Forest[0].Nodes) >= 2 })
	}
	for i := range root.Nodes {
		i := i
		for bi := range root.Nodes[i].Branches {
			bi := bi
			add(func(d *gg.Case) bool {
				n := &d.Forest[0].Nodes[i]
				n.Branches = append(n.Branches[:bi:bi], n.Branches[bi+1:]...)
				return true
			})
		}
		for _, t := range root.Nodes[i].CSucc {
			t := t
			add(func(d *gg.Case) bool {
				n := &d.Forest[0].Nodes[i]
				n.CSucc, n.DSucc = withoutKey(n.CSucc, t), withoutKey(n.DSucc, t)
				var dm []gg.KN
				for _, kn := range n.DMap {
					if kn.Key != t {
						dm = append(dm, kn)
					}
				}
				n.DMap = dm
				return true
			})
		}
	}
	if c.Input != nil && c.Input.Kind == "map" && len(c.Input.KVs) > 1 {
		add(func(d *gg.Case) bool { d.Input = gg.MapOf(d.Input.KVs[0]); return true })
	}
	return out
}

func candidatesC02(c *Case) []*Case {
	var out []*Case
	switch {
	case c.Chan != nil:
		for i := len(c.Chan.Ops) - 1; i >= 0; i-- {
			d := cloneC02(c)
			d.Chan.Ops = append(d.Chan.Ops[:i:i], d.Chan.Ops[i+1:]...)
			out = append(out, d)
		}
		for i := range c.Chan.Ctrl {
			d := cloneC02(c)
			d.Chan.Ctrl = append(d.Chan.Ctrl[:i:i], d.Chan.Ctrl[i+1:]...)
			out = append(out, d)
		}
		for i := range c.Chan.Data {
			d := cloneC02(c)
			d.Chan.Data = append(d.Chan.Data[:i:i], d.Chan.Data[i+1:]...)
			out = append(out, d)
		}
	case len(c.Family) > 0:
		for i := range c.Family { // a single member usually shows the failure
			out = append(out, &Case{Graph: c.Family[i]})
		}
	case c.Graph != nil:
		for _, g := range graphCandidates(c.Graph) {
			out = append(out, &Case{Graph: g, Typed: c.Typed, NilInput: c.NilInput})
		}
	}
	return out
}

// shrinksLeft: a change that breaks many cases (a node re-fired in every step: 70 of 600 cases fail) needs a few
// minimal replays, not one per failing case; the first ones of a process are minimised, the others reported as found.
var shrinksLeft = 6

func (engine) Shrink(c any, stillFails func(any) bool) any {
	cur, ok := c.(*Case)
	if !ok {
		return c
	}
	if shrinksLeft <= 0 {
		return c
	}
	shrinksLeft--
	budget := 300
	for progress := true; progress && budget > 0; {
		progress = false
		for _, d := range candidatesC02(cur) {
			if budget <= 0 {
				break
			}
			budget--
			if stillFails(d) {
				cur, progress = d, true
				break
			}
		}
	}
	return cur
}
