// Direct oracle of C02: the property evaluated on what the implementation showed (the execution log of the
// recording lambdas and the result), written from the property text and independent of the Coq model.
//
// For the root graph (all-predecessor mode or Workflow):
//
//	dag-node-twice   no node path occurs twice in the log of an instance that runs at most once
//	dag-order        an executed node runs after every executed control / data predecessor
//	dag-untriggered  an executed node has a control predecessor that ran and routed control to it (direct
//	                 control edge, or selected by one of its branches)
//	dag-input        the input of an executed node is the merge of the outputs of exactly those data
//	                 predecessors that ran and routed data to it (zero value when there are none)
//	dag-result       the result of a finished run is that merge for END
//
// The last three need the outputs of the predecessors, which are known for START (the run's input) and for
// lambdas (their logged input determines their output); a node with a pass-through or sub-graph predecessor
// is not judged (status unknown).
package main

import (
	"fmt"

	gg "verif/harness/graphgen"
)

type instOracle struct {
	g     *gg.Graph
	input *gg.Val // nil = unknown (nested instance)
	idx   map[uint64]int
	in    map[uint64]*gg.Val
}

func samePrefix(p []uint64, q []uint64) bool {
	if len(p) != len(q)+1 {
		return false
	}
	for i := range q {
		if p[i] != q[i] {
			return false
		}
	}
	return true
}

func hasKey(ks []uint64, k uint64) bool {
	for _, x := range ks {
		if x == k {
			return true
		}
	}
	return false
}

// output of node n when it is known: START and executed lambdas.
func (io *instOracle) output(n *gg.Node) (*gg.Val, bool) {
	var out *gg.Val
	switch n.Kind {
	case "start":
		if io.input == nil {
			return nil, false
		}
		out = io.input
	case "lambda":
		in, ok := io.in[n.Key]
		if !ok {
			return nil, false
		}
		out = gg.MapOf(gg.KV{Key: n.Key, V: in})
	default:
		return nil, false
	}
	if n.OutKey != 0 {
		out = gg.MapOf(gg.KV{Key: n.OutKey, V: out})
	}
	return out, true
}

// known: the node's ran/not-ran status is observable (START, lambdas).
func known(n *gg.Node) bool { return n.Kind == "start" || n.Kind == "lambda" }

func (io *instOracle) ran(n *gg.Node) bool {
	if n.Kind == "start" {
		return true
	}
	_, ok := io.idx[n.Key]
	return ok
}

func selected(n *gg.Node, out *gg.Val) []uint64 {
	var sel []uint64
	for i := range n.Branches {
		sel = append(sel, n.Branches[i].Choose(out.Size())...)
	}
	return sel
}

func isCtrlPred(n *gg.Node, t uint64) bool {
	if hasKey(n.CSucc, t) {
		return true
	}
	for i := range n.Branches {
		if hasKey(n.Branches[i].Ends, t) {
			return true
		}
	}
	return false
}

func isDataPred(n *gg.Node, t uint64) bool {
	if hasKey(n.DSucc, t) {
		return true
	}
	for i := range n.Branches {
		if !n.Branches[i].NoData && hasKey(n.Branches[i].Ends, t) {
			return true
		}
	}
	return false
}

func hasMapping(g *gg.Graph, t uint64) bool {
	for i := range g.Nodes {
		for _, kn := range g.Nodes[i].DMap {
			if kn.Key == t {
				return true
			}
		}
	}
	return false
}

// mergeVals: fan-in of map values (nil maps contribute nothing); ok=false on a duplicated key.
func mergeVals(vs []*gg.Val) (*gg.Val, bool) {
	seen := map[uint64]bool{}
	var kvs []gg.KV
	for _, v := range vs {
		if v.Kind == "nil" {
			continue
		}
		if v.Kind != "map" {
			return nil, false
		}
		for _, kv := range v.KVs {
			if seen[kv.Key] {
				return nil, false
			}
			seen[kv.Key] = true
			kvs = append(kvs, kv)
		}
	}
	return gg.MapOf(kvs...), true
}

// expectedInput of target t: (value, judged, mergeOK).
func (io *instOracle) expectedInput(t uint64) (*gg.Val, bool, bool) {
	var vals []*gg.Val
	for i := range io.g.Nodes {
		n := &io.g.Nodes[i]
		if !isDataPred(n, t) {
			continue
		}
		if !known(n) {
			return nil, false, true
		}
		if !io.ran(n) {
			continue
		}
		out, ok := io.output(n)
		if !ok {
			return nil, false, true
		}
		if !(hasKey(n.DSucc, t) || hasKey(selected(n, out), t)) {
			continue
		}
		v := out
		for _, kn := range n.DMap {
			if kn.Key == t {
				v = gg.MapOf(gg.KV{Key: kn.Field, V: out})
			}
		}
		vals = append(vals, v)
	}
	var exp *gg.Val
	switch len(vals) {
	case 0:
		exp = gg.NilMap()
	case 1:
		exp = vals[0]
	default:
		m, ok := mergeVals(vals)
		if !ok {
			return nil, true, false
		}
		exp = m
	}
	if hasMapping(io.g, t) && exp.Kind == "nil" {
		exp = gg.MapOf()
	}
	return exp, true, true
}

func checkInstance(g *gg.Graph, q []uint64, input *gg.Val, log []gg.Event, result *gg.Val) (string, string) {
	io := &instOracle{g: g, input: input, idx: map[uint64]int{}, in: map[uint64]*gg.Val{}}
	n := 0
	for _, e := range log {
		if !samePrefix(e.Path, q) {
			continue
		}
		k := e.Path[len(e.Path)-1]
		if _, dup := io.idx[k]; dup {
			return fmt.Sprintf("instance %v: node %d executed twice", q, k), "dag-node-twice"
		}
		io.idx[k] = n
		io.in[k] = e.In
		n++
	}
	for i := range g.Nodes {
		t := &g.Nodes[i]
		ti, ran := io.idx[t.Key]
		if !ran || t.Kind != "lambda" {
			continue
		}
		routed, judged, hasCtrl := false, true, false
		for j := range g.Nodes {
			p := &g.Nodes[j]
			c, d := isCtrlPred(p, t.Key), isDataPred(p, t.Key)
			if !c && !d {
				continue
			}
			if pi, pran := io.idx[p.Key]; pran && pi > ti {
				return fmt.Sprintf("instance %v: node %d ran before its predecessor %d", q, t.Key, p.Key), "dag-order"
			}
			if !c {
				continue
			}
			hasCtrl = true
			if !known(p) {
				judged = false
				continue
			}
			if !io.ran(p) {
				continue
			}
			out, ok := io.output(p)
			if !ok {
				judged = false
				continue
			}
			if hasKey(p.CSucc, t.Key) || hasKey(selected(p, out), t.Key) {
				routed = true
			}
		}
		if !hasCtrl {
			// no control predecessor: an orphan never runs; a Workflow node with data-only inputs exclusively
			// (outside the documented domain) is triggered by its data predecessors: all of them ran
			nd := 0
			for j := range g.Nodes {
				p := &g.Nodes[j]
				if !isDataPred(p, t.Key) {
					continue
				}
				nd++
				if known(p) && !io.ran(p) {
					return fmt.Sprintf("instance %v: node %d (data-only inputs) executed although its data predecessor %d did not run", q, t.Key, p.Key), "dag-untriggered"
				}
			}
			if nd == 0 {
				return fmt.Sprintf("instance %v: node %d executed although it has no predecessor", q, t.Key), "dag-untriggered"
			}
		}
		if hasCtrl && judged && !routed {
			why := "none of its control predecessors ran and routed to it"
			return fmt.Sprintf("instance %v: node %d executed although %s", q, t.Key, why), "dag-untriggered"
		}
		exp, ok, mergeOK := io.expectedInput(t.Key)
		if ok && !mergeOK {
			return fmt.Sprintf("instance %v: node %d executed although its inputs cannot be merged", q, t.Key), "dag-input"
		}
		if ok && !exp.Equal(io.in[t.Key]) {
			return fmt.Sprintf("instance %v: node %d got input %s, merge of its routed data predecessors is %s", q, t.Key, io.in[t.Key], exp), "dag-input"
		}
	}
	if result != nil {
		exp, ok, mergeOK := io.expectedInput(gg.END)
		if ok && (!mergeOK || !exp.Equal(result)) {
			return fmt.Sprintf("instance %v: result %s, merge of END's routed data predecessors is %v", q, result, exp), "dag-result"
		}
	}
	return "", ""
}

// oracleDAG walks the instances whose enclosing graphs are all in all-predecessor mode (each runs at most once).
func oracleDAG(c *gg.Case, o *gg.Obs) (string, string) {
	var walk func(idx int, q []uint64, depth int) (string, string)
	walk = func(idx int, q []uint64, depth int) (string, string) {
		if idx < 0 || idx >= len(c.Forest) || depth > len(c.Forest) {
			return "", ""
		}
		g := &c.Forest[idx]
		if g.Front == "chain" || g.Mode != "dag" {
			return "", ""
		}
		var input, result *gg.Val
		if len(q) == 0 {
			input = c.Input
			if o.Class == "done" {
				result = o.Result
			}
		}
		if msg, sig := checkInstance(g, q, input, o.Log, result); msg != "" {
			return msg, sig
		}
		for i := range g.Nodes {
			if g.Nodes[i].Kind == "sub" {
				nq := append(append([]uint64{}, q...), g.Nodes[i].Key)
				if msg, sig := walk(g.Nodes[i].Sub, nq, depth+1); msg != "" {
					return msg, sig
				}
			}
		}
		return "", ""
	}
	return walk(0, nil, 0)
}
