// Static tie for the protocol model of parallelRunToolCall (coq/Model/ToolsPar.v): the order in
// which a task's goroutine runs the tool, the deferred recover handler and the deferred wg.Done
// is read from the source the harness was built against and handed to the model, which compares
// it with the program its safety theorem is about (prog_ok).  Only the fixed statement shapes of
// the goroutine body are recognised; anything else is reported as "unrecognised" (a tag in the
// evidence), never as a finding.
package main

import (
	"go/ast"
	"go/parser"
	"go/token"
	"os"
	"path/filepath"
	"runtime/debug"
	"strings"
	"sync"
)

// the directory of the eino sources this binary was built against
func einoDir() string {
	if bi, ok := debug.ReadBuildInfo(); ok {
		for _, d := range bi.Deps {
			if d.Path == "github.com/cloudwego/eino" && d.Replace != nil && d.Replace.Path != "" {
				if _, err := os.Stat(filepath.Join(d.Replace.Path, "compose", "tool_node.go")); err == nil {
					return d.Replace.Path
				}
			}
		}
	}
	if r := os.Getenv("VERIF_REPO"); r != "" {
		return r
	}
	return "/repo"
}

var (
	progOnce sync.Once
	progGot  []string // execution order of the goroutine: GRun / GRecover / GDone; nil = unrecognised
	progWhy  string
)

func goroutineProg() ([]string, string) {
	progOnce.Do(func() { progGot, progWhy = extractGoroutineProg(filepath.Join(einoDir(), "compose", "tool_node.go")) })
	return progGot, progWhy
}

func containsCall(n ast.Node, name string) bool {
	found := false
	ast.Inspect(n, func(x ast.Node) bool {
		if c, ok := x.(*ast.CallExpr); ok {
			if id, ok := c.Fun.(*ast.Ident); ok && id.Name == name {
				found = true
			}
		}
		return !found
	})
	return found
}

func assignsErrField(n ast.Node) bool {
	found := false
	ast.Inspect(n, func(x ast.Node) bool {
		if a, ok := x.(*ast.AssignStmt); ok {
			for _, l := range a.Lhs {
				if s, ok := l.(*ast.SelectorExpr); ok && s.Sel.Name == "err" {
					found = true
				}
			}
		}
		return !found
	})
	return found
}

func extractGoroutineProg(file string) ([]string, string) {
	fset := token.NewFileSet()
	f, err := parser.ParseFile(fset, file, nil, 0)
	if err != nil {
		return nil, "cannot parse " + file + ": " + err.Error()
	}
	var fn *ast.FuncDecl
	for _, d := range f.Decls {
		if fd, ok := d.(*ast.FuncDecl); ok && fd.Name.Name == "parallelRunToolCall" && fd.Recv == nil {
			fn = fd
		}
	}
	if fn == nil || fn.Body == nil {
		return nil, "no function parallelRunToolCall"
	}
	var lits []*ast.FuncLit
	ast.Inspect(fn.Body, func(x ast.Node) bool {
		if g, ok := x.(*ast.GoStmt); ok {
			if l, ok := g.Call.Fun.(*ast.FuncLit); ok {
				lits = append(lits, l)
			}
		}
		return true
	})
	if len(lits) != 1 {
		return nil, "expected exactly one go statement with a function literal"
	}
	var defers []string
	var body []string
	flag := ""
	for _, st := range lits[0].Body.List {
		switch s := st.(type) {
		case *ast.DeferStmt:
			if len(body) > 0 {
				return nil, "a defer statement after the tool has been run"
			}
			if sel, ok := s.Call.Fun.(*ast.SelectorExpr); ok && sel.Sel.Name == "Done" && len(s.Call.Args) == 0 {
				defers = append(defers, "GDone")
			} else if l, ok := s.Call.Fun.(*ast.FuncLit); ok && containsCall(l.Body, "recover") && assignsErrField(l.Body) {
				defers = append(defers, "GRecover")
			} else {
				return nil, "a deferred call of another shape"
			}
		case *ast.ExprStmt:
			c, ok := s.X.(*ast.CallExpr)
			if !ok {
				return nil, "a statement of another shape in the goroutine"
			}
			if id, ok := c.Fun.(*ast.Ident); !ok || id.Name != "run" {
				return nil, "a statement of another shape in the goroutine"
			}
			body = append(body, "GRun")
		case *ast.AssignStmt:
			// a completion flag for the recover handler (`flag := false` before the tool is run, `flag = true`
			// after it): no effect on the order of the steps
			if len(s.Lhs) != 1 || len(s.Rhs) != 1 {
				return nil, "a statement of another shape in the goroutine"
			}
			id, ok := s.Lhs[0].(*ast.Ident)
			rhs, ok2 := s.Rhs[0].(*ast.Ident)
			if !ok || !ok2 {
				return nil, "a statement of another shape in the goroutine"
			}
			switch {
			case s.Tok == token.DEFINE && len(body) == 0 && flag == "" && rhs.Name == "false":
				flag = id.Name
			case s.Tok == token.ASSIGN && len(body) == 1 && flag != "" && id.Name == flag && rhs.Name == "true":
			default:
				return nil, "a statement of another shape in the goroutine"
			}
		default:
			return nil, "a statement of another shape in the goroutine"
		}
	}
	if len(body) != 1 || len(defers) != 2 || defers[0] == defers[1] {
		return nil, "expected one run call, one deferred wg.Done and one deferred recover handler"
	}
	// the body, then the deferred calls, last deferred first
	out := append([]string{}, body...)
	for i := len(defers) - 1; i >= 0; i-- {
		out = append(out, defers[i])
	}
	return out, ""
}

func progIsCode(p []string) bool { return strings.Join(p, ";") == "GRun;GRecover;GDone" }
